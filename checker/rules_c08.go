package main

import (
	"fmt"
	"go/types"
	"strings"

	"golang.org/x/tools/go/ssa"
)

func init() {
	register(&Property{
		ID: "C08",
		Explanation: "Decides how a server-requested rollback is honoured: (R1) Client.OpenStream returns the rollback path's result under the DCPRollbackError type test, handing it failedSeqNo ← offset.SeqNo, rollbackSeqNo ← the error's SeqNo, the same end, vbID, observer and options; " +
			"(R2) the second request is (vbUUID ← selected branch, start = snapStart = snapEnd ← rollbackSeqNo, end ← latestSeqNo); (R3) the selected branch is the vbUUID of the lowest-index failover entry whose SeqNo ≤ R, 0 if none — exhaustively for 0..4 entries over every ordering of their start seqNos and R; " +
			"(R4) on success only, the observer gets the newest branch id and SetCatchup(failedSeqNo); (R5) the catch-up filter skips ⇔ need ∧ seq ≤ F and clears need exactly when seq ≥ F, SetCatchup arms it, and control events never consult it (C07.R1); (R6) a vBucket that cannot be reopened fails start-up (C15.R3). " +
			"Not decided: the server's choice of R and the failover log's content.",
		Assumptions: []string{"gocbcore reports a rollback request as DCPRollbackError with the server's SeqNo", "failover logs are ordered newest first"},
		Rules: []RuleDef{
			{ID: "C08.R1", Text: "OpenStream: under err.(DCPRollbackError) it returns openStreamWithRollback(vbID, failed ← offset.SeqNo, rollback ← rollbackErr.SeqNo, latest ← offset.LatestSeqNo, observer, same options)", Run: c08r1},
			{ID: "C08.R2", Text: "second request: startSeqNo = snapStartSeqNo = snapEndSeqNo ← rollbackSeqNo, endSeqNo ← latestSeqNo, own vbID/observer/options", Run: c08r2},
			{ID: "C08.R3", Text: "branch selection: vbUUID of the lowest-index (newest) failover entry with SeqNo ≤ R, 0 if none (0..4 entries, exhaustive)", Run: c08r3},
			{ID: "C08.R4", Text: "rollback success callback: SetVbUUID(failOverLogs[0].VbUUID) and SetCatchup(failedSeqNo) under err==nil only", Run: c08r4},
			{ID: "C08.R6", Text: "both stream requests report the server's answer: the open-stream callbacks' error reaches the wrapper's result on every error path (same rule as C20.R3 on the two OpenStream sites)", Run: func(c *Ctx, id string) {
				n := 0
				for _, s := range asyncSites(c.W) {
					if s.Op == "OpenStream" {
						n++
						c.see(s.Fn)
						checkOutcomeIsServers(c, id, s)
					}
				}
				if n < 2 {
					c.Undecided(id, "open-sites", 0, "only %d DCPAgent.OpenStream call sites", n)
				}
			}},
			{ID: "C08.R7", Text: "the checkpoint never falls back below F during the replay: the position writer accepts a move ⇔ new ≥ current, whatever the branch id of either (same rule as C04.R1)", Run: c04r1},
			{ID: "C08.R8", Text: "every document event above F is shown: after the catch-up filter the handlers deliver ⇔ canForward ∧ ¬skipWindow ∧ inSnapshot and under no other predicate (same rule as C03.R2)", Run: c03r2},
			{ID: "C08.R9", Text: "a vBucket that cannot be reopened fails the start-up: every spawned opener panics on error (or records it only under err≠nil), none is batched away (same rule as C15.R3)", Run: c15r3},
			{ID: "C08.R10", Text: "adopting the new branch id does not stall the stream: the persistence threshold is written only by SetPersistSeqNo and never lowered (same rule as C07.R3)", Run: c07r3},
			{ID: "C08.R11", Text: "the checkpoint written after a rollback carries the new branch: every persisted document is built field by field from the tracked offset at save time, never kept from an earlier save (same rule as C02.R2)", Run: c02r2},
			{ID: "C08.R12", Text: "every document event above F is shown or the client stops: a replayed snapshot announcement is installed whenever the gate passes, under no other condition (same rule as C06.R7), and an event outside the announced snapshot is fatal, never skipped (same rule as C06.R2)", Run: func(c *Ctx, id string) { markerInstall(c, id); c06r2(c, id) }},
			{ID: "C08.R13", Text: "a re-open that is answered with a rollback starts from the position settled by then: openStream reads offsets[vbID] when it is called, every attempt anew (same rule as C12.R3)", Run: c12r3},
			{ID: "C08.R14", Text: "the catch-up point is the refused request position: Observer.SetCatchup / SetVbUUID are called only from the completion of the stream requests of the client (same rule as C03.R19)", Run: observerStateSetters},
			{ID: "C08.R15", Text: "a vBucket whose re-open is still in flight counts as streaming: the end listener counts down only for final ends (same rule as C12.R1)", Run: c12r1},
			{ID: "C08.R5", Text: "catch-up filter: skip ⇔ need ∧ seq ≤ F; need' = need ∧ seq < F; SetCatchup stores F and arms the filter", Run: c08r5},
		},
	})
}

// rollbackFn: the module function called from the Client.OpenStream implementation with a SeqNo taken from a DCPRollbackError.
func rollbackSite(c *Ctx, id string) (open *ssa.Function, site *ssa.Call, rb *ssa.Function) {
	w := c.W
	for _, fn := range w.implsOf("couchbase", "Client", "OpenStream") {
		allInstrs(fn, func(in ssa.Instruction) {
			call, ok := in.(*ssa.Call)
			if !ok {
				return
			}
			f := call.Common().StaticCallee()
			if f == nil || !w.inModule(f) {
				return
			}
			for _, v := range vparams(f) {
				if a := argOfVParam(call.Common(), f, v); a != nil && strings.Contains(w.Origin(a), "gocbcore.DCPRollbackError)#0.SeqNo") {
					open, site, rb = fn, call, f
				}
			}
		})
	}
	c.need(rb != nil, id, "rollback path called from Client.OpenStream with DCPRollbackError.SeqNo")
	return
}

// rbInputs: the formal inputs of the rollback path by role — parameters or fields of a parameter bundle: the vBucket
// id (uint16), the observer, the request options, and the three sequence numbers told apart by their names (failed /
// rollback / latest; §1.2 lists them among the names used as anchors).
type rbIn struct{ vb, failed, rollback, latest, obs, opts *vparam }

func rbInputs(rb *ssa.Function) rbIn {
	var r rbIn
	for _, v := range vparams(rb) {
		v := v
		last := v.Name()
		if i := strings.LastIndex(last, "."); i >= 0 {
			last = last[i+1:]
		}
		low := strings.ToLower(last)
		switch {
		case isUint16(v.Type()):
			r.vb = &v
		case recvTypeName(v.Type()) == "Observer":
			r.obs = &v
		case recvTypeName(v.Type()) == "OpenStreamOptions":
			r.opts = &v
		case strings.Contains(low, "failed"):
			r.failed = &v
		case strings.Contains(low, "rollback"):
			r.rollback = &v
		case strings.Contains(low, "latest"):
			r.latest = &v
		}
	}
	return r
}

func c08r1(c *Ctx, id string) {
	w := c.W
	open, site, rb := rollbackSite(c, id)
	c.see(open)
	c.see(rb)
	cc := site.Common()
	var pOff *ssa.Parameter
	for _, p := range open.Params {
		if w.isOffsetPtr(p.Type()) {
			pOff = p
		}
	}
	c.need(pOff != nil, id, "offset parameter of OpenStream")
	o := "param(" + pOff.Name() + ")"
	// guarded by the type assertion's ok and err != nil
	okG := guardedBy(site.Block(), true, func(v ssa.Value) bool {
		ex, ok := v.(*ssa.Extract)
		if !ok || ex.Index != 1 {
			return false
		}
		ta, ok := ex.Tuple.(*ssa.TypeAssert)
		return ok && strings.HasSuffix(shortType(ta.AssertedType), "gocbcore.DCPRollbackError")
	})
	c.Check(okG, id, "detect@"+fname(open), site.Pos(), "rollback path taken under err.(DCPRollbackError)", "rollback path is not guarded by the DCPRollbackError type test")
	// result returned
	ret := false
	for _, sk := range errorSinks(site) {
		if sk.Kind == "return" {
			ret = true
		}
	}
	c.Check(ret, id, "result@"+fname(open), site.Pos(), "the rollback path's result is returned", "the result of the rollback path is not returned: a vBucket that cannot be reopened would be silently left out")
	ri := rbInputs(rb)
	if ri.vb == nil || ri.failed == nil || ri.rollback == nil || ri.latest == nil || ri.obs == nil {
		c.Undecided(id, "params@"+fname(rb), rb.Pos(), "cannot classify the rollback path's inputs (failed/rollback/latest seqNo, vbID, observer)")
		return
	}
	type wantArg struct {
		v    *vparam
		want string
	}
	var wants []wantArg
	for _, q := range open.Params {
		if isUint16(q.Type()) {
			wants = append(wants, wantArg{ri.vb, "param(" + q.Name() + ")"})
		}
		if recvTypeName(q.Type()) == "Observer" {
			wants = append(wants, wantArg{ri.obs, "param(" + q.Name() + ")"})
		}
	}
	wants = append(wants, wantArg{ri.failed, o + ".SeqNo"}, wantArg{ri.rollback, "assert(*?,gocbcore.DCPRollbackError)#0.SeqNo"}, wantArg{ri.latest, o + ".LatestSeqNo"})
	if len(wants) < 5 {
		c.Undecided(id, "params@"+fname(rb), rb.Pos(), "cannot match the rollback path's inputs with those of OpenStream")
		return
	}
	for _, wa := range wants {
		got := w.Origin(argOfVParam(cc, rb, *wa.v))
		match := got == wa.want
		if strings.HasPrefix(wa.want, "assert(*?") {
			match = strings.HasPrefix(got, "assert(") && strings.HasSuffix(got, ",gocbcore.DCPRollbackError)#0.SeqNo")
		}
		name := wa.v.Name()
		if i := strings.LastIndex(name, "."); i >= 0 {
			name = name[i+1:]
		}
		c.Check(match, id, "arg:"+name, site.Pos(), name+" ← "+got, name+" ← "+got+", expected "+wa.want)
	}
	// same options value as the first request
	var firstOpts string
	allInstrs(open, func(in ssa.Instruction) {
		if cc2 := callOf(in); cc2 != nil && isStaticCall(cc2, "gocbcore/v10", "DCPAgent", "OpenStream") {
			firstOpts = w.Origin(argByName(cc2, "opts"))
		}
	})
	if ri.opts != nil {
		got := w.Origin(argOfVParam(cc, rb, *ri.opts))
		c.Check(got == firstOpts && got != "", id, "arg:"+ri.opts.P.Name(), site.Pos(), "same options value as the first request", "options "+got+" differ from the first request's "+firstOpts)
	}
}

func c08r2(c *Ctx, id string) {
	w := c.W
	_, _, rb := rollbackSite(c, id)
	ri := rbInputs(rb)
	c.need(ri.rollback != nil && ri.latest != nil && ri.vb != nil && ri.obs != nil && ri.opts != nil, id, "parameters of the rollback path")
	pRb, pLatest, pVb, pObs, pOpts := ri.rollback, ri.latest, ri.vb, ri.obs, ri.opts
	n := 0
	allInstrs(rb, func(in ssa.Instruction) {
		cc := callOf(in)
		if cc == nil || !isStaticCall(cc, "gocbcore/v10", "DCPAgent", "OpenStream") {
			return
		}
		n++
		want := map[string]string{
			"vbID": pVb.Term(), "startSeqNo": pRb.Term(), "snapStartSeqNo": pRb.Term(),
			"snapEndSeqNo": pRb.Term(), "endSeqNo": pLatest.Term(), "evtHandler": pObs.Term(), "opts": pOpts.Term(),
		}
		for _, k := range sortedKeys(want) {
			got := w.Origin(argByName(cc, k))
			c.Check(got == want[k], id, "request2:"+k, in.Pos(), k+" ← "+got, k+" ← "+got+", expected "+want[k])
		}
	})
	if n != 1 {
		c.Undecided(id, "request2", rb.Pos(), "%d DCPAgent.OpenStream calls in the rollback path", n)
	}
}

func c08r3(c *Ctx, id string) {
	w := c.W
	_, _, rb := rollbackSite(c, id)
	pRb := rbInputs(rb).rollback
	c.need(pRb != nil, id, "rollbackSeqNo parameter")
	var entryT types.Type
	for _, fn := range w.implsOf("couchbase", "Client", "GetFailOverLogs") {
		if s, ok := fn.Signature.Results().At(0).Type().Underlying().(*types.Slice); ok {
			entryT = s.Elem()
		}
	}
	c.need(entryT != nil, id, "failover entry type")
	R := pRb.Name()
	maxN := 4
	if c.Tier == "thorough" {
		maxN = 5
	}
	for n := 0; n <= maxN; n++ {
		atoms := []string{R}
		for i := 0; i < n; i++ {
			atoms = append(atoms, fmt.Sprintf("log%d.SeqNo", i))
		}
		nn := n
		h := &Harness{Fn: rb, Groups: []Group{{Atoms: atoms, Unsigned: true}}, Quiet: append([]string{"context.", "call:"}, quietLog...), MaxSteps: 5000,
			NoInline: map[string]bool{"(*couchbase.client).GetFailOverLogs": true},
			Input: func(st *State, sym string, t types.Type) AV {
				if strings.HasPrefix(sym, "log") && strings.HasSuffix(sym, ".VbUUID") {
					return avInt{atom: sym}
				}
				return nil
			},
			Oracle: func(st *State, name string, args []AV, res *types.Tuple) ([]AV, bool) {
				if name == "(*couchbase.client).GetFailOverLogs" {
					var cells []*cell
					for i := 0; i < nn; i++ {
						cells = append(cells, &cell{typ: entryT, sym: fmt.Sprintf("log%d", i)})
					}
					return []AV{avSlice{cells: cells}, avIface{isNil: true}}, true
				}
				return nil, false
			},
			StopAfter: func(e Effect) bool { return strings.HasSuffix(e.Name, "DCPAgent).OpenStream") },
		}
		c.oae(id, fmt.Sprintf("%s[entries=%d]", fname(rb), n), rb.Pos(), h, func(st *State, out *Outcome) string {
			if out.Panicked || !out.Stopped {
				return "the second stream request is never issued"
			}
			e := out.Trace[len(out.Trace)-1]
			if len(e.Args) < 4 {
				return "unexpected request shape"
			}
			got := avString(e.Args[3])
			want := "0"
			for i := 0; i < nn; i++ {
				if st.Le(fmt.Sprintf("log%d.SeqNo", i), R) {
					want = fmt.Sprintf("log%d.VbUUID", i)
					break
				}
			}
			if got != want {
				return "requests branch " + got + ", expected " + want + " (newest entry whose start ≤ R)"
			}
			return ""
		}, "vbUUID of the lowest-index entry with SeqNo ≤ R; 0 if none")
	}
}

func c08r4(c *Ctx, id string) {
	w := c.W
	_, _, rb := rollbackSite(c, id)
	pFailed := rbInputs(rb).failed
	c.need(pFailed != nil, id, "failedSeqNo parameter")
	n := 0
	for _, f := range withAnon(rb) {
		allInstrs(f, func(in ssa.Instruction) {
			cc := callOf(in)
			if cc == nil || !isInvokeOf(cc, "Observer", "SetCatchup") {
				return
			}
			n++
			c.see(f)
			var errP *ssa.Parameter
			for _, p := range f.Params {
				if types.IsInterface(p.Type()) && types.Implements(p.Type(), errorIface()) {
					errP = p
				}
			}
			okG := errP != nil && errGuard(in.Block(), true, func(v ssa.Value) bool { return v == ssa.Value(errP) })
			got := w.Origin(cc.Args[0])
			c.Check(okG && got == pFailed.Term(), id, "setcatchup@"+fname(f), in.Pos(), "SetCatchup("+got+") under err==nil",
				fmt.Sprintf("SetCatchup(%s) (under err==nil: %v), expected the already-checkpointed position %s on success only", got, okG, pFailed.Term()))
		})
	}
	if n != 1 {
		c.Fail(id, "setcatchup", rb.Pos(), "%d SetCatchup calls on the rollback path (expected exactly one, in the success callback)", n)
	}
	// SetVbUUID on the rollback path is decided by C06.R4; re-run it here for the rollback callback
	c06r4(c, id)
}

func c08r5(c *Ctx, id string) {
	w := c.W
	oi := observerInfo(c, id)
	fn := oi.need
	c.need(fn != nil, id, "the catch-up filter: the (uint64) bool observer method the gate consults directly (needCatchup)")
	recv, p := fn.Params[0].Name(), fn.Params[1].Name()
	F, need := recv+"."+oi.fCatchSeq, recv+"."+oi.fCatchNeed
	h := &Harness{Fn: fn, Groups: []Group{{Atoms: []string{p, F}, Unsigned: true}}, Bools: []string{need}, Quiet: quietLog}
	c.oae(id, fname(fn), fn.Pos(), h, func(st *State, out *Outcome) string {
		if out.Panicked {
			return "panics"
		}
		b, ok := out.Ret[0].(avBool)
		skip := st.B(need) && st.Le(p, F)
		if !ok || b.b != skip {
			return fmt.Sprintf("skip=%s, expected need ∧ seq ≤ F = %v", avString(out.Ret[0]), skip)
		}
		after := st.B(need)
		if f := out.Final(need); f != nil {
			fb, ok := f.(avBool)
			if !ok {
				return "catch-up flag becomes undetermined"
			}
			after = fb.b
		}
		want := st.B(need) && st.Lt(p, F)
		if after != want {
			return fmt.Sprintf("need' = %v, expected need ∧ seq < F = %v", after, want)
		}
		if out.Final(F) != nil {
			return "the catch-up position is modified by the filter"
		}
		return ""
	}, "skip ⇔ need ∧ seq ≤ F; need' = need ∧ seq < F")
	sc := w.Method("couchbase", oi.typ.Obj().Name(), "SetCatchup")
	c.need(sc != nil, id, "observer.SetCatchup")
	sp := sc.Params[1].Name()
	h2 := &Harness{Fn: sc, Groups: []Group{{Atoms: []string{sp}, Unsigned: true}}}
	r2 := sc.Params[0].Name()
	c.oae(id, fname(sc), sc.Pos(), h2, func(st *State, out *Outcome) string {
		if avString(out.Final(r2+"."+oi.fCatchSeq)) != sp {
			return "catch-up position ← " + avString(out.Final(r2+"."+oi.fCatchSeq)) + ", expected the parameter"
		}
		if b, ok := out.Final(r2 + "." + oi.fCatchNeed).(avBool); !ok || !b.b {
			return "the filter is not armed"
		}
		return ""
	}, "catchupSeqNo ← parameter; isCatchupNeed ← true")
	// control events never consult (and so never consume) the filter; data events consult it exactly once
	gateOAE(c, id, oi, "filter")
	gateArgsRule(c, id, oi)
	// no other writer of the two fields
	for _, fname_ := range []string{oi.fCatchSeq, oi.fCatchNeed} {
		f := w.Field("couchbase", oi.typ.Obj().Name(), fname_)
		for _, fs := range w.fieldStores(f) {
			if _, isAlloc := fs.Store.Addr.(*ssa.FieldAddr).X.(*ssa.Alloc); isAlloc {
				continue
			}
			c.Check(fs.Fn == fn || fs.Fn == sc, id, "writer:"+fname_+"@"+fname(fs.Fn), fs.Store.Pos(), "written by the filter / SetCatchup only", "catch-up state written in "+fname(fs.Fn))
		}
	}
}
