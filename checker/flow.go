package main

// flow.go — error flow (P7) and a narrow lockset (P9).

import (
	"go/constant"
	"go/token"
	"go/types"
	"strings"

	"golang.org/x/tools/go/ssa"
)

// errResult returns the error-typed result value(s) of a call instruction.
func errResults(call *ssa.Call) []ssa.Value {
	var out []ssa.Value
	res := call.Common().Signature().Results()
	if res.Len() == 1 {
		if types.Identical(res.At(0).Type(), types.Universe.Lookup("error").Type()) {
			out = append(out, call)
		}
		return out
	}
	for _, r := range *call.Referrers() {
		if ex, ok := r.(*ssa.Extract); ok && types.Identical(res.At(ex.Index).Type(), types.Universe.Lookup("error").Type()) {
			out = append(out, ex)
		}
	}
	return out
}

// hasErrorResult: the callee's signature returns an error.
func hasErrorResult(cc *ssa.CallCommon) bool {
	res := cc.Signature().Results()
	for i := 0; i < res.Len(); i++ {
		if types.Identical(res.At(i).Type(), types.Universe.Lookup("error").Type()) {
			return true
		}
	}
	return false
}

type errSink struct {
	Kind string // return | panic | send | arg:<callee>
	In   ssa.Instruction
}

// errorSinks follows an error value forward through phis, single cells, closure cells and interface
// conversions and reports where it ends up.
func errorSinks(v ssa.Value) []errSink {
	var sinks []errSink
	seen := map[ssa.Value]bool{}
	var follow func(v ssa.Value)
	follow = func(v ssa.Value) {
		if seen[v] {
			return
		}
		seen[v] = true
		refs := v.Referrers()
		if refs == nil {
			return
		}
		for _, r := range *refs {
			if deadBlock(r.Block()) {
				continue // behind `if false` / the else of `if true`: never executed
			}
			if _, isPhi := r.(*ssa.Phi); !isPhi && errGuard(r.Block(), true, func(x ssa.Value) bool { return x == v }) {
				continue // used where this very value is known to be nil (if err == nil { return err }): no failure is carried
			}
			switch x := r.(type) {
			case *ssa.Return:
				sinks = append(sinks, errSink{"return", x})
			case *ssa.Panic:
				sinks = append(sinks, errSink{"panic", x})
			case *ssa.Send:
				if x.X == v {
					sinks = append(sinks, errSink{"send", x})
				}
			case *ssa.Phi:
				// an edge that is taken only when this very error is nil carries no failure (err = step1(); if err != nil
				// { err = cleanup() }; return err — step1's failure never reaches the return)
				live := false
				for k, e := range x.Edges {
					if e == v && k < len(x.Block().Preds) && !edgeImpliesNil(x.Block().Preds[k], x.Block(), v) {
						live = true
					}
				}
				if live {
					follow(x)
				}
			case *ssa.MakeInterface:
				follow(x)
			case *ssa.ChangeInterface:
				follow(x)
			case *ssa.Store:
				if x.Val != v {
					continue
				}
				// stored into a cell: follow loads of that cell (also from closures capturing it)
				followCell(x.Addr, follow)
			case ssa.CallInstruction:
				cc := x.Common()
				name := calleeName(cc)
				sinks = append(sinks, errSink{"arg:" + name, x})
				// handed to a helper of the module (an extracted tail, a generic await): what the helper does with its
				// parameter — and when it returns it, what the caller does with the helper's result
				if callee := cc.StaticCallee(); callee != nil && callee.Blocks != nil && strings.HasPrefix(pkgPathOf(callee), modPath) && !callsNoReturn(x) && errFlowDepth < 3 {
					errFlowDepth++
					for i, a := range cc.Args {
						if a != v || i >= len(callee.Params) {
							continue
						}
						for _, k2 := range errorSinks(callee.Params[i]) {
							if strings.HasPrefix(k2.Kind, "arg:") {
								sinks = append(sinks, k2) // what the helper hands it to is what the caller hands it to
							}
							switch k2.Kind {
							case "panic", "send":
								sinks = append(sinks, errSink{k2.Kind, x})
							case "return":
								ret := k2.In.(*ssa.Return)
								call, isCall := x.(*ssa.Call)
								if !isCall {
									continue
								}
								for ri, rv := range ret.Results {
									if !flowsFrom(rv, callee.Params[i]) {
										continue
									}
									if len(ret.Results) == 1 {
										follow(call)
									} else {
										for _, r3 := range *call.Referrers() {
											if ex, isEx := r3.(*ssa.Extract); isEx && ex.Index == ri {
												follow(ex)
											}
										}
									}
								}
							}
						}
					}
					errFlowDepth--
				}
				// handed to a helper that never returns and panics with what it was handed (fatal(err, msg))
				if callsNoReturn(x) {
					if callee := cc.StaticCallee(); callee != nil {
						for i, a := range cc.Args {
							if a == v && i < len(callee.Params) {
								for _, k2 := range errorSinks(callee.Params[i]) {
									if k2.Kind == "panic" {
										sinks = append(sinks, errSink{"panic", x})
									}
								}
							}
						}
					}
				}
			}
		}
	}
	follow(v)
	return sinks
}

func followCell(addr ssa.Value, follow func(ssa.Value)) {
	switch a := addr.(type) {
	case *ssa.Alloc:
		for _, r := range *a.Referrers() {
			switch y := r.(type) {
			case *ssa.UnOp:
				if y.Op == token.MUL {
					follow(y)
				}
			case *ssa.MakeClosure:
				if f, ok := y.Fn.(*ssa.Function); ok {
					for i, b := range y.Bindings {
						if b == a && i < len(f.FreeVars) {
							followCell(f.FreeVars[i], follow)
						}
					}
				}
			}
		}
	case *ssa.FreeVar:
		for _, r := range *a.Referrers() {
			if y, ok := r.(*ssa.UnOp); ok && y.Op == token.MUL {
				follow(y)
			}
		}
		// the same cell in the parent
		if b, ok := bindingOf(a); ok {
			if al, ok := b.(*ssa.Alloc); ok {
				for _, r := range *al.Referrers() {
					if y, ok := r.(*ssa.UnOp); ok && y.Op == token.MUL {
						follow(y)
					}
				}
			}
		}
	}
}

func sinkKinds(s []errSink) string {
	var ks []string
	seen := map[string]bool{}
	for _, x := range s {
		if !seen[x.Kind] {
			seen[x.Kind] = true
			ks = append(ks, x.Kind)
		}
	}
	if len(ks) == 0 {
		return "nowhere (dropped)"
	}
	return strings.Join(ks, ", ")
}

// reported: the error reaches a return, a panic or a channel send.
func reported(s []errSink) bool {
	for _, x := range s {
		if x.Kind == "return" || x.Kind == "panic" || x.Kind == "send" {
			return true
		}
	}
	return false
}

// ---------------------------------------------------------------------------------------------
// lockset

// locksHeld returns the origins of the mutexes held at instruction in (within its function):
// a Lock call that dominates `in` whose matching Unlock is deferred or does not lie on every path to `in`.
func (w *World) locksHeld(in ssa.Instruction) map[string]bool {
	fn := in.Parent()
	held := map[string]bool{}
	allInstrs(fn, func(x ssa.Instruction) {
		call, ok := x.(*ssa.Call)
		if !ok {
			return
		}
		cc := call.Common()
		if !(isStaticCall(cc, "sync", "Mutex", "Lock") || isStaticCall(cc, "sync", "RWMutex", "Lock")) {
			return
		}
		if !dominatesInstr(call, in) {
			return
		}
		mu := w.Origin(cc.Args[0])
		// released before `in` on some path?
		released := false
		allInstrs(fn, func(y ssa.Instruction) {
			if c2, ok := y.(*ssa.Call); ok && isStaticCall(c2.Common(), "sync", "Mutex", "Unlock") && w.Origin(c2.Common().Args[0]) == mu {
				if dominatesInstr(call, y) && dominatesInstr(y, in) {
					released = true
				}
			}
		})
		if !released {
			held[mu] = true
		}
	})
	return held
}

// locksHeldInterproc intersects, over all module callers (static calls and interface invokes by
// method name on an interface the function's receiver implements), the locks held at the call site,
// and adds the locks held locally. Depth-bounded.
func (w *World) locksHeldInterproc(in ssa.Instruction, depth int) map[string]bool {
	local := w.locksHeld(in)
	if depth == 0 {
		return local
	}
	fn := rootFn(in.Parent())
	if in.Parent() != fn {
		// inside a closure: the closure may run anywhere; only local locks count
		return local
	}
	var inherited map[string]bool
	n := 0
	for _, g := range w.ModFuncs {
		allInstrs(g, func(x ssa.Instruction) {
			cc := callOf(x)
			if cc == nil {
				return
			}
			match := cc.StaticCallee() == fn
			if cc.IsInvoke() && fn.Signature.Recv() != nil && cc.Method.Name() == fn.Name() {
				if it, ok := cc.Value.Type().Underlying().(*types.Interface); ok && types.Implements(fn.Signature.Recv().Type(), it) {
					match = true
				}
			}
			if !match {
				return
			}
			n++
			h := w.locksHeldInterproc(x, depth-1)
			if inherited == nil {
				inherited = h
			} else {
				for k := range inherited {
					if !h[k] {
						delete(inherited, k)
					}
				}
			}
		})
	}
	// function values (e.g. stored as callback) make callers unknown
	if len(w.usesAsValue(fn)) > 0 || n == 0 {
		inherited = nil
	}
	for k := range inherited {
		local["caller:"+k] = true
	}
	return local
}

func setStr(m map[string]bool) string {
	if len(m) == 0 {
		return "∅"
	}
	return "{" + strings.Join(sortedKeys(m), ", ") + "}"
}

// edgeImpliesNil: control reaches succ from pred only when the error value e is nil.
func edgeImpliesNil(pred, succ *ssa.BasicBlock, e ssa.Value) bool {
	match := func(x ssa.Value) bool { return x == e }
	if errGuard(pred, true, match) {
		return true
	}
	if len(pred.Instrs) == 0 {
		return false
	}
	ifi, ok := pred.Instrs[len(pred.Instrs)-1].(*ssa.If)
	if !ok || len(pred.Succs) != 2 {
		return false
	}
	v, pol := stripNot(ifi.Cond, true)
	eq, isCmp := isNilCompare(v, match)
	if !isCmp {
		return false
	}
	// pol: polarity of the condition on the true edge; eq: comparison is `e == nil`
	nilOnTrue := eq == pol
	if pred.Succs[0] == succ && pred.Succs[1] != succ {
		return nilOnTrue
	}
	if pred.Succs[1] == succ && pred.Succs[0] != succ {
		return !nilOnTrue
	}
	return false
}

// deadBlock: the block is reached only through the edge of a branch on a boolean constant that is never taken.
func deadBlock(b *ssa.BasicBlock) bool {
	if b == nil {
		return false
	}
	for _, g := range guardsOf(b) {
		if k, ok := g.Cond.(*ssa.Const); ok && k.Value != nil && k.Value.Kind() == constant.Bool {
			if constant.BoolVal(k.Value) != g.Branch {
				return true
			}
		}
	}
	return false
}

var errFlowDepth int

func pkgPathOf(f *ssa.Function) string {
	for g := f; g != nil; g = g.Parent() {
		if g.Pkg != nil {
			return g.Pkg.Pkg.Path()
		}
		if o := g.Origin(); o != nil && o.Pkg != nil {
			return o.Pkg.Pkg.Path()
		}
	}
	return ""
}

// flowsFrom: v is p, or a phi / conversion / single-cell copy of it.
func flowsFrom(v ssa.Value, p ssa.Value) bool {
	seen := map[ssa.Value]bool{}
	var rec func(x ssa.Value) bool
	rec = func(x ssa.Value) bool {
		if x == p {
			return true
		}
		if seen[x] {
			return false
		}
		seen[x] = true
		switch y := x.(type) {
		case *ssa.Phi:
			for _, e := range y.Edges {
				if rec(e) {
					return true
				}
			}
		case *ssa.MakeInterface:
			return rec(y.X)
		case *ssa.ChangeInterface:
			return rec(y.X)
		case *ssa.ChangeType:
			return rec(y.X)
		case *ssa.UnOp:
			if al, ok := y.X.(*ssa.Alloc); ok && y.Op == token.MUL {
				for _, r := range *al.Referrers() {
					if st, isSt := r.(*ssa.Store); isSt && st.Addr == ssa.Value(al) && rec(st.Val) {
						return true
					}
				}
			}
		}
		return false
	}
	return rec(v)
}
