package main

// rules_mut.go — rules added after the mutation survey: small protocols around the anchored mechanisms whose absence
// (a dropped call, a flipped polarity) none of the earlier rules noticed.

import (
	"fmt"
	"go/token"
	"go/types"
	"sort"
	"strings"

	"golang.org/x/tools/go/ssa"
)

// rebalanceDecision (C11): Rebalance evaluated exhaustively over balancing × timer present × "Stop prevented the run":
// it only touches the timer ⇔ balancing ∧ timer≠nil; otherwise it takes the lock once, brackets with the two start
// callbacks, closes the stream (Close(false), balancing←true) ⇔ ¬balancing, and arms exactly one timer.
func rebalanceDecision(c *Ctx, id string) {
	w := c.W
	fn := w.Method("stream", "stream", "Rebalance")
	cl := w.Method("stream", "stream", "Close")
	c.need(fn != nil && cl != nil, id, "stream.stream.Rebalance / Close")
	recv := fn.Params[0].Name()
	bal, tnil := recv+".balancing", recv+".rebalanceTimer==nil"
	h := &Harness{Fn: fn, Bools: []string{bal, tnil, "stopped"}, Quiet: quietLog, NoInline: map[string]bool{fname(cl): true},
		Oracle: func(st *State, name string, args []AV, res *types.Tuple) ([]AV, bool) {
			switch name {
			case "(*time.Timer).Stop":
				return []AV{avBool{st.B("stopped")}}, true
			case "(*time.Timer).Reset":
				return []AV{avBool{true}}, true
			}
			return nil, false
		}}
	c.oae(id, "rebalance-decision", fn.Pos(), h, func(st *State, out *Outcome) string {
		if out.Panicked {
			return "panics"
		}
		cnt := func(suffix string) int {
			n := 0
			for _, e := range out.Trace {
				if strings.HasSuffix(e.Name, suffix) {
					n++
				}
			}
			return n
		}
		locks, closes, arms, resets := cnt("Mutex).Lock"), len(out.Effects(fname(cl))), cnt("time.AfterFunc"), cnt("(*time.Timer).Reset")
		before, after := cnt(".BeforeRebalanceStart"), cnt(".AfterRebalanceStart")
		if st.B(bal) && !st.B(tnil) {
			if locks+closes+before+after != 0 {
				return fmt.Sprintf("already balancing with a timer armed, yet lock=%d close=%d callbacks=%d", locks, closes, before+after)
			}
			if st.B("stopped") && (resets != 1 || arms != 0) {
				return fmt.Sprintf("Stop prevented the run: expected one Reset, got %d Reset / %d AfterFunc", resets, arms)
			}
			if !st.B("stopped") && (resets != 0 || arms != 1) {
				return fmt.Sprintf("the timer already fired: expected one new AfterFunc, got %d Reset / %d AfterFunc", resets, arms)
			}
			return ""
		}
		if locks != 1 || before != 1 || after != 1 || arms != 1 || resets != 0 {
			return fmt.Sprintf("a rebalance proper: lock=%d BeforeRebalanceStart=%d AfterRebalanceStart=%d AfterFunc=%d Reset=%d (each expected once, no Reset)", locks, before, after, arms, resets)
		}
		wantClose := 0
		if !st.B(bal) {
			wantClose = 1
		}
		if closes != wantClose {
			return fmt.Sprintf("stream closed %d times with balancing=%v", closes, st.B(bal))
		}
		if !st.B(bal) {
			if b, ok := out.Final(bal).(avBool); !ok || !b.b {
				return "the stream is closed but balancing is not raised: the end of the close would stop the client"
			}
		}
		return ""
	}, "timer only ⇔ balancing ∧ timer≠nil (Reset ⇔ Stop()=true, else re-arm); otherwise lock, callbacks, Close(false)+balancing←true ⇔ ¬balancing, one AfterFunc")
}

// sessionFlags (C13/C12/C16): the small flags a session hangs on.
//   - Stream.Close records its argument in the flag the end listener reads, before anything is closed;
//   - Close stops the mitigation ⇔ ¬Disabled and the schedule ⇔ checkpoint≠nil (polarity, not just presence);
//   - Close hands the finish token ⇔ the stream did not already finish by itself;
//   - IsOpen tells the truth: open←true is the last store of Open, open←false is stored by Close;
//   - Stream.Save is Checkpoint.Save; Open starts the schedule; the schedule's loop saves.
func sessionFlags(c *Ctx, id string) {
	w := c.W
	cl := w.Method("stream", "stream", "Close")
	op := w.Method("stream", "stream", "Open")
	sv := w.Method("stream", "stream", "Save")
	c.need(cl != nil && op != nil && sv != nil, id, "stream.stream.Close / Open / Save")
	c.see(cl)
	c.see(op)
	// cancel flag
	end := endListener(c, id)
	var cancelFlag *types.Var
	allInstrs(end, func(in ssa.Instruction) {
		if v, ok := in.(ssa.Value); ok {
			if f, _ := flagRead(v); f != nil && strings.Contains(strings.ToLower(f.Name()), "cancel") {
				cancelFlag = f
			}
		}
	})
	okCancel := false
	if cancelFlag != nil && len(cl.Params) > 1 {
		allInstrs(cl, func(in ssa.Instruction) {
			if f, _, val := flagWrite(in); f == cancelFlag && val == ssa.Value(cl.Params[1]) && len(guardsOf(in.Block())) == 0 {
				okCancel = true
				// before any stream is closed
				allInstrs(cl, func(x ssa.Instruction) {
					if cc := callOf(x); cc != nil && cc.StaticCallee() != nil && closesStreams(w, cc.StaticCallee()) && !dominatesInstr(in, x) {
						okCancel = false
					}
				})
			}
		})
	}
	c.Check(okCancel, id, "close-records-cancel", cl.Pos(), "Close stores its closeWithCancel argument, unconditionally and before the streams are closed, in the flag the end listener reads", "Close does not record its closeWithCancel argument in the flag the end listener reads (before closing the streams): ends caused by a cancelled shutdown would be reopened")
	// presence switches: polarity
	for _, sw := range []struct{ what, method string }{{"RollbackMitigation", "Stop"}, {"Checkpoint", "StopSchedule"}} {
		allInstrs(cl, func(in ssa.Instruction) {
			cc := callOf(in)
			if cc == nil || !isInvokeOf(cc, sw.what, sw.method) {
				return
			}
			gs := guardsOf(in.Block())
			ok := len(gs) == 1
			why := fmt.Sprintf("%d conditions", len(gs))
			if ok {
				v, pol := stripNot(gs[0].Cond, gs[0].Branch)
				if sw.what == "RollbackMitigation" {
					f, _ := flagRead(v)
					ok = f != nil && f.Name() == "Disabled" && !pol
					why = fmt.Sprintf("under Disabled=%v", pol)
				} else {
					eq, isCmp := isNilCompare(v, func(x ssa.Value) bool { return strings.HasSuffix(w.Origin(x), ".checkpoint") })
					ok = isCmp && (eq != pol)
					why = "under checkpoint == nil"
				}
			}
			c.Check(ok, id, "close-stops:"+sw.what, in.Pos(), sw.what+"."+sw.method+" is called ⇔ the component exists", sw.what+"."+sw.method+" is called "+why+": the background activity keeps running after Close, or Close dereferences a component that was never created")
		})
	}
	// finish token
	okTok, nTok := true, 0
	allInstrs(cl, func(in ssa.Instruction) {
		s, ok := in.(*ssa.Send)
		if !ok {
			return
		}
		nTok++
		gs := guardsOf(in.Block())
		if len(gs) != 1 {
			okTok = false
			return
		}
		v, pol := stripNot(gs[0].Cond, gs[0].Branch)
		f, _ := flagRead(v)
		if f == nil || !strings.Contains(f.Name(), "FinishedWithEndEvent") || pol {
			okTok = false
		}
		_ = s
	})
	c.Check(okTok && nTok == 1, id, "close-token", cl.Pos(), "Close hands the finish token ⇔ the stream did not already finish through its end events", fmt.Sprintf("Close's finish token is not sent exactly when ¬streamFinishedWithEndEvent (%d sends): the waiter misses the close, or Close blocks on a token nobody takes", nTok))
	// open flag
	openF := w.Field("stream", "stream", "open")
	if openF == nil {
		c.Undecided(id, "open-flag", 0, "stream.open not found")
	} else {
		var lastTrue ssa.Instruction
		allInstrs(op, func(in ssa.Instruction) {
			if f, _, val := flagWrite(in); f == openF && w.Origin(val) == "const(true)" {
				lastTrue = in
			}
		})
		okOpen := lastTrue != nil && len(guardsOf(lastTrue.Block())) == 0
		if okOpen {
			// nothing but the return follows; in particular the observers/positions are in place and the streams open
			allInstrs(op, func(in ssa.Instruction) {
				if cc := callOf(in); cc != nil && cc.StaticCallee() != nil && w.inModule(cc.StaticCallee()) && !dominatesInstr(in, lastTrue) && in.Block() == lastTrue.Block() {
					if _, isGo := in.(*ssa.Go); !isGo && instrBefore(lastTrue, in) {
						okOpen = false
					}
				}
			})
		}
		okClose := false
		allInstrs(cl, func(in ssa.Instruction) {
			if f, _, val := flagWrite(in); f == openF && w.Origin(val) == "const(false)" && len(guardsOf(in.Block())) == 0 {
				okClose = true
			}
		})
		c.Check(okOpen && okClose, id, "open-flag", op.Pos(), "open←true at the very end of Open, open←false in Close, both unconditional", fmt.Sprintf("IsOpen does not tell the truth (raised at the end of Open: %v, lowered by Close: %v): the state endpoints read positions of a stream that is not there, or refuse while it is", okOpen, okClose))
	}
	// Stream.Save = Checkpoint.Save
	nSave := 0
	allInstrs(sv, func(in ssa.Instruction) {
		if cc := callOf(in); cc != nil && isInvokeOf(cc, "Checkpoint", "Save") && len(guardsOf(in.Block())) == 0 {
			if _, plain := in.(*ssa.Call); plain {
				nSave++
			}
		}
	})
	c.Check(nSave == 1, id, "save-forwards", sv.Pos(), "Stream.Save calls Checkpoint.Save", fmt.Sprintf("Stream.Save makes %d unconditional Checkpoint.Save calls: Commit and the final save of Close store nothing", nSave))
	// the schedule
	nStart := 0
	allInstrs(op, func(in ssa.Instruction) {
		if cc := callOf(in); cc != nil && isInvokeOf(cc, "Checkpoint", "StartSchedule") && len(guardsOf(in.Block())) == 0 {
			nStart++
		}
	})
	c.Check(nStart == 1, id, "schedule-started", op.Pos(), "Open starts the checkpoint schedule", fmt.Sprintf("Open makes %d unconditional StartSchedule calls: nothing is saved periodically", nStart))
	for _, ss := range w.implsOf("stream", "Checkpoint", "StartSchedule") {
		c.see(ss)
		saves := false
		for _, f := range withWorkers(ss) {
			if f == ss {
				continue
			}
			cyc := cycleBlocks(f)
			allInstrs(f, func(in ssa.Instruction) {
				if cc := callOf(in); cc != nil && cc.StaticCallee() != nil && cc.StaticCallee().Name() == "Save" && cyc[in.Block()] {
					saves = true
				}
			})
		}
		// auto only
		okAuto := false
		allInstrs(ss, func(in ssa.Instruction) {
			if _, isGo := in.(*ssa.Go); isGo {
				for _, g := range guardsOf(in.Block()) {
					if o := w.Origin(g.Cond); strings.Contains(o, "Checkpoint.Type") {
						okAuto = (strings.Contains(o, "!=") && !g.Branch) || (strings.Contains(o, "==") && g.Branch)
					}
				}
			}
		})
		c.Check(saves && okAuto, id, "schedule-saves@"+fname(ss), ss.Pos(), "with automatic checkpointing StartSchedule spawns a loop that calls Save", fmt.Sprintf("the checkpoint schedule does not save (loop calls Save: %v, spawned exactly under Type==auto: %v)", saves, okAuto))
	}
}

// closeModePolarity (C18): the serial loop runs when the version gate is set, the concurrent one when it is not.
func closeModePolarity(c *Ctx, id string) {
	w := c.W
	sfName, _ := w.serialCloseField()
	f := w.Field("stream", "stream", sfName)
	c.need(f != nil, id, "stream.streamEndNotSupportedData")
	n := 0
	for _, fn := range w.ModFuncs {
		if fn.Parent() != nil || fn.Signature.Recv() == nil || recvTypeName(fn.Signature.Recv().Type()) != "stream" || isGoWorker(w, fn) {
			continue
		}
		for _, g := range withWorkers(fn) {
			allInstrs(g, func(in ssa.Instruction) {
				cc := callOf(in)
				if cc == nil || !isInvokeOf(cc, "Client", "CloseStream") {
					return
				}
				// which branch of the gate are we in (looking at the site, the spawn site and the helper's call site)
				var blocks []*ssa.BasicBlock
				blocks = append(blocks, in.Block())
				if g != fn {
					for _, h := range withAnon(fn) {
						allInstrs(h, func(x ssa.Instruction) {
							switch y := x.(type) {
							case *ssa.MakeClosure:
								if y.Fn == ssa.Value(g) || y.Fn == ssa.Value(rootFn(g)) {
									blocks = append(blocks, x.Block())
								}
							case *ssa.Go:
								if y.Common().StaticCallee() == g {
									blocks = append(blocks, x.Block())
									if h != fn {
										// spawned from a callback of fn: where that callback is created
										allInstrs(fn, func(z ssa.Instruction) {
											if mc, ok := z.(*ssa.MakeClosure); ok && mc.Fn == ssa.Value(h) {
												blocks = append(blocks, z.Block())
											}
										})
									}
								}
							}
						})
					}
					// a closure nested in a Range callback: the callback's own creation site
					if p := g.Parent(); p != nil && p != fn {
						allInstrs(fn, func(x ssa.Instruction) {
							if mc, ok := x.(*ssa.MakeClosure); ok && mc.Fn == ssa.Value(p) {
								blocks = append(blocks, x.Block())
							}
						})
					}
				}
				for _, cs := range w.callersOf(fn) {
					blocks = append(blocks, cs.Call.Block())
				}
				branch := ""
				for _, b := range blocks {
					for _, gd := range guardsOf(b) {
						v, pol := stripNot(gd.Cond, gd.Branch)
						if eq, isCmp := isNilCompare(v, func(x ssa.Value) bool { return loadedField(unwrap(x)) == f }); isCmp {
							if eq == pol {
								branch = "nil"
							} else {
								branch = "set"
							}
						}
					}
				}
				serial := g == fn && len(cycleBlocks(g)) > 0 && cycleBlocks(g)[in.Block()]
				_, isGo := in.(*ssa.Go)
				concurrent := g != fn || isGo
				n++
				switch {
				case serial && !concurrent:
					c.Check(branch == "set", id, "close-mode:serial@"+fname(fn), in.Pos(), "the one-by-one loop runs when the version gate is set", "the one-by-one close loop runs in the branch where streamEndNotSupportedData is "+branch+" (expected: set)")
				case concurrent:
					c.Check(branch == "nil", id, "close-mode:concurrent@"+fname(fn), in.Pos(), "the concurrent close runs when the version gate is not set", "the concurrent close runs in the branch where streamEndNotSupportedData is "+branch+" (expected: nil): a server below 5.5.0 gets concurrent close requests")
				}
			})
		}
	}
	if n < 2 {
		c.Undecided(id, "close-mode", 0, "only %d CloseStream sites", n)
	}
}

// workersSignal (C15/C02/C13): a function that fans work out and waits for it. In each listed function the WaitGroup
// is sized by the collection that is iterated (len / Count, or Add(1) per spawn), every worker signals Done exactly
// once on every non-panicking path, and every return of the function is preceded by Wait.
func workersSignal(names ...string) func(c *Ctx, id string) {
	return func(c *Ctx, id string) {
		w := c.W
		for _, name := range names {
			var fn *ssa.Function
			for _, f := range w.ModFuncs {
				if f.Parent() == nil && strings.HasSuffix(fname(f), name) {
					fn = f
				}
			}
			if fn == nil {
				c.Undecided(id, "workers-signal:"+name, 0, "function %s not found", name)
				continue
			}
			// the fan-out may live in a helper the named function calls
			hasWait := func(f *ssa.Function) bool {
				found := false
				allInstrs(f, func(in ssa.Instruction) {
					if cc := callOf(in); cc != nil && strings.HasSuffix(calleeName(cc), "WaitGroup).Wait") {
						found = true
					}
				})
				return found
			}
			if !hasWait(fn) {
				var cands []*ssa.Function
				for f := range w.syncCallees(fn, 2, false) {
					if f != fn && f.Pkg == fn.Pkg && hasWait(f) {
						cands = append(cands, f)
					}
				}
				sort.Slice(cands, func(i, j int) bool { return fname(cands[i]) < fname(cands[j]) })
				if len(cands) == 1 {
					fn = cands[0]
				}
			}
			c.see(fn)
			var wait ssa.Instruction
			nAdd := 0
			okAdd := true
			allInstrs(fn, func(in ssa.Instruction) {
				cc := callOf(in)
				if cc == nil {
					return
				}
				switch cn := calleeName(cc); {
				case strings.HasSuffix(cn, "WaitGroup).Wait"):
					wait = in
				case strings.HasSuffix(cn, "WaitGroup).Add"):
					nAdd++
					o := w.Origin(cc.Args[len(cc.Args)-1])
					inLoop := cycleBlocks(fn)[in.Block()]
					if !(strings.HasPrefix(o, "len(") || strings.Contains(o, ").Count)(") || (o == "const(1)" && inLoop)) {
						okAdd = false
					}
				}
			})
			// workers
			var bad []string
			nWorkers := 0
			for _, wk := range withWorkers(fn) {
				if wk == fn {
					continue
				}
				spawned := false
				for _, h := range withWorkers(fn) {
					allInstrs(h, func(x ssa.Instruction) {
						if g, ok := x.(*ssa.Go); ok {
							if g.Common().StaticCallee() == wk || closureOf(g.Common().Value) == wk {
								spawned = true
							}
						}
					})
				}
				if !spawned {
					continue
				}
				nWorkers++
				seqs, complete := pathEvents(wk, func(in ssa.Instruction) (string, *ssa.Function) {
					if cc := callOf(in); cc != nil && strings.HasSuffix(calleeName(cc), "WaitGroup).Done") {
						return "Done", nil
					}
					return "", nil
				}, 0)
				for _, s := range seqs {
					if strings.HasSuffix(s, "!panic") {
						continue
					}
					if s != "Done" {
						bad = append(bad, fmt.Sprintf("%s: a path signals %q", fname(wk), s))
					}
				}
				if !complete {
					bad = append(bad, fname(wk)+": path enumeration incomplete")
				}
			}
			okWait := wait != nil
			if okWait {
				allInstrs(fn, func(in ssa.Instruction) {
					if _, isRet := in.(*ssa.Return); isRet && !(fn.Recover != nil && in.Block() == fn.Recover) && !dominatesInstr(wait, in) {
						// a return that happens before any worker was spawned (early validation) is fine
						spawnBefore := false
						allInstrs(fn, func(x ssa.Instruction) {
							if _, isGo := x.(*ssa.Go); isGo && dominatesInstr(x, in) {
								spawnBefore = true
							}
						})
						if spawnBefore || cycleBlocks(fn)[in.Block()] {
							okWait = false
						}
					}
				})
			}
			sort.Strings(bad)
			c.Check(len(bad) == 0 && nWorkers >= 1 && nAdd >= 1 && okAdd && okWait, id, "workers-signal:"+name, fn.Pos(), fmt.Sprintf("%d worker(s): Done exactly once on every non-panicking path; Add sized by the iterated collection; Wait before return", nWorkers),
				fmt.Sprintf("%s does not wait for exactly its workers (workers=%d, Add ok=%v (%d), Wait before every return=%v) %s: it returns with work in flight, or hangs", name, nWorkers, okAdd, nAdd, okWait, strings.Join(bad, "; ")))
		}
	}
}

// upsertLadder (C05/C20): the per-vBucket checkpoint write is: upsert; only if that failed with "key not found":
// create the document and, only if that succeeded, upsert again; the error of the last step taken is returned.
func upsertLadder(c *Ctx, id string) {
	w := c.W
	outer := w.Method("couchbase", "cbMetadata", "saveVBucketCheckpoint")
	c.need(outer != nil && len(outer.AnonFuncs) == 1, id, "cbMetadata.saveVBucketCheckpoint returning one closure")
	ladder(c, id, "upsert-ladder", outer.AnonFuncs[0], "UpsertXattrs", "CreateDocument")
}

// registerLadder (C10): the instance document is written the same way: update | update(key not found) → create → update.
func registerLadder(c *Ctx, id string) {
	fn := c.W.Method("couchbase", "cbMembership", "register")
	c.need(fn != nil, id, "cbMembership.register")
	ladder(c, id, "register-ladder", ladderHome(c.W, fn, "CreateDocument"), "UpdateDocument", "CreateDocument")
}

// ladderHome: the function the write ladder lives in: fn itself or the same-package helper (two levels) that holds the
// create step.
func ladderHome(w *World, fn *ssa.Function, createName string) *ssa.Function {
	has := func(f *ssa.Function) bool {
		found := false
		allInstrs(f, func(in ssa.Instruction) {
			if cc := callOf(in); cc != nil && cc.StaticCallee() != nil && cc.StaticCallee().Name() == createName {
				found = true
			}
		})
		return found
	}
	if has(fn) {
		return fn
	}
	var cands []*ssa.Function
	for g := range w.syncCallees(fn, 2, false) {
		if g != fn && g.Pkg == fn.Pkg && has(g) {
			cands = append(cands, g)
		}
	}
	if len(cands) == 1 {
		return cands[0]
	}
	return fn
}

func ladder(c *Ctx, id, key string, fn *ssa.Function, writeName, createName string) {
	w := c.W
	c.see(fn)
	var ups []*ssa.Call
	var create *ssa.Call
	seqs, complete := pathEvents(fn, func(in ssa.Instruction) (string, *ssa.Function) {
		call, ok := in.(*ssa.Call)
		if !ok || call.Common().StaticCallee() == nil {
			return "", nil
		}
		switch call.Common().StaticCallee().Name() {
		case writeName:
			ups = append(ups, call)
			return "upsert", nil
		case createName:
			create = call
			return "create", nil
		}
		return "", nil
	}, 0)
	want := map[string]bool{"upsert": true, "upsert create": true, "upsert create upsert": true}
	ok := complete
	seen := map[string]bool{}
	for _, s := range seqs {
		s = strings.TrimSpace(strings.TrimSuffix(s, "!panic"))
		if s == "" {
			continue // a path that ends before the first write (an earlier step failed)
		}
		if !want[s] {
			ok = false
		}
		seen[s] = true
	}
	if len(seen) != 3 {
		ok = false
	}
	c.Check(ok, id, key+":paths", fn.Pos(), fmt.Sprintf("paths %q", seqs), fmt.Sprintf("the checkpoint write does not follow upsert | upsert→create | upsert→create→upsert: %q", seqs))
	if create == nil || len(ups) == 0 {
		return
	}
	first := ups[0]
	for _, u := range ups {
		if instrBefore(u, first) || (u.Block() != first.Block() && u.Block().Dominates(first.Block())) {
			first = u
		}
	}
	// create: only after the first upsert failed, with key-not-found
	gFail := errGuard(create.Block(), false, func(v ssa.Value) bool { return v == ssa.Value(first) })
	gKNF := false
	for _, g := range guardsOf(create.Block()) {
		o := w.Origin(g.Cond)
		if strings.Contains(o, "StatusCode") && strings.Contains(o, "StatusKeyNotFound") || strings.Contains(o, "StatusCode") && strings.Contains(o, "const(1)") {
			if b, isB := g.Cond.(*ssa.BinOp); isB && ((b.Op.String() == "==" && g.Branch) || (b.Op.String() == "!=" && !g.Branch)) {
				gKNF = true
			}
		}
	}
	if !gKNF {
		// the test may live in a helper predicate over the upsert's error (isKeyNotFound(err))
		gKNF = guardedBy(create.Block(), true, func(v ssa.Value) bool {
			call, ok := v.(*ssa.Call)
			if !ok || call.Common().StaticCallee() == nil || !w.inModule(call.Common().StaticCallee()) {
				return false
			}
			for _, a := range call.Common().Args {
				if unwrap(a) == ssa.Value(first) || isExtractOf(unwrap(a), first) {
					return true
				}
			}
			return false
		})
		if gKNF {
			gFail = true // the predicate is about a failure of that upsert
		}
	}
	c.Check(gFail && gKNF, id, key+":create", create.Pos(), "the document is created only after the upsert failed with key-not-found", fmt.Sprintf("the create step is not guarded by (first upsert failed: %v) ∧ (status = key not found: %v)", gFail, gKNF))
	// second upsert: only after create succeeded
	for _, u := range ups {
		if u == first {
			continue
		}
		ok2 := errGuard(u.Block(), true, func(v ssa.Value) bool { return v == ssa.Value(create) })
		c.Check(ok2, id, key+":retry", u.Pos(), "the second upsert runs only after the create succeeded", "the second upsert is not guarded by the create's success")
	}
	// the result is the error of the last step
	for _, call := range append(append([]*ssa.Call{}, ups...), create) {
		c.Check(reported(errorSinks(call)), id, fmt.Sprintf("%s:result:%s", key, w.pos(call.Pos())), call.Pos(), "the step's error can reach the result", "a step's error never reaches the result: an unconfirmed write is reported as success")
	}
}

// setterStores (C06): SetVbUUID assigns its parameter to observer.vbUUID, unconditionally.
func setterStores(c *Ctx, id string) {
	w := c.W
	oi := observerInfo(c, id)
	fn := w.Method("couchbase", oi.typ.Obj().Name(), "SetVbUUID")
	c.need(fn != nil && len(fn.Params) == 2, id, "observer.SetVbUUID")
	c.see(fn)
	f := w.Field("couchbase", oi.typ.Obj().Name(), "vbUUID")
	n := 0
	allInstrs(fn, func(in ssa.Instruction) {
		if st, ok := in.(*ssa.Store); ok && fieldOfAddr(st.Addr) == f && st.Val == ssa.Value(fn.Params[1]) && len(guardsOf(in.Block())) == 0 {
			n++
		}
	})
	c.Check(n == 1, id, "setter-stores:SetVbUUID", fn.Pos(), "vbUUID ← parameter, unconditionally", fmt.Sprintf("SetVbUUID makes %d unconditional stores of its parameter: offsets keep the branch id the session started with", n))
}

// fileLoadExact (C02/C15): the file backend, exhaustively over the three outcomes of reading the file:
// read ok → (state, exist=true, nil); does not exist → (state, exist=false, nil); any other error → that error.
func fileLoadExact(c *Ctx, id string) {
	w := c.W
	fn := w.Method("metadata", "fileMetadata", "Load")
	c.need(fn != nil, id, "metadata.fileMetadata.Load")
	docT := w.NamedType("models", "CheckpointDocument")
	c.need(docT != nil && len(fn.Params) == 3, id, "models.CheckpointDocument / fileMetadata.Load(vbIds, bucketUUID)")
	uuidP := fn.Params[2].Name()
	h := &Harness{Fn: fn, Choices: map[string]int{"read": 3}, Quiet: quietLog, MaxSteps: 4000, Concrete: true,
		// a stored document may carry any bucket id: Load does not look (what is stored is what is returned)
		Groups: []Group{{Atoms: []string{"stored0.BucketUUID", uuidP}, EqOnly: true}},
		Complete: func(st *State, name string, args []AV) (AV, [][]AV, bool) {
			// should the loaded map be walked, it holds one (symbolic) document
			if strings.HasSuffix(name, ".Range") && len(args) >= 2 && st.C("read") == 0 {
				return args[len(args)-1], [][]AV{{avOpaque{"int storedKey0"}, avPtr{&cell{typ: docT, sym: "stored0"}}}}, true
			}
			return nil, nil, false
		},
		Args: map[string]func(st *State) AV{fn.Params[1].Name(): func(st *State) AV {
			// two requested vBuckets (symbolic ids)
			t := types.Typ[types.Uint16]
			return avSlice{cells: []*cell{{typ: t, sym: "vbIds[0]"}, {typ: t, sym: "vbIds[1]"}}}
		}},
		Oracle: func(st *State, name string, args []AV, res *types.Tuple) ([]AV, bool) {
			switch {
			case name == "os.ReadFile":
				switch st.C("read") {
				case 0:
					return []AV{avSlice{sym: "fileBytes"}, avIface{isNil: true}}, true
				case 1:
					return []AV{avSlice{isNil: true}, avIface{sym: "notExist"}}, true
				default:
					return []AV{avSlice{isNil: true}, avIface{sym: "ioError"}}, true
				}
			case name == "errors.Is":
				if e, ok := args[0].(avIface); ok {
					return []AV{avBool{e.sym == "notExist" && strings.HasSuffix(avString(args[1]), "ErrNotExist")}}, true
				}
			case strings.HasSuffix(name, ".UnmarshalJSON"):
				return []AV{avIface{isNil: true}}, true
			case strings.HasSuffix(name, ".Range"):
				return []AV{}, true
			}
			return nil, false
		}}
	c.oae(id, "file-load", fn.Pos(), h, func(st *State, out *Outcome) string {
		if out.Panicked {
			return "panics"
		}
		if len(out.Ret) != 3 {
			return "unexpected result arity"
		}
		errV, _ := out.Ret[2].(avIface)
		existV, _ := out.Ret[1].(avBool)
		var stores []Effect
		for _, e := range out.Trace {
			if strings.HasSuffix(e.Name, ".Store") && len(e.Args) == 3 {
				stores = append(stores, e)
			}
		}
		switch st.C("read") {
		case 0:
			if !errV.isNil || !existV.b {
				return fmt.Sprintf("file read: returns exist=%v err=%s, expected exist=true, nil", existV.b, avString(out.Ret[2]))
			}
			// what the file holds is what is returned, under the keys it was written with: no re-keying, no filtering
			if len(stores) != 0 {
				return fmt.Sprintf("the decoded file is re-filed entry by entry (%s …): a document can end up under another vBucket's id", stores[0].String())
			}
		case 1:
			if !errV.isNil || existV.b {
				return fmt.Sprintf("file does not exist: returns exist=%v err=%s, expected exist=false, nil", existV.b, avString(out.Ret[2]))
			}
			// an empty document for each requested vBucket, under its own id
			seen := map[string]bool{}
			for _, e := range stores {
				seen[avString(e.Args[1])] = true
			}
			if len(stores) != 2 || !seen["?int vbIds[0]"] || !seen["?int vbIds[1]"] {
				return fmt.Sprintf("no file: %d empty documents filed under %v (expected one per requested vBucket, under its own id)", len(stores), seen)
			}
		default:
			if errV.isNil {
				return "the read failed for another reason but no error is returned: the session starts as if there were no checkpoint"
			}
		}
		return ""
	}, "read ok → the decoded file as it is, exist, nil; ErrNotExist → an empty document per requested vBucket under its own id, ¬exist, nil; other error → error")
}

// observeCallbackExact (C07): the callback that applies one copy's persistence report, evaluated exhaustively over
// closed × same generation × error class (none, ambiguous-timeout, temporary failure, busy, other) × table lookup ×
// index in range × report outdated × branch id changed. Specification (from the property): the round's wait group is
// always signalled, exactly once; a closed mitigation or a stale generation changes nothing; a transient observe
// error changes nothing and is survived, any other error stops the client; otherwise, if the report differs from what
// is recorded, both fields are recorded and (vbID, getMinSeqNo(vbID)) is dispatched — in that order — and the branch id
// used for the next observe is refreshed when the copy reports another one.
func observeCallbackExact(c *Ctx, id string) {
	w := c.W
	obs := w.Method("couchbase", "rollbackMitigation", "observe")
	c.need(obs != nil && len(obs.AnonFuncs) == 1, id, "rollbackMitigation.observe with one callback closure")
	cb := obs.AnonFuncs[0]
	rec := replicaStateType(w)
	c.need(rec != nil && len(cb.Params) == 2, id, "replica record type / callback signature")
	gm := w.Method("couchbase", "rollbackMitigation", "getMinSeqNo")
	io := w.Method("couchbase", rec.Obj().Name(), "IsOutdated")
	c.need(gm != nil && io != nil, id, "getMinSeqNo / IsOutdated")
	resP, errP := cb.Params[0].Name(), cb.Params[1].Name()
	roles := observeRoles(w, obs, cb)
	c.need(roles.ok, id, "observe(vbID, copy index, generation, branch id, wait group)")
	rN, idxN, genN, brN := roles.rN, roles.idxN, roles.genN, roles.brN
	rmClosed := flagSetBy(w, w.Method("couchbase", "rollbackMitigation", "Stop"))
	if rmClosed == "" {
		rmClosed = "closed"
	}
	noinl := map[string]bool{fname(gm): true, fname(io): true}
	for _, m := range w.ModFuncs {
		if m.Signature.Recv() != nil && recvTypeName(m.Signature.Recv().Type()) == rec.Obj().Name() && strings.HasPrefix(m.Name(), "Set") {
			noinl[fname(m)] = true
		}
	}
	// error classes: the three transient ones, every further error the callback asks about by name (each must be
	// fatal: only the three are survivable), and an error that is none of them
	transientClasses := []string{"ErrUnambiguousTimeout", "ErrTemporaryFailure", "ErrBusy"}
	classes := append([]string{}, transientClasses...)
	for _, f := range withAnon(cb) {
		allInstrs(f, func(in ssa.Instruction) {
			cc := callOf(in)
			if cc == nil || calleeName(cc) != "errors.Is" || len(cc.Args) != 2 {
				return
			}
			o := strings.TrimSuffix(w.Origin(cc.Args[1]), ")")
			if k := strings.LastIndex(o, "."); k >= 0 {
				o = o[k+1:]
			}
			known := false
			for _, cs := range classes {
				if cs == o {
					known = true
				}
			}
			if !known && o != "" {
				classes = append(classes, o)
			}
		})
	}
	classes = append(classes, "other")
	h := &Harness{Fn: cb, Quiet: quietLog, NoInline: noinl, MaxSteps: 6000,
		Bools:   []string{rN + "." + rmClosed, errP + "==nil", "found", "outdated"},
		Choices: map[string]int{"class": len(classes), "ncopies": 3, "replica": 2},
		Groups:  []Group{{Atoms: []string{rN + ".activeGroupID", genN}, EqOnly: true}, {Atoms: []string{brN, resP + ".VbUUID"}, EqOnly: true}},
		Args: map[string]func(st *State) AV{
			idxN: func(st *State) AV {
				return avPtr{&cell{typ: types.Typ[types.Int], val: avInt{conc: int64(st.C("replica"))}, have: true, sym: idxN}}
			},
		},
		Valid: func(st *State) bool {
			if st.B(errP+"==nil") && st.C("class") != len(classes)-1 {
				return false
			}
			if !st.B("found") && st.C("ncopies") != 0 {
				return false
			}
			return true
		},
		Oracle: func(st *State, name string, args []AV, res *types.Tuple) ([]AV, bool) {
			switch {
			case name == "errors.Is":
				tgt := avString(args[1])
				for i, cs := range classes {
					if strings.HasSuffix(tgt, "."+cs) {
						return []AV{avBool{st.C("class") == i}}, true
					}
				}
				return []AV{avBool{false}}, true
			case strings.HasSuffix(name, ".persistedSeqNos.Load"):
				var cs []*cell
				for i := 0; i < st.C("ncopies"); i++ {
					cs = append(cs, &cell{typ: types.NewPointer(rec), sym: fmt.Sprintf("copy%d", i)})
				}
				return []AV{avSlice{cells: cs, isNil: len(cs) == 0}, avBool{st.B("found")}}, true
			case name == fname(io):
				return []AV{avBool{st.B("outdated")}}, true
			case name == fname(gm):
				return []AV{avInt{atom: "min"}}, true
			}
			return nil, false
		}}
	c.oae(id, "observe-callback", cb.Pos(), h, func(st *State, out *Outcome) string {
		var done, sets, disp, uuidStores []Effect
		order := []string{}
		for _, e := range out.Trace {
			switch {
			case strings.HasSuffix(e.Name, "WaitGroup).Done"):
				done = append(done, e)
				order = append(order, "done")
			case noinl[e.Name] && strings.Contains(e.Name, ").Set"):
				sets = append(sets, e)
				order = append(order, "set")
			case strings.HasSuffix(e.Name, ".persistSeqNoDispatcher"):
				disp = append(disp, e)
				order = append(order, "dispatch")
			case strings.HasSuffix(e.Name, ".vbUUIDMap.Store"):
				uuidStores = append(uuidStores, e)
			case e.Name == fname(gm):
				order = append(order, "min")
			}
		}
		// the record may be updated through setters (effects above) or by direct field stores (written cells)
		direct := 0
		for i := 0; i < 3; i++ {
			for _, f := range []string{"seqNo", "vbUUID"} {
				if out.Final(fmt.Sprintf("copy%d->.%s", i, f)) != nil || out.Final(fmt.Sprintf("copy%d.%s", i, f)) != nil {
					direct++
					if i != st.C("replica") {
						return fmt.Sprintf("the report is recorded on copy %d, not on the reported copy %d", i, st.C("replica"))
					}
				}
			}
		}
		if len(done) != 1 || order[0] != "done" {
			return fmt.Sprintf("the round's wait group is signalled %d times (first effect: %v) — the observe round would hang or panic", len(done), order)
		}
		stale := st.B(rN+"."+rmClosed) || !st.Eq(rN+".activeGroupID", genN)
		transient := !st.B(errP+"==nil") && st.C("class") < len(transientClasses)
		fatal := !st.B(errP+"==nil") && st.C("class") >= len(transientClasses)
		quiet := len(sets)+direct+len(disp)+len(uuidStores) == 0
		switch {
		case stale:
			if out.Panicked || !quiet {
				return "a report for a closed mitigation / an old cluster-map generation has an effect"
			}
			return ""
		case transient:
			if out.Panicked {
				return "a transient observe error (" + classes[st.C("class")] + ") stops the client"
			}
			if !quiet {
				return "a failed observe changes the table"
			}
			return ""
		case fatal:
			if !out.Panicked {
				return "an unexpected observe error (" + classes[st.C("class")] + ") is swallowed"
			}
			return ""
		}
		if out.Panicked {
			return "panics on a successful report"
		}
		inRange := st.C("ncopies") > st.C("replica")
		if !inRange {
			if !quiet {
				return "a report for a copy index outside the table has an effect"
			}
			return ""
		}
		if st.B("outdated") {
			if len(sets)+direct != 2 || len(disp) != 1 {
				return fmt.Sprintf("an outdated record: %d field updates and %d dispatches (expected 2 and 1)", len(sets)+direct, len(disp))
			}
			// both updates on the reported copy, before the minimum is taken, which is before the dispatch
			want := fmt.Sprintf("copy%d", st.C("replica"))
			for _, e := range sets {
				if len(e.Args) < 1 || !strings.Contains(avString(e.Args[0]), want) {
					return "the report is recorded on another copy: " + e.String()
				}
			}
			seq := strings.Join(order, " ")
			wantSeq := "set set min dispatch"
			if direct == 2 {
				wantSeq = "min dispatch" // (that the stores precede the minimum is decided by C07.R5 dispatch-order)
			}
			if !strings.Contains(seq, wantSeq) {
				return "order of effects is " + seq + ", expected: both updates, then the minimum, then the dispatch"
			}
		} else if len(sets)+direct+len(disp) != 0 {
			return "an unchanged report is recorded or dispatched again"
		}
		wantUUID := 0
		if !st.Eq(brN, resP+".VbUUID") {
			wantUUID = 1
		}
		if len(uuidStores) != wantUUID {
			return fmt.Sprintf("branch id for the next observe refreshed %d times, expected %d", len(uuidStores), wantUUID)
		}
		return ""
	}, "Done once and first; stale/closed → nothing; transient error → nothing, survived; other error → panic; else outdated ⇒ record both fields, then min, then dispatch; branch id refreshed ⇔ it changed")
}

// observeRoles names what the observe callback captures, by role: the mitigation (the receiver), the copy index and
// the generation (the two int inputs of observe: the generation is the one the callback compares with the live
// generation), and the branch id (the VbUUID input). The inputs may be parameters or fields of a parameter bundle,
// captured directly or through a local copy.
type obsRoles struct {
	rN, idxN, genN, brN string // as the callback captures them
	vb, idx, gen, br    vparam // as observe takes them
	ok                  bool
}

// effectVArg: what a recorded call of callee was given for the formal input v (a field of the bundle for a bundled one).
func effectVArg(e Effect, callee *ssa.Function, v vparam) AV {
	for i, p := range callee.Params {
		if p != v.P || i >= len(e.Args) {
			continue
		}
		if v.F < 0 {
			return e.Args[i]
		}
		if s, ok := e.Args[i].(avStruct); ok && s.c != nil && v.F < len(s.c.fields) && s.c.fields[v.F] != nil {
			return s.c.fields[v.F].val
		}
	}
	return nil
}

func observeRoles(w *World, obs, cb *ssa.Function) (r obsRoles) {
	terms := map[string]vparam{}
	for _, v := range vparams(obs) {
		terms[v.Term()] = v
		if isUint16(v.Type()) {
			r.vb = v
		}
	}
	var ints []*ssa.FreeVar
	intTerm := map[*ssa.FreeVar]string{}
	for _, fv := range cb.FreeVars {
		b, has := bindingOf(fv)
		if !has {
			continue
		}
		var o string
		if al, isAl := unwrap(b).(*ssa.Alloc); isAl {
			if sv, one := singleStore(al); one {
				o = w.Origin(sv)
			}
		} else {
			o = w.Origin(b)
		}
		if o == "recv" {
			r.rN = fv.Name()
			continue
		}
		v, isIn := terms[o]
		if !isIn {
			continue
		}
		switch {
		case isInt(v.Type()):
			ints = append(ints, fv)
			intTerm[fv] = o
		case strings.HasSuffix(v.Type().String(), ".VbUUID"):
			r.brN, r.br = fv.Name(), v
		}
	}
	if len(ints) != 2 {
		return
	}
	for _, fv := range ints {
		cmp := false
		for _, f := range withAnon(cb) {
			allInstrs(f, func(in ssa.Instruction) {
				if bo, isB := in.(*ssa.BinOp); isB && (bo.Op == token.EQL || bo.Op == token.NEQ) {
					x, y := w.Origin(bo.X), w.Origin(bo.Y)
					if (x == "recv.activeGroupID" && y == intTerm[fv]) || (y == "recv.activeGroupID" && x == intTerm[fv]) {
						cmp = true
					}
				}
			})
		}
		if !cmp {
			// … or inside a predicate of the mitigation the callback hands it to (`r.isStale(groupID)`)
			for _, f := range withAnon(cb) {
				allInstrs(f, func(in ssa.Instruction) {
					cc := callOf(in)
					if cc == nil || cc.StaticCallee() == nil || !w.inModule(cc.StaticCallee()) || cc.StaticCallee().Blocks == nil {
						return
					}
					g := cc.StaticCallee()
					for i, a := range cc.Args {
						if w.Origin(a) != intTerm[fv] || i >= len(g.Params) {
							continue
						}
						want := "param(" + g.Params[i].Name() + ")"
						allInstrs(g, func(x ssa.Instruction) {
							if bo, isB := x.(*ssa.BinOp); isB && (bo.Op == token.EQL || bo.Op == token.NEQ) {
								xo, yo := w.Origin(bo.X), w.Origin(bo.Y)
								if (xo == "recv.activeGroupID" && yo == want) || (yo == "recv.activeGroupID" && xo == want) {
									cmp = true
								}
							}
						})
					}
				})
			}
		}
		if cmp {
			r.genN, r.gen = fv.Name(), terms[intTerm[fv]]
		} else {
			r.idxN, r.idx = fv.Name(), terms[intTerm[fv]]
		}
	}
	r.ok = r.rN != "" && r.idxN != "" && r.genN != "" && r.brN != "" && r.vb.P != nil
	return
}

// mitigationLifecycle (C07/C13): the plumbing around the observe callback, as path languages and must-happen clauses.
//
//	Start:            waitFirstConfig ; (err ⇒ panic) ; reconfigure ; go { loop: configWatch }
//	Stop:             closed←true unconditionally (the callback and the observe loop test it)
//	startObserve:     fresh vbUUID map ; loadVbUUIDMap ; ticker ; loop
//	loadVbUUIDMap:    one loader per vBucket of the table ; Wait ; (err ⇒ panic)
//	loadVbUUID:       failover log (error returned) ; vbUUIDMap[vbID] ← entry 0
//	SetAbsent/IsAbsent: the flag is stored / returned
func mitigationLifecycle(c *Ctx, id string) {
	w := c.W
	m := func(name string) *ssa.Function { return w.Method("couchbase", "rollbackMitigation", name) }
	start, stop, so, lm, lv, wfc, rc, cw := m("Start"), m("Stop"), m("startObserve"), m("loadVbUUIDMap"), m("loadVbUUID"), m("waitFirstConfig"), m("reconfigure"), m("configWatch")
	c.need(start != nil && stop != nil && so != nil && lm != nil && lv != nil && wfc != nil && rc != nil && cw != nil, id, "rollbackMitigation.Start/Stop/startObserve/loadVbUUIDMap/loadVbUUID/waitFirstConfig/reconfigure/configWatch")
	lang := func(fn *ssa.Function, key string, want []string, classify eventClassifier, text string) {
		c.see(fn)
		seqs, complete := pathEvents(fn, classify, 0)
		ok := complete && len(seqs) > 0
		wantSet := map[string]bool{}
		for _, x := range want {
			wantSet[x] = true
		}
		for _, s := range seqs {
			if !wantSet[s] {
				ok = false
			}
		}
		for _, x := range want {
			found := false
			for _, s := range seqs {
				if s == x {
					found = true
				}
			}
			if !found {
				ok = false
			}
		}
		c.Check(ok, id, key, fn.Pos(), fmt.Sprintf("%s %q", text, seqs), fmt.Sprintf("%s — found %q, expected exactly %q", text, seqs, want))
	}
	calls := func(table map[*ssa.Function]string) eventClassifier {
		return func(in ssa.Instruction) (string, *ssa.Function) {
			if g, ok := in.(*ssa.Go); ok {
				if f := closureOf(g.Common().Value); f != nil {
					// what the goroutine's loop does
					cyc := cycleBlocks(f)
					ev := "go{}"
					allInstrs(f, func(x ssa.Instruction) {
						if cc := callOf(x); cc != nil && cyc[x.Block()] {
							if n, ok := table[cc.StaticCallee()]; ok {
								ev = "go{loop:" + n + "}"
							}
						}
					})
					return ev, nil
				}
				if n, ok := table[g.Common().StaticCallee()]; ok {
					return "go:" + n, nil
				}
			}
			if cc := callOf(in); cc != nil {
				if n, ok := table[cc.StaticCallee()]; ok {
					return n, nil
				}
			}
			return "", nil
		}
	}
	lang(start, "mitigation:start", []string{"waitFirstConfig !panic", "waitFirstConfig reconfigure go{loop:configWatch}"},
		calls(map[*ssa.Function]string{wfc: "waitFirstConfig", rc: "reconfigure", cw: "configWatch"}), "Start = first config (or die), reconfigure, watch loop")
	// the panic of Start is under the error of waitFirstConfig
	allInstrs(start, func(in ssa.Instruction) {
		if isPanicLike(in) {
			okG := errGuard(in.Block(), false, func(v ssa.Value) bool {
				call, ok := v.(*ssa.Call)
				return ok && call.Common().StaticCallee() == wfc
			})
			c.Check(okG, id, "mitigation:start-panic", in.Pos(), "Start panics ⇔ the first configuration could not be obtained", "Start's panic is not guarded by the error of waitFirstConfig")
		}
	})
	// Stop raises the closed flag unconditionally
	closedName := flagSetBy(w, stop)
	okStop := false
	allInstrs(stop, func(in ssa.Instruction) {
		if f, _, val := flagWrite(in); f != nil && f.Name() == closedName && w.Origin(val) == "const(true)" && len(guardsOf(in.Block())) == 0 {
			okStop = true
		}
	})
	// …and that is the flag the callback and the observe loop read
	readBy := 0
	readers := []*ssa.Function{so, m("observe")}
	for f := range w.syncCallees(so, 2, false) {
		if f.Pkg == so.Pkg && f != so && f != m("observe") && f.Signature.Recv() != nil && recvTypeName(f.Signature.Recv().Type()) == "rollbackMitigation" {
			readers = append(readers, f)
		}
	}
	for _, f := range readers {
		if f == nil {
			continue
		}
		for _, g := range withAnon(f) {
			seen := false
			allInstrs(g, func(in ssa.Instruction) {
				if v, ok := in.(ssa.Value); ok {
					if fl, _ := flagRead(v); fl != nil && fl.Name() == closedName {
						seen = true
					}
				}
			})
			if seen {
				readBy++
			}
		}
	}
	c.Check(okStop && closedName != "" && readBy >= 2, id, "mitigation:stop-flag", stop.Pos(), "Stop raises the closed flag unconditionally; the observe loop and the callback read it", fmt.Sprintf("Stop does not unconditionally raise the flag (%q) that the observe loop and callback test (raised: %v, readers: %d): reports keep changing thresholds after Close", closedName, okStop, readBy))
	// startObserve prologue: a fresh branch-id map, filled, and a ticker, all before the first round
	vmap := w.Field("couchbase", "rollbackMitigation", "vbUUIDMap")
	tick := w.Field("couchbase", "rollbackMitigation", "observeTimer")
	c.see(so)
	var sel ssa.Instruction
	allInstrs(so, func(in ssa.Instruction) {
		if _, ok := in.(*ssa.Select); ok && sel == nil {
			sel = in
		}
	})
	pro := map[string]bool{}
	if sel != nil {
		allInstrs(so, func(in ssa.Instruction) {
			if st, ok := in.(*ssa.Store); ok && dominatesInstr(in, sel) && len(guardsOf(in.Block())) == 0 {
				switch fieldOfAddr(st.Addr) {
				case vmap:
					if freshMapIn(st.Val, so) {
						pro["map"] = true
					}
				case tick:
					if call, isCall := unwrap(st.Val).(*ssa.Call); isCall && calleeName(call.Common()) == "time.NewTicker" {
						pro["ticker"] = true
					}
				}
			}
			if cc := callOf(in); cc != nil && cc.StaticCallee() == lm && dominatesInstr(in, sel) && len(guardsOf(in.Block())) == 0 {
				pro["load"] = true
			}
		})
	}
	c.Check(sel != nil && pro["map"] && pro["load"] && pro["ticker"], id, "mitigation:observe-prologue", so.Pos(), "before the first round: fresh branch-id map, loadVbUUIDMap, ticker", fmt.Sprintf("the observe loop starts without its prologue (fresh map: %v, branch ids loaded: %v, ticker: %v): copies are observed under branch id 0 or never", pro["map"], pro["load"], pro["ticker"]))
	// loadVbUUIDMap
	lang(lm, "mitigation:load-map", []string{"range wait !panic", "range wait"}, func(in ssa.Instruction) (string, *ssa.Function) {
		cc := callOf(in)
		if cc == nil {
			return "", nil
		}
		if mm, _ := csmapMethod(cc); mm == "Range" {
			// the callback spawns one loader per entry
			ok := false
			if f := closureOf(cc.Args[1]); f != nil {
				for _, g := range withAnon(f) {
					allInstrs(g, func(x ssa.Instruction) {
						if c2 := callOf(x); c2 != nil && c2.StaticCallee() == lv {
							ok = true
						}
					})
				}
				n := 0
				allInstrs(f, func(x ssa.Instruction) {
					if c2 := callOf(x); c2 != nil && strings.HasSuffix(calleeName(c2), "errgroup.Group).Go") {
						n++
					}
				})
				ok = ok && n == 1
			}
			if ok {
				return "range", nil
			}
			return "range(no-loader)", nil
		}
		if strings.HasSuffix(calleeName(cc), "errgroup.Group).Wait") {
			return "wait", nil
		}
		return "", nil
	}, "loadVbUUIDMap = one loader per vBucket, Wait, die on error")
	allInstrs(lm, func(in ssa.Instruction) {
		if isPanicLike(in) {
			okG := errGuard(in.Block(), false, func(v ssa.Value) bool {
				call, ok := v.(*ssa.Call)
				return ok && strings.HasSuffix(calleeName(call.Common()), "errgroup.Group).Wait")
			})
			c.Check(okG, id, "mitigation:load-map-panic", in.Pos(), "loadVbUUIDMap panics ⇔ a loader failed", "the panic of loadVbUUIDMap is not guarded by the error of Wait")
		}
	})
	// loadVbUUID
	c.see(lv)
	var fo *ssa.Call
	allInstrs(lv, func(in ssa.Instruction) {
		if call, ok := in.(*ssa.Call); ok && isInvokeOf(call.Common(), "Client", "GetFailOverLogs") {
			fo = call
		}
	})
	okLV := false
	if fo != nil {
		ers := errResults(fo)
		retErr := len(ers) > 0 && reported(errorSinks(ers[0]))
		stored := false
		allInstrs(lv, func(in ssa.Instruction) {
			if cc := callOf(in); cc != nil {
				if mm, recv := csmapMethod(cc); mm == "Store" && recv != nil && loadedField(unwrap(recv)) == vmap {
					k, v := w.Origin(cc.Args[1]), w.Origin(cc.Args[2])
					if k == "param("+lv.Params[1].Name()+")" && strings.HasSuffix(v, "[const(0)].VbUUID") && errGuard(in.Block(), true, func(x ssa.Value) bool { return isExtractOf(x, fo) }) {
						stored = true
					}
				}
			}
		})
		okLV = retErr && stored
	}
	c.Check(okLV, id, "mitigation:load-vbuuid", lv.Pos(), "loadVbUUID returns the failover-log error, else records entry 0's branch id under its vBucket", "loadVbUUID does not (return the failover-log error and otherwise) record failOverLogs[0].VbUUID under its own vBucket id")
	// the absent flag is a flag
	if rec := replicaStateType(w); rec != nil {
		sa, ia := w.Method("couchbase", rec.Obj().Name(), "SetAbsent"), w.Method("couchbase", rec.Obj().Name(), "IsAbsent")
		okA := sa != nil && ia != nil
		if okA {
			name := flagSetBy(w, sa)
			ret := ""
			allInstrs(ia, func(in ssa.Instruction) {
				if r, ok := in.(*ssa.Return); ok && len(r.Results) == 1 {
					ret = w.Origin(r.Results[0])
				}
			})
			okA = name != "" && ret == "recv."+name
		}
		c.Check(okA, id, "mitigation:absent-flag", 0, "SetAbsent raises the flag IsAbsent returns", "SetAbsent does not raise the flag that IsAbsent returns: an unassigned copy is waited for for ever")
	}
	// the first configuration: Wait's error is returned
	c.see(wfc)
	okW := false
	allInstrs(wfc, func(in ssa.Instruction) {
		if call, ok := in.(*ssa.Call); ok && call.Common().IsInvoke() && call.Common().Method.Name() == "Wait" {
			if reported(errorSinks(call)) {
				okW = true
			}
		}
	})
	c.Check(okW, id, "mitigation:first-config-wait", wfc.Pos(), "the waiter's error (dispatch failure / timeout) is returned", "waitFirstConfig drops the error of AsyncOp.Wait: a configuration that never arrived looks like one that did")
}

// resetCounts (C07): reset, evaluated for 0..2 replicas × 0..2 vBuckets: every vBucket gets replicas+1 records and the
// first-round counter is re-armed with vBuckets × (replicas+1) — the number of Done signals one observe round produces.
func resetCounts(c *Ctx, id string) {
	w := c.W
	fn := w.Method("couchbase", "rollbackMitigation", "reset")
	c.need(fn != nil, id, "rollbackMitigation.reset")
	recv := fn.Params[0].Name()
	h := &Harness{Fn: fn, Choices: map[string]int{"replicas": 3, "vbs": 3}, Quiet: quietLog, MaxSteps: 8000,
		Input: func(st *State, sym string, t types.Type) AV {
			if sym == recv+".vbIds" {
				var cs []*cell
				for i := 0; i < st.C("vbs"); i++ {
					cs = append(cs, &cell{typ: types.Typ[types.Uint16], val: avInt{conc: int64(100 + i)}, have: true, sym: fmt.Sprintf("vb%d", i)})
				}
				return avSlice{cells: cs}
			}
			return nil
		},
		Oracle: func(st *State, name string, args []AV, res *types.Tuple) ([]AV, bool) {
			if strings.HasSuffix(name, ".NumReplicas") {
				return []AV{avInt{conc: int64(st.C("replicas"))}, avIface{isNil: true}}, true
			}
			return nil, false
		}}
	c.oae(id, "reset-counts", fn.Pos(), h, func(st *State, out *Outcome) string {
		if out.Panicked {
			return "panics"
		}
		want := st.C("replicas") + 1
		nStore := 0
		for _, e := range out.Trace {
			if strings.HasSuffix(e.Name, ".Store") && len(e.Args) == 3 {
				if sl, ok := e.Args[2].(avSlice); ok {
					nStore++
					if len(sl.cells) != want {
						return fmt.Sprintf("a vBucket gets %d records for %d replicas (expected %d)", len(sl.cells), st.C("replicas"), want)
					}
					for i, cl := range sl.cells {
						if p, isP := cl.val.(avPtr); !isP || p.c == nil {
							return fmt.Sprintf("record %d of a vBucket is left nil", i)
						}
					}
				}
			}
		}
		if nStore != st.C("vbs") {
			return fmt.Sprintf("%d of %d vBuckets get a record array", nStore, st.C("vbs"))
		}
		fin := out.Final(recv + ".observeCount")
		if fin == nil {
			fin = out.Final(recv + ".observeCount->") // the counter is held through a pointer
		}
		if v, ok := fin.(avInt); ok {
			if v.atom != "" || int(v.conc) != st.C("vbs")*want {
				return fmt.Sprintf("the round counter is armed with %s, expected %d vBuckets × %d copies", avString(v), st.C("vbs"), want)
			}
			return ""
		}
		var ws []string
		for k, cl := range out.cells {
			if cl.written {
				ws = append(ws, k+"="+avString(cl.val))
			}
		}
		sort.Strings(ws)
		return "the round counter is not re-armed with a known value; written cells: " + strings.Join(ws, ", ")
	}, "every vBucket gets replicas+1 records; the round counter is vBuckets × (replicas+1)")
}

// cbLoadReader (C02/C15): the per-vBucket checkpoint reader of the Couchbase backend, exhaustively over what the
// read can yield: a parsable document → that document is installed and "a checkpoint exists" is raised; an unparsable
// one or "key not found" → an empty (all-zero) document is installed, existence untouched; any other error → panic,
// nothing installed. In every surviving case the reader signals Done exactly once.
func cbLoadReader(c *Ctx, id string) {
	w := c.W
	ld := w.Method("couchbase", "cbMetadata", "Load")
	c.need(ld != nil && len(ld.AnonFuncs) == 1, id, "cbMetadata.Load with one reader closure")
	fn := ld.AnonFuncs[0]
	gx := w.Func("couchbase", "GetXattrs")
	ne := w.Func("models", "NewEmptyCheckpointDocument")
	kve := w.Pkgs["couchbase"]
	c.need(gx != nil && ne != nil && kve != nil, id, "couchbase.GetXattrs / models.NewEmptyCheckpointDocument")
	outcomes := []string{"document", "unparsable", "key-not-found", "kv-error", "other-error"}
	h := &Harness{Fn: fn, Choices: map[string]int{"read": len(outcomes)}, Quiet: quietLog, MaxSteps: 6000,
		NoInline: map[string]bool{fname(gx): true, "couchbase.getCheckpointID": true},
		Oracle: func(st *State, name string, args []AV, res *types.Tuple) ([]AV, bool) {
			switch {
			case name == fname(gx):
				switch st.C("read") {
				case 0, 1:
					return []AV{avSlice{sym: "xattr"}, avIface{isNil: true}}, true
				case 2:
					return []AV{avSlice{isNil: true}, avIface{sym: "kv:1"}}, true
				case 3:
					return []AV{avSlice{isNil: true}, avIface{sym: "kv:134"}}, true
				default:
					return []AV{avSlice{isNil: true}, avIface{sym: "plain"}}, true
				}
			case strings.HasSuffix(name, "sonic.Unmarshal"):
				if st.C("read") == 1 {
					return []AV{avIface{sym: "syntax"}}, true
				}
				tgt := args[1]
				if i, ok := tgt.(avIface); ok {
					tgt = i.val
				}
				if p, ok := tgt.(avPtr); ok && p.c != nil {
					if pt, ok := p.c.typ.(*types.Pointer); ok {
						p.c.val, p.c.have, p.c.written = avPtr{&cell{typ: pt.Elem(), sym: "parsedDoc"}}, true, true
					}
				}
				return []AV{avIface{isNil: true}}, true
			case name == "errors.As":
				e, _ := args[0].(avIface)
				if strings.HasPrefix(e.sym, "kv:") {
					if p, ok := args[1].(avIface); ok {
						if pp, ok := p.val.(avPtr); ok && pp.c != nil {
							if pt, ok := pp.c.typ.(*types.Pointer); ok {
								tc := &cell{typ: pt.Elem(), sym: "kvErr"}
								// StatusCode
								if stt, ok := pt.Elem().Underlying().(*types.Struct); ok {
									tc.fields = make([]*cell, stt.NumFields())
									for i := 0; i < stt.NumFields(); i++ {
										if stt.Field(i).Name() == "StatusCode" {
											code := int64(1)
											if e.sym != "kv:1" {
												code = 134
											}
											tc.fields[i] = &cell{typ: stt.Field(i).Type(), val: avInt{conc: code}, have: true}
										}
									}
								}
								pp.c.val, pp.c.have, pp.c.written = avPtr{tc}, true, true
							}
						}
					}
					return []AV{avBool{true}}, true
				}
				return []AV{avBool{false}}, true
			case name == "couchbase.getCheckpointID":
				return []AV{avStr{sym: "docID"}}, true
			}
			return nil, false
		}}
	c.oae(id, "cb-load-reader", fn.Pos(), h, func(st *State, out *Outcome) string {
		var stores, dones, empties []Effect
		for _, e := range out.Trace {
			switch {
			case strings.HasSuffix(e.Name, "state.Store") || (strings.HasSuffix(e.Name, ".Store") && len(e.Args) == 3):
				stores = append(stores, e)
			case strings.HasSuffix(e.Name, "WaitGroup).Done"):
				dones = append(dones, e)
			case e.Name == fname(ne):
				empties = append(empties, e)
			}
		}
		exists := false
		if b, ok := out.Final("exist").(avBool); ok && b.b {
			exists = true
		}
		r := st.C("read")
		if r >= 3 {
			if !out.Panicked {
				return "an unreadable checkpoint (" + outcomes[r] + ") does not stop the start-up"
			}
			if len(stores) != 0 {
				return "something is installed for an unreadable checkpoint"
			}
			return ""
		}
		if out.Panicked {
			return "panics on " + outcomes[r]
		}
		if len(stores) != 1 || len(dones) != 1 {
			return fmt.Sprintf("%s: %d documents installed, Done signalled %d times", outcomes[r], len(stores), len(dones))
		}
		doc := avString(stores[0].Args[2])
		vbName := fn.Params[0].Name()
		for _, prm := range fn.Params {
			if isUint16(prm.Type()) {
				vbName = prm.Name() // by type: the reader may take a context in front of its vBucket id
			}
		}
		if k := avString(stores[0].Args[1]); !strings.Contains(k, vbName) {
			return "installed under " + k + ", not under the reader's own vBucket id"
		}
		switch r {
		case 0:
			if !strings.Contains(doc, "parsedDoc") || len(empties) != 0 {
				return "a readable checkpoint is not what gets installed: " + doc
			}
			if !exists {
				return "a readable checkpoint does not raise 'a checkpoint exists'"
			}
		default:
			if !strings.Contains(doc, "NewEmptyCheckpointDocument") {
				return outcomes[r] + ": installed " + doc + " instead of an empty document"
			}
			if exists {
				return outcomes[r] + " raises 'a checkpoint exists'"
			}
		}
		return ""
	}, "document → installed, exists; unparsable / key-not-found → empty document, existence untouched; other error → panic; Done once")
	// "a checkpoint exists" starts out false and is what Load reports: the flag the readers raise is the second result,
	// and Load itself only ever stores false into it (before the readers are started)
	var flag *ssa.Alloc
	allInstrs(ld, func(in ssa.Instruction) {
		if r, ok := in.(*ssa.Return); ok && in.Parent() == ld && len(r.Results) == 3 {
			switch u := unwrap(r.Results[1]).(type) {
			case *ssa.UnOp:
				flag, _ = u.X.(*ssa.Alloc)
			case *ssa.Call: // an atomic.Bool read with Load()
				if k, m := atomicMethod(u.Common().StaticCallee()); k == "Bool" && m == "Load" && len(u.Common().Args) == 1 {
					flag, _ = u.Common().Args[0].(*ssa.Alloc)
				}
			}
		}
	})
	if flag == nil {
		c.Fail(id, "cb-load-exists", ld.Pos(), "the existence result of Load is not the flag its readers raise: %s", w.Origin(retOf(ld, 1)))
		return
	}
	captured := false
	for _, fv := range fn.FreeVars {
		if b, ok := bindingOf(fv); ok && b == ssa.Value(flag) {
			captured = true
		}
	}
	nInit, bad := 0, ""
	_, isAtomic := flag.Type().(*types.Pointer).Elem().Underlying().(*types.Struct) // atomic.Bool: the zero value is false
	for _, r := range *flag.Referrers() {
		if st, ok := r.(*ssa.Store); ok && st.Addr == ssa.Value(flag) {
			nInit++
			if w.Origin(st.Val) != "const(false)" {
				bad = w.Origin(st.Val)
			}
		}
		if call, ok := r.(*ssa.Call); ok && call.Parent() == ld {
			if k, m := atomicMethod(call.Common().StaticCallee()); k == "Bool" && m == "Store" && len(call.Common().Args) == 2 && w.Origin(call.Common().Args[1]) != "const(false)" {
				bad = w.Origin(call.Common().Args[1])
			}
		}
	}
	if isAtomic && nInit == 0 {
		nInit = 1
	}
	c.Check(captured && nInit == 1 && bad == "", id, "cb-load-exists", flag.Pos(), "Load reports the flag its readers raise; it starts out false",
		fmt.Sprintf("the existence flag Load returns: captured by the reader: %v, stores in Load: %d, a store of %q — with no document found Load would still report that checkpoints exist and the auto-reset never applies", captured, nInit, bad))
}

// retOf: result i of the (single) return of fn.
func retOf(fn *ssa.Function, i int) ssa.Value {
	var v ssa.Value
	allInstrs(fn, func(in ssa.Instruction) {
		if r, ok := in.(*ssa.Return); ok && in.Parent() == fn && i < len(r.Results) {
			v = r.Results[i]
		}
	})
	return v
}

// observeRoundAccounting (C07): one observe round hands out exactly one completion per (vBucket, copy): for each copy
// of the ranged vBucket the loop either signals Done itself (copy absent; mitigation closed or generation stale) or
// starts one observe for that copy index, with the branch id recorded for that vBucket — evaluated for 0..3 copies
// over all absent patterns × closed × stale. A round that loses a signal never ends; one that signals twice panics.
func observeRoundAccounting(c *Ctx, id string) {
	w := c.W
	so := w.Method("couchbase", "rollbackMitigation", "startObserve")
	ob := w.Method("couchbase", "rollbackMitigation", "observe")
	rec := replicaStateType(w)
	c.need(so != nil && ob != nil && rec != nil, id, "rollbackMitigation.startObserve / observe")
	var cb *ssa.Function
	unit := map[*ssa.Function]bool{so: true}
	for f := range w.syncCallees(so, 2, false) {
		if f.Pkg == so.Pkg && f.Signature.Recv() != nil && recvTypeName(f.Signature.Recv().Type()) == "rollbackMitigation" && f != ob {
			unit[f] = true
		}
	}
	for u := range unit {
		for _, f := range withAnon(u) {
			if f.Parent() != nil && len(callsIn(f, ob)) > 0 {
				cb = f
			}
		}
	}
	c.need(cb != nil && len(cb.Params) == 2, id, "the Range callback of the observe round")
	c.need(len(ob.AnonFuncs) == 1, id, "rollbackMitigation.observe with one callback closure")
	roles := observeRoles(w, ob, ob.AnonFuncs[0])
	c.need(roles.ok, id, "observe(vbID, copy index, generation, branch id, wait group)")
	owner := rootFn(cb)
	c.need(len(owner.Params) >= 2, id, "the round's owner takes the generation")
	rN, genN := owner.Params[0].Name(), owner.Params[len(owner.Params)-1].Name()
	ia := w.Method("couchbase", rec.Obj().Name(), "IsAbsent")
	c.need(ia != nil, id, "IsAbsent")
	rmClosed := flagSetBy(w, w.Method("couchbase", "rollbackMitigation", "Stop"))
	for k := 0; k <= 3; k++ {
		kk := k
		bools := []string{rN + "." + rmClosed}
		for i := 0; i < k; i++ {
			bools = append(bools, fmt.Sprintf("absent%d", i))
		}
		h := &Harness{Fn: cb, Bools: bools, Quiet: quietLog, MaxSteps: 8000,
			Groups:   []Group{{Atoms: []string{rN + ".activeGroupID", genN}, EqOnly: true}},
			NoInline: map[string]bool{fname(ob): true, fname(ia): true},
			Args: map[string]func(st *State) AV{cb.Params[1].Name(): func(st *State) AV {
				var cs []*cell
				for i := 0; i < kk; i++ {
					cs = append(cs, &cell{typ: types.NewPointer(rec), sym: fmt.Sprintf("copy%d", i)})
				}
				return avSlice{cells: cs}
			}},
			Oracle: func(st *State, name string, args []AV, res *types.Tuple) ([]AV, bool) {
				switch {
				case name == fname(ia):
					a := avString(args[0])
					for i := 0; i < kk; i++ {
						if strings.Contains(a, fmt.Sprintf("copy%d", i)) {
							return []AV{avBool{st.B(fmt.Sprintf("absent%d", i))}}, true
						}
					}
					return []AV{avOpaque{"IsAbsent of an unknown copy"}}, true
				case strings.HasSuffix(name, ".vbUUIDMap.Load"):
					return []AV{avInt{atom: "recordedBranch"}, avBool{true}}, true
				}
				return nil, false
			}}
		c.oae(id, fmt.Sprintf("round-accounting[%d copies]", k), cb.Pos(), h, func(st *State, out *Outcome) string {
			if out.Panicked {
				return "panics"
			}
			stale := st.B(rN+"."+rmClosed) || !st.Eq(rN+".activeGroupID", genN)
			nDone := len(out.Effects("(*sync.WaitGroup).Done"))
			obs := out.Effects(fname(ob))
			wantDone, wantObs := 0, 0
			for i := 0; i < kk; i++ {
				if st.B(fmt.Sprintf("absent%d", i)) || stale {
					wantDone++
				} else {
					wantObs++
				}
			}
			if nDone != wantDone || len(obs) != wantObs {
				return fmt.Sprintf("%d Done signals and %d observes for %d copies (expected %d and %d)", nDone, len(obs), kk, wantDone, wantObs)
			}
			// each observe is for its own copy index, this vBucket, this generation, the recorded branch, this round's group
			seen := map[string]bool{}
			for _, e := range obs {
				aVb, aIdx, aBr := effectVArg(e, ob, roles.vb), effectVArg(e, ob, roles.idx), effectVArg(e, ob, roles.br)
				if aVb == nil || aIdx == nil || aBr == nil {
					return "unexpected observe arguments: " + e.String()
				}
				idx := avString(aIdx)
				if seen[idx] {
					return "copy " + idx + " is observed twice"
				}
				seen[idx] = true
				if i, ok := aIdx.(avInt); !ok || i.atom != "" || i.conc < 0 || int(i.conc) >= kk || st.B(fmt.Sprintf("absent%d", i.conc)) {
					return "an absent or non-existing copy is observed: " + e.String()
				}
				if !strings.Contains(avString(aVb), cb.Params[0].Name()) {
					return "observe for another vBucket: " + e.String()
				}
				if g := effectVArg(e, ob, roles.gen); g == nil || !strings.Contains(avString(g), genN) {
					return "observe under a generation other than the round's: " + e.String()
				}
				if avString(aBr) != "recordedBranch" {
					return "observe under " + avString(aBr) + ", not under the branch id recorded for the vBucket"
				}
			}
			if b, ok := out.Ret[0].(avBool); !ok || !b.b {
				return "the round stops before it has seen every vBucket"
			}
			return ""
		}, "per copy exactly one of: Done (absent, or closed/stale) | observe(vbID, own index, generation, recorded branch, round)")
	}
}

// mitigationStopHandshake (C13/C07): Stop and reconfigure end the running observe loop ⇔ there is one: the timer is
// stopped, the close request sent and the acknowledgement awaited exactly under observeTimer≠nil; reconfigure's panic is
// under the error of markAbsentInstances; the first configuration is stored under err==nil.
func mitigationStopHandshake(c *Ctx, id string) {
	w := c.W
	tick := w.Field("couchbase", "rollbackMitigation", "observeTimer")
	c.need(tick != nil, id, "rollbackMitigation.observeTimer")
	for _, name := range []string{"Stop", "reconfigure"} {
		fn := w.Method("couchbase", "rollbackMitigation", name)
		if fn == nil {
			c.Undecided(id, "stop-handshake@"+name, 0, "rollbackMitigation.%s not found", name)
			continue
		}
		c.see(fn)
		var bad []string
		n := 0
		timerGuarded := func(b *ssa.BasicBlock) bool {
			gs := guardsOf(b)
			if len(gs) != 1 {
				return false
			}
			v, pol := stripNot(gs[0].Cond, gs[0].Branch)
			eq, isCmp := isNilCompare(v, func(y ssa.Value) bool { return loadedField(unwrap(y)) == tick })
			return isCmp && eq != pol
		}
		// the steps, in fn itself or in a helper method of the mitigation that fn calls under the timer test
		var collect func(f *ssa.Function, under bool, depth int)
		collect = func(f *ssa.Function, under bool, depth int) {
			allInstrs(f, func(in ssa.Instruction) {
				what := ""
				switch x := in.(type) {
				case *ssa.Send:
					if strings.HasSuffix(w.Origin(x.Chan), ".observeCloseCh") {
						what = "close request"
					}
				case *ssa.UnOp:
					if x.Op.String() == "<-" && strings.HasSuffix(w.Origin(x.X), ".observeCloseDoneCh") {
						what = "acknowledgement"
					}
				case *ssa.Call:
					if calleeName(x.Common()) == "(*time.Ticker).Stop" || calleeName(x.Common()) == "(*time.Timer).Stop" {
						what = "timer stop"
					}
					if h := x.Common().StaticCallee(); h != nil && depth < 2 && h != f && h.Pkg == fn.Pkg && h.Signature.Recv() != nil && recvTypeName(h.Signature.Recv().Type()) == "rollbackMitigation" && h.Name() != "Stop" && h.Name() != "reconfigure" {
						okCall := timerGuarded(in.Block())
						if under {
							okCall = len(guardsOf(in.Block())) == 0
						}
						before := n
						collect(h, true, depth+1)
						if n > before && !okCall {
							bad = append(bad, "steps of "+h.Name()+" called @"+w.pos(in.Pos()))
						}
					}
				}
				if what == "" {
					return
				}
				n++
				ok := timerGuarded(in.Block())
				if under {
					ok = len(guardsOf(in.Block())) == 0
				}
				if !ok {
					bad = append(bad, what+" @"+w.pos(in.Pos()))
				}
			})
		}
		collect(fn, false, 0)
		c.Check(len(bad) == 0 && n == 3, id, "stop-handshake@"+name, fn.Pos(), "timer stop, close request and acknowledgement happen ⇔ an observe loop is running (observeTimer≠nil)", fmt.Sprintf("%s does not perform its three-step handshake exactly under observeTimer≠nil (%d steps found; misguarded: %v): the observe loop outlives the stop, or a nil timer is dereferenced", name, n, bad))
	}
	if rc, ma := w.Method("couchbase", "rollbackMitigation", "reconfigure"), w.Method("couchbase", "rollbackMitigation", "markAbsentInstances"); rc != nil && ma != nil {
		nP := 0
		allInstrs(rc, func(in ssa.Instruction) {
			if isPanicLike(in) {
				nP++
				okG := errGuard(in.Block(), false, func(v ssa.Value) bool {
					call, ok := v.(*ssa.Call)
					return ok && call.Common().StaticCallee() == ma
				})
				c.Check(okG, id, "reconfigure-panic", in.Pos(), "reconfigure panics ⇔ the cluster map could not be read while marking unassigned copies", "reconfigure's panic is not guarded by the error of markAbsentInstances")
			}
		})
		if nP == 0 {
			c.Fail(id, "reconfigure-panic", rc.Pos(), "a cluster map that cannot be read no longer stops the client: copies that should be left out are waited for")
		}
	}
	if wfc := w.Method("couchbase", "rollbackMitigation", "waitFirstConfig"); wfc != nil && len(wfc.AnonFuncs) == 1 {
		cb := wfc.AnonFuncs[0]
		snap := w.Field("couchbase", "rollbackMitigation", "configSnapshot")
		ok := false
		allInstrs(cb, func(in ssa.Instruction) {
			if st, isSt := in.(*ssa.Store); isSt && fieldOfAddr(st.Addr) == snap && strings.HasSuffix(w.Origin(st.Val), ".Snapshot") && strings.HasPrefix(w.Origin(st.Val), "param(") {
				if errGuard(in.Block(), true, func(v ssa.Value) bool { _, isP := v.(*ssa.Parameter); return isP }) {
					ok = true
				}
			}
		})
		c.Check(ok, id, "first-config-stored", cb.Pos(), "the first configuration is recorded under err==nil", "waitFirstConfig's callback does not record result.Snapshot under err==nil: the component starts without a cluster map")
	}
}

// wrapperStepErrors (C20): around every gocbcore operation the wrapper makes further fallible steps — reading the
// configuration snapshot, resolving collection ids, the dispatch itself, AsyncOp.Wait, an errgroup's Wait. None of
// their errors may be dropped (the call would report success for something that never happened, or — for the dispatch
// and the wait — go on to receive from a channel nobody will ever send on and hang):
//
//	(a) every error-returning call in a function that contains such an operation (its worker closures included) has
//	    its error reach a return, a panic or a channel send — along edges on which it can be non-nil;
//	(b) every receive from a result channel made in the wrapper is reached only under err == nil of Wait;
//	(c) a function that hands work to an errgroup calls Wait and reports its result.
func wrapperStepErrors(c *Ctx, id string) {
	w := c.W
	roots := map[*ssa.Function]bool{}
	for _, s := range asyncSites(w) {
		roots[rootFn(s.Fn)] = true
	}
	var fns []*ssa.Function
	for f := range roots {
		fns = append(fns, f)
	}
	sort.Slice(fns, func(i, j int) bool { return fname(fns[i]) < fname(fns[j]) })
	nCalls := 0
	for _, root := range fns {
		c.see(root)
		var dropped []string
		var waits []*ssa.Call
		usesGroup, groupWaitReported := false, false
		for _, f := range withAnon(root) {
			// the operation's own callback is judged by C20.R2/R3
			isCallback := false
			for _, s := range asyncSites(w) {
				if s.Callback == f {
					isCallback = true
				}
			}
			if isCallback {
				continue
			}
			allInstrs(f, func(in ssa.Instruction) {
				call, ok := in.(*ssa.Call)
				if !ok {
					return
				}
				cn := calleeName(call.Common())
				if strings.HasSuffix(cn, "errgroup.Group).Go") {
					usesGroup = true
				}
				if !hasErrorResult(call.Common()) {
					return
				}
				if strings.HasPrefix(cn, "errors.") || strings.HasPrefix(cn, "fmt.") {
					return
				}
				nCalls++
				ers := errResults(call)
				isWait := call.Common().IsInvoke() && call.Common().Method.Name() == "Wait"
				if isWait {
					waits = append(waits, call)
				}
				if t := marshalArgType(call.Common()); t != nil && marshalTotal(t, 0) {
					return
				}
				handedToWait := false
				if len(ers) > 0 {
					for _, sk := range errorSinks(ers[0]) {
						if strings.HasPrefix(sk.Kind, "arg:") && strings.HasSuffix(sk.Kind, ".Wait") {
							handedToWait = true // AsyncOp.Wait returns the dispatch error unchanged (C20.R1)
						}
						// handed to the operation's own callback: the failure is reported the way a completion would be
						if ci, isCI := sk.In.(ssa.CallInstruction); isCI {
							for _, st := range asyncSites(w) {
								if st.Call == call && unwrap(ci.Common().Value) == unwrap(st.CbValue) {
									handedToWait = true
								}
							}
						}
					}
				}
				if handedToWait {
					return
				}
				if len(ers) == 0 || !reported(errorSinks(ers[0])) {
					// (_ = x.Close() at teardown is the one idiom that is allowed to drop an error)
					if strings.HasSuffix(cn, ").Close") || strings.HasSuffix(cn, ".Close") {
						return
					}
					var kinds []string
					if len(ers) > 0 {
						for _, sk := range errorSinks(ers[0]) {
							kinds = append(kinds, sk.Kind)
						}
					}
					dropped = append(dropped, cn+" @"+w.pos(in.Pos())+fmt.Sprintf(" (error flows to %v)", kinds))
					return
				}
				if strings.HasSuffix(cn, "errgroup.Group).Wait") {
					groupWaitReported = true
				}
			})
		}
		sort.Strings(dropped)
		c.Check(len(dropped) == 0, id, "step-errors@"+fname(root), root.Pos(), "no error of a step around the operation is dropped", "the error of "+strings.Join(dropped, ", ")+" is dropped: the wrapper reports success (or goes on to wait for a completion that will never come)")
		if usesGroup {
			c.Check(groupWaitReported, id, "group-wait@"+fname(root), root.Pos(), "the error group's Wait is called and its error reported", "work is handed to an errgroup but the result of Wait is not reported: a failed node query looks like success")
		}
		// (b) receives only after a successful wait
		for _, f := range withAnon(root) {
			allInstrs(f, func(in ssa.Instruction) {
				u, ok := in.(*ssa.UnOp)
				if !ok || u.Op.String() != "<-" {
					return
				}
				if _, made := unwrap(u.X).(*ssa.MakeChan); !made {
					if a := asAlloc(u.X); a == nil {
						// a channel that was not made here (observeCloseDoneCh …) is not a result channel
						if _, isMk := singleStoreOf(u.X).(*ssa.MakeChan); !isMk {
							return
						}
					}
				}
				okG := false
				for _, wt := range waits {
					if wt.Parent() == f && errGuard(in.Block(), true, func(v ssa.Value) bool { return v == ssa.Value(wt) }) {
						okG = true
					}
				}
				// an operation without a waiter (deadline of its own): the dispatch must have succeeded
				for _, st := range asyncSites(w) {
					if st.Fn == f && errGuard(in.Block(), true, func(v ssa.Value) bool { return isExtractOf(v, st.Call) }) {
						okG = true
					}
				}
				c.Check(okG, id, "receive-after-wait@"+fname(f), in.Pos(), "the result is received only after Wait succeeded", "a result channel is read on a path where Wait failed or was not consulted: after a failed dispatch nobody will ever send on it")
			})
		}
	}
	if nCalls < 30 {
		c.Undecided(id, "step-errors", 0, "only %d fallible steps found in the operation wrappers", nCalls)
	}
}

// singleStoreOf: the value a single-store cell holds (nil otherwise).
func singleStoreOf(v ssa.Value) ssa.Value {
	v = unwrap(v)
	if u, ok := v.(*ssa.UnOp); ok {
		if a, ok := u.X.(*ssa.Alloc); ok {
			if s, ok := singleStore(a); ok {
				return unwrap(s)
			}
		}
		if fv, ok := u.X.(*ssa.FreeVar); ok {
			if b, ok := bindingOf(fv); ok {
				if a, ok := b.(*ssa.Alloc); ok {
					if s, ok := singleStore(a); ok {
						return unwrap(s)
					}
				}
			}
		}
	}
	return v
}

// seqnoMerge (C02/C15/C16): the high sequence number of a vBucket is the largest any node/collection reported —
// the merge callback stores ⇔ nothing recorded yet ∨ reported > recorded (exhaustive over the order of the two numbers).
func seqnoMerge(c *Ctx, id string) {
	w := c.W
	var site *asyncSite
	for _, s := range asyncSites(w) {
		if s.Op == "GetVbucketSeqnos" {
			site = s
		}
	}
	c.need(site != nil && site.Callback != nil, id, "the GetVbucketSeqnos callback")
	cb := site.Callback
	c.see(cb)
	// the loop body: one entry
	entriesP := cb.Params[0].Name()
	for k := 1; k <= 2; k++ {
		kk := k
		atoms := []string{"cur"}
		bools := []string{}
		for i := 0; i < k; i++ {
			atoms = append(atoms, fmt.Sprintf("entry%d.SeqNo", i))
		}
		bools = append(bools, "exist")
		h := &Harness{Fn: cb, Groups: []Group{{Atoms: atoms, Unsigned: true}}, Bools: bools, Quiet: quietLog, MaxSteps: 6000,
			Args: map[string]func(st *State) AV{entriesP: func(st *State) AV {
				var cs []*cell
				for i := 0; i < kk; i++ {
					if n, ok := cb.Params[0].Type().Underlying().(*types.Slice); ok {
						cs = append(cs, &cell{typ: n.Elem(), sym: fmt.Sprintf("entry%d", i)})
					}
				}
				return avSlice{cells: cs}
			}},
			Oracle: func(st *State, name string, args []AV, res *types.Tuple) ([]AV, bool) {
				if strings.HasSuffix(name, ".Load") && len(args) == 2 {
					return []AV{avInt{atom: "cur"}, avBool{st.B("exist")}}, true
				}
				return nil, false
			}}
		if k == 2 {
			continue // (the map is an oracle: a second entry would need its state threaded; one entry decides the guard)
		}
		c.oae(id, "seqno-merge", cb.Pos(), h, func(st *State, out *Outcome) string {
			if out.Panicked {
				return "panics"
			}
			var stores []Effect
			for _, e := range out.Trace {
				if strings.HasSuffix(e.Name, ".Store") && len(e.Args) == 3 {
					stores = append(stores, e)
				}
			}
			want := !st.B("exist") || st.Lt("cur", "entry0.SeqNo")
			if want != (len(stores) == 1) || len(stores) > 1 {
				return fmt.Sprintf("recorded %d times with exist=%v, reported %s recorded", len(stores), st.B("exist"), map[bool]string{true: ">", false: "≤"}[st.Lt("cur", "entry0.SeqNo")])
			}
			if len(stores) == 1 && !strings.Contains(avString(stores[0].Args[2]), "entry0.SeqNo") {
				return "records " + avString(stores[0].Args[2]) + " instead of the reported sequence number"
			}
			if len(stores) == 1 && !strings.Contains(avString(stores[0].Args[1]), "entry0.VbID") {
				return "records under " + avString(stores[0].Args[1]) + " instead of the entry's vBucket"
			}
			return ""
		}, "store(entry.VbID, entry.SeqNo) ⇔ ¬exist ∨ entry.SeqNo > recorded")
	}
	// every node, every collection: the whole sampling function evaluated for 0..3 nodes × 1..2 collections ×
	// collection awareness × the step that fails
	root := w.Method("couchbase", "client", "GetVBucketSeqNos")
	c.need(root != nil, id, "client.GetVBucketSeqNos")
	seqnoFanOut(c, id, root)
}

// structFieldAV reads field `name` of a struct value (or of the struct a pointer value points to) as the run left it.
func structFieldAV(a AV, name string) (AV, bool) {
	var c *cell
	switch x := a.(type) {
	case avStruct:
		c = x.c
	case avPtr:
		c = x.c
	}
	if c == nil {
		return nil, false
	}
	t := c.typ
	if p, ok := t.Underlying().(*types.Pointer); ok {
		t = p.Elem()
	}
	st, ok := t.Underlying().(*types.Struct)
	if !ok {
		return nil, false
	}
	for i := 0; i < st.NumFields(); i++ {
		if st.Field(i).Name() == name {
			if i < len(c.fields) && c.fields[i] != nil && c.fields[i].have {
				return c.fields[i].val, true
			}
			return nil, true // never written: the zero value
		}
	}
	return nil, false
}

// ptrResult: a non-nil pointer to a fresh symbolic object of the i-th result's element type.
func ptrResult(res *types.Tuple, i int, sym string) AV {
	if res != nil && i < res.Len() {
		switch p := res.At(i).Type().Underlying().(type) {
		case *types.Pointer:
			return avPtr{&cell{typ: p.Elem(), sym: sym}}
		case *types.Interface:
			return avIface{sym: sym}
		}
	}
	return avOpaque{"result " + sym}
}

// seqnoFanOut: GetVBucketSeqNos asks every node 1..NumServers() for every configured collection (unfiltered when the
// request is not collection-aware), asks nothing else, returns the map iff every step succeeded and an error otherwise.
func seqnoFanOut(c *Ctx, id string, root *ssa.Function) {
	w := c.W
	c.see(root)
	c.need(len(root.Params) == 2, id, "GetVBucketSeqNos(awareCollection)")
	aware := root.Params[1].Name()
	const (
		failNone = iota
		failSnapshot
		failNumServers
		failCollections
		failDispatch
		failWait
		nFail
	)
	noInline := map[string]bool{}
	for _, fn := range w.ModFuncs {
		if fn.Pkg == root.Pkg && (fn.Name() == "NewAsyncOp" || fn.Name() == "GetCollectionIDs" || (fn.Signature.Recv() != nil && recvTypeName(fn.Signature.Recv().Type()) == "AsyncOp")) {
			noInline[fname(fn)] = true
		}
	}
	h := &Harness{Fn: root, Bools: []string{aware, "hasCollectionsSupport"}, Choices: map[string]int{"nodes": c.bound(4, 7), "collections": c.bound(2, 4), "fails": nFail},
		Quiet: quietLog, MaxSteps: 60000, Concrete: true, NoInline: noInline,
		Oracle: func(st *State, name string, args []AV, res *types.Tuple) ([]AV, bool) {
			errOr := func(which int, sym string) AV {
				if st.C("fails") == which {
					return avIface{sym: sym}
				}
				return avIface{isNil: true}
			}
			switch {
			case strings.HasSuffix(name, ".ConfigSnapshot"):
				return []AV{ptrResult(res, 0, "snapshot"), errOr(failSnapshot, "errSnapshot")}, true
			case strings.HasSuffix(name, ".NumServers"):
				return []AV{avInt{conc: int64(st.C("nodes"))}, errOr(failNumServers, "errNumServers")}, true
			case strings.HasSuffix(name, ".HasCollectionsSupport"):
				return []AV{avBool{st.B("hasCollectionsSupport")}}, true
			case strings.HasSuffix(name, ".GetCollectionIDs"):
				mo := &mapObj{sym: "collectionIDs"}
				for i := 0; i <= st.C("collections"); i++ {
					mo.keys = append(mo.keys, avInt{atom: fmt.Sprintf("cid%d", i)})
					mo.vals = append(mo.vals, avStr{sym: fmt.Sprintf("name%d", i)})
				}
				return []AV{avMap{mo}, errOr(failCollections, "errCollections")}, true
			case strings.HasSuffix(name, ".GetVbucketSeqnos"):
				return []AV{avIface{sym: "pendingOp"}, errOr(failDispatch, "errDispatch")}, true
			case strings.HasSuffix(name, ".Wait") && res != nil && res.Len() == 1:
				return []AV{errOr(failWait, "errWait")}, true
			case strings.HasSuffix(name, ".NewAsyncOp"):
				return []AV{ptrResult(res, 0, "asyncOp")}, true
			}
			return nil, false
		}}
	c.oae(id, "seqno-fan-out", root.Pos(), h, func(st *State, out *Outcome) string {
		if out.Panicked {
			return "panics"
		}
		n, k, fails := st.C("nodes"), st.C("collections")+1, st.C("fails")
		filtered := st.B(aware) && st.B("hasCollectionsSupport")
		if !filtered {
			k = 1
		}
		reqs := out.Effects("(*github.com/couchbase/gocbcore/v10.DCPAgent).GetVbucketSeqnos")
		if len(out.Ret) != 2 {
			return "unexpected result arity"
		}
		e, isI := out.Ret[1].(avIface)
		if !isI {
			return "the returned error is not determined: " + avString(out.Ret[1])
		}
		early := fails == failSnapshot || fails == failNumServers || fails == failCollections
		anyReq := n*k > 0
		wantErr := early || ((fails == failDispatch || fails == failWait) && anyReq)
		if wantErr != !e.isNil {
			return fmt.Sprintf("returns error=%s although the failing step is %d with %d requests", avString(e), fails, n*k)
		}
		if wantErr {
			if _, isRef := out.Ret[0].(avRef); !isRef {
				if p, isP := out.Ret[0].(avPtr); !isP || p.c != nil {
					return "returns a map together with an error: " + avString(out.Ret[0])
				}
			}
			if early && len(reqs) != 0 {
				return "asks the nodes although an earlier step failed"
			}
			return ""
		}
		if p, isP := out.Ret[0].(avPtr); isP && p.c == nil {
			return "returns no map although every step succeeded"
		}
		seen := map[string]bool{}
		for _, r := range reqs {
			if len(r.Args) != 5 {
				return "unexpected request arity: " + r.String()
			}
			idx, ok := r.Args[1].(avInt)
			if !ok || idx.atom != "" || idx.conc < 1 || int(idx.conc) > n {
				return "a request goes to server index " + avString(r.Args[1]) + fmt.Sprintf(" (valid: 1..%d)", n)
			}
			fo, _ := structFieldAV(r.Args[3], "FilterOptions")
			col := "unfiltered"
			if p, isP := fo.(avPtr); isP && p.c != nil {
				cid, _ := structFieldAV(p, "CollectionID")
				col = avString(cid)
			}
			if filtered != (col != "unfiltered") {
				return fmt.Sprintf("request filter is %s although collection filtering is %v", col, filtered)
			}
			if filtered && !strings.HasPrefix(col, "cid") {
				return "the filter names " + col + ", not one of the configured collection ids"
			}
			seen[fmt.Sprintf("%d/%s", idx.conc, col)] = true // (asking twice is redundant, not wrong: the merge keeps the maximum)
		}
		if len(seen) != n*k {
			return fmt.Sprintf("%d of the %d node × collection combinations are asked (%d nodes, %d filters)", len(seen), n*k, n, k)
		}
		return ""
	}, "requests ⊇ {1..NumServers()} × (configured collection ids | one unfiltered) and nothing else; map returned ⇔ every step succeeded")
}

// clientWiring (C13/C15/C17/C05): the client's own start and close paths, call by call. Every step below must be
// present, a plain call, and guarded by exactly the configuration switch that says whether its component exists
// (polarity included) — the other rules assume that the stream is opened, the listener subscribed, the health checker
// started, the components stopped.
func clientWiring(c *Ctx, id string) {
	w := c.W
	var start, cl, commit, setMd, newDcp *ssa.Function
	for _, fn := range w.ModFuncs {
		switch fname(fn) {
		case "(*dcp.dcp).Start":
			start = fn
		case "(*dcp.dcp).close":
			cl = fn
		case "(*dcp.dcp).Commit":
			commit = fn
		case "(*dcp.dcp).SetMetadata":
			setMd = fn
		case "dcp.newDcp":
			newDcp = fn
		}
	}
	leStart, leStop := w.Method("stream", "leaderElection", "Start"), w.Method("stream", "leaderElection", "Stop")
	c.need(start != nil && cl != nil && commit != nil && setMd != nil && newDcp != nil && leStart != nil && leStop != nil, id, "dcp.Start / close / Commit / SetMetadata / newDcp, leaderElection.Start / Stop")
	type step struct {
		fn     *ssa.Function
		what   string
		match  func(cc *ssa.CallCommon) bool
		guards []string // each "Field=bool": the configuration flag and the value it must have; "" = unconditional
	}
	inv := func(iface, method string) func(cc *ssa.CallCommon) bool {
		// by the declared interface of the field the call goes through (HealthCheck and LeaderElection share Start/Stop)
		return func(cc *ssa.CallCommon) bool {
			return cc.IsInvoke() && cc.Method.Name() == method && recvTypeName(cc.Value.Type()) == iface
		}
	}
	steps := []step{
		{start, "Stream.Open", inv("Stream", "Open"), nil},
		{start, "HealthCheck.Start", inv("HealthCheck", "Start"), []string{"HealthCheck.Disabled=false"}},
		{start, "ServiceDiscovery.StartHeartbeat", inv("ServiceDiscovery", "StartHeartbeat"), []string{"LeaderElection.Enabled=true"}},
		{start, "ServiceDiscovery.StartMonitor", inv("ServiceDiscovery", "StartMonitor"), []string{"LeaderElection.Enabled=true"}},
		{start, "LeaderElection.Start", inv("LeaderElection", "Start"), []string{"LeaderElection.Enabled=true"}},
		{cl, "HealthCheck.Stop", inv("HealthCheck", "Stop"), []string{"HealthCheck.Disabled=false"}},
		{cl, "Stream.Close", inv("Stream", "Close"), nil},
		{cl, "LeaderElection.Stop", inv("LeaderElection", "Stop"), []string{"LeaderElection.Enabled=true"}},
		{cl, "ServiceDiscovery.StopMonitor", inv("ServiceDiscovery", "StopMonitor"), []string{"LeaderElection.Enabled=true"}},
		{cl, "ServiceDiscovery.StopHeartbeat", inv("ServiceDiscovery", "StopHeartbeat"), []string{"LeaderElection.Enabled=true"}},
		{cl, "Client.DcpClose", inv("Client", "DcpClose"), nil},
		{cl, "Client.Close", inv("Client", "Close"), nil},
		{cl, "VBucketDiscovery.Close", inv("VBucketDiscovery", "Close"), nil},
		{commit, "Stream.Save", inv("Stream", "Save"), nil},
		{leStart, "rpc Server.Listen", inv("Server", "Listen"), nil},
		{leStart, "LeaderElector.Run", inv("LeaderElector", "Run"), nil},
		{leStop, "LeaderElector.Close", inv("LeaderElector", "Close"), nil},
		{leStop, "rpc Server.Shutdown", inv("Server", "Shutdown"), nil},
		{newDcp, "Client.Connect", inv("Client", "Connect"), nil},
		{newDcp, "HTTPClient.Connect", inv("HTTPClient", "Connect"), nil},
		{newDcp, "HTTPClient.GetVersion", inv("HTTPClient", "GetVersion"), nil},
		{newDcp, "HTTPClient.GetBucketInfo", inv("HTTPClient", "GetBucketInfo"), nil},
		{newDcp, "Client.DcpConnect", inv("Client", "DcpConnect"), nil},
	}
	for _, sp := range steps {
		c.see(sp.fn)
		var sites []ssa.Instruction
		allInstrs(sp.fn, func(in ssa.Instruction) {
			if cc := callOf(in); cc != nil && sp.match(cc) {
				sites = append(sites, in)
			}
		})
		key := "wiring:" + sp.what + "@" + fname(sp.fn)
		// the step may sit in a helper of the same package that the function calls (a context threaded through, a
		// block moved out): then the conditions are those of the whole chain of calls
		var chain []ssa.Instruction
		if len(sites) == 0 {
			type hit struct {
				site  ssa.Instruction
				chain []ssa.Instruction
			}
			var hits []hit
			var walk func(f *ssa.Function, ch []ssa.Instruction, d int, seen map[*ssa.Function]bool)
			walk = func(f *ssa.Function, ch []ssa.Instruction, d int, seen map[*ssa.Function]bool) {
				if d == 0 || seen[f] {
					return
				}
				seen[f] = true
				allInstrs(f, func(in ssa.Instruction) {
					cc := callOf(in)
					if cc == nil {
						return
					}
					if f != sp.fn && sp.match(cc) {
						hits = append(hits, hit{in, append([]ssa.Instruction{}, ch...)})
						return
					}
					if _, isCall := in.(*ssa.Call); !isCall {
						return
					}
					if g := cc.StaticCallee(); g != nil && g.Blocks != nil && w.inModule(g) && g.Pkg == sp.fn.Pkg {
						walk(g, append(append([]ssa.Instruction{}, ch...), in), d-1, seen)
					}
				})
			}
			walk(sp.fn, nil, 4, map[*ssa.Function]bool{})
			if len(hits) == 1 {
				sites = []ssa.Instruction{hits[0].site}
				chain = hits[0].chain
			}
		}
		if len(sites) != 1 {
			c.Fail(id, key, sp.fn.Pos(), "%d calls of %s in %s (expected exactly one)", len(sites), sp.what, fname(sp.fn))
			continue
		}
		in := sites[0]
		_, plain := in.(*ssa.Call)
		var got []string
		var allGuards []Guard
		for _, ci := range chain {
			allGuards = append(allGuards, liveGuards(ci.Block())...)
		}
		allGuards = append(allGuards, liveGuards(in.Block())...)
		for _, g := range allGuards {
			v, pol := stripNot(g.Cond, g.Branch)
			if f, _ := flagRead(v); f == nil {
				// a predicate method that returns the flag test
				if v2, pol2 := stripNotThroughPredicates(g.Cond, g.Branch); v2 != v {
					if f2, _ := flagRead(v2); f2 != nil {
						v, pol = v2, pol2
					}
				}
			}
			if f, _ := flagRead(v); f != nil {
				o := w.Origin(v)
				parts := strings.Split(o, ".")
				if len(parts) >= 2 {
					got = append(got, fmt.Sprintf("%s.%s=%v", parts[len(parts)-2], parts[len(parts)-1], pol))
					continue
				}
			}
			got = append(got, w.Origin(g.Cond)+fmt.Sprintf("=%v", g.Branch))
		}
		sort.Strings(got)
		want := append([]string{}, sp.guards...)
		sort.Strings(want)
		c.Check(plain && strings.Join(got, ",") == strings.Join(want, ","), id, key, in.Pos(), fmt.Sprintf("%s: plain call under %v", sp.what, want), fmt.Sprintf("%s is called (plain call: %v) under %v, expected under exactly %v", sp.what, plain, got, want))
	}
	// the listener is subscribed, and a failed subscription is fatal
	var sub *ssa.Call
	allInstrs(start, func(in ssa.Instruction) {
		if call, ok := in.(*ssa.Call); ok && call.Common().IsInvoke() && strings.HasPrefix(call.Common().Method.Name(), "Subscribe") {
			sub = call
		}
	})
	if sub == nil {
		c.Fail(id, "wiring:subscribe", start.Pos(), "Start no longer subscribes the membership listener")
	} else {
		fatal := false
		for _, sk := range errorSinks(sub) {
			if sk.Kind == "panic" {
				fatal = true
			}
		}
		c.Check(fatal && len(liveGuards(sub.Block())) == 0, id, "wiring:subscribe", sub.Pos(), "the membership listener is subscribed unconditionally and a failure is fatal", "the membership listener is not subscribed unconditionally with a fatal failure: membership changes would never reach the stream")
	}
	// SetMetadata stores what it was given
	okSM := false
	if f := w.Field("", "dcp", "metadata"); f != nil {
		allInstrs(setMd, func(in ssa.Instruction) {
			if st, ok := in.(*ssa.Store); ok && fieldOfAddr(st.Addr) == f && len(setMd.Params) == 2 && st.Val == ssa.Value(setMd.Params[1]) {
				okSM = true
			}
		})
	}
	c.Check(okSM, id, "wiring:SetMetadata", setMd.Pos(), "SetMetadata installs the supplied store", "SetMetadata does not install the store it was given: checkpoints go to the default backend")
	// newDcp applies the defaults before anything reads the configuration, and returns every error
	c.see(newDcp)
	var ad ssa.Instruction
	allInstrs(newDcp, func(in ssa.Instruction) {
		if cc := callOf(in); cc != nil && cc.StaticCallee() != nil && cc.StaticCallee().Name() == "ApplyDefaults" {
			ad = in
		}
	})
	okAD := ad != nil && len(guardsOf(ad.Block())) == 0
	if okAD {
		allInstrs(newDcp, func(in ssa.Instruction) {
			if cc := callOf(in); cc != nil && in != ad && cc.StaticCallee() != nil && w.inModule(cc.StaticCallee()) && !strings.Contains(fname(cc.StaticCallee()), "logger") && !dominatesInstr(ad, in) {
				okAD = false
			}
		})
	}
	c.Check(okAD, id, "wiring:defaults-first", newDcp.Pos(), "newDcp applies the defaults unconditionally before any other step", "newDcp does not apply the configuration defaults (first, unconditionally): unset options stay zero")
	var dropped []string
	allInstrs(newDcp, func(in ssa.Instruction) {
		call, ok := in.(*ssa.Call)
		if !ok || !hasErrorResult(call.Common()) {
			return
		}
		ers := errResults(call)
		if len(ers) == 0 || !reported(errorSinks(ers[0])) {
			dropped = append(dropped, calleeName(call.Common())+" @"+w.pos(in.Pos()))
		}
	})
	for _, fn := range w.ModFuncs {
		if fn.Pkg != newDcp.Pkg || (fn.Name() != "newDcpWithPath" && fn.Name() != "newDcpConfig") {
			continue
		}
		c.see(fn)
		allInstrs(fn, func(in ssa.Instruction) {
			call, ok := in.(*ssa.Call)
			if !ok || !hasErrorResult(call.Common()) {
				return
			}
			ers := errResults(call)
			if len(ers) == 0 || !reported(errorSinks(ers[0])) {
				dropped = append(dropped, calleeName(call.Common())+" @"+w.pos(in.Pos()))
			}
		})
	}
	// the configured backend is installed exactly when none was supplied (in Start or a helper method it calls)
	if f := w.Field("", "dcp", "metadata"); f != nil {
		nStores, bad := 0, ""
		unit := map[*ssa.Function]bool{start: true}
		for g := range w.syncCallees(start, 2, false) {
			if g.Signature.Recv() != nil && recvTypeName(g.Signature.Recv().Type()) == "dcp" {
				unit[g] = true
			}
		}
		knownNil := func(b *ssa.BasicBlock) bool {
			for _, g := range guardsOf(b) {
				v, pol := stripNot(g.Cond, g.Branch)
				eq, isCmp := isNilCompare(v, func(x ssa.Value) bool { return strings.HasSuffix(w.Origin(x), "recv.metadata") })
				if isCmp && eq == pol {
					return true
				}
			}
			return false
		}
		for g := range unit {
			c.see(g)
			allInstrs(g, func(in ssa.Instruction) {
				st, ok := in.(*ssa.Store)
				if !ok || fieldOfAddr(st.Addr) != f {
					return
				}
				if strings.Contains(w.Origin(st.Val), "recv.metadata") {
					return // a wrapper around the backend in place (the read-only decorator), not another backend
				}
				nStores++
				if !knownNil(in.Block()) {
					bad = w.pos(in.Pos())
				}
			})
		}
		c.Check(nStores > 0 && bad == "", id, "wiring:metadata-default", start.Pos(), fmt.Sprintf("Start installs a backend (%d stores) only under metadata == nil", nStores), "Start installs a checkpoint backend although one may have been supplied (or none at all) "+bad+": SetMetadata's store is replaced, or the client runs without a backend")
	}
	// the client object is built on the path on which every step succeeded
	built := false
	allInstrs(newDcp, func(in ssa.Instruction) {
		if al, ok := in.(*ssa.Alloc); ok && al.Heap {
			if n, isN := al.Type().(*types.Pointer).Elem().(*types.Named); isN && n.Obj().Name() == "dcp" && len(liveGuards(in.Block())) == 0 {
				built = true
			}
		}
	})
	c.Check(built, id, "wiring:client-built", newDcp.Pos(), "newDcp builds the client once every step succeeded", "newDcp does not build the client on the path on which every step succeeded (it returns no client and no error)")
	consumerChain(c, id, start, newDcp)
	c.Check(len(dropped) == 0, id, "wiring:newDcp-errors", newDcp.Pos(), "every fallible step of newDcp returns its error", "newDcp drops the error of "+strings.Join(dropped, ", ")+": the client starts on a connection, version or bucket description it does not have")
}

// liveGuards is guardsOf without the guards that only say an earlier fatal check was survived
// (if err != nil { panic(err) }): those are not conditions of the guarded step.
func liveGuards(b *ssa.BasicBlock) []Guard {
	var out []Guard
	for _, g := range guardsOf(b) {
		v, _ := stripNot(g.Cond, g.Branch)
		_, isErrTest := isNilCompare(v, func(x ssa.Value) bool { return types.Implements(x.Type(), errorIface()) })
		other := g.If.Block().Succs[0]
		if g.Branch {
			other = g.If.Block().Succs[1]
		}
		dies := false
		for _, x := range other.Instrs {
			if callsNoReturn(x) {
				dies = true
			}
			switch x.(type) {
			case *ssa.Panic:
				dies = true // whatever was tested, failing it is fatal
			case *ssa.Return:
				dies = dies || isErrTest // (if err != nil { return …, err } ends the function just as well)
			}
		}
		if dies {
			continue
		}
		out = append(out, g)
	}
	return out
}

// wrapperOutcomes (C20): every single-operation wrapper evaluated whole, with buffered channels kept concretely, over
// what can happen to its operation: completed successfully (callback before Wait returns), refused at dispatch,
// completed with the server's error (result arguments nil, as gocbcore passes them), never completed (Wait reports
// the deadline). The wrapper must return nil exactly in the first case, a non-nil error in the others, and must not
// block, panic or touch the absent result.
func wrapperOutcomes(c *Ctx, id string) {
	w := c.W
	type unit struct {
		root  *ssa.Function
		sites []*asyncSite
	}
	units := map[string]*unit{}
	for _, s := range asyncSites(w) {
		r := rootFn(s.Fn)
		if s.asyncOp() == nil || s.Fn != r {
			continue // (fan-out wrappers and operations awaited elsewhere are evaluated by their own rules)
		}
		u := units[fname(r)]
		if u == nil {
			u = &unit{root: r}
			units[fname(r)] = u
		}
		u.sites = append(u.sites, s)
	}
	// a server error of a dynamic type no wrapper knows (type assertions on it fail)
	otherErr := types.NewNamed(types.NewTypeName(token.NoPos, nil, "otherServerError", nil), types.NewStruct(nil, nil), nil)
	zeroOf := func(t types.Type) AV {
		switch u := t.Underlying().(type) {
		case *types.Pointer:
			return avPtr{nil}
		case *types.Slice:
			return avSlice{isNil: true}
		case *types.Interface:
			return avIface{isNil: true}
		case *types.Map, *types.Chan:
			return avRef{"nil"}
		case *types.Basic:
			switch {
			case u.Info()&types.IsInteger != 0:
				return avInt{}
			case u.Kind() == types.Bool:
				return avBool{}
			case u.Info()&types.IsString != 0:
				return avStr{isC: true}
			}
		}
		return avOpaque{"zero"}
	}
	// evaluated by a rule of its own, with a different success condition
	own := map[string]string{"Ping": "success additionally needs both service endpoints (the ping rule of C19/C20)"}
	n := 0
	for _, k := range sortedKeys(units) {
		u := units[k]
		if len(u.sites) != 1 || own[u.sites[0].Op] != "" {
			continue
		}
		site := u.sites[0]
		root := u.root
		res := root.Signature.Results()
		if res.Len() == 0 || !types.Identical(res.At(res.Len()-1).Type(), types.Universe.Lookup("error").Type()) {
			continue
		}
		n++
		c.see(root)
		noInline := map[string]bool{}
		for _, fn := range w.ModFuncs {
			if fn.Pkg == root.Pkg && (fn.Name() == "NewAsyncOp" || (fn.Signature.Recv() != nil && strings.EqualFold(recvTypeName(fn.Signature.Recv().Type()), "asyncOp"))) {
				noInline[fname(fn)] = true
			}
		}
		// another wrapper called on the way is taken as having succeeded with empty results (it is evaluated as a unit of its own)
		for k2, u2 := range units {
			if k2 != k {
				noInline[k2] = true
				_ = u2
			}
		}
		opLabel := fname(site.Call.Common().StaticCallee())
		cbSig, _ := site.CbValue.Type().Underlying().(*types.Signature)
		args := map[string]func(st *State) AV{}
		bools := []string{"hasCollectionsSupport"}
		choices := map[string]int{"operation": 4}
		for _, p := range root.Params {
			name := p.Name()
			switch pt := p.Type().Underlying().(type) {
			case *types.Map:
				args[name] = func(st *State) AV {
					return avMap{&mapObj{sym: name, keys: []AV{avOpaque{name + ".key0"}}, vals: []AV{avOpaque{name + ".val0"}}}}
				}
			case *types.Slice:
				// a list the wrapper is handed: two symbolic elements
				el := pt.Elem()
				args[name] = func(st *State) AV {
					return avSlice{cells: []*cell{{typ: el, sym: name + "[0]"}, {typ: el, sym: name + "[1]"}}}
				}
			case *types.Basic:
				switch {
				case pt.Kind() == types.Bool:
					bools = append(bools, name)
				case pt.Info()&types.IsInteger != 0:
					// a position in such a list (the parameter is used as an index): every position of the two
					isIndex := false
					for _, r := range *p.Referrers() {
						if ia, ok := r.(*ssa.IndexAddr); ok && ia.Index == ssa.Value(p) {
							isIndex = true
						}
					}
					if isIndex {
						choices[name] = 2
						args[name] = func(st *State) AV { return avInt{conc: int64(st.C(name))} }
					}
				}
			}
		}
		const (
			done = iota
			refused
			serverError
			silent
		)
		h := &Harness{Fn: root, Choices: choices, Bools: bools, Quiet: quietLog, MaxSteps: 20000, Concrete: true, NoInline: noInline, Args: args,
			Input: func(st *State, sym string, t types.Type) AV {
				// the collections inside a result the server sent have one (symbolic) element
				if sl, ok := t.Underlying().(*types.Slice); ok && strings.HasPrefix(sym, "result") {
					return avSlice{cells: []*cell{{typ: sl.Elem(), sym: sym + "[0]"}}}
				}
				return nil
			},
			Complete: func(st *State, name string, args []AV) (AV, [][]AV, bool) {
				if name != opLabel || cbSig == nil || (st.C("operation") != done && st.C("operation") != serverError) {
					return nil, nil, false
				}
				var cbArgs []AV
				for i := 0; i < cbSig.Params().Len(); i++ {
					t := cbSig.Params().At(i).Type()
					sym := fmt.Sprintf("result%d", i)
					switch u := t.Underlying().(type) {
					case *types.Interface:
						if types.Identical(t, types.Universe.Lookup("error").Type()) {
							if st.C("operation") == serverError {
								cbArgs = append(cbArgs, avIface{sym: "errServer", dyn: otherErr, val: avOpaque{"errServer"}})
							} else {
								cbArgs = append(cbArgs, avIface{isNil: true})
							}
						} else {
							cbArgs = append(cbArgs, avIface{sym: sym})
						}
					case *types.Pointer:
						if st.C("operation") == serverError {
							cbArgs = append(cbArgs, avPtr{nil})
						} else {
							cbArgs = append(cbArgs, avPtr{&cell{typ: u.Elem(), sym: sym}})
						}
					case *types.Slice:
						if st.C("operation") == serverError {
							cbArgs = append(cbArgs, avSlice{isNil: true})
						} else {
							cbArgs = append(cbArgs, avSlice{cells: []*cell{{typ: u.Elem(), sym: sym + "[0]"}}})
						}
					default:
						cbArgs = append(cbArgs, avOpaque{sym})
					}
				}
				return args[len(args)-1], [][]AV{cbArgs}, true
			},
			Oracle: func(st *State, name string, args []AV, res *types.Tuple) ([]AV, bool) {
				switch {
				case name == opLabel:
					if st.C("operation") == refused {
						return []AV{avIface{isNil: true}, avIface{sym: "errDispatch"}}, true
					}
					return []AV{avIface{sym: "pendingOp"}, avIface{isNil: true}}, true
				case strings.HasSuffix(name, ".Wait") && res != nil && res.Len() == 1 && len(args) >= 2:
					if e, ok := args[len(args)-1].(avIface); ok && !e.isNil {
						return []AV{e}, true
					}
					if st.C("operation") == silent {
						return []AV{avIface{sym: "errDeadline"}}, true
					}
					return []AV{avIface{isNil: true}}, true
				case strings.HasSuffix(name, ".NewAsyncOp"):
					return []AV{ptrResult(res, 0, "asyncOp")}, true
				case strings.HasSuffix(name, ".HasCollectionsSupport"):
					return []AV{avBool{st.B("hasCollectionsSupport")}}, true
				case strings.HasSuffix(name, ".Load") && res != nil && res.Len() == 2:
					// a shared result map a callback merges into: empty (what the merge does with an entry is another rule's)
					return []AV{zeroOf(res.At(0).Type()), avBool{false}}, true
				case units[name] != nil && res != nil:
					var out []AV
					for i := 0; i < res.Len(); i++ {
						out = append(out, zeroOf(res.At(i).Type()))
					}
					return out, true
				}
				return nil, false
			}}
		names := []string{"completed", "refused at dispatch", "completed with the server's error", "never completed"}
		c.oae(id, "outcome:"+site.key(), root.Pos(), h, func(st *State, out *Outcome) string {
			what := names[st.C("operation")]
			if out.Blocked != "" {
				return "operation " + what + ": the wrapper blocks for ever (" + out.Blocked + ")"
			}
			if out.Panicked {
				return "operation " + what + ": the wrapper panics (" + avString(out.PanicVal) + ")"
			}
			e, ok := out.Ret[len(out.Ret)-1].(avIface)
			if !ok {
				return "operation " + what + ": the returned error is not determined: " + avString(out.Ret[len(out.Ret)-1])
			}
			if (st.C("operation") == done) != e.isNil {
				return fmt.Sprintf("operation %s: the wrapper returns error=%s", what, avString(e))
			}
			if st.C("operation") == done {
				for _, r := range out.Ret[:len(out.Ret)-1] {
					if !mentionsResult(r) {
						return "the operation completed, but the wrapper returns " + avString(r) + ", which is not what the server answered"
					}
				}
			}
			return ""
		}, "nil (with the server's answer) ⇔ the operation completed without error; otherwise a non-nil error; never blocks, never panics")
	}
	c.Check(n >= 10, id, "outcome-floor", 0, fmt.Sprintf("%d single-operation wrappers evaluated", n), fmt.Sprintf("only %d single-operation wrappers found (expected ≥ 10)", n))
}

// mentionsResult: the value is (part of) a result object handed to the completion callback (symbols result<i>…).
func mentionsResult(a AV) bool {
	switch x := a.(type) {
	case avPtr:
		return x.c != nil && strings.HasPrefix(x.c.sym, "result")
	case avStruct:
		return x.c != nil && strings.HasPrefix(x.c.sym, "result")
	case avSlice:
		if strings.HasPrefix(x.sym, "result") {
			return true
		}
		for _, c := range x.cells {
			if strings.HasPrefix(c.sym, "result") {
				return true
			}
		}
		return false
	case avInt:
		return strings.HasPrefix(x.atom, "result")
	case avStr:
		return strings.HasPrefix(x.sym, "result")
	case avOpaque:
		return strings.Contains(x.why, " result")
	case avIface:
		return strings.HasPrefix(x.sym, "result") || (x.val != nil && mentionsResult(x.val))
	}
	return false
}

// collectionIDsExact (C03): the id→name table the events are labelled with. GetCollectionIDs evaluated whole for 0..2
// configured names × collection support × the resolution that fails: with collection support the table has exactly one
// entry per configured name, keyed by the id the server resolved for that name; without it the table is empty (never
// nil); a failed resolution ends start-up with the error and no table.
func collectionIDsExact(c *Ctx, id string) {
	w := c.W
	fn := w.Method("couchbase", "client", "GetCollectionIDs")
	one := w.Method("couchbase", "client", "getCollectionID")
	c.need(fn != nil && one != nil && len(fn.Params) == 3, id, "client.GetCollectionIDs(scope, names) / getCollectionID")
	c.see(fn)
	namesP := fn.Params[2].Name()
	for k := 0; k <= c.bound(2, 5); k++ {
		kk := k
		h := &Harness{Fn: fn, Bools: []string{"hasCollectionsSupport"}, Choices: map[string]int{"failsAt": kk + 1}, Quiet: quietLog, MaxSteps: 20000, Concrete: true,
			NoInline: map[string]bool{fname(one): true},
			Args: map[string]func(st *State) AV{namesP: func(st *State) AV {
				cs := []*cell{}
				for i := 0; i < kk; i++ {
					cs = append(cs, &cell{typ: types.Typ[types.String], sym: fmt.Sprintf("name%d", i), have: true, val: avStr{sym: fmt.Sprintf("name%d", i)}})
				}
				return avSlice{cells: cs}
			}},
			Oracle: func(st *State, name string, args []AV, res *types.Tuple) ([]AV, bool) {
				switch {
				case name == fname(one) && len(args) == 4:
					nm := avString(args[3])
					if strings.HasPrefix(nm, "name") && nm == fmt.Sprintf("name%d", st.C("failsAt")) {
						return []AV{avInt{}, avIface{sym: "errResolve"}}, true
					}
					return []AV{avOpaque{"int idOf(" + nm + ")"}, avIface{isNil: true}}, true
				case strings.HasSuffix(name, ".HasCollectionsSupport"):
					return []AV{avBool{st.B("hasCollectionsSupport")}}, true
				}
				return nil, false
			}}
		c.oae(id, fmt.Sprintf("collection-table[%d names]", k), fn.Pos(), h, func(st *State, out *Outcome) string {
			if out.Panicked || out.Blocked != "" {
				return "panics or blocks"
			}
			e, ok := out.Ret[1].(avIface)
			if !ok {
				return "the returned error is not determined: " + avString(out.Ret[1])
			}
			fails := st.B("hasCollectionsSupport") && st.C("failsAt") < kk
			if fails != !e.isNil {
				return fmt.Sprintf("returns error=%s although resolution failure=%v", avString(e), fails)
			}
			if fails {
				if _, isMap := out.Ret[0].(avMap); isMap {
					return "returns a table together with the error"
				}
				return ""
			}
			mm, isMap := out.Ret[0].(avMap)
			if !isMap {
				return "returns no table (" + avString(out.Ret[0]) + ") although nothing failed"
			}
			want := 0
			if st.B("hasCollectionsSupport") {
				want = kk
			}
			if len(mm.o.keys) != want {
				return fmt.Sprintf("the table has %d entries for %d configured names (collection support: %v)", len(mm.o.keys), kk, st.B("hasCollectionsSupport"))
			}
			for i := range mm.o.keys {
				nm := avString(mm.o.vals[i])
				if avString(mm.o.keys[i]) != "?int idOf("+nm+")" {
					return fmt.Sprintf("entry %s → %s: the name is not filed under the id resolved for it", avString(mm.o.keys[i]), nm)
				}
			}
			return ""
		}, "table = {idOf(name) → name | configured names} with collection support, {} without; (nil, err) when a resolution fails")
	}
}

// consumerChain: the user's listener/consumer reaches the stream unwrapped and unreplaced: NewDcp wraps the listener in
// the simple consumer, which calls it exactly once per event with the event's own context; every constructor variant
// hands the consumer on; newDcp stores it; Start gives NewStream that very field, and the collection table resolved
// from the configured scope and names.
func consumerChain(c *Ctx, id string, start, newDcp *ssa.Function) {
	w := c.W
	var simple, ce *ssa.Function
	var ctors []*ssa.Function
	for _, fn := range w.ModFuncs {
		if fn.Pkg != newDcp.Pkg {
			continue
		}
		switch {
		case fn.Name() == "NewSimpleConsumer":
			simple = fn
		case fn.Synthetic == "" && fn.Name() == "ConsumeEvent" && fn.Signature.Recv() != nil && recvTypeName(fn.Signature.Recv().Type()) == "simplifiedConsumer":
			ce = fn // pointer or value receiver
		case fn != newDcp && fn.Parent() == nil && (len(callsIn(fn, newDcp)) > 0 || fn.Name() == "NewDcp" || fn.Name() == "NewExtendedDcp"):
			ctors = append(ctors, fn)
		}
	}
	c.need(simple != nil && ce != nil && len(ctors) >= 2, id, "NewSimpleConsumer / simplifiedConsumer.ConsumeEvent / the constructors")
	// the field that keeps the listener: the function-typed field of the simple consumer (whatever it is called)
	lisField := ""
	recvT := ce.Signature.Recv().Type()
	if pt, isP := recvT.(*types.Pointer); isP {
		recvT = pt.Elem()
	}
	if st, ok := recvT.Underlying().(*types.Struct); ok {
		for i := 0; i < st.NumFields(); i++ {
			if _, isSig := st.Field(i).Type().Underlying().(*types.Signature); isSig {
				lisField = st.Field(i).Name()
			}
		}
	}
	c.need(lisField != "", id, "the listener field of the simple consumer")
	// the simple consumer calls the listener once with its own argument
	c.see(ce)
	n, okArg := 0, true
	for _, f := range withAnon(ce) {
		// (closures and deferred functions included: a retry in a recover handler is a second call)
		allInstrs(f, func(in ssa.Instruction) {
			cc := callOf(in)
			if cc == nil {
				return
			}
			if o := w.Origin(cc.Value); strings.HasSuffix(o, "recv."+lisField) || strings.HasSuffix(o, "."+lisField) && f != ce {
				n++
				_, plain := in.(*ssa.Call)
				if f != ce || !plain || len(cc.Args) != 1 || len(ce.Params) != 2 || w.Origin(cc.Args[0]) != w.Origin(ce.Params[1]) || len(guardsOf(in.Block())) != 0 {
					okArg = false
				}
			}
		})
	}
	c.Check(n == 1 && okArg, id, "consumer:listener-called", ce.Pos(), "the simple consumer calls the listener once, unconditionally, with the event it was given", "the simple consumer does not call the user's listener exactly once with the event it was given: events are lost or duplicated between the stream and the application")
	// NewSimpleConsumer keeps the listener
	c.see(simple)
	kept := false
	allInstrs(simple, func(in ssa.Instruction) {
		if st, ok := in.(*ssa.Store); ok && len(simple.Params) == 1 && st.Val == ssa.Value(simple.Params[0]) {
			if f := fieldOfAddr(st.Addr); f != nil && f.Name() == lisField {
				kept = true
			}
		}
	})
	c.Check(kept, id, "consumer:listener-kept", simple.Pos(), "NewSimpleConsumer keeps the listener it was given", "NewSimpleConsumer does not keep the listener it was given")
	// every constructor hands the consumer (or the wrapped listener) on
	for _, fn := range ctors {
		c.see(fn)
		bad := ""
		nCalls := 0
		isConsumer := func(t types.Type) bool {
			named, ok := t.(*types.Named)
			return ok && named.Obj().Name() == "Consumer"
		}
		var follow func(f *ssa.Function, depth int)
		follow = func(f *ssa.Function, depth int) {
			allInstrs(f, func(in ssa.Instruction) {
				cc := callOf(in)
				if cc == nil {
					return
				}
				okArg := func(a ssa.Value) bool {
					o := w.Origin(a)
					for _, fp := range f.Params {
						if o == "param("+fp.Name()+")" || o == "call("+fname(simple)+")(param("+fp.Name()+"))" {
							return true
						}
					}
					return false
				}
				if callee := cc.StaticCallee(); callee != nil {
					if callee.Pkg != newDcp.Pkg {
						return
					}
					for i, p := range callee.Params {
						if isConsumer(p.Type()) && i < len(cc.Args) {
							nCalls++
							if !okArg(cc.Args[i]) {
								bad = w.Origin(cc.Args[i]) + " @" + w.pos(in.Pos())
							}
						}
					}
					return
				}
				// a call through an entry of a package-level table of functions: every entry gets the consumer and is followed
				if tab := w.funcTableOf(cc.Value); len(tab) > 0 && depth < 2 {
					for i, a := range cc.Args {
						if isConsumer(a.Type()) {
							if !okArg(a) {
								bad = w.Origin(a) + " @" + w.pos(in.Pos())
							}
							for _, e := range tab {
								if i < len(e.Params) && isConsumer(e.Params[i].Type()) {
									c.see(e)
									follow(e, depth+1)
								}
							}
						}
					}
				}
			})
		}
		follow(fn, 0)
		c.Check(nCalls > 0 && bad == "", id, "consumer:handed-on@"+fname(fn), fn.Pos(), fmt.Sprintf("%d constructor calls receive the caller's consumer", nCalls), "the constructor hands on "+bad+" instead of the consumer (or wrapped listener) it was given")
	}
	// newDcp stores it; Start passes that field and the resolved collection table
	stored := false
	if f := w.Field("", "dcp", "consumer"); f != nil {
		allInstrs(newDcp, func(in ssa.Instruction) {
			if st, ok := in.(*ssa.Store); ok && fieldOfAddr(st.Addr) == f && len(newDcp.Params) == 2 && st.Val == ssa.Value(newDcp.Params[1]) {
				stored = true
			}
		})
	}
	c.Check(stored, id, "consumer:stored", newDcp.Pos(), "newDcp stores the consumer it was given", "newDcp does not store the consumer it was given")
	var ns *ssa.CallCommon
	var nsPos ssa.Instruction
	allInstrs(start, func(in ssa.Instruction) {
		if cc := callOf(in); cc != nil && cc.StaticCallee() != nil && cc.StaticCallee().Name() == "NewStream" {
			ns, nsPos = cc, in
		}
	})
	if ns == nil {
		c.Fail(id, "consumer:to-stream", start.Pos(), "Start does not build the stream with NewStream")
		return
	}
	bad := ""
	seen := 0
	for i, p := range ns.StaticCallee().Params {
		if i >= len(ns.Args) {
			break
		}
		o := w.Origin(ns.Args[i])
		switch t := p.Type().(type) {
		case *types.Named:
			if t.Obj().Name() == "Consumer" {
				seen++
				if o != "recv.consumer" {
					bad += " consumer←" + o
				}
			}
		case *types.Map:
			seen++
			if !strings.HasPrefix(o, "call(recv.client.GetCollectionIDs)(recv.config.ScopeName, recv.config.CollectionNames)#0") {
				bad += " collection table←" + o
			}
		}
	}
	c.Check(seen == 2 && bad == "", id, "consumer:to-stream", nsPos.Pos(), "NewStream receives the stored consumer and the table resolved from the configured scope and collection names", "NewStream receives"+bad+" (expected the stored consumer and GetCollectionIDs(config.ScopeName, config.CollectionNames))")
}

// consumerChainRule: the consumer chain as a rule of its own (C03).
func consumerChainRule(c *Ctx, id string) {
	var start, newDcp *ssa.Function
	for _, fn := range c.W.ModFuncs {
		switch fname(fn) {
		case "(*dcp.dcp).Start":
			start = fn
		case "dcp.newDcp":
			newDcp = fn
		}
	}
	c.need(start != nil && newDcp != nil, id, "dcp.Start / newDcp")
	consumerChain(c, id, start, newDcp)
}

// discoveryClosedOnlyByClient (C09): VBucketDiscovery.Close is called from the client's close path only.
func discoveryClosedOnlyByClient(c *Ctx, id string) {
	w := c.W
	n := 0
	bad := ""
	for _, fn := range w.ModFuncs {
		allInstrs(fn, func(in ssa.Instruction) {
			cc := callOf(in)
			if cc == nil || !cc.IsInvoke() || cc.Method.Name() != "Close" || recvTypeName(cc.Value.Type()) != "VBucketDiscovery" {
				return
			}
			n++
			if r := rootFn(fn); pkgOfFn(r) == "" || strings.HasSuffix(pkgOfFn(r), "/stream") {
				bad += " " + fname(fn) + "@" + w.pos(in.Pos())
			}
		})
	}
	c.Check(n > 0 && bad == "", id, "discovery-close", 0, fmt.Sprintf("%d call(s) of VBucketDiscovery.Close, none from package stream", n), "the stream closes the vBucket discovery:"+bad+" — the first rebalance unsubscribes the membership and every later partition is computed from a frozen numbering")
}
