package main

// rules_mut.go — rules added after the mutation survey: small protocols around the anchored mechanisms whose absence
// (a dropped call, a flipped polarity) none of the earlier rules noticed.

import (
	"fmt"
	"go/types"
	"sort"
	"strings"

	"golang.org/x/tools/go/ssa"
)

// rebalanceDecision (C11): Rebalance evaluated exhaustively over balancing × timer present × "Stop prevented the run":
// it only touches the timer ⇔ balancing ∧ timer≠nil; otherwise it takes the lock once, brackets with the two start
// callbacks, closes the stream (Close(false), balancing←true) ⇔ ¬balancing, and arms exactly one timer.
func rebalanceDecision(c *Ctx, id string) {
	w := c.W
	fn := w.Method("stream", "stream", "Rebalance")
	cl := w.Method("stream", "stream", "Close")
	c.need(fn != nil && cl != nil, id, "stream.stream.Rebalance / Close")
	recv := fn.Params[0].Name()
	bal, tnil := recv+".balancing", recv+".rebalanceTimer==nil"
	h := &Harness{Fn: fn, Bools: []string{bal, tnil, "stopped"}, Quiet: quietLog, NoInline: map[string]bool{fname(cl): true},
		Oracle: func(st *State, name string, args []AV, res *types.Tuple) ([]AV, bool) {
			switch name {
			case "(*time.Timer).Stop":
				return []AV{avBool{st.B("stopped")}}, true
			case "(*time.Timer).Reset":
				return []AV{avBool{true}}, true
			}
			return nil, false
		}}
	c.oae(id, "rebalance-decision", fn.Pos(), h, func(st *State, out *Outcome) string {
		if out.Panicked {
			return "panics"
		}
		cnt := func(suffix string) int {
			n := 0
			for _, e := range out.Trace {
				if strings.HasSuffix(e.Name, suffix) {
					n++
				}
			}
			return n
		}
		locks, closes, arms, resets := cnt("Mutex).Lock"), len(out.Effects(fname(cl))), cnt("time.AfterFunc"), cnt("(*time.Timer).Reset")
		before, after := cnt(".BeforeRebalanceStart"), cnt(".AfterRebalanceStart")
		if st.B(bal) && !st.B(tnil) {
			if locks+closes+before+after != 0 {
				return fmt.Sprintf("already balancing with a timer armed, yet lock=%d close=%d callbacks=%d", locks, closes, before+after)
			}
			if st.B("stopped") && (resets != 1 || arms != 0) {
				return fmt.Sprintf("Stop prevented the run: expected one Reset, got %d Reset / %d AfterFunc", resets, arms)
			}
			if !st.B("stopped") && (resets != 0 || arms != 1) {
				return fmt.Sprintf("the timer already fired: expected one new AfterFunc, got %d Reset / %d AfterFunc", resets, arms)
			}
			return ""
		}
		if locks != 1 || before != 1 || after != 1 || arms != 1 || resets != 0 {
			return fmt.Sprintf("a rebalance proper: lock=%d BeforeRebalanceStart=%d AfterRebalanceStart=%d AfterFunc=%d Reset=%d (each expected once, no Reset)", locks, before, after, arms, resets)
		}
		wantClose := 0
		if !st.B(bal) {
			wantClose = 1
		}
		if closes != wantClose {
			return fmt.Sprintf("stream closed %d times with balancing=%v", closes, st.B(bal))
		}
		if !st.B(bal) {
			if b, ok := out.Final(bal).(avBool); !ok || !b.b {
				return "the stream is closed but balancing is not raised: the end of the close would stop the client"
			}
		}
		return ""
	}, "timer only ⇔ balancing ∧ timer≠nil (Reset ⇔ Stop()=true, else re-arm); otherwise lock, callbacks, Close(false)+balancing←true ⇔ ¬balancing, one AfterFunc")
}

// sessionFlags (C13/C12/C16): the small flags a session hangs on.
//  * Stream.Close records its argument in the flag the end listener reads, before anything is closed;
//  * Close stops the mitigation ⇔ ¬Disabled and the schedule ⇔ checkpoint≠nil (polarity, not just presence);
//  * Close hands the finish token ⇔ the stream did not already finish by itself;
//  * IsOpen tells the truth: open←true is the last store of Open, open←false is stored by Close;
//  * Stream.Save is Checkpoint.Save; Open starts the schedule; the schedule's loop saves.
func sessionFlags(c *Ctx, id string) {
	w := c.W
	cl := w.Method("stream", "stream", "Close")
	op := w.Method("stream", "stream", "Open")
	sv := w.Method("stream", "stream", "Save")
	c.need(cl != nil && op != nil && sv != nil, id, "stream.stream.Close / Open / Save")
	c.see(cl)
	c.see(op)
	// cancel flag
	end := endListener(c, id)
	var cancelFlag *types.Var
	allInstrs(end, func(in ssa.Instruction) {
		if v, ok := in.(ssa.Value); ok {
			if f, _ := flagRead(v); f != nil && strings.Contains(strings.ToLower(f.Name()), "cancel") {
				cancelFlag = f
			}
		}
	})
	okCancel := false
	if cancelFlag != nil && len(cl.Params) > 1 {
		allInstrs(cl, func(in ssa.Instruction) {
			if f, _, val := flagWrite(in); f == cancelFlag && val == ssa.Value(cl.Params[1]) && len(guardsOf(in.Block())) == 0 {
				okCancel = true
				// before any stream is closed
				allInstrs(cl, func(x ssa.Instruction) {
					if cc := callOf(x); cc != nil && cc.StaticCallee() != nil && closesStreams(w, cc.StaticCallee()) && !dominatesInstr(in, x) {
						okCancel = false
					}
				})
			}
		})
	}
	c.Check(okCancel, id, "close-records-cancel", cl.Pos(), "Close stores its closeWithCancel argument, unconditionally and before the streams are closed, in the flag the end listener reads", "Close does not record its closeWithCancel argument in the flag the end listener reads (before closing the streams): ends caused by a cancelled shutdown would be reopened")
	// presence switches: polarity
	for _, sw := range []struct{ what, method string }{{"RollbackMitigation", "Stop"}, {"Checkpoint", "StopSchedule"}} {
		allInstrs(cl, func(in ssa.Instruction) {
			cc := callOf(in)
			if cc == nil || !isInvokeOf(cc, sw.what, sw.method) {
				return
			}
			gs := guardsOf(in.Block())
			ok := len(gs) == 1
			why := fmt.Sprintf("%d conditions", len(gs))
			if ok {
				v, pol := stripNot(gs[0].Cond, gs[0].Branch)
				if sw.what == "RollbackMitigation" {
					f, _ := flagRead(v)
					ok = f != nil && f.Name() == "Disabled" && !pol
					why = fmt.Sprintf("under Disabled=%v", pol)
				} else {
					eq, isCmp := isNilCompare(v, func(x ssa.Value) bool { return strings.HasSuffix(w.Origin(x), ".checkpoint") })
					ok = isCmp && (eq != pol)
					why = "under checkpoint == nil"
				}
			}
			c.Check(ok, id, "close-stops:"+sw.what, in.Pos(), sw.what+"."+sw.method+" is called ⇔ the component exists", sw.what+"."+sw.method+" is called "+why+": the background activity keeps running after Close, or Close dereferences a component that was never created")
		})
	}
	// finish token
	okTok, nTok := true, 0
	allInstrs(cl, func(in ssa.Instruction) {
		s, ok := in.(*ssa.Send)
		if !ok {
			return
		}
		nTok++
		gs := guardsOf(in.Block())
		if len(gs) != 1 {
			okTok = false
			return
		}
		v, pol := stripNot(gs[0].Cond, gs[0].Branch)
		f, _ := flagRead(v)
		if f == nil || !strings.Contains(f.Name(), "FinishedWithEndEvent") || pol {
			okTok = false
		}
		_ = s
	})
	c.Check(okTok && nTok == 1, id, "close-token", cl.Pos(), "Close hands the finish token ⇔ the stream did not already finish through its end events", fmt.Sprintf("Close's finish token is not sent exactly when ¬streamFinishedWithEndEvent (%d sends): the waiter misses the close, or Close blocks on a token nobody takes", nTok))
	// open flag
	openF := w.Field("stream", "stream", "open")
	if openF == nil {
		c.Undecided(id, "open-flag", 0, "stream.open not found")
	} else {
		var lastTrue ssa.Instruction
		allInstrs(op, func(in ssa.Instruction) {
			if f, _, val := flagWrite(in); f == openF && w.Origin(val) == "const(true)" {
				lastTrue = in
			}
		})
		okOpen := lastTrue != nil && len(guardsOf(lastTrue.Block())) == 0
		if okOpen {
			// nothing but the return follows; in particular the observers/positions are in place and the streams open
			allInstrs(op, func(in ssa.Instruction) {
				if cc := callOf(in); cc != nil && cc.StaticCallee() != nil && w.inModule(cc.StaticCallee()) && !dominatesInstr(in, lastTrue) && in.Block() == lastTrue.Block() {
					if _, isGo := in.(*ssa.Go); !isGo && instrBefore(lastTrue, in) {
						okOpen = false
					}
				}
			})
		}
		okClose := false
		allInstrs(cl, func(in ssa.Instruction) {
			if f, _, val := flagWrite(in); f == openF && w.Origin(val) == "const(false)" && len(guardsOf(in.Block())) == 0 {
				okClose = true
			}
		})
		c.Check(okOpen && okClose, id, "open-flag", op.Pos(), "open←true at the very end of Open, open←false in Close, both unconditional", fmt.Sprintf("IsOpen does not tell the truth (raised at the end of Open: %v, lowered by Close: %v): the state endpoints read positions of a stream that is not there, or refuse while it is", okOpen, okClose))
	}
	// Stream.Save = Checkpoint.Save
	nSave := 0
	allInstrs(sv, func(in ssa.Instruction) {
		if cc := callOf(in); cc != nil && isInvokeOf(cc, "Checkpoint", "Save") && len(guardsOf(in.Block())) == 0 {
			if _, plain := in.(*ssa.Call); plain {
				nSave++
			}
		}
	})
	c.Check(nSave == 1, id, "save-forwards", sv.Pos(), "Stream.Save calls Checkpoint.Save", fmt.Sprintf("Stream.Save makes %d unconditional Checkpoint.Save calls: Commit and the final save of Close store nothing", nSave))
	// the schedule
	nStart := 0
	allInstrs(op, func(in ssa.Instruction) {
		if cc := callOf(in); cc != nil && isInvokeOf(cc, "Checkpoint", "StartSchedule") && len(guardsOf(in.Block())) == 0 {
			nStart++
		}
	})
	c.Check(nStart == 1, id, "schedule-started", op.Pos(), "Open starts the checkpoint schedule", fmt.Sprintf("Open makes %d unconditional StartSchedule calls: nothing is saved periodically", nStart))
	for _, ss := range w.implsOf("stream", "Checkpoint", "StartSchedule") {
		c.see(ss)
		saves := false
		for _, f := range withWorkers(ss) {
			if f == ss {
				continue
			}
			cyc := cycleBlocks(f)
			allInstrs(f, func(in ssa.Instruction) {
				if cc := callOf(in); cc != nil && cc.StaticCallee() != nil && cc.StaticCallee().Name() == "Save" && cyc[in.Block()] {
					saves = true
				}
			})
		}
		// auto only
		okAuto := false
		allInstrs(ss, func(in ssa.Instruction) {
			if _, isGo := in.(*ssa.Go); isGo {
				for _, g := range guardsOf(in.Block()) {
					if o := w.Origin(g.Cond); strings.Contains(o, "Checkpoint.Type") {
						okAuto = (strings.Contains(o, "!=") && !g.Branch) || (strings.Contains(o, "==") && g.Branch)
					}
				}
			}
		})
		c.Check(saves && okAuto, id, "schedule-saves@"+fname(ss), ss.Pos(), "with automatic checkpointing StartSchedule spawns a loop that calls Save", fmt.Sprintf("the checkpoint schedule does not save (loop calls Save: %v, spawned exactly under Type==auto: %v)", saves, okAuto))
	}
}

// closeModePolarity (C18): the serial loop runs when the version gate is set, the concurrent one when it is not.
func closeModePolarity(c *Ctx, id string) {
	w := c.W
	f := w.Field("stream", "stream", "streamEndNotSupportedData")
	c.need(f != nil, id, "stream.streamEndNotSupportedData")
	n := 0
	for _, fn := range w.ModFuncs {
		if fn.Parent() != nil || fn.Signature.Recv() == nil || recvTypeName(fn.Signature.Recv().Type()) != "stream" || isGoWorker(w, fn) {
			continue
		}
		for _, g := range withWorkers(fn) {
			allInstrs(g, func(in ssa.Instruction) {
				cc := callOf(in)
				if cc == nil || !isInvokeOf(cc, "Client", "CloseStream") {
					return
				}
				// which branch of the gate are we in (looking at the site, the spawn site and the helper's call site)
				var blocks []*ssa.BasicBlock
				blocks = append(blocks, in.Block())
				if g != fn {
					for _, h := range withAnon(fn) {
						allInstrs(h, func(x ssa.Instruction) {
							switch y := x.(type) {
							case *ssa.MakeClosure:
								if y.Fn == ssa.Value(g) || y.Fn == ssa.Value(rootFn(g)) {
									blocks = append(blocks, x.Block())
								}
							case *ssa.Go:
								if y.Common().StaticCallee() == g {
									blocks = append(blocks, x.Block())
								}
							}
						})
					}
					// a closure nested in a Range callback: the callback's own creation site
					if p := g.Parent(); p != nil && p != fn {
						allInstrs(fn, func(x ssa.Instruction) {
							if mc, ok := x.(*ssa.MakeClosure); ok && mc.Fn == ssa.Value(p) {
								blocks = append(blocks, x.Block())
							}
						})
					}
				}
				for _, cs := range w.callersOf(fn) {
					blocks = append(blocks, cs.Call.Block())
				}
				branch := ""
				for _, b := range blocks {
					for _, gd := range guardsOf(b) {
						v, pol := stripNot(gd.Cond, gd.Branch)
						if eq, isCmp := isNilCompare(v, func(x ssa.Value) bool { return loadedField(unwrap(x)) == f }); isCmp {
							if eq == pol {
								branch = "nil"
							} else {
								branch = "set"
							}
						}
					}
				}
				serial := g == fn && len(cycleBlocks(g)) > 0 && cycleBlocks(g)[in.Block()]
				_, isGo := in.(*ssa.Go)
				concurrent := g != fn || isGo
				n++
				switch {
				case serial && !concurrent:
					c.Check(branch == "set", id, "close-mode:serial@"+fname(fn), in.Pos(), "the one-by-one loop runs when the version gate is set", "the one-by-one close loop runs in the branch where streamEndNotSupportedData is "+branch+" (expected: set)")
				case concurrent:
					c.Check(branch == "nil", id, "close-mode:concurrent@"+fname(fn), in.Pos(), "the concurrent close runs when the version gate is not set", "the concurrent close runs in the branch where streamEndNotSupportedData is "+branch+" (expected: nil): a server below 5.5.0 gets concurrent close requests")
				}
			})
		}
	}
	if n < 2 {
		c.Undecided(id, "close-mode", 0, "only %d CloseStream sites", n)
	}
}

// workersSignal (C15/C02/C13): a function that fans work out and waits for it. In each listed function the WaitGroup
// is sized by the collection that is iterated (len / Count, or Add(1) per spawn), every worker signals Done exactly
// once on every non-panicking path, and every return of the function is preceded by Wait.
func workersSignal(names ...string) func(c *Ctx, id string) {
	return func(c *Ctx, id string) {
		w := c.W
		for _, name := range names {
			var fn *ssa.Function
			for _, f := range w.ModFuncs {
				if f.Parent() == nil && strings.HasSuffix(fname(f), name) {
					fn = f
				}
			}
			if fn == nil {
				c.Undecided(id, "workers-signal:"+name, 0, "function %s not found", name)
				continue
			}
			c.see(fn)
			var wait ssa.Instruction
			nAdd := 0
			okAdd := true
			allInstrs(fn, func(in ssa.Instruction) {
				cc := callOf(in)
				if cc == nil {
					return
				}
				switch cn := calleeName(cc); {
				case strings.HasSuffix(cn, "WaitGroup).Wait"):
					wait = in
				case strings.HasSuffix(cn, "WaitGroup).Add"):
					nAdd++
					o := w.Origin(cc.Args[len(cc.Args)-1])
					inLoop := cycleBlocks(fn)[in.Block()]
					if !(strings.HasPrefix(o, "len(") || strings.Contains(o, ").Count)(") || (o == "const(1)" && inLoop)) {
						okAdd = false
					}
				}
			})
			// workers
			var bad []string
			nWorkers := 0
			for _, wk := range withWorkers(fn) {
				if wk == fn {
					continue
				}
				spawned := false
				for _, h := range withWorkers(fn) {
					allInstrs(h, func(x ssa.Instruction) {
						if g, ok := x.(*ssa.Go); ok {
							if g.Common().StaticCallee() == wk || closureOf(g.Common().Value) == wk {
								spawned = true
							}
						}
					})
				}
				if !spawned {
					continue
				}
				nWorkers++
				seqs, complete := pathEvents(wk, func(in ssa.Instruction) (string, *ssa.Function) {
					if cc := callOf(in); cc != nil && strings.HasSuffix(calleeName(cc), "WaitGroup).Done") {
						return "Done", nil
					}
					return "", nil
				}, 0)
				for _, s := range seqs {
					if strings.HasSuffix(s, "!panic") {
						continue
					}
					if s != "Done" {
						bad = append(bad, fmt.Sprintf("%s: a path signals %q", fname(wk), s))
					}
				}
				if !complete {
					bad = append(bad, fname(wk)+": path enumeration incomplete")
				}
			}
			okWait := wait != nil
			if okWait {
				allInstrs(fn, func(in ssa.Instruction) {
					if _, isRet := in.(*ssa.Return); isRet && !(fn.Recover != nil && in.Block() == fn.Recover) && !dominatesInstr(wait, in) {
						// a return that happens before any worker was spawned (early validation) is fine
						spawnBefore := false
						allInstrs(fn, func(x ssa.Instruction) {
							if _, isGo := x.(*ssa.Go); isGo && dominatesInstr(x, in) {
								spawnBefore = true
							}
						})
						if spawnBefore || cycleBlocks(fn)[in.Block()] {
							okWait = false
						}
					}
				})
			}
			sort.Strings(bad)
			c.Check(len(bad) == 0 && nWorkers >= 1 && nAdd >= 1 && okAdd && okWait, id, "workers-signal:"+name, fn.Pos(), fmt.Sprintf("%d worker(s): Done exactly once on every non-panicking path; Add sized by the iterated collection; Wait before return", nWorkers),
				fmt.Sprintf("%s does not wait for exactly its workers (workers=%d, Add ok=%v (%d), Wait before every return=%v) %s: it returns with work in flight, or hangs", name, nWorkers, okAdd, nAdd, okWait, strings.Join(bad, "; ")))
		}
	}
}

// upsertLadder (C05/C20): the per-vBucket checkpoint write is: upsert; only if that failed with "key not found":
// create the document and, only if that succeeded, upsert again; the error of the last step taken is returned.
func upsertLadder(c *Ctx, id string) {
	w := c.W
	outer := w.Method("couchbase", "cbMetadata", "saveVBucketCheckpoint")
	c.need(outer != nil && len(outer.AnonFuncs) == 1, id, "cbMetadata.saveVBucketCheckpoint returning one closure")
	fn := outer.AnonFuncs[0]
	c.see(fn)
	var ups []*ssa.Call
	var create *ssa.Call
	seqs, complete := pathEvents(fn, func(in ssa.Instruction) (string, *ssa.Function) {
		call, ok := in.(*ssa.Call)
		if !ok || call.Common().StaticCallee() == nil {
			return "", nil
		}
		switch call.Common().StaticCallee().Name() {
		case "UpsertXattrs":
			ups = append(ups, call)
			return "upsert", nil
		case "CreateDocument":
			create = call
			return "create", nil
		}
		return "", nil
	}, 0)
	want := map[string]bool{"upsert": true, "upsert create": true, "upsert create upsert": true}
	ok := complete && len(seqs) == 3
	for _, s := range seqs {
		if !want[s] {
			ok = false
		}
	}
	c.Check(ok, id, "upsert-ladder:paths", fn.Pos(), fmt.Sprintf("paths %q", seqs), fmt.Sprintf("the checkpoint write does not follow upsert | upsert→create | upsert→create→upsert: %q", seqs))
	if create == nil || len(ups) == 0 {
		return
	}
	first := ups[0]
	for _, u := range ups {
		if instrBefore(u, first) || (u.Block() != first.Block() && u.Block().Dominates(first.Block())) {
			first = u
		}
	}
	// create: only after the first upsert failed, with key-not-found
	gFail := errGuard(create.Block(), false, func(v ssa.Value) bool { return v == ssa.Value(first) })
	gKNF := false
	for _, g := range guardsOf(create.Block()) {
		o := w.Origin(g.Cond)
		if strings.Contains(o, "StatusCode") && strings.Contains(o, "StatusKeyNotFound") || strings.Contains(o, "StatusCode") && strings.Contains(o, "const(1)") {
			if b, isB := g.Cond.(*ssa.BinOp); isB && ((b.Op.String() == "==" && g.Branch) || (b.Op.String() == "!=" && !g.Branch)) {
				gKNF = true
			}
		}
	}
	c.Check(gFail && gKNF, id, "upsert-ladder:create", create.Pos(), "the document is created only after the upsert failed with key-not-found", fmt.Sprintf("the create step is not guarded by (first upsert failed: %v) ∧ (status = key not found: %v)", gFail, gKNF))
	// second upsert: only after create succeeded
	for _, u := range ups {
		if u == first {
			continue
		}
		ok2 := errGuard(u.Block(), true, func(v ssa.Value) bool { return v == ssa.Value(create) })
		c.Check(ok2, id, "upsert-ladder:retry", u.Pos(), "the second upsert runs only after the create succeeded", "the second upsert is not guarded by the create's success")
	}
	// the result is the error of the last step
	for _, call := range append(append([]*ssa.Call{}, ups...), create) {
		c.Check(reported(errorSinks(call)), id, fmt.Sprintf("upsert-ladder:result:%s", w.pos(call.Pos())), call.Pos(), "the step's error can reach the result", "a step's error never reaches the result: an unconfirmed write is reported as success")
	}
}

// setterStores (C06): SetVbUUID assigns its parameter to observer.vbUUID, unconditionally.
func setterStores(c *Ctx, id string) {
	w := c.W
	oi := observerInfo(c, id)
	fn := w.Method("couchbase", oi.typ.Obj().Name(), "SetVbUUID")
	c.need(fn != nil && len(fn.Params) == 2, id, "observer.SetVbUUID")
	c.see(fn)
	f := w.Field("couchbase", oi.typ.Obj().Name(), "vbUUID")
	n := 0
	allInstrs(fn, func(in ssa.Instruction) {
		if st, ok := in.(*ssa.Store); ok && fieldOfAddr(st.Addr) == f && st.Val == ssa.Value(fn.Params[1]) && len(guardsOf(in.Block())) == 0 {
			n++
		}
	})
	c.Check(n == 1, id, "setter-stores:SetVbUUID", fn.Pos(), "vbUUID ← parameter, unconditionally", fmt.Sprintf("SetVbUUID makes %d unconditional stores of its parameter: offsets keep the branch id the session started with", n))
}

// fileLoadExact (C02/C15): the file backend, exhaustively over the three outcomes of reading the file:
// read ok → (state, exist=true, nil); does not exist → (state, exist=false, nil); any other error → that error.
func fileLoadExact(c *Ctx, id string) {
	w := c.W
	fn := w.Method("metadata", "fileMetadata", "Load")
	c.need(fn != nil, id, "metadata.fileMetadata.Load")
	h := &Harness{Fn: fn, Choices: map[string]int{"read": 3}, Quiet: quietLog, MaxSteps: 4000,
		Args: map[string]func(st *State) AV{fn.Params[1].Name(): func(st *State) AV { return avSlice{cells: []*cell{}} }},
		Oracle: func(st *State, name string, args []AV, res *types.Tuple) ([]AV, bool) {
			switch {
			case name == "os.ReadFile":
				switch st.C("read") {
				case 0:
					return []AV{avSlice{sym: "fileBytes"}, avIface{isNil: true}}, true
				case 1:
					return []AV{avSlice{isNil: true}, avIface{sym: "notExist"}}, true
				default:
					return []AV{avSlice{isNil: true}, avIface{sym: "ioError"}}, true
				}
			case name == "errors.Is":
				if e, ok := args[0].(avIface); ok {
					return []AV{avBool{e.sym == "notExist" && strings.HasSuffix(avString(args[1]), "ErrNotExist")}}, true
				}
			case strings.HasSuffix(name, ".UnmarshalJSON"):
				return []AV{avIface{isNil: true}}, true
			}
			return nil, false
		}}
	c.oae(id, "file-load", fn.Pos(), h, func(st *State, out *Outcome) string {
		if out.Panicked {
			return "panics"
		}
		if len(out.Ret) != 3 {
			return "unexpected result arity"
		}
		errV, _ := out.Ret[2].(avIface)
		existV, _ := out.Ret[1].(avBool)
		switch st.C("read") {
		case 0:
			if !errV.isNil || !existV.b {
				return fmt.Sprintf("file read: returns exist=%v err=%s, expected exist=true, nil", existV.b, avString(out.Ret[2]))
			}
		case 1:
			if !errV.isNil || existV.b {
				return fmt.Sprintf("file does not exist: returns exist=%v err=%s, expected exist=false, nil", existV.b, avString(out.Ret[2]))
			}
		default:
			if errV.isNil {
				return "the read failed for another reason but no error is returned: the session starts as if there were no checkpoint"
			}
		}
		return ""
	}, "read ok → exist, nil; ErrNotExist → ¬exist, nil; other error → error")
}
