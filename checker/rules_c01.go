package main

import (
	"go/types"
	"strings"

	"golang.org/x/tools/go/ssa"
)

func init() {
	register(&Property{
		ID: "C01",
		Explanation: "Decides the provenance clauses of C01 on the current source: (R1) the per-vBucket position map is mutated only by the position writer and replaced only by the session load / an empty map; " +
			"(R2) every call of the position writer is an acknowledgement (a closure whose only use is ListenerContext.Ack), an absorption of a library-internal key (true branch of IsMetadata) or an absorption of a non-document event (type-switch arm of a non-document wrapper), and the library never invokes Ack/Commit itself; " +
			"(R3) the writer stores its own parameters and every caller passes the vbID/offset of the very event it handles; (R4) each stream-observer handler stamps the event's own seqNo into the offset; " +
			"(R5) the saved document's seqNo is the tracked offset's seqNo under the tracked key; (R6) the backends write the document they are given under the key of its vBucket; (R7) offsets/snapshot markers are never mutated after construction. " +
			"Not decided: that the consumer calls Ack only for events it finished, the server's handling of the sub-document write, durability of a completed write, runtime interleavings (the argument is per-document provenance, which is schedule-independent).",
		Assumptions: []string{
			"Go type checker and golang.org/x/tools/go/ssa (v0.29.0) represent the program faithfully",
			"concurrent-swiss-map Store/Load are per-key atomic; gocbcore invokes each stream-observer handler with the event it received",
			"custom Metadata implementations supplied through SetMetadata are out of scope",
		},
		Rules: []RuleDef{
			{ID: "C01.R23", Text: "no acknowledgement carries the checkpoint past an event the consumer never saw: a document or system event outside the announced snapshot stops the client instead of being dropped (same rule as C06.R2)", Run: c06r2},
			{ID: "C01.R22", Text: "a failed save forgets nothing: the dirty marks and the save flag are cleared only after, and only under err==nil of, the store call (same rules as C05.R3 and C05.R4)", Run: func(c *Ctx, id string) { c05r3(c, id); c05r4(c, id) }},
			{ID: "C01.R1", Text: "the position map is mutated only by the position writer (Store of its own parameters) and assigned only from Checkpoint.Load()#0 or a fresh empty map", Run: c01r1},
			{ID: "C01.R2", Text: "every call of the position writer is an Ack closure, a metadata-key absorption or a non-document-event absorption; the library never calls ListenerContext.Ack/Commit", Run: c01r2},
			{ID: "C01.R3", Text: "callers of the position writer / forwarder pass the vbID and offset of the same event value they handle", Run: c01r3},
			{ID: "C01.R4", Text: "every sequence-bearing stream-observer handler builds Offset.SeqNo from its own event's SeqNo without arithmetic", Run: c01r4},
			{ID: "C01.R5", Text: "Checkpoint.Save dumps, per ranged key, Checkpoint.SeqNo ← offset.SeqNo of the tracked position map and hands exactly that map to Metadata.Save", Run: c01r5},
			{ID: "C01.R6", Text: "Metadata.Save backends marshal the document they are given and derive the document id from the same vBucket id", Run: c01r6},
			{ID: "C01.R8", Text: "the resume position is the stored one: Load builds each offset from the loaded document's own fields and never modifies a loaded document (same rule as C02.R2)", Run: c02r2},
			{ID: "C01.R9", Text: "a missing checkpoint is concluded only from evidence (file: exactly os.ErrNotExist; Couchbase: after read and parse) — otherwise a read fault at restart would move every vBucket past unsettled events (same rule as C02.R7)", Run: c02r7},
			{ID: "C01.R10", Text: "only library-internal keys are absorbed without an acknowledgement: IsMetadata ⇔ the key starts with one of the two reserved prefixes (same rule as C14.R2)", Run: c14r2},
			{ID: "C01.R11", Text: "absorbed events are the server's: every event wrapper is built by the stream-observer handler of its own kind from the event it received — no synthetic system/seqno-advanced event moves the position (same rule as C03.R4)", Run: c03r4},
			{ID: "C01.R12", Text: "the tracked positions live in a faithful map: a Store is a store of that key, a Load returns what was stored (same rule as C04.R9)", Run: wrapperFaithful},
			{ID: "C01.R13", Text: "a backend is only ever handed Checkpoint.Save's dump: every invocation of Metadata.Save is that call or a wrapping backend forwarding its own parameters (no helper re-packs documents under keys of its own)", Run: whoMaySave},
			{ID: "C01.R14", Text: "a checkpoint document belongs to one (group, vBucket): its key is a function of the group name and the vBucket id of the call, never a cached value (same rule as C14.R4)", Run: c14r4},
			{ID: "C01.R15", Text: "a restart answered with a rollback still re-delivers everything above the checkpoint: the catch-up filter skips ⇔ need ∧ seq ≤ F and nothing else (same rule as C08.R5)", Run: c08r5},
			{ID: "C01.R16", Text: "the store the checkpoint reaches is the one that was configured: no layer that is not a proven pass-through sits in front of a collaborator (same rules as C20.R19 and C20.R20)", Run: func(c *Ctx, id string) { decoratorsTransparent()(c, id); noNewLayers(c, id) }},
			{ID: "C01.R17", Text: "an absorbed event never overtakes a document that is still on its way to the consumer: every handler hands its event on synchronously, in the order the server sent them (same rule as C03.R1)", Run: c03r1},
			{ID: "C01.R19", Text: "the marks raised for the start positions and for settled events reach the next save: reading the stream changes nothing — the getters of the Stream interface store to no field, update no map and call no mutator, so a scrape or a state request between two saves cannot take the dirty marks away", Run: streamGettersArePure},
			{ID: "C01.R20", Text: "a session resumes only from a position the vBucket has: Load stops the start ⇔ the stored seqNo is beyond the high seqNo of the same vBucket, whatever the bucket type — resuming from a position ahead of a re-created vBucket ends in a rollback whose catch-up window drops the new history up to the old checkpoint (same rule as C15.R1)", Run: c15r1},
			{ID: "C01.R21", Text: "a group that starts at latest gets its start position saved: Load marks every vBucket whose current seqNo is not 0 for the next save and raises the save flag (evaluated whole: mark ∧ flag ⇔ seqNo ≠ 0; one store under the same key; fail-over log error ⇒ stop) — otherwise a restart before the first acknowledged save starts at a later latest, past delivered and unacknowledged events", Run: latestStartMarked},
			{ID: "C01.R18", Text: "an event the listener never looked at cannot be settled, yet later acknowledgements carry the checkpoint past it: every path through the listener reaches the dispatch on the event type, and a document is forwarded under no predicate of the listener (same rule as C03.R2)", Run: c03r2},
			{ID: "C01.R7", Text: "no store through a pointer to a field of models.Offset / models.SnapshotMarker outside the composite literal that allocates it", Run: immutableOffsets},
		},
	})
}

func (c *Ctx) see(fn *ssa.Function) {
	if fn != nil {
		c.FuncsSeen[fname(fn)] = true
	}
}

// ---- R1
func c01r1(c *Ctx, id string) {
	w := c.W
	muts := w.offsetMapMutations()
	nWriter := 0
	for _, m := range muts {
		c.see(m.Fn)
		c.CallSites++
		construct := m.Method + "@" + fname(m.Fn)
		if freshMapIn(m.Recv, m.Fn) {
			c.OKTrivial(id, construct, m.Call.Pos(), "populates a map created in the same function (session load), receiver %s", w.Origin(m.Recv))
			continue
		}
		nWriter++
		if m.Method != "Store" {
			c.Fail(id, construct, m.Call.Pos(), "the shared position map is mutated with %s (only a guarded Store of the writer's parameters is allowed); receiver %s", m.Method, w.Origin(m.Recv))
			continue
		}
		if m.Fn.Parent() != nil {
			c.Fail(id, construct, m.Call.Pos(), "position map stored to from an anonymous function %s", fname(m.Fn))
			continue
		}
		cc := m.Call.Common()
		k, v := cc.Args[1], cc.Args[2]
		kp, kok := unwrap(k).(*ssa.Parameter)
		vp, vok := unwrap(v).(*ssa.Parameter)
		if !(kok && vok) {
			// … or the fields of the writer's parameter bundle
			if in := w.writerInputs(m.Fn); in.vb != nil && in.off != nil && w.Origin(k) == in.vb.Term() && w.Origin(v) == in.off.Term() {
				kp, vp, kok, vok = in.vb.P, in.off.P, true, true
			}
		}
		if kok && vok && kp.Parent() == m.Fn && vp.Parent() == m.Fn {
			c.OK(id, construct, m.Call.Pos(), "Store(key=%s, value=%s) on %s", w.Origin(k), w.Origin(v), w.Origin(m.Recv))
		} else {
			c.Fail(id, construct, m.Call.Pos(), "position writer does not store its own parameters: Store(key=%s, value=%s)", w.Origin(k), w.Origin(v))
		}
	}
	if nWriter == 0 {
		c.Undecided(id, "position-writer", 0, "no function mutates a shared offset map — anchor lost")
	}
	// assignments to the field(s) that hold the tracked position map (the receivers of the writer's mutations)
	owner := map[*types.Var]bool{}
	for _, m := range muts {
		if f := loadedField(unwrap(m.Recv)); f != nil && !freshMapIn(m.Recv, m.Fn) {
			owner[f] = true
		}
	}
	n := 0
	for _, fn := range w.ModFuncs {
		allInstrs(fn, func(in ssa.Instruction) {
			st, ok := in.(*ssa.Store)
			if !ok {
				return
			}
			f := fieldOfAddr(st.Addr)
			if f == nil || !w.isOffsetMap(f.Type()) || !owner[f] {
				return
			}
			n++
			c.see(fn)
			construct := "assign:" + f.Name() + "@" + fname(fn)
			org := w.Origin(st.Val)
			switch {
			case freshMap(st.Val):
				c.OKTrivial(id, construct, st.Pos(), "assigned a fresh empty map")
			case isCheckpointLoadResult(st.Val):
				c.OK(id, construct, st.Pos(), "assigned %s", org)
			case fn.Parent() == nil && isOwnParamOrLit(st):
				c.OKTrivial(id, construct, st.Pos(), "constructor literal: %s", org)
			default:
				c.Fail(id, construct, st.Pos(), "position map field %s assigned from %s (allowed: Checkpoint.Load()#0 or a fresh map)", f.Name(), org)
			}
		})
	}
	if n == 0 {
		c.Undecided(id, "position-field", 0, "no struct field of offset-map type is assigned anywhere — anchor lost")
	}
	c.Floor(id, 4)
}

func isCheckpointLoadResult(v ssa.Value) bool {
	ex, ok := unwrap(v).(*ssa.Extract)
	if !ok || ex.Index != 0 {
		return false
	}
	call, ok := ex.Tuple.(*ssa.Call)
	if !ok {
		return false
	}
	return isInvokeOf(call.Common(), "Checkpoint", "Load")
}

func isOwnParamOrLit(st *ssa.Store) bool {
	fa, ok := st.Addr.(*ssa.FieldAddr)
	if !ok {
		return false
	}
	_, isAlloc := fa.X.(*ssa.Alloc)
	return isAlloc
}

// ---- R2
type pwCallClass struct {
	kind string // ack | absorb-metadata | absorb-nondoc | ""
	why  string
}

func (w *World) listenerContextField(name string) *types.Var {
	return w.Field("models", "ListenerContext", name)
}

// classifyWriterCall classifies a call site of the position writer.
func classifyWriterCall(w *World, cs callSite) pwCallClass {
	b := cs.Call.Block()
	// (a) acknowledgement closure
	if par := cs.Fn.Parent(); par != nil {
		ackField := w.listenerContextField("Ack")
		okUses, total := 0, 0
		allInstrs(par, func(in ssa.Instruction) {
			mc, ok := in.(*ssa.MakeClosure)
			if !ok || mc.Fn != cs.Fn {
				return
			}
			for _, r := range *mc.Referrers() {
				total++
				if st, ok := r.(*ssa.Store); ok && st.Val == mc && fieldOfAddr(st.Addr) == ackField && ackField != nil {
					okUses++
				}
				// the same closure may also be invoked by the library itself, but only to absorb a library-internal key
				if call, ok := r.(*ssa.Call); ok && call.Common().Value == ssa.Value(mc) {
					if guardedBy(call.Block(), true, func(v ssa.Value) bool {
						c2, ok := v.(*ssa.Call)
						return ok && isStaticCall(c2.Common(), "/helpers", "", "IsMetadata")
					}) {
						okUses++
					}
				}
			}
		})
		if total > 0 && okUses == total {
			// inside the closure the call must be unconditional or conditional — both fine
			return pwCallClass{"ack", "closure " + fname(cs.Fn) + " whose only use is the store into ListenerContext.Ack"}
		}
		return pwCallClass{"", "anonymous function " + fname(cs.Fn) + " is not (only) stored into ListenerContext.Ack"}
	}
	// (b) metadata absorption
	if guardedBy(b, true, func(v ssa.Value) bool {
		call, ok := v.(*ssa.Call)
		return ok && isStaticCall(call.Common(), "/helpers", "", "IsMetadata")
	}) {
		return pwCallClass{"absorb-metadata", "dominated by the true branch of helpers.IsMetadata"}
	}
	// (c) non-document arm of a type switch
	var armType types.Type
	if guardedBy(b, true, func(v ssa.Value) bool {
		ex, ok := v.(*ssa.Extract)
		if !ok || ex.Index != 1 {
			return false
		}
		ta, ok := ex.Tuple.(*ssa.TypeAssert)
		if !ok || !ta.CommaOk {
			return false
		}
		if embeddedGocbEvent(ta.AssertedType) != "" && !isDocEventWrapper(ta.AssertedType) {
			armType = ta.AssertedType
			return true
		}
		return false
	}) {
		return pwCallClass{"absorb-nondoc", "type-switch arm of non-document event " + shortType(armType)}
	}
	return pwCallClass{"", "call is neither inside an Ack closure, nor guarded by IsMetadata, nor in a non-document type-switch arm"}
}

func c01r2(c *Ctx, id string) {
	w := c.W
	pws := w.positionWriterFuncs()
	c.need(len(pws) > 0, id, "position writer (function storing into the shared offset map)")
	for _, pw := range pws {
		c.see(pw)
		sites := w.callersOf(pw)
		for _, cs := range sites {
			c.see(cs.Fn)
			c.CallSites++
			cl := classifyWriterCall(w, cs)
			construct := fname(pw) + "@" + fname(cs.Fn)
			if _, isCall := cs.Call.(*ssa.Call); !isCall {
				c.Fail(id, construct, cs.Call.Pos(), "position writer started with go/defer")
				continue
			}
			if cl.kind == "" {
				c.Fail(id, construct, cs.Call.Pos(), "position advanced outside acknowledgement/absorption: %s", cl.why)
			} else {
				c.OK(id, construct, cs.Call.Pos(), "%s: %s", cl.kind, cl.why)
			}
		}
		for _, u := range w.usesAsValue(pw) {
			c.Fail(id, "escape:"+fname(pw)+"@"+fname(u.Parent()), u.Pos(), "position writer used as a function value (its callers can no longer be enumerated)")
		}
		if len(sites) == 0 {
			c.Undecided(id, "callers:"+fname(pw), pw.Pos(), "position writer has no caller")
		}
	}
	// the library never acknowledges / commits on the consumer's behalf
	n := 0
	for _, name := range []string{"Ack", "Commit"} {
		f := w.listenerContextField(name)
		c.need(f != nil, id, "models.ListenerContext."+name)
		for _, fn := range w.ModFuncs {
			allInstrs(fn, func(in ssa.Instruction) {
				cc := callOf(in)
				if cc == nil || cc.IsInvoke() {
					return
				}
				if derefsTo(cc.Value, f) {
					n++
					c.Fail(id, "selfcall:"+name+"@"+fname(fn), in.Pos(), "the library itself invokes ListenerContext.%s", name)
				}
			})
		}
	}
	if n == 0 {
		c.OKTrivial(id, "selfcall:none", 0, "no module function calls a value loaded from ListenerContext.Ack/.Commit (%d module functions scanned)", len(w.ModFuncs))
	}
	c.Floor(id, 6)
}

// ---- R3
func c01r3(c *Ctx, id string) {
	w := c.W
	pws := w.positionWriterFuncs()
	c.need(len(pws) > 0, id, "position writer")
	for _, pw := range pws {
		for _, cs := range w.callersOf(pw) {
			cl := classifyWriterCall(w, cs)
			cc := cs.Call.Common()
			vb, off, _ := w.writerArgs(cc, pw)
			construct := "args:" + fname(pw) + "@" + fname(cs.Fn)
			if vb == nil || off == nil {
				c.Undecided(id, construct, cs.Call.Pos(), "cannot identify vbID/offset arguments")
				continue
			}
			vo, oo := w.Origin(vb), w.Origin(off)
			switch cl.kind {
			case "ack", "absorb-metadata":
				// must be the forwarder's own parameters
				forwarder := rootFn(cs.Fn)
				okv := isParamOf(vo, forwarder) || isVParamOf(strings.TrimPrefix(vo, "&"), forwarder)
				oko := isParamOf(oo, forwarder) || isVParamOf(strings.TrimPrefix(oo, "&"), forwarder)
				if okv && oko {
					c.OK(id, construct, cs.Call.Pos(), "passes the forwarder's own parameters vbID=%s offset=%s", vo, oo)
				} else {
					c.Fail(id, construct, cs.Call.Pos(), "%s call does not pass the forwarder's own parameters: vbID=%s offset=%s", cl.kind, vo, oo)
				}
			case "absorb-nondoc":
				// vbID = X.<Embedded>.VbID, offset = X.Offset for the same asserted value X
				x, ok1 := strings.CutSuffix(oo, ".Offset")
				ok2 := strings.HasPrefix(vo, x+".") && strings.HasSuffix(vo, ".VbID")
				if ok1 && ok2 && strings.HasPrefix(x, "assert(") {
					c.OK(id, construct, cs.Call.Pos(), "vbID=%s offset=%s of the same event value", vo, oo)
				} else {
					c.Fail(id, construct, cs.Call.Pos(), "vbID and offset are not taken from the same asserted event value: vbID=%s offset=%s", vo, oo)
				}
			default:
				// reported by R2
			}
		}
	}
	// callers of the forwarder (the function that builds the ListenerContext)
	for _, fw := range forwarders(w) {
		c.see(fw)
		var pPayload, pOff, pVb *vparam
		for _, vp := range vparams(fw) {
			vp := vp
			switch {
			case w.isOffsetPtr(vp.Type()):
				pOff = &vp
			case isUint16(vp.Type()):
				pVb = &vp
			case types.IsInterface(vp.Type()) && pPayload == nil && !strings.Contains(vp.Type().String(), "tracing."):
				pPayload = &vp
			}
		}
		if pPayload == nil || pOff == nil || pVb == nil {
			c.Undecided(id, "forwarder-params:"+fname(fw), fw.Pos(), "cannot identify payload/offset/vbID parameters of the forwarder")
			continue
		}
		for _, cs := range w.callersOf(fw) {
			c.CallSites++
			cc := cs.Call.Common()
			construct := "forward:" + fname(fw) + "@" + fname(cs.Fn)
			x := w.Origin(argOfVParam(cc, fw, *pPayload))
			oo := w.Origin(argOfVParam(cc, fw, *pOff))
			vo := w.Origin(argOfVParam(cc, fw, *pVb))
			if oo == x+".Offset" && strings.HasPrefix(vo, x+".") && strings.HasSuffix(vo, ".VbID") {
				c.OK(id, construct, cs.Call.Pos(), "payload=%s offset=%s vbID=%s", x, oo, vo)
			} else {
				c.Fail(id, construct, cs.Call.Pos(), "payload, offset and vbID handed to the forwarder do not stem from one event value: payload=%s offset=%s vbID=%s", x, oo, vo)
			}
		}
	}
	c.Floor(id, 8)
}

func isUint16(t types.Type) bool {
	b, ok := t.Underlying().(*types.Basic)
	return ok && b.Kind() == types.Uint16
}

func isInt(t types.Type) bool {
	b, ok := t.Underlying().(*types.Basic)
	return ok && b.Kind() == types.Int
}

func isParamOf(origin string, fn *ssa.Function) bool {
	for _, p := range fn.Params {
		if origin == "param("+p.Name()+")" {
			return true
		}
	}
	return false
}

func argOfParam(cc *ssa.CallCommon, callee *ssa.Function, p *ssa.Parameter) ssa.Value {
	for i, q := range callee.Params {
		if q == p && i < len(cc.Args) {
			return cc.Args[i]
		}
	}
	return nil
}

// forwarders: module functions that allocate a models.ListenerContext (they hand the event to the consumer).
func forwarders(w *World) []*ssa.Function {
	lc := w.NamedType("models", "ListenerContext")
	var out []*ssa.Function
	if lc == nil {
		return nil
	}
	for _, fn := range w.ModFuncs {
		if fn.Parent() == nil && len(allocsOf(fn, lc)) > 0 {
			out = append(out, fn)
		}
	}
	return out
}

// ---- R4
func c01r4(c *Ctx, id string) {
	w := c.W
	off := w.NamedType("models", "Offset")
	c.need(off != nil, id, "models.Offset")
	impls := w.observerImpls()
	c.need(len(impls) > 0, id, "module type implementing gocbcore.StreamObserver")
	for _, n := range impls {
		for _, name := range sortedKeys(w.handlers(n)) {
			h := w.handlers(n)[name]
			c.see(h)
			if len(h.Params) < 2 {
				continue
			}
			ev := h.Params[1]
			lits := w.litsIn(h, off)
			if len(lits) == 0 {
				continue // handler builds no offset (SnapshotMarker, OSOSnapshot, End)
			}
			for _, l := range lits {
				construct := "offset@" + fname(h)
				got := l.Table["SeqNo"]
				want := "param(" + ev.Name() + ").SeqNo"
				if got == want {
					c.OK(id, construct, l.Pos, "Offset.SeqNo ← %s", got)
				} else {
					c.Fail(id, construct, l.Pos, "Offset.SeqNo ← %s, expected the handler's own event position %s", got, want)
				}
			}
		}
	}
	c.Floor(id, 10)
}

// ---- R5
// flattenAlloc renders nested composite literals as path → origin.
func flattenAlloc(w *World, a *ssa.Alloc, prefix string, out map[string]string, depth int) bool {
	tab, ok := allocTable(a)
	if !ok {
		return false
	}
	for k, v := range tab {
		if na := asAlloc(v); na != nil && depth < 4 {
			if _, isStruct := na.Type().(*types.Pointer).Elem().Underlying().(*types.Struct); isStruct {
				if !flattenAlloc(w, na, prefix+k+".", out, depth+1) {
					return false
				}
				continue
			}
		}
		out[prefix+k] = w.Origin(v)
	}
	return true
}

type saveDump struct {
	fn       *ssa.Function  // Checkpoint.Save implementation
	invoke   *ssa.Call      // Metadata.Save invoke
	closure  *ssa.Function  // Range callback populating the dump
	update   *ssa.MapUpdate // dump[key] = doc
	table    map[string]string
	rangeRcv ssa.Value
	valParam *ssa.Parameter // the parameter that stands for the ranged position in the table (the callback's, or a conversion callback's)
}

// valName is the name the table uses for the ranged position.
func (sd *saveDump) valName() string {
	if sd.valParam != nil {
		return sd.valParam.Name()
	}
	return sd.closure.Params[1].Name()
}

// convertedValue: v is conv(ranged) where conv is a function parameter of the copying helper home; the result is what
// the callback Save passes for conv returns for its own parameter (one return, one parameter).
func convertedValue(v ssa.Value, ranged *ssa.Parameter, home *ssa.Function, homeCall *ssa.Call) (ssa.Value, *ssa.Parameter, bool) {
	call, ok := unwrap(v).(*ssa.Call)
	if !ok || homeCall == nil || call.Common().IsInvoke() || len(call.Common().Args) != 1 || unwrap(call.Common().Args[0]) != ssa.Value(ranged) {
		return nil, nil, false
	}
	fv := unwrap(call.Common().Value)
	if x, isFV := fv.(*ssa.FreeVar); isFV {
		if b, ok := bindingOf(x); ok {
			fv = unwrap(b)
		}
	}
	fv = resolveCell(fv)
	p, isP := fv.(*ssa.Parameter)
	if !isP {
		return nil, nil, false
	}
	for i, hp := range home.Params {
		if hp != p || i >= len(homeCall.Common().Args) {
			continue
		}
		cv := closureOf(homeCall.Common().Args[i])
		if cv == nil || len(cv.Params) != 1 || len(cv.Blocks) == 0 {
			return nil, nil, false
		}
		var ret ssa.Value
		n := 0
		allInstrs(cv, func(in ssa.Instruction) {
			if r, isR := in.(*ssa.Return); isR && in.Parent() == cv && len(r.Results) == 1 {
				n++
				ret = r.Results[0]
			}
		})
		if n != 1 {
			return nil, nil, false
		}
		return ret, cv.Params[0], true
	}
	return nil, nil, false
}

// findSaveDump analyses a Checkpoint.Save implementation.
func findSaveDump(c *Ctx, id string, fn *ssa.Function) *saveDump {
	w := c.W
	sd := &saveDump{fn: fn}
	allInstrs(fn, func(in ssa.Instruction) {
		if call, ok := in.(*ssa.Call); ok && isInvokeOf(call.Common(), "Metadata", "Save") {
			sd.invoke = call
		}
	})
	if sd.invoke == nil {
		c.Undecided(id, "metadata-save@"+fname(fn), fn.Pos(), "no Metadata.Save invoke in the Checkpoint.Save implementation")
		return nil
	}
	state := unwrap(sd.invoke.Common().Args[0])
	// the dump map is a MakeMap, possibly held in a cell captured by the Range callback
	mm := resolveCell(state)
	home := fn // the function the dump is built in: Save itself, or a helper of the checkpoint that returns it
	var homeCall *ssa.Call
	if _, ok := mm.(*ssa.MakeMap); !ok {
		if call, isCall := mm.(*ssa.Call); isCall {
			if h := call.Common().StaticCallee(); h != nil && w.inModule(h) && pkgPathOf(h) == pkgPathOf(fn) && len(h.Blocks) > 0 {
				var built ssa.Value
				nRet := 0
				allInstrs(h, func(in ssa.Instruction) {
					if r, isR := in.(*ssa.Return); isR && len(r.Results) == 1 {
						nRet++
						built = resolveCell(r.Results[0])
					}
				})
				if _, isMM := built.(*ssa.MakeMap); isMM && nRet == 1 {
					mm, home, homeCall = built, h, call
					c.see(h)
				}
			}
		}
	}
	if _, ok := mm.(*ssa.MakeMap); !ok {
		c.Fail(id, "dump@"+fname(fn), sd.invoke.Pos(), "argument 0 of Metadata.Save is not a map built in this function (or in a helper that returns a fresh map): %s", w.Origin(state))
		return nil
	}
	// find map updates on that map in the home function and its anonymous functions
	var updates []*ssa.MapUpdate
	for _, f := range withAnon(home) {
		allInstrs(f, func(in ssa.Instruction) {
			if mu, ok := in.(*ssa.MapUpdate); ok && resolveCell(mu.Map) == mm {
				updates = append(updates, mu)
			}
		})
	}
	if len(updates) != 1 {
		c.Fail(id, "dump@"+fname(fn), sd.invoke.Pos(), "the checkpoint dump is written at %d places (expected exactly one, inside the Range callback over the tracked positions)", len(updates))
		return nil
	}
	sd.update = updates[0]
	sd.closure = updates[0].Parent()
	// the closure must be the argument of Range on GetOffsets()#0
	ok := false
	allInstrs(home, func(in ssa.Instruction) {
		cc := callOf(in)
		if m, recv := csmapMethod(cc); m == "Range" && len(cc.Args) == 2 && closureOf(cc.Args[1]) == sd.closure {
			sd.rangeRcv = recv
			// in a helper the ranged map is a parameter: what Save passes for it
			if p, isP := unwrap(recv).(*ssa.Parameter); isP && homeCall != nil {
				for i, hp := range home.Params {
					if hp == p && i < len(homeCall.Common().Args) {
						sd.rangeRcv = homeCall.Common().Args[i]
					}
				}
			}
			ok = true
		}
	})
	if !ok {
		c.Fail(id, "dump@"+fname(fn), sd.update.Pos(), "the dump is not populated by a Range callback over a position map")
		return nil
	}
	docv := sd.update.Value
	if len(sd.closure.Params) == 2 {
		if rv, vp, isConv := convertedValue(docv, sd.closure.Params[1], home, homeCall); isConv {
			docv, sd.valParam = rv, vp
			c.see(vp.Parent())
		}
	}
	lit, ok := w.litOf(docv)
	if !ok {
		c.Fail(id, "dump@"+fname(fn), sd.update.Pos(), "dumped value is not a document literal (built in place or by a one-level helper): %s", w.Origin(sd.update.Value))
		return nil
	}
	sd.table = lit.Table
	return sd
}

// resolveCell follows loads of single-store cells and closure bindings to the stored value.
func resolveCell(v ssa.Value) ssa.Value {
	for i := 0; i < 8; i++ {
		v = unwrap(v)
		switch x := v.(type) {
		case *ssa.Field:
			// a field of a carrier used by value (`errSignal{opm, ch}.done`): what was put there
			if par, ok := x.X.(*ssa.Parameter); ok && curWorld != nil && par.Parent() != nil && par.Parent().Signature.Recv() != nil && par.Parent().Params[0] == par {
				if st, isSt := par.Type().Underlying().(*types.Struct); isSt {
					if sv, isCarrier := curWorld.carrierField(st.Field(x.Field)); isCarrier {
						v = sv
						continue
					}
				}
			}
			return v
		case *ssa.UnOp:
			if fa, isFA := x.X.(*ssa.FieldAddr); isFA && curWorld != nil {
				base := fa.X
				if al, isAl := base.(*ssa.Alloc); isAl { // the cell a value receiver was spilled to
					if sv, one := singleStore(al); one {
						base = sv
					}
				}
				if par, ok := base.(*ssa.Parameter); ok && par.Parent() != nil && par.Parent().Signature.Recv() != nil && par.Parent().Params[0] == par {
					if sv, isCarrier := curWorld.carrierField(fieldOfAddr(fa)); isCarrier {
						v = sv
						continue
					}
				}
			}
			switch a := x.X.(type) {
			case *ssa.Alloc:
				if s, ok := singleStore(a); ok {
					v = s
					continue
				}
			case *ssa.FreeVar:
				if b, ok := bindingOf(a); ok {
					if al, ok := b.(*ssa.Alloc); ok {
						if s, ok := singleStore(al); ok {
							v = s
							continue
						}
					}
				}
			}
		case *ssa.FreeVar:
			if b, ok := bindingOf(x); ok {
				v = b
				continue
			}
		}
		return v
	}
	return v
}

func c01r5(c *Ctx, id string) {
	w := c.W
	impls := w.implsOf("stream", "Checkpoint", "Save")
	c.need(len(impls) > 0, id, "implementation of stream.Checkpoint.Save")
	for _, fn := range impls {
		c.see(fn)
		sd := findSaveDump(c, id, fn)
		if sd == nil {
			continue
		}
		c.see(sd.closure)
		ro := w.Origin(sd.rangeRcv)
		if !strings.Contains(ro, ".GetOffsets)()#0") {
			c.Fail(id, "source@"+fname(fn), sd.update.Pos(), "the dump ranges over %s, expected the tracked positions Stream.GetOffsets()#0", ro)
		} else {
			c.OK(id, "source@"+fname(fn), sd.update.Pos(), "dump ranges over %s", ro)
		}
		if len(sd.closure.Params) < 2 {
			c.Undecided(id, "callback@"+fname(fn), sd.closure.Pos(), "Range callback has no (key, value) parameters")
			continue
		}
		kp, vp := sd.closure.Params[0], sd.closure.Params[1]
		if sd.valParam != nil {
			vp = sd.valParam
		}
		ko := w.Origin(sd.update.Key)
		c.Check(ko == "param("+kp.Name()+")", id, "key@"+fname(fn), sd.update.Pos(),
			"dump key ← "+ko, "dump key ← "+ko+", expected the ranged key param("+kp.Name()+")")
		got := sd.table["Checkpoint.SeqNo"]
		want := "param(" + vp.Name() + ").SeqNo"
		c.Check(got == want, id, "seqno@"+fname(fn), sd.update.Pos(),
			"Checkpoint.SeqNo ← "+got, "Checkpoint.SeqNo ← "+got+", expected "+want+" (the tracked position, no arithmetic)")
	}
	c.Floor(id, 3)
}

// ---- R6
func c01r6(c *Ctx, id string) {
	w := c.W
	impls := w.implsOf("metadata", "Metadata", "Save")
	c.need(len(impls) >= 2, id, "implementations of metadata.Metadata.Save")
	doc := w.NamedType("models", "CheckpointDocument")
	c.need(doc != nil, id, "models.CheckpointDocument")
	for _, fn := range impls {
		c.see(fn)
		if w.isExactPassThrough(fn, "Metadata") {
			// a layer that hands the call on untouched is not a backend: the transparency rule (C20.R19) judges it
			c.OKTrivial(id, "layer@"+fname(fn), fn.Pos(), "an exact pass-through to the wrapped store, not a backend")
			continue
		}
		// marshal calls reachable synchronously (incl. closures returned by helpers)
		fns := []*ssa.Function{}
		for f := range w.syncCallees(fn, 3, true) {
			fns = append(fns, withAnon(f)...)
		}
		nMarshal := 0
		for _, f := range dedupFns(fns) {
			allInstrs(f, func(in ssa.Instruction) {
				cc := callOf(in)
				if cc == nil {
					return
				}
				if sf := cc.StaticCallee(); sf != nil && sf.Pkg != nil && strings.HasSuffix(sf.Pkg.Pkg.Path(), "/sonic") && strings.HasPrefix(sf.Name(), "Marshal") {
					nMarshal++
					c.CallSites++
					org := w.Origin(cc.Args[0])
					root := rootFn(f)
					construct := "marshal@" + fname(root)
					switch {
					case root == fn && org == "param("+fn.Params[1].Name()+")":
						c.OK(id, construct, in.Pos(), "marshals the whole state parameter %s", org)
					case root != fn && isVParamOf(org, root):
						// helper: check key derivation and call-site consistency
						c01r6helper(c, id, fn, root, org, in)
					default:
						c.Fail(id, construct, in.Pos(), "marshals %s, which is not the document handed to the backend", org)
					}
				}
			})
		}
		if nMarshal == 0 {
			// the read-only wrapper writes nothing (decided in C02.R6)
			hasCall := false
			allInstrs(fn, func(in ssa.Instruction) {
				if callOf(in) != nil {
					hasCall = true
				}
			})
			if hasCall {
				c.Undecided(id, "marshal@"+fname(fn), fn.Pos(), "backend Save makes calls but no serialisation call was found")
			} else {
				c.OKTrivial(id, "nowrite@"+fname(fn), fn.Pos(), "backend Save performs no call at all (read-only wrapper)")
			}
		}
	}
	c.Floor(id, 4)
}

func dedupFns(in []*ssa.Function) []*ssa.Function {
	seen := map[*ssa.Function]bool{}
	var out []*ssa.Function
	for _, f := range in {
		if !seen[f] {
			seen[f] = true
			out = append(out, f)
		}
	}
	return out
}

// c01r6helper: `helper(ctx, vbID, doc)` marshals param(doc); its document id must come from param(vbID),
// and the backend must call it with (K, state[K]).
func c01r6helper(c *Ctx, id string, save, helper *ssa.Function, docOrigin string, marshal ssa.Instruction) {
	w := c.W
	c.see(helper)
	var pVb, pDoc *vparam
	for _, p := range vparams(helper) {
		p := p
		if isUint16(p.Type()) {
			pVb = &p
		}
		if p.Term() == docOrigin {
			pDoc = &p
		}
	}
	if pVb == nil || pDoc == nil {
		c.Undecided(id, "helper@"+fname(helper), helper.Pos(), "cannot identify (vbID, document) parameters of the per-vBucket writer")
		return
	}
	c.OK(id, "marshal@"+fname(helper), marshal.Pos(), "marshals its own document parameter %s", docOrigin)
	// the id: every call of a doc_op mutation helper in helper's closures gets an id derived from getCheckpointID(param vbID, …)
	nID := 0
	for _, f := range withAnon(helper) {
		allInstrs(f, func(in ssa.Instruction) {
			cc := callOf(in)
			if cc == nil {
				return
			}
			sf := cc.StaticCallee()
			if sf == nil || !w.inModule(sf) {
				return
			}
			idArg := argByName(cc, "id")
			if idArg == nil {
				return
			}
			nID++
			org := w.Origin(idArg)
			want := "call(couchbase.getCheckpointID)(" + pVb.Term() + ","
			if strings.HasPrefix(org, want) {
				c.OK(id, "docid:"+sf.Name()+"@"+fname(helper), in.Pos(), "id ← %s", org)
			} else {
				c.Fail(id, "docid:"+sf.Name()+"@"+fname(helper), in.Pos(), "document id ← %s, expected getCheckpointID(%s, group)", org, pVb.Name())
			}
		})
	}
	if nID == 0 {
		c.Undecided(id, "docid@"+fname(helper), helper.Pos(), "no document operation with an id argument found in the per-vBucket writer")
	}
	// call sites in the backend
	for _, cs := range w.callersOf(helper) {
		cc := cs.Call.Common()
		ka, da := argOfVParam(cc, helper, *pVb), argOfVParam(cc, helper, *pDoc)
		k := w.Origin(ka)
		d := w.Origin(da)
		stateP := ""
		if rootFn(cs.Fn) == save && len(save.Params) > 1 {
			stateP = "param(" + save.Params[1].Name() + ")"
		}
		// (k, v) of one iteration step of `range state` is the same pairing as (k, state[k])
		samePair := false
		if ek, ok := unwrap(ka).(*ssa.Extract); ok && ka != nil && ek.Index == 1 {
			if ed, ok := unwrap(da).(*ssa.Extract); ok && da != nil && ed.Index == 2 && ed.Tuple == ek.Tuple {
				samePair = stateP != "" && w.Origin(ek.Tuple) == "next(range("+stateP+"))"
			}
		}
		if stateP != "" && (d == stateP+"["+k+"]" || samePair) {
			c.OK(id, "pair@"+fname(cs.Fn), cs.Call.Pos(), "writes (%s, %s)", k, d)
		} else {
			c.Fail(id, "pair@"+fname(cs.Fn), cs.Call.Pos(), "per-vBucket writer called with key %s but document %s (expected %s[%s])", k, d, stateP, k)
		}
	}
}

// ---- R7 (shared with C06.R3, C03.R4)
func immutableOffsets(c *Ctx, id string) {
	w := c.W
	protected := func(t types.Type) string {
		if p, ok := t.Underlying().(*types.Pointer); ok {
			t = p.Elem()
		}
		n, ok := types.Unalias(t).(*types.Named)
		if !ok || n.Obj().Pkg() == nil {
			return ""
		}
		if strings.HasSuffix(n.Obj().Pkg().Path(), "/models") && (n.Obj().Name() == "Offset" || n.Obj().Name() == "SnapshotMarker") {
			return "models." + n.Obj().Name()
		}
		if strings.Contains(n.Obj().Pkg().Path(), "gocbcore") && strings.HasPrefix(n.Obj().Name(), "Dcp") {
			return "gocbcore." + n.Obj().Name()
		}
		return ""
	}
	scanned, lits := 0, 0
	for _, fn := range w.ModFuncs {
		allInstrs(fn, func(in ssa.Instruction) {
			st, ok := in.(*ssa.Store)
			if !ok {
				return
			}
			scanned++
			// a whole value of a protected type stored into a long-lived location (a struct field): the location is
			// reused for the next event, so pointers handed out earlier change under their holders
			if vt := protected(st.Val.Type()); vt != "" && !strings.HasPrefix(vt, "gocbcore.") {
				if _, isPtr := st.Val.Type().Underlying().(*types.Pointer); !isPtr {
					if fa2, isFA := st.Addr.(*ssa.FieldAddr); isFA {
						if _, isAlloc := fa2.X.(*ssa.Alloc); !isAlloc {
							f := structField(fa2.X.Type(), fa2.Field)
							c.Fail(id, "reuse:"+vt+"@"+fname(fn), st.Pos(), "a %s value is stored into the long-lived field %s and overwritten per event — offsets already handed out change afterwards", vt, f.Name())
						}
					}
				}
			}
			fa, ok := st.Addr.(*ssa.FieldAddr)
			if !ok {
				return
			}
			tn := protected(fa.X.Type())
			if tn == "" {
				return
			}
			if _, isAlloc := fa.X.(*ssa.Alloc); isAlloc {
				lits++
				return // initialisation of the literal being built
			}
			f := structField(fa.X.Type(), fa.Field)
			c.Fail(id, "mutate:"+tn+"."+f.Name()+"@"+fname(fn), st.Pos(), "field %s.%s of a shared value is overwritten in place (%s := %s)", tn, f.Name(), w.Origin(st.Addr), w.Origin(st.Val))
		})
	}
	c.OK(id, "scan", 0, "%d stores scanned module-wide, %d of them initialise a literal of a protected type, 0 mutate one in place", scanned, lits)
	if lits < 10 {
		c.Undecided(id, "floor", 0, "only %d literal initialisations of Offset/SnapshotMarker found — the rule would be vacuous", lits)
	}
}

// noRetainedPositionMap: no struct field other than the owner's holds a reference to a position map — readers
// (API, metrics, checkpoint) must fetch the live map at use time, because Open/Close replace it.
func noRetainedPositionMap(c *Ctx, id string) {
	w := c.W
	owner := map[*types.Var]bool{}
	for _, m := range w.offsetMapMutations() {
		if f := loadedField(unwrap(m.Recv)); f != nil && !freshMapIn(m.Recv, m.Fn) {
			owner[f] = true
		}
	}
	n, bad := 0, 0
	for _, fn := range w.ModFuncs {
		allInstrs(fn, func(in ssa.Instruction) {
			st, ok := in.(*ssa.Store)
			if !ok {
				return
			}
			f := fieldOfAddr(st.Addr)
			if f == nil || !w.isOffsetMap(f.Type()) {
				return
			}
			n++
			if owner[f] {
				return
			}
			if _, isCarrier := w.carrierField(f); isCarrier {
				return // a carrier lives as long as the call it was built for (its address goes nowhere else): nothing is retained
			}
			bad++
			c.Fail(id, "retained:"+f.Name()+"@"+fname(fn), st.Pos(), "a reference to the position map is kept in field %s (← %s): after the next rebalance it is the discarded map, and the values exposed from it freeze", f.Name(), w.Origin(st.Val))
		})
	}
	if bad == 0 {
		c.OK(id, "retained:none", 0, "%d assignments of position-map-typed fields, all to the owner's field", n)
	}
}
