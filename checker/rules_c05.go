package main

import (
	"fmt"
	"go/types"
	"strings"

	"golang.org/x/tools/go/ssa"
)

func init() {
	register(&Property{
		ID: "C05",
		Explanation: "Decides the dirty-tracking protocol that makes settled progress durable: (R1) every dirtying settle raises the save flag (in the position writer, or post-dominating in the caller); " +
			"(R2) the dirty mark is written iff the position moved with dirty=true and is idempotently true (exhaustive over the StoreIf condition closure); (R3) Save attempts the write iff the flag is up, under no other condition, and hands the backend a full copy of the dirty set; " +
			"(R4) the dirty set is cleared only under err==nil of that very write; (R5) every Metadata.Save backend propagates the error of each storage primitive, writes iff dirty[vbID], and uses the Checkpoint.Timeout context; " +
			"(R6) in the shutdown path Stream.Save precedes Stream.Close whenever checkpointing is automatic; (R7) the write is serialised by a blocking Lock with deferred Unlock; " +
			"(R8) mark and clear of the dirty state share a lock — violated today (known finding K1, an acknowledgement landing during an in-flight save is forgotten). " +
			"Not decided: that a save is eventually scheduled, server behaviour under timeout.",
		Assumptions: []string{"errgroup.Wait returns the first error of the spawned functions", "Metadata.Save returns nil only when every attempted write was confirmed (C20)"},
		Rules: []RuleDef{
			{ID: "C05.R26", Text: "saves happen under the checkpoint type the operator can see: every documented default is applied — also when only part of a section is configured (same rules as C17.R1 and C17.R8)", Run: func(c *Ctx, id string) { c17r1(c, id); documentedDefaults(c, id) }},
			{ID: "C05.R25", Text: "an acknowledgement for an assigned vBucket is never refused: the range the position writer tests is re-derived from the assignment at every Open (same rule as C04.R2)", Run: c04r2},
			{ID: "C05.R1", Text: "on the synchronous path of every call of the position writer that may pass dirty=true, the save flag is set to true", Run: c05r1},
			{ID: "C05.R2", Text: "dirty mark ⇔ position stored ∧ dirty; the mark leaves the map value true in every case (StoreIf condition closure evaluated exhaustively)", Run: c05r2},
			{ID: "C05.R3", Text: "Checkpoint.Save: the Metadata.Save call is control-dependent on the save flag (GetOffsets()#2) and nothing else; the dirty dump copies every entry of GetOffsets()#1", Run: c05r3},
			{ID: "C05.R4", Text: "UnmarkDirtyOffsets is called only under err == nil of the Metadata.Save result, and after it", Run: c05r4},
			{ID: "C05.R5", Text: "Metadata.Save backends: each error-returning primitive's error reaches the result; couchbase backend writes iff dirtyOffsets[vbID] with the Checkpoint.Timeout context and returns eg.Wait()", Run: c05r5},
			{ID: "C05.R6", Text: "shutdown: whenever Checkpoint.Type == auto, Stream.Save precedes Stream.Close on every path of the function that closes the stream through the Stream interface", Run: c05r6},
			{ID: "C05.R7", Text: "saves are serialised: the Metadata.Save call is dominated by a blocking Mutex.Lock whose Unlock is deferred immediately", Run: c05r7},
			{ID: "C05.R9", Text: "what is stored is what was settled: a tracked position (sequence number and snapshot range) is never changed in place after it was acknowledged — markers and offsets are replaced, never mutated (same rule as C06.R3)", Run: c06r3},
			{ID: "C05.R10", Text: "the dirty marks and the dump range over a faithful map (same rule as C04.R9)", Run: wrapperFaithful},
			{ID: "C05.R11", Text: "settled progress is tracked and marked: an acknowledgement and every absorbed non-document event move the position exactly once with dirty=true (same rule as C04.R10)", Run: func(c *Ctx, id string) { ackMoves(c, id); absorbMoves(c, id) }},
			{ID: "C05.R12", Text: "the dump and the dirty-set copy cover every vBucket: every loop over a concurrent map runs to completion: the Range callback returns true on every path (frozen exception: markAbsentInstances stops at the error it returns)", Run: rangeComplete("stream.checkpoint).Save", "couchbase.cbMetadata)", "metadata.")},
			{ID: "C05.R13", Text: "a save that returned is over: the checkpoint writes to the configured backend, the supplied store or the read-only wrapper — dcp.metadata is assigned nothing else (no decorator whose write can outlive the call)", Run: metadataIsTheConfiguredOne},
			{ID: "C05.R14", Text: "saves happen and mean what they say: the session flags: Close records its closeWithCancel argument (before closing streams) in the flag the end listener reads; stops the mitigation ⇔ ¬Disabled and the schedule ⇔ checkpoint≠nil; hands the finish token ⇔ ¬finishedWithEndEvent; open←true ends Open and open←false is stored by Close; Stream.Save is Checkpoint.Save; Open starts the schedule, whose loop saves under Type==auto", Run: sessionFlags},
			{ID: "C05.R15", Text: "the per-vBucket checkpoint write is upsert | upsert(key not found)→create | →create(ok)→upsert, and the error of the last step taken is the result", Run: upsertLadder},
			{ID: "C05.R16", Text: "an explicit Commit saves: the client's start and close paths call by call — Commit is Stream.Save under no condition (same rule as C13.R23)", Run: clientWiring},
			{ID: "C05.R17", Text: "a non-document event reaches the position writer whenever the gate lets it pass: the seqno-advanced and marker handlers forward under no other condition of their own (same rule as C06.R7)", Run: markerInstall},
			{ID: "C05.R18", Text: "a save writes what was settled and nothing else: dirty marks are raised only by the position writer (same rule as C14.R14)", Run: dirtyMarkWriters},
			{ID: "C05.R19", Text: "a successful save stores the checkpoint under this group's own key: the document key is a function of the group name and the vBucket id of the call (same rule as C14.R4)", Run: c14r4},
			{ID: "C05.R20", Text: "a failed save is reported by the store itself: no layer books, filters or retries saves on its own (same rules as C20.R19 and C20.R20)", Run: func(c *Ctx, id string) { decoratorsTransparent()(c, id); noNewLayers(c, id) }},
			{ID: "C05.R21", Text: "a session resumes from what the last successful save stored: the file backend reads the file at every Load (no remembered copy) and returns it under the keys it was written with (same rule as C02.R15)", Run: fileLoadExact},
			{ID: "C05.R23", Text: "only a successful save clears dirty marks: the getters of the Stream interface (also called by the metric collector and the state endpoints) change no state (same rule as C01.R19)", Run: streamGettersArePure},
			{ID: "C05.R24", Text: "the first save of a group that starts at latest writes the start positions: Load marks them dirty and raises the flag (same rule as C01.R21)", Run: latestStartMarked},
			{ID: "C05.R22", Text: "the acknowledged position is the event own sequence number: every event wrapper built by a handler carries Offset.SeqNo ← the event SeqNo (same rule as C01.R4)", Run: c01r4},
			{ID: "C05.R8", Text: "mark/clear atomicity: the sites that mark the dirty state and the site that clears it hold a common mutex", Run: c05r8},
		},
	})
}

// saveFlagField: the bool field returned as third result of Stream.GetOffsets.
func saveFlagField(w *World) (*types.Var, *types.Var) {
	var flag, dirty *types.Var
	for _, fn := range w.implsOf("stream", "Stream", "GetOffsets") {
		allInstrs(fn, func(in ssa.Instruction) {
			if r, ok := in.(*ssa.Return); ok && len(r.Results) == 3 {
				flag = loadedField(r.Results[2])
				dirty = loadedField(r.Results[1])
			}
		})
	}
	return flag, dirty
}

func c05r1(c *Ctx, id string) {
	w := c.W
	flag, _ := saveFlagField(w)
	c.need(flag != nil, id, "save flag (third result of Stream.GetOffsets)")
	pws := w.positionWriterFuncs()
	c.need(len(pws) > 0, id, "position writer")
	for _, pw := range pws {
		h, off, vb, err := writerHarness(w, pw)
		if err != nil {
			c.Undecided(id, fname(pw), pw.Pos(), "%v", err)
			continue
		}
		_ = off
		_ = vb
		recvName := pw.Params[0].Name()
		isDirty := w.writerDirty(pw)
		// does the writer itself raise the flag in every state that stores with dirty=true?
		raisedInWriter := true
		res := RunOAE(w, h, func(st *State, out *Outcome) string {
			stored := false
			for _, e := range out.Trace {
				if strings.HasSuffix(e.Name, ".Store") && w.isOffsetMapLabel(e.Name) {
					stored = true
				}
			}
			f := out.Final(recvName + "." + flag.Name())
			if stored && isDirty(st) {
				if b, ok := f.(avBool); !ok || !b.b {
					raisedInWriter = false
				}
			}
			return ""
		})
		c.States += res.States
		if len(res.Undecided) > 0 {
			c.Undecided(id, fname(pw), pw.Pos(), "position writer left the decidable fragment: %s", strings.Join(nonEmpty(res.Undecided), " | "))
			continue
		}
		for _, cs := range w.callersOf(pw) {
			c.CallSites++
			c.see(cs.Fn)
			cc := cs.Call.Common()
			_, _, dirtyArg := w.writerArgs(cc, pw)
			construct := fname(pw) + "@" + fname(cs.Fn)
			cl := classifyWriterCall(w, cs)
			if cst, ok := dirtyArg.(*ssa.Const); ok && cst.Value != nil && cst.Value.ExactString() == "false" {
				// only the absorption of a library-internal key may settle without flagging (C14); an acknowledgement or a
				// non-document stream event that moves the position must be persisted by the next save
				if cl.kind == "absorb-metadata" {
					c.OKTrivial(id, construct, cs.Call.Pos(), "library-internal key absorbed with dirty=false: nothing to persist (C14)")
				} else {
					c.Fail(id, construct, cs.Call.Pos(), "%s moves the position with dirty=false: a vBucket advanced only this way is skipped by every save, including the final one", cl.kind+" ("+cl.why+")")
				}
				continue
			}
			if _, isConst := dirtyArg.(*ssa.Const); !isConst && cl.kind != "" {
				c.Fail(id, construct, cs.Call.Pos(), "dirty flag of a %s is not the constant true: %s", cl.kind, w.Origin(dirtyArg))
				continue
			}
			if raisedInWriter {
				c.OK(id, construct, cs.Call.Pos(), "the writer sets %s=true in every abstract state that stores with dirty=true (%d states)", flag.Name(), res.States)
				continue
			}
			// fallback: the caller raises the flag after the call on every path
			miss := existsPathAvoiding(cs.Call, func(in ssa.Instruction) bool {
				st, ok := in.(*ssa.Store)
				if !ok || fieldOfAddr(st.Addr) != flag {
					return false
				}
				cv, ok := st.Val.(*ssa.Const)
				return ok && cv.Value != nil && cv.Value.ExactString() == "true"
			}, false)
			if !miss {
				c.OK(id, construct, cs.Call.Pos(), "the caller sets %s=true on every path after the call", flag.Name())
			} else {
				c.Fail(id, construct, cs.Call.Pos(), "position moved with dirty=%s but neither the writer nor this caller raises %s: Save would skip this vBucket", w.Origin(dirtyArg), flag.Name())
			}
		}
	}
	c.Floor(id, 3)
}

func c05r2(c *Ctx, id string) {
	w := c.W
	pws := w.positionWriterFuncs()
	c.need(len(pws) > 0, id, "position writer")
	for _, pw := range pws {
		h, _, vb, err := writerHarness(w, pw)
		if err != nil {
			c.Undecided(id, fname(pw), pw.Pos(), "%v", err)
			continue
		}
		isDirty := w.writerDirty(pw)
		var closures []*ssa.Function
		spec := func(st *State, out *Outcome) string {
			stored := false
			marks := 0
			for _, e := range out.Trace {
				if strings.HasSuffix(e.Name, ".Store") && w.isOffsetMapLabel(e.Name) {
					stored = true
				}
				isDirtyMap := strings.Contains(strings.ToLower(e.Name), "dirty")
				if !isDirtyMap {
					continue
				}
				switch {
				case strings.HasSuffix(e.Name, ".StoreIf"):
					marks++
					if len(e.Args) != 3 || avString(e.Args[1]) != vb {
						return "dirty mark keyed by something else than vbID: " + e.String()
					}
					if f, ok := e.Args[2].(avFunc); ok && f.fn != nil {
						closures = append(closures, f.fn)
					} else {
						return "StoreIf condition is not a closure literal"
					}
				case strings.HasSuffix(e.Name, ".Store"):
					marks++
					if len(e.Args) != 3 || avString(e.Args[1]) != vb {
						return "dirty mark keyed by something else than vbID: " + e.String()
					}
					if b, ok := e.Args[2].(avBool); !ok || !b.b {
						return "dirty map written with a value that is not the constant true: " + e.String()
					}
				case strings.HasSuffix(e.Name, ".Delete"), strings.HasSuffix(e.Name, ".UnmarshalJSON"):
					return "dirty mark removed by the position writer: " + e.String()
				}
			}
			want := stored && isDirty(st)
			if want && marks == 0 {
				return "position stored with dirty=true but the vBucket is not marked dirty"
			}
			if !want && marks > 0 {
				return "dirty map written although the position did not move with dirty=true"
			}
			return ""
		}
		c.oae(id, "mark@"+fname(pw), pw.Pos(), h, spec, "dirty mark ⇔ Store ∧ dirty, keyed by vbID, value true")
		seen := map[*ssa.Function]bool{}
		for _, cl := range closures {
			if seen[cl] || len(cl.Params) != 2 {
				continue
			}
			seen[cl] = true
			p, f := cl.Params[0].Name(), cl.Params[1].Name()
			hc := &Harness{Fn: cl, Bools: []string{p, f}}
			c.oae(id, "storeif-cond@"+fname(cl), cl.Pos(), hc, func(st *State, out *Outcome) string {
				if out.Panicked || len(out.Ret) != 2 {
					return "condition closure does not return (value, set)"
				}
				v, ok1 := out.Ret[0].(avBool)
				set, ok2 := out.Ret[1].(avBool)
				if !ok1 || !ok2 {
					return "result not determined"
				}
				after := (set.b && v.b) || (!set.b && st.B(f) && st.B(p))
				if !after {
					return fmt.Sprintf("after the call the map value is not true (value=%v set=%v)", v.b, set.b)
				}
				return ""
			}, "after StoreIf the entry is true for every (previous, found)")
		}
	}
}

func c05r3(c *Ctx, id string) {
	w := c.W
	impls := w.implsOf("stream", "Checkpoint", "Save")
	c.need(len(impls) > 0, id, "implementation of stream.Checkpoint.Save")
	for _, fn := range impls {
		c.see(fn)
		sd := findSaveDump(c, id, fn)
		if sd == nil {
			continue
		}
		// the state handed to the backend covers every tracked vBucket (whole-state backends replace what they stored)
		dumpAll(c, id, fn, sd)
		// guards of the write
		var gs []string
		for _, g := range guardsOf(sd.invoke.Block()) {
			v, pol := stripNot(g.Cond, g.Branch)
			gs = append(gs, fmt.Sprintf("%v:%s", pol, w.Origin(v)))
		}
		ok := len(gs) == 1 && strings.HasPrefix(gs[0], "true:") && strings.HasSuffix(gs[0], ".GetOffsets)()#2")
		c.Check(ok, id, "write-iff-flag@"+fname(fn), sd.invoke.Pos(), "Metadata.Save runs ⇔ "+strings.Join(gs, " ∧ "),
			"Metadata.Save is control-dependent on ["+strings.Join(gs, " ∧ ")+"], expected exactly the save flag GetOffsets()#2")
		// the early return when the flag is down performs no write: implied by dominance; check the call is not in a loop/closure
		c.Check(sd.invoke.Parent() == fn, id, "write-site@"+fname(fn), sd.invoke.Pos(), "single write attempt in the Save body", "the write is performed inside a nested function")
		// dirty dump: arg 1
		dd := resolveCell(sd.invoke.Common().Args[1])
		// the copy may be made by a helper that returns the fresh map (alone or with a count)
		home := fn
		var homeCall *ssa.Call
		{
			idx := 0
			src := dd
			if ex, isEx := src.(*ssa.Extract); isEx {
				idx, src = ex.Index, ex.Tuple
			}
			if call, isCall := src.(*ssa.Call); isCall {
				if h := call.Common().StaticCallee(); h != nil && w.inModule(h) && pkgPathOf(h) == pkgPathOf(fn) && len(h.Blocks) > 0 {
					var built ssa.Value
					nRet := 0
					allInstrs(h, func(in ssa.Instruction) {
						if r, isR := in.(*ssa.Return); isR && in.Parent() == h && idx < len(r.Results) {
							nRet++
							built = resolveCell(r.Results[idx])
						}
					})
					if _, isMM := built.(*ssa.MakeMap); isMM && nRet == 1 {
						dd, home, homeCall = built, h, call
						c.see(h)
					}
				}
			}
		}
		mm, isMap := dd.(*ssa.MakeMap)
		if !isMap {
			c.Fail(id, "dirty-dump@"+fname(fn), sd.invoke.Pos(), "argument 1 of Metadata.Save is not a map built here: %s", w.Origin(sd.invoke.Common().Args[1]))
			continue
		}
		var ups []*ssa.MapUpdate
		for _, f := range withAnon(home) {
			allInstrs(f, func(in ssa.Instruction) {
				if mu, ok := in.(*ssa.MapUpdate); ok && resolveCell(mu.Map) == ssa.Value(mm) {
					ups = append(ups, mu)
				}
			})
		}
		if len(ups) != 1 {
			c.Fail(id, "dirty-dump@"+fname(fn), sd.invoke.Pos(), "dirty dump written at %d places", len(ups))
			continue
		}
		up := ups[0]
		cl := up.Parent()
		var rcv ssa.Value
		allInstrs(home, func(in ssa.Instruction) {
			cc := callOf(in)
			if m, r := csmapMethod(cc); m == "Range" && len(cc.Args) == 2 && closureOf(cc.Args[1]) == cl {
				rcv = r
				if p, isP := unwrap(r).(*ssa.Parameter); isP && homeCall != nil {
					for i, hp := range home.Params {
						if hp == p && i < len(homeCall.Common().Args) {
							rcv = homeCall.Common().Args[i]
						}
					}
				}
			}
		})
		valOK := len(cl.Params) == 2 && w.Origin(up.Value) == "param("+cl.Params[1].Name()+")"
		if !valOK && len(cl.Params) == 2 {
			// the copy goes through a conversion callback that hands its own parameter back
			if rv, vp, isConv := convertedValue(up.Value, cl.Params[1], home, homeCall); isConv {
				valOK = w.Origin(rv) == "param("+vp.Name()+")"
			}
		}
		okd := rcv != nil && strings.HasSuffix(w.Origin(rcv), ".GetOffsets)()#1") && len(cl.Params) == 2 &&
			w.Origin(up.Key) == "param("+cl.Params[0].Name()+")" && valOK && len(guardsOf(up.Block())) == 0
		c.Check(okd, id, "dirty-dump@"+fname(fn), up.Pos(), "dirty dump copies every (key, value) of GetOffsets()#1",
			fmt.Sprintf("dirty dump is not a full copy of GetOffsets()#1: source %s, key %s, value %s, guards %d", w.Origin(rcv), w.Origin(up.Key), w.Origin(up.Value), len(guardsOf(up.Block()))))
	}
	c.Floor(id, 3)
}

func c05r4(c *Ctx, id string) {
	w := c.W
	impls := w.implsOf("stream", "Checkpoint", "Save")
	c.need(len(impls) > 0, id, "implementation of stream.Checkpoint.Save")
	n := 0
	for _, fn := range w.ModFuncs {
		allInstrs(fn, func(in ssa.Instruction) {
			cc := callOf(in)
			if cc == nil || !isInvokeOf(cc, "Stream", "UnmarkDirtyOffsets") {
				return
			}
			n++
			c.see(fn)
			c.CallSites++
			construct := "unmark@" + fname(fn)
			// find the Metadata.Save invoke in the same function
			var save *ssa.Call
			allInstrs(fn, func(x ssa.Instruction) {
				if call, ok := x.(*ssa.Call); ok && isInvokeOf(call.Common(), "Metadata", "Save") {
					save = call
				}
			})
			if save == nil {
				c.Fail(id, construct, in.Pos(), "dirty set cleared in a function that performs no Metadata.Save")
				return
			}
			okGuard := errGuard(in.Block(), true, func(v ssa.Value) bool { return v == ssa.Value(save) })
			okOrder := dominatesInstr(save, in)
			if okGuard && okOrder {
				c.OK(id, construct, in.Pos(), "cleared only in the err==nil branch of the Metadata.Save result, after the write")
			} else {
				c.Fail(id, construct, in.Pos(), "dirty set cleared without proof of a successful write (guarded by err==nil of the write: %v, after the write: %v)", okGuard, okOrder)
			}
		})
	}
	if n == 0 {
		c.Fail(id, "unmark", 0, "UnmarkDirtyOffsets is never called: every save would rewrite everything / or nothing is ever cleared")
	}
	// the implementation clears both the flag and the map
	flag, dirty := saveFlagField(w)
	for _, um := range w.implsOf("stream", "Stream", "UnmarkDirtyOffsets") {
		c.see(um)
		clearedFlag, clearedMap := false, false
		allInstrs(um, func(in ssa.Instruction) {
			if fl, _, val := flagWrite(in); fl != nil && fl == flag && w.Origin(val) == "const(false)" {
				clearedFlag = true
			}
			if st, ok := in.(*ssa.Store); ok {
				if fieldOfAddr(st.Addr) == dirty && freshMap(st.Val) {
					clearedMap = true
				}
			}
		})
		c.Check(clearedFlag && clearedMap, id, "unmark-impl@"+fname(um), um.Pos(), "clears the flag and replaces the dirty map", fmt.Sprintf("UnmarkDirtyOffsets clears flag=%v map=%v", clearedFlag, clearedMap))
	}
}

func c05r5(c *Ctx, id string) {
	w := c.W
	impls := w.implsOf("metadata", "Metadata", "Save")
	c.need(len(impls) >= 2, id, "implementations of metadata.Metadata.Save")
	for _, fn := range impls {
		c.see(fn)
		fns := []*ssa.Function{}
		for f := range w.syncCallees(fn, 1, true) {
			fns = append(fns, withAnon(f)...)
		}
		nErr := 0
		for _, f := range dedupFns(fns) {
			if rootFn(f) != fn && !isHelperOf(w, fn, rootFn(f)) {
				continue
			}
			allInstrs(f, func(in ssa.Instruction) {
				call, ok := in.(*ssa.Call)
				if !ok || !hasErrorResult(call.Common()) {
					return
				}
				cc := call.Common()
				name := calleeName(cc)
				if strings.HasPrefix(name, "errors.As") || strings.HasPrefix(name, "errors.Is") {
					return
				}
				nErr++
				c.CallSites++
				construct := "err:" + name + "@" + fname(f)
				ers := errResults(call)
				if t := marshalArgType(cc); t != nil && (len(ers) == 0 || !reported(errorSinks(ers[0]))) {
					// allowance (one idiom, with reason): JSON-marshalling a value whose static type consists of
					// integers, strings, bools, pointers, structs and maps of those cannot fail
					if marshalTotal(t, 0) {
						c.OKTrivial(id, construct, in.Pos(), "error of %s not propagated, but marshalling the static type %s is total", name, shortType(t))
						return
					}
				}
				if len(ers) == 0 {
					c.Fail(id, construct, in.Pos(), "the error result of %s is discarded", name)
					return
				}
				sinks := errorSinks(ers[0])
				if reported(sinks) {
					c.OK(id, construct, in.Pos(), "error of %s reaches %s", name, sinkKinds(sinks))
				} else {
					c.Fail(id, construct, in.Pos(), "error of %s reaches %s — a failed write would be reported as success and the dirty marks cleared", name, sinkKinds(sinks))
				}
			})
		}
		// every return of the backend: constant nil only if no error-returning primitive exists
		allInstrs(fn, func(in ssa.Instruction) {
			if r, ok := in.(*ssa.Return); ok && len(r.Results) == 1 && isNilConst(r.Results[0]) && nErr > 0 {
				// allowed when all primitive errors were returned earlier on their own paths; require that this return is reached only with err == nil
				if !errGuardAny(in.Block()) {
					c.Fail(id, "return-nil@"+fname(fn), in.Pos(), "backend returns the constant nil although it performs %d fallible operations", nErr)
				}
			}
		})
	}
	// couchbase backend specifics
	cbs := w.Method("couchbase", "cbMetadata", "Save")
	c.need(cbs != nil, id, "couchbase.cbMetadata.Save")
	var goCalls []ssa.Instruction
	allInstrs(cbs, func(in ssa.Instruction) {
		cc := callOf(in)
		if cc != nil && isStaticCall(cc, "errgroup", "Group", "Go") {
			goCalls = append(goCalls, in)
		}
		if r, ok := in.(*ssa.Return); ok && len(r.Results) == 1 {
			o := w.Origin(r.Results[0])
			c.Check(strings.HasPrefix(o, "call((*golang.org/x/sync/errgroup.Group).Wait)("), id, "wait@"+fname(cbs), in.Pos(), "returns "+o, "backend returns "+o+" instead of the group's Wait()")
		}
	})
	if len(goCalls) != 1 {
		c.Undecided(id, "spawn@"+fname(cbs), cbs.Pos(), "%d errgroup.Go calls (expected 1)", len(goCalls))
	} else {
		in := goCalls[0]
		var gs []string
		for _, g := range guardsOf(in.Block()) {
			v, pol := stripNot(g.Cond, g.Branch)
			gs = append(gs, fmt.Sprintf("%v:%s", pol, w.Origin(v)))
		}
		// loop guard (range) + dirty lookup
		dirtyP := ""
		if len(cbs.Params) > 2 {
			dirtyP = "param(" + cbs.Params[2].Name() + ")"
		}
		okg := false
		var key string
		for _, g := range gs {
			if strings.HasPrefix(g, "true:"+dirtyP+"[") {
				okg = true
				key = strings.TrimSuffix(strings.TrimPrefix(g, "true:"+dirtyP+"["), "]")
			}
		}
		extra := 0
		for _, g := range gs {
			if !strings.HasPrefix(g, "true:"+dirtyP+"[") && !strings.Contains(g, "next(range(") {
				extra++
			}
		}
		c.Check(okg && extra == 0, id, "spawn-iff-dirty@"+fname(cbs), in.Pos(), "a write is spawned ⇔ dirtyOffsets["+key+"]", "write spawned under ["+strings.Join(gs, " ∧ ")+"], expected exactly dirtyOffsets[ranged key]")
		// ctx derives from Checkpoint.Timeout
		cc := callOf(in)
		org := w.Origin(cc.Args[1])
		// a parameter bundle built at the call site: its fields are the arguments
		if wc, isCall := unwrap(cc.Args[1]).(*ssa.Call); isCall {
			for _, a := range wc.Common().Args {
				if al := asAlloc(a); al != nil && isBundle(al.Type().(*types.Pointer).Elem()) {
					tab, _ := allocTable(al)
					for _, f := range sortedKeys(tab) {
						org += " {" + f + ": " + w.Origin(tab[f]) + "}"
					}
				}
			}
		}
		c.Check(strings.Contains(org, "context.WithTimeout") && strings.Contains(org, "Checkpoint.Timeout") && strings.Contains(org, key), id, "ctx@"+fname(cbs), in.Pos(),
			"writer gets the Checkpoint.Timeout context and the ranged key", "writer spawned as "+org+" — expected the context derived from Checkpoint.Timeout and the dirty key")
	}
	c.Floor(id, 6)
}

// isHelperOf: helper is a module function called from backend's Save (one level).
func isHelperOf(w *World, save, helper *ssa.Function) bool {
	ok := false
	allInstrs(save, func(in ssa.Instruction) {
		if cc := callOf(in); cc != nil && cc.StaticCallee() == helper {
			ok = true
		}
	})
	return ok
}

// errGuardAny: the block is reached only when some error value is known to be nil.
func errGuardAny(b *ssa.BasicBlock) bool {
	return errGuard(b, true, func(v ssa.Value) bool { return types.Implements(v.Type(), errorIface()) })
}

func c05r6(c *Ctx, id string) {
	w := c.W
	n := 0
	for _, fn := range w.ModFuncs {
		var closes []ssa.Instruction
		allInstrs(fn, func(in ssa.Instruction) {
			if cc := callOf(in); cc != nil && isInvokeOf(cc, "Stream", "Close") {
				closes = append(closes, in)
			}
		})
		for _, cl := range closes {
			n++
			c.see(fn)
			construct := "final-save@" + fname(fn)
			// a path from entry to Close that avoids Stream.Save and does not take the false edge of `Checkpoint.Type == auto`
			bad := existsEntryPathAvoidingEdges(fn, cl, func(in ssa.Instruction) bool {
				cc := callOf(in)
				return cc != nil && isInvokeOf(cc, "Stream", "Save")
			}, func(ifi *ssa.If, succ int) bool {
				v, pol := stripNot(ifi.Cond, succ == 0)
				o := w.Origin(v)
				isAuto := strings.HasSuffix(o, ".Checkpoint.Type == const(\"auto\"))")
				isNotAuto := strings.HasSuffix(o, ".Checkpoint.Type != const(\"auto\"))")
				return (isAuto && !pol) || (isNotAuto && pol) // leaving through "type is not auto": exempt
			})
			if bad {
				c.Fail(id, construct, cl.Pos(), "a path reaches Stream.Close without a preceding Stream.Save although checkpointing may be automatic — the positions settled since the last periodic save are discarded by Close")
			} else {
				c.OK(id, construct, cl.Pos(), "every path to Stream.Close passes Stream.Save unless Checkpoint.Type ≠ auto")
			}
		}
	}
	if n == 0 {
		c.Undecided(id, "final-save", 0, "no function closes the stream through the Stream interface")
	}
}

// existsEntryPathAvoidingEdges is existsEntryPathAvoiding with exempt CFG edges (a path taking an exempt edge does not count).
func existsEntryPathAvoidingEdges(fn *ssa.Function, to ssa.Instruction, hit func(ssa.Instruction) bool, exempt func(*ssa.If, int) bool) bool {
	seen := map[*ssa.BasicBlock]bool{}
	var walk func(b *ssa.BasicBlock) bool
	walk = func(b *ssa.BasicBlock) bool {
		for _, in := range b.Instrs {
			if in == to {
				return true
			}
			if hit(in) {
				return false
			}
		}
		var ifi *ssa.If
		if len(b.Instrs) > 0 {
			ifi, _ = b.Instrs[len(b.Instrs)-1].(*ssa.If)
		}
		for k, s := range b.Succs {
			if ifi != nil && exempt(ifi, k) {
				continue
			}
			if seen[s] {
				continue
			}
			seen[s] = true
			if walk(s) {
				return true
			}
		}
		return false
	}
	if len(fn.Blocks) == 0 {
		return false
	}
	seen[fn.Blocks[0]] = true
	return walk(fn.Blocks[0])
}

func c05r7(c *Ctx, id string) {
	w := c.W
	for _, fn := range w.implsOf("stream", "Checkpoint", "Save") {
		c.see(fn)
		var save *ssa.Call
		allInstrs(fn, func(x ssa.Instruction) {
			if call, ok := x.(*ssa.Call); ok && isInvokeOf(call.Common(), "Metadata", "Save") {
				save = call
			}
		})
		if save == nil {
			c.Undecided(id, fname(fn), fn.Pos(), "no Metadata.Save call")
			continue
		}
		var lock *ssa.Call
		allInstrs(fn, func(x ssa.Instruction) {
			if call, ok := x.(*ssa.Call); ok && isStaticCall(call.Common(), "sync", "Mutex", "Lock") && dominatesInstr(call, save) {
				lock = call
			}
		})
		if lock == nil {
			c.Fail(id, "lock@"+fname(fn), save.Pos(), "the write is not dominated by a blocking Mutex.Lock (TryLock or no lock: a save issued during an in-flight save returns without writing)")
			continue
		}
		mu := w.Origin(lock.Common().Args[0])
		// next call-like instruction after the lock must be the deferred unlock of the same mutex
		var next ssa.Instruction
		after := false
		for _, in := range lock.Block().Instrs {
			if in == ssa.Instruction(lock) {
				after = true
				continue
			}
			if after && callOf(in) != nil {
				next = in
				break
			}
		}
		okDefer := false
		if d, ok := next.(*ssa.Defer); ok && isStaticCall(d.Common(), "sync", "Mutex", "Unlock") && w.Origin(d.Common().Args[0]) == mu {
			okDefer = true
		}
		c.Check(okDefer, id, "lock@"+fname(fn), lock.Pos(), "Lock("+mu+") followed immediately by defer Unlock, dominating the write", "Lock("+mu+") is not followed immediately by the deferred Unlock of the same mutex")
	}
}

// mutexID canonicalises a mutex operand to Type.field.
func mutexID(w *World, v ssa.Value) string {
	if f := loadedField(v); f != nil {
		return fieldOwner(v) + "." + f.Name()
	}
	if f := fieldOfAddr(v); f != nil {
		return fieldOwner(v) + "." + f.Name()
	}
	return w.Origin(v)
}

func fieldOwner(v ssa.Value) string {
	switch x := v.(type) {
	case *ssa.UnOp:
		if fa, ok := x.X.(*ssa.FieldAddr); ok {
			return recvTypeName(fa.X.Type())
		}
	case *ssa.FieldAddr:
		return recvTypeName(x.X.Type())
	}
	// the receiver a flag setter is called on (flagWrite reports it in place of the field's address)
	if _, isPtr := v.Type().Underlying().(*types.Pointer); isPtr {
		if n := recvTypeName(v.Type()); n != "" {
			return n
		}
	}
	return "?"
}

// heldMutexes: like locksHeldInterproc but with canonical mutex identities.
func heldMutexes(w *World, in ssa.Instruction, depth int) map[string]bool {
	fn := in.Parent()
	held := map[string]bool{}
	allInstrs(fn, func(x ssa.Instruction) {
		call, ok := x.(*ssa.Call)
		if !ok || !isStaticCall(call.Common(), "sync", "Mutex", "Lock") || !dominatesInstr(call, in) {
			return
		}
		mu := mutexID(w, call.Common().Args[0])
		released := false
		allInstrs(fn, func(y ssa.Instruction) {
			if c2, ok := y.(*ssa.Call); ok && isStaticCall(c2.Common(), "sync", "Mutex", "Unlock") && mutexID(w, c2.Common().Args[0]) == mu {
				if dominatesInstr(call, y) && dominatesInstr(y, in) {
					released = true
				}
			}
		})
		if !released {
			held[mu] = true
		}
	})
	if depth == 0 || fn.Parent() != nil {
		return held
	}
	var inherited map[string]bool
	n := 0
	for _, g := range w.ModFuncs {
		allInstrs(g, func(x ssa.Instruction) {
			cc := callOf(x)
			if cc == nil {
				return
			}
			match := cc.StaticCallee() == fn
			if cc.IsInvoke() && fn.Signature.Recv() != nil && cc.Method.Name() == fn.Name() {
				if it, ok := cc.Value.Type().Underlying().(*types.Interface); ok && types.Implements(fn.Signature.Recv().Type(), it) {
					match = true
				}
			}
			if !match {
				return
			}
			n++
			h := heldMutexes(w, x, depth-1)
			if inherited == nil {
				inherited = h
			} else {
				for k := range inherited {
					if !h[k] {
						delete(inherited, k)
					}
				}
			}
		})
	}
	if len(w.usesAsValue(fn)) > 0 || n == 0 {
		inherited = nil
	}
	for k := range inherited {
		held[k] = true
	}
	return held
}

func c05r8(c *Ctx, id string) {
	w := c.W
	flag, dirty := saveFlagField(w)
	c.need(flag != nil && dirty != nil, id, "save flag / dirty map fields")
	type site struct {
		fn   *ssa.Function
		in   ssa.Instruction
		what string
	}
	var marks, clears []site
	lifecycle := map[string]bool{"Open": true, "Close": true} // the stream is quiesced while it is (re)opened or closed
	for _, fn := range w.ModFuncs {
		allInstrs(fn, func(in ssa.Instruction) {
			if st, ok := in.(*ssa.Store); ok {
				f := fieldOfAddr(st.Addr)
				if f != flag && f != dirty {
					return
				}
				root := rootFn(fn)
				if lifecycle[root.Name()] && fn == root {
					return
				}
				if _, isAlloc := st.Addr.(*ssa.FieldAddr).X.(*ssa.Alloc); isAlloc {
					return
				}
				isClear := (f == flag && w.Origin(st.Val) == "const(false)") || (f == dirty && freshMap(st.Val))
				if isClear {
					clears = append(clears, site{fn, in, f.Name() + " cleared"})
				} else {
					marks = append(marks, site{fn, in, f.Name() + " := " + w.Origin(st.Val)})
				}
			}
			if cc := callOf(in); cc != nil {
				if m, recv := csmapMethod(cc); csmapMutators[m] && derefsTo(recv, dirty) {
					marks = append(marks, site{fn, in, "dirty map " + m})
				}
			}
		})
	}
	if len(marks) == 0 || len(clears) == 0 {
		c.Undecided(id, "sites", 0, "found %d mark and %d clear sites of the dirty state", len(marks), len(clears))
		return
	}
	done := map[string]bool{}
	for _, cl := range clears {
		hc := heldMutexes(w, cl.in, 3)
		for _, mk := range marks {
			key := "clear=" + siteRole(w, cl.fn) + "|mark=" + siteRole(w, mk.fn)
			if done[key] {
				continue
			}
			done[key] = true
			c.see(cl.fn)
			c.see(mk.fn)
			hm := heldMutexes(w, mk.in, 3)
			common := ""
			for k := range hc {
				if hm[k] {
					common = k
				}
			}
			if common != "" {
				c.OK(id, key, mk.in.Pos(), "both sides hold %s", common)
			} else {
				c.Fail(id, key, mk.in.Pos(), "%s in %s holds %s, %s in %s holds %s: no common mutex — a settle landing between Save's dump and the unmark is forgotten (the next Save performs no write)",
					cl.what, fname(cl.fn), setStr(hc), mk.what, fname(mk.fn), setStr(hm))
			}
		}
	}
}

// marshalArgType: static type of the value handed to a sonic/encoding-json Marshal call (nil for other calls).
func marshalArgType(cc *ssa.CallCommon) types.Type {
	sf := cc.StaticCallee()
	if sf == nil || sf.Pkg == nil || !strings.HasPrefix(sf.Name(), "Marshal") {
		return nil
	}
	p := sf.Pkg.Pkg.Path()
	if !(strings.HasSuffix(p, "/sonic") || p == "encoding/json") || len(cc.Args) == 0 {
		return nil
	}
	if mi, ok := cc.Args[0].(*ssa.MakeInterface); ok {
		return mi.X.Type()
	}
	return nil
}

func marshalTotal(t types.Type, depth int) bool {
	if depth > 6 {
		return false
	}
	switch u := t.Underlying().(type) {
	case *types.Basic:
		return u.Info()&(types.IsInteger|types.IsString|types.IsBoolean) != 0
	case *types.Pointer:
		return marshalTotal(u.Elem(), depth+1)
	case *types.Struct:
		for i := 0; i < u.NumFields(); i++ {
			if !marshalTotal(u.Field(i).Type(), depth+1) {
				return false
			}
		}
		return true
	case *types.Map:
		kb, ok := u.Key().Underlying().(*types.Basic)
		return ok && kb.Info()&(types.IsInteger|types.IsString) != 0 && marshalTotal(u.Elem(), depth+1)
	case *types.Slice:
		return marshalTotal(u.Elem(), depth+1)
	}
	return false
}

// siteRole names a function by the role it plays (stable under renames of unexported helpers):
// the implementation of an interface method, the position writer, the acknowledgement closure.
func siteRole(w *World, fn *ssa.Function) string {
	for _, pw := range w.positionWriterFuncs() {
		if fn == pw {
			return "position-writer"
		}
	}
	if fn.Parent() != nil {
		ack := w.listenerContextField("Ack")
		isAck := false
		allInstrs(fn.Parent(), func(in ssa.Instruction) {
			if mc, ok := in.(*ssa.MakeClosure); ok && mc.Fn == fn {
				for _, r := range *mc.Referrers() {
					if st, ok := r.(*ssa.Store); ok && fieldOfAddr(st.Addr) == ack {
						isAck = true
					}
				}
			}
		})
		if isAck {
			return "ack-closure"
		}
	}
	if fn.Signature.Recv() != nil && fn.Parent() == nil {
		for _, iface := range []string{"Stream", "Checkpoint"} {
			for _, impl := range w.implsOf("stream", iface, fn.Name()) {
				if impl == fn {
					return iface + "." + fn.Name()
				}
			}
		}
	}
	return fname(fn)
}
