package main

import (
	"go/constant"
	"go/token"
	"go/types"
	"strconv"
	"strings"

	"golang.org/x/tools/go/ssa"
)

func init() {
	register(&Property{
		ID: "C09",
		Explanation: "Decides the STRUCTURAL half of the partition property only: (R1) the vBucket list is the identity sequence 0..n-1 built in ascending order and every chunk ChunkSlice returns is a sub-slice of its own parameter taken in one ascending sweep (start of chunk i+1 = end of chunk i) — hence contiguous, ascending, gap-free between consecutive chunks; " +
			"(R2) a member takes exactly ChunkSlice(all, TotalMembers)[MemberNumber-1] with both numbers read from one GetInfo() value, and returns that slice itself (no cache, no copy); (R3) ChunkSlice and Get are pure: no package-level state, no goroutine, no map iteration, ChunkSlice calls only builtins and Get's result depends on the receiver only through the vBucket count and the membership. " +
			"NOT decided (and not claimed): non-emptiness, exact cover, balance within one — these are arithmetic facts about ((n-1)/c)+1 and c-(m·c-n) for all n, c, which need symbolic algebra or enumeration (other technique families). A change that only alters those formulas is not detected by this check.",
		Assumptions: []string{"members agree on the group size (C10)"},
		Rules: []RuleDef{
			{ID: "C09.R23", Text: "the leader numbers exactly the members that answer now: one heart-beat round evaluated whole — every follower is pinged once and removed ⇔ its ping failed in this round; a leader that answers is left alone, a silent one is re-contacted and forgotten only when that fails too (same rule as C10.R21)", Run: leaderHeartbeatRound},
			{ID: "C09.R1", Text: "identity sequence built ascending; every chunk is param[start:end] with start(i+1)=end(i), start(0)=0 — contiguous ascending sweep, no copy/reorder", Run: c09r1},
			{ID: "C09.R2", Text: "member's set = ChunkSlice(all, info.TotalMembers)[info.MemberNumber-1], info from one GetInfo() call, returned as is", Run: c09r2},
			{ID: "C09.R4", Text: "the ownership test and the close loop agree with the assigned chunk: In ⇔ Start ≤ vbID ≤ End (a one-vBucket range is not empty), range = [first, last] of the chunk, streams closed for Start..End inclusive (same rules as C04.R2, C13.R8)", Run: func(c *Ctx, id string) { c04r2(c, id); closeAllRange(c, id) }},
			{ID: "C09.R5", Text: "the streams opened are those of the assigned chunk: one opener per element of the list VBucketDiscovery.Get returned (same rule as C15.R3)", Run: c15r3},
			{ID: "C09.R6", Text: "a change of the group reaches the partition: the client's bus listener calls Stream.Rebalance on every path, also while the stream is closed or reopening (same rule as C11.R7)", Run: c11r7},
			{ID: "C09.R7", Text: "the partition is computed from the membership in effect: the bus-fed membership implementations record every announcement unconditionally and GetInfo only reads (same rule as C11.R12)", Run: latestInfo},
			{ID: "C09.R8", Text: "the partition is computed from a membership that exists: GetInfo returns the recorded value or waits for the first (same rule as C10.R16)", Run: infoGetters},
			{ID: "C09.R9", Text: "the member number the partition is computed from is the configured one: defaulting never rewrites a configured member number or group size (same rule as C17.R1)", Run: c17r1},
			{ID: "C09.R10", Text: "a reopened vBucket is one this member still owns: reopen goes through openStream, which looks the vBucket up in the current position map at call time and fails for one that left the range (same rule as C12.R3)", Run: c12r3},
			{ID: "C09.R11", Text: "the partition keeps following the membership: the vBucket discovery is closed only by the client's close path, never by the stream (a rebalance closes the stream, not the discovery)", Run: discoveryClosedOnlyByClient},
			{ID: "C09.R12", Text: "the partition is computed from the latest numbering: announcements are applied in the order they were made: every Publish on the membership topic is a plain synchronous call, never go/defer (same rule as C10.R29)", Run: publishSynchronous},
			{ID: "C09.R13", Text: "a member the group no longer lists stops instead of keeping its old chunk: the numbering step is fatal when the live list does not contain this member (same rule as C10.R25)", Run: cbmNumbering},
			{ID: "C09.R14", Text: "members that the leader numbers never share a number: every round re-sends (i+2, n+1) to every registered follower at its join-ordered position (same rule as C10.R20)", Run: leaderMonitorRound},
			{ID: "C09.R15", Text: "a follower that registered before the new leader's callback ran keeps its place: role callbacks touch the registry only through their own steps (same rule as C10.R22)", Run: leaderRoles},
			{ID: "C09.R16", Text: "a dead follower leaves the group (its chunk is re-assigned): the heart-beat removes exactly the followers whose ping failed, and Retry reports nil ⇔ some attempt succeeded (same rule as C10.R7)", Run: c10r7},
			{ID: "C09.R17", Text: "the member number of a static group is the one written in the file: an unresolved ${VAR} stays a literal the numeric field refuses, it never becomes the default member 1 (same rule as C17.R4)", Run: c17r4},
			{ID: "C09.R18", Text: "a follower takes the number its leader sends, from whichever connection it arrives: the RPC handler announces exactly the payload, unconditionally (same rule as C10.R23)", Run: rpcAgreement},
			{ID: "C09.R19", Text: "the streams of the old chunk are closed before the new chunk is opened: Close runs closeAllStreams synchronously, between the two switches (same rule as C13.R2)", Run: c13r2},
			{ID: "C09.R20", Text: "every member partitions the same 0..N-1: N handed to the vBucket discovery is the vBucket count of the bucket as the cluster map states it (Client.GetNumVBuckets)", Run: vbCountSource},
			{ID: "C09.R21", Text: "a member learns of every change of the group, in every stream mode: the start path subscribes the membership listener unconditionally and a failure is fatal (the start and close paths of the client, call by call: same rule as C19.R7)", Run: clientWiring},
			{ID: "C09.R22", Text: "a membership that cannot be built is refused, not replaced: the no-match paths of the membership and metadata selections panic, so no member silently numbers itself (same rule as C15.R4)", Run: c15r4},
			{ID: "C09.R24", Text: "a member takes the chunk of the number it was given: every assignment that differs from the one in effect — a renumbering at unchanged group size too, and the first one whatever it is — is published (same rule as C10.R1)", Run: c10r1},
			{ID: "C09.R3", Text: "purity: no globals, goroutines, map ranges; ChunkSlice calls only builtins; Get calls only GetInfo, ChunkSlice and the logger", Run: c09r3},
		},
	})
}

// inductionStart: v is a loop counter c, c+1, c+2 ... (phi(const c | phi+1 ...)) or the rotated form (phi+1) — returns its first value.
func inductionStart(v ssa.Value) (int64, bool) {
	add := int64(0)
	if b, ok := v.(*ssa.BinOp); ok && b.Op == token.ADD {
		if c, ok := b.Y.(*ssa.Const); ok && c.Value != nil {
			if n, ok := constant.Int64Val(c.Value); ok && n == 1 {
				add = 1
				v = b.X
			}
		}
	}
	phi, ok := v.(*ssa.Phi)
	if !ok {
		return 0, false
	}
	var start *int64
	for _, e := range phi.Edges {
		if c, ok := e.(*ssa.Const); ok && c.Value != nil {
			n, ok := constant.Int64Val(c.Value)
			if !ok || (start != nil && *start != n) {
				return 0, false
			}
			start = &n
			continue
		}
		b, ok := e.(*ssa.BinOp)
		if !ok || b.Op != token.ADD || b.X != ssa.Value(phi) {
			return 0, false
		}
		c, ok := b.Y.(*ssa.Const)
		if !ok || c.Value == nil {
			return 0, false
		}
		if n, ok := constant.Int64Val(c.Value); !ok || n != 1 {
			return 0, false
		}
	}
	if start == nil {
		return 0, false
	}
	return *start + add, true
}

func c09r1(c *Ctx, id string) {
	w := c.W
	// identity sequence in Get
	for _, get := range w.implsOf("stream", "VBucketDiscovery", "Get") {
		c.see(get)
		n := 0
		allInstrs(get, func(in ssa.Instruction) {
			call, ok := in.(*ssa.Call)
			if !ok {
				return
			}
			b, ok := call.Common().Value.(*ssa.Builtin)
			if !ok || b.Name() != "append" {
				return
			}
			n++
			// appended element: a one-element array holding uint16(i), i an induction variable from 0, loop bound i < recv.vBucketNumber
			okElem, okBound := false, false
			if sl, ok := call.Common().Args[1].(*ssa.Slice); ok {
				if al, ok := sl.X.(*ssa.Alloc); ok {
					for _, r := range *al.Referrers() {
						if ia, ok := r.(*ssa.IndexAddr); ok {
							for _, rr := range *ia.Referrers() {
								if st, ok := rr.(*ssa.Store); ok {
									v := unwrap(st.Val)
									if s0, ok := inductionStart(v); ok && s0 == 0 {
										okElem = true
										for _, g := range guardsOf(in.Block()) {
											if bo, ok := g.Cond.(*ssa.BinOp); ok && g.Branch && bo.Op == token.LSS && bo.X == v && w.Origin(bo.Y) == "recv.vBucketNumber" {
												okBound = true
											}
										}
									}
								}
							}
						}
					}
				}
			}
			// the slice appended to is the loop-carried result itself
			okAcc := false
			if phi, ok := call.Common().Args[0].(*ssa.Phi); ok {
				for _, e := range phi.Edges {
					if e == ssa.Value(call) {
						okAcc = true
					}
				}
			}
			c.Check(okElem && okBound && okAcc, id, "identity@"+fname(get), in.Pos(), "appends uint16(i) for i = 0,1,… while i < vBucketNumber to the running list",
				"the vBucket list is not built as the ascending identity sequence 0..vBucketNumber-1 (element from counter starting at 0: "+boolStr(okElem)+", bound i < vBucketNumber: "+boolStr(okBound)+", appended to the running list: "+boolStr(okAcc)+")")
		})
		if n != 1 {
			c.Undecided(id, "identity@"+fname(get), get.Pos(), "%d append calls in Get (expected 1)", n)
		}
	}
	// ChunkSlice: every stored chunk is param[start:end], start(0)=0, start(next)=end
	cs := w.chunkSliceInstances()
	c.need(len(cs) > 0, id, "helpers.ChunkSlice (instantiation)")
	for _, fn := range cs {
		c.see(fn)
		n := 0
		allInstrs(fn, func(in ssa.Instruction) {
			st, ok := in.(*ssa.Store)
			if !ok {
				return
			}
			ia, ok := st.Addr.(*ssa.IndexAddr)
			if !ok {
				return
			}
			if _, isMS := ia.X.(*ssa.MakeSlice); !isMS {
				return
			}
			n++
			sl, ok := st.Val.(*ssa.Slice)
			construct := "chunk@" + fname(fn)
			if !ok || sl.X != ssa.Value(fn.Params[0]) || sl.Max != nil {
				c.Fail(id, construct, in.Pos(), "chunk ← %s: not a sub-slice of the function's own parameter (copy or reorder)", w.Origin(st.Val))
				return
			}
			// start is a phi(const 0 | end) — the next chunk starts where this one ended
			okSweep := false
			if phi, ok := sl.Low.(*ssa.Phi); ok && len(phi.Edges) == 2 {
				var hasZero, hasEnd bool
				for _, e := range phi.Edges {
					if cst, ok := e.(*ssa.Const); ok && cst.Value != nil && cst.Value.ExactString() == "0" {
						hasZero = true
					}
					if e == sl.High {
						hasEnd = true
					}
				}
				okSweep = hasZero && hasEnd
			}
			// index of the chunk: induction variable from 0
			_, okIdx := inductionStart(ia.Index)
			c.Check(okSweep && okIdx, id, construct, in.Pos(), "result[i] ← slice[start:end] with start₀=0 and startᵢ₊₁=endᵢ (one ascending sweep, no gaps or overlaps between consecutive chunks)",
				"chunks are not cut in one ascending sweep: low bound "+w.Origin(sl.Low)+", high bound "+w.Origin(sl.High))
		})
		if n != 1 {
			c.Undecided(id, "chunk@"+fname(fn), fn.Pos(), "%d stores into the result slice (expected 1)", n)
		}
	}
}

func boolStr(b bool) string {
	if b {
		return "yes"
	}
	return "no"
}

func (w *World) chunkSliceInstances() []*ssa.Function {
	var out []*ssa.Function
	for _, fn := range w.ModFuncs {
		if fn.Parent() == nil && fn.Origin() != nil && isSSAFunc(fn, "/helpers", "", "ChunkSlice") && len(fn.TypeArgs()) > 0 {
			out = append(out, fn)
		}
	}
	return out
}

func c09r2(c *Ctx, id string) {
	w := c.W
	for _, get := range w.implsOf("stream", "VBucketDiscovery", "Get") {
		c.see(get)
		allInstrs(get, func(in ssa.Instruction) {
			r, ok := in.(*ssa.Return)
			if !ok || len(r.Results) != 1 {
				return
			}
			// result = load of IndexAddr(call ChunkSlice(list, info.TotalMembers), info.MemberNumber - 1)
			construct := "select@" + fname(get)
			ld, ok := r.Results[0].(*ssa.UnOp)
			var ia *ssa.IndexAddr
			if ok {
				ia, _ = ld.X.(*ssa.IndexAddr)
			}
			if ia == nil {
				c.Fail(id, construct, in.Pos(), "Get returns %s, not an element of the ChunkSlice result (cache/copy?)", w.Origin(r.Results[0]))
				return
			}
			call, ok := ia.X.(*ssa.Call)
			if !ok || !isStaticCall(call.Common(), "/helpers", "", "ChunkSlice") {
				c.Fail(id, construct, in.Pos(), "the member's set is taken from %s, expected helpers.ChunkSlice(all vBuckets, TotalMembers)", w.Origin(ia.X))
				return
			}
			tot := w.Origin(call.Common().Args[1])
			idx := w.Origin(ia.Index)
			info := "call(recv.membership.GetInfo)()"
			nInfo := 0
			allInstrs(get, func(x ssa.Instruction) {
				if cc := callOf(x); cc != nil && isInvokeOf(cc, "Membership", "GetInfo") {
					nInfo++
				}
			})
			ok2 := tot == info+".TotalMembers" && idx == "("+info+".MemberNumber - const(1))" && nInfo == 1
			c.Check(ok2, id, construct, in.Pos(), "returns ChunkSlice(all, "+tot+")["+idx+"]", "returns ChunkSlice(all, "+tot+")["+idx+"] with "+itoa(nInfo)+" GetInfo calls; expected TotalMembers chunks, index MemberNumber-1, one GetInfo()")
			// the list handed to ChunkSlice is the identity list built above
			lo := w.Origin(call.Common().Args[0])
			c.Check(strings.HasPrefix(lo, "φ1(makeslice | append(φ1,"), id, "select-list@"+fname(get), in.Pos(), "chunks the list built by the append loop", "ChunkSlice is applied to "+lo)
		})
	}
	c.Floor(id, 2)
}

func itoa(n int) string { return strconv.Itoa(n) }

func c09r3(c *Ctx, id string) {
	w := c.W
	pure := func(fn *ssa.Function, allowed func(cc *ssa.CallCommon) bool, allowedFieldReads map[string]bool) {
		c.see(fn)
		var bad []string
		for _, f := range withAnon(fn) {
			allInstrs(f, func(in ssa.Instruction) {
				switch x := in.(type) {
				case *ssa.Go:
					bad = append(bad, "goroutine @"+w.pos(in.Pos()))
				case *ssa.Range:
					if _, isMap := x.X.Type().Underlying().(*types.Map); isMap {
						bad = append(bad, "map iteration @"+w.pos(in.Pos()))
					}
				case *ssa.UnOp:
					if g, ok := x.X.(*ssa.Global); ok && x.Op == token.MUL {
						if !(g.Pkg.Pkg.Name() == "logger" && g.Name() == "Log") {
							bad = append(bad, "reads package variable "+g.Name()+" @"+w.pos(in.Pos()))
						}
					}
					if x.Op == token.MUL && allowedFieldReads != nil {
						if fld := fieldOfAddr(x.X); fld != nil {
							if fa := x.X.(*ssa.FieldAddr); fa.X == ssa.Value(fn.Params[0]) && !allowedFieldReads[fld.Name()] {
								bad = append(bad, "result may depend on receiver state ."+fld.Name()+" @"+w.pos(in.Pos()))
							}
						}
					}
				case *ssa.Store:
					if g, ok := x.Addr.(*ssa.Global); ok {
						bad = append(bad, "writes package variable "+g.Name()+" @"+w.pos(in.Pos()))
					}
				case ssa.CallInstruction:
					cc := x.Common()
					if _, isB := cc.Value.(*ssa.Builtin); isB {
						return
					}
					if !allowed(cc) {
						bad = append(bad, "calls "+calleeName(cc)+" @"+w.pos(in.Pos()))
					}
				}
			})
		}
		if len(bad) == 0 {
			c.OK(id, "pure@"+fname(fn), fn.Pos(), "no package-level state, goroutine, map iteration or foreign call")
		} else {
			c.Fail(id, "pure@"+fname(fn), fn.Pos(), "not a pure function of (N, T, member): %s", strings.Join(bad, "; "))
		}
	}
	for _, fn := range w.chunkSliceInstances() {
		pure(fn, func(cc *ssa.CallCommon) bool { return false }, nil)
	}
	for _, get := range w.implsOf("stream", "VBucketDiscovery", "Get") {
		pure(get, func(cc *ssa.CallCommon) bool {
			if isInvokeOf(cc, "Membership", "GetInfo") || isStaticCall(cc, "/helpers", "", "ChunkSlice") {
				return true
			}
			return cc.IsInvoke() && strings.HasSuffix(shortType(cc.Value.Type()), "logger.Logger")
		}, map[string]bool{"vBucketNumber": true, "membership": true, w.discoveryMetricField(): true})
	}
	c.Floor(id, 2)
}
