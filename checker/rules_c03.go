package main

import (
	"fmt"
	"go/types"
	"sort"
	"strings"

	"golang.org/x/tools/go/ssa"
)

func init() {
	register(&Property{
		ID: "C03",
		Explanation: "Decides the structural conditions of complete, ordered, duplicate-free, faithful delivery given gocbcore's per-connection dispatch: (R1) from each document handler to Consumer.ConsumeEvent there is one synchronous chain — no go, channel, select or timer in the handler, the deliver function, the listener or the forwarder; " +
			"(R2) exactly-once: each document handler delivers once iff canForward ∧ ¬beforeSkipWindow ∧ inSnapshot (exhaustive over the three predicates; any other branch makes it undecided = undocumented filter), the deliver function calls the listener once with the received event iff ¬closed, each document arm of the listener calls the forwarder once, the forwarder invokes ConsumeEvent once with the same payload iff ¬IsMetadata; " +
			"(R3) the skip-window predicate is SkipUntil≠nil ∧ SkipUntil.After(eventTime) (strict); the collection name is the configured entry or \"_default\"; (R4) each wrapper embeds a pointer to the handler's own copy of the event, with Offset.SeqNo, CollectionName and EventTime = time.Unix(int64(Cas/1e9),0) from that event, and no gocbcore event field is ever written; " +
			"(R5) the set of concrete types the observer emits equals the listener's type-switch arms plus the explicit no-op set {DcpSnapshotMarker, DcpOSOSnapshot}; (R6) the observer's delivery and end switches are thrown only by Stream.Close (who-may-write / who-may-call), so a stream reopened on the same observer delivers again. " +
			"Not decided: completeness/order of what gocbcore and the server deliver; behaviour across vBuckets at run time.",
		Assumptions: []string{"gocbcore calls the handlers of one vBucket's stream sequentially in server order", "reflect-based IsMetadata is decided in C14"},
		Rules: []RuleDef{
			{ID: "C03.R24", Text: "the filters an event is judged by are the configured ones: outside package config the configuration is only read — not through a pointer it holds (skipUntil) nor into an element of one of its slices either (same rule as C17.R6)", Run: configImmutable},
			{ID: "C03.R25", Text: "the key and value the consumer receives are the server's bytes: the library writes into no byte slice it did not make itself — no element store, no append onto a re-slice, no copy into a []byte that came out of an event, out of reflect.Value.Bytes, or in as a parameter from a caller that got it there", Run: eventBytesUntouched},
			{ID: "C03.R23", Text: "after a rollback only events at or below the position reached are filtered: a replayed snapshot announcement is installed whenever the gate passes, under no other condition, and an event outside the announced snapshot stops the client instead of being dropped (same rules as C06.R7 and C06.R2)", Run: func(c *Ctx, id string) { markerInstall(c, id); c06r2(c, id) }},
			{ID: "C03.R22", Text: "a re-opened stream continues where delivery stands, so nothing is delivered twice: openStream reads offsets[vbID] when it is called, every attempt anew — no request remembered from Open (same rule as C12.R3)", Run: c12r3},
			{ID: "C03.R1", Text: "document handler → deliver → listener → forwarder → ConsumeEvent is a chain of plain synchronous calls (no go/defer hop, no channel, select, timer)", Run: c03r1},
			{ID: "C03.R2", Text: "exactly once: handler delivers ⇔ canForward ∧ ¬skip ∧ inSnapshot; deliver→listener once ⇔ ¬closed; listener arm→forwarder once; forwarder→ConsumeEvent(payload) once ⇔ ¬IsMetadata", Run: c03r2},
			{ID: "C03.R3", Text: "filters: IsMetadata ⇔ key has one of the two reserved prefixes (C14.R2); isBeforeSkipWindow ⇔ SkipUntil≠nil ∧ SkipUntil.After(eventTime); convertToCollectionName returns the configured entry or \"_default\"", Run: c03r3},
			{ID: "C03.R4", Text: "wrapper literals embed the handler's own event copy; Offset.SeqNo/CollectionName/EventTime derive from that event; no field of a gocbcore event or of an offset is written in place", Run: c03r4},
			{ID: "C03.R5", Text: "types emitted by the observer = listener type-switch arms ∪ {gocbcore.DcpSnapshotMarker, gocbcore.DcpOSOSnapshot}", Run: c03r5},
			{ID: "C03.R7", Text: "the rollback filter removes exactly the events at or below the position already reached: skip ⇔ need ∧ seq ≤ F, and the first event at or beyond F ends the catch-up without being swallowed unless it is F itself (same rule as C08.R5)", Run: c08r5},
			{ID: "C03.R8", Text: "the documented filters are the configured ones: defaulting never rewrites a configured option such as listener.skipUntil (same rule as C17.R1)", Run: c17r1},
			{ID: "C03.R9", Text: "no event waits for a threshold nobody reports: the flag the gate reads is the one Open switches when it does not start the mitigation component (same rule as C07.R12)", Run: gateSourceAgrees},
			{ID: "C03.R10", Text: "the collection names are those resolved at start-up: stream.collectionIDs is assigned only by NewStream", Run: fieldWriters("stream", "stream", "collectionIDs", "a later assignment (a refresh that failed, say) hands every new observer a different or nil id-to-name table", "stream.NewStream")},
			{ID: "C03.R11", Text: "events are labelled from the table resolved at start-up: GetCollectionIDs returns exactly {id the server resolved for a name → that name} over the configured names (empty without collection support), and no table when a resolution fails (0..2 names, exhaustive)", Run: collectionIDsExact},
			{ID: "C03.R12", Text: "the user's listener sees each event once: the simple consumer calls it exactly once (closures and deferred functions included) with the event it was given, every constructor hands the consumer on, Start gives NewStream the stored consumer and the resolved collection table", Run: func(c *Ctx, id string) { consumerChainRule(c, id) }},
			{ID: "C03.R13", Text: "the id→name table is read-only once built: no update, delete or clear on a map[uint32]string except while filling a map made in the same function (the table is shared by all observers of a session)", Run: collectionTableReadOnly},
			{ID: "C03.R14", Text: "the library never writes into an event: no store into a field of a gocbcore/models event struct, no element store into a slice read from one, no mutation through reflection anywhere in the module (reads through reflection are counted as the positive control)", Run: eventsNotMutated},
			{ID: "C03.R15", Text: "a re-opened stream keeps its observer: the observers map is written only by Open and helpers only Open reaches (the persistence watermark, catch-up point and counters of a vBucket live in its observer)", Run: observerMapWriters},
			{ID: "C03.R16", Text: "no wake-up an event waits for can be lost: a non-blocking send is only ever made on a channel that every make() creates with a buffer", Run: lossySignals},
			{ID: "C03.R17", Text: "nothing stands between the observer and the consumer but the handlers themselves: no wrapper around the listener or the consumer that is not a proven pass-through (same rules as C20.R19 and C20.R20)", Run: func(c *Ctx, id string) { decoratorsTransparent()(c, id); noNewLayers(c, id) }},
			{ID: "C03.R18", Text: "a persisted-sequence report is never ignored: the threshold is raised by every report, whatever the state of the stream request (same rule as C07.R3)", Run: c07r3},
			{ID: "C03.R21", Text: "every event the observer forwards reaches the stream listener: the listener handed to the observer constructor is the stream own listener, a method value (same rule as C16.R25)", Run: observerCallbacksBound},
			{ID: "C03.R19", Text: "the catch-up filter, which drops events, is armed only by the completion of a rollback re-request, and the branch id is set only where a stream request was confirmed", Run: observerStateSetters},
			{ID: "C03.R20", Text: "below 5.5.0 a stream that ends by itself does not wait for a close token: the token channel has one blocking send and one blocking receive, the receive under the ending flag (same rule as C18.R8)", Run: serialCloseTokens},
			{ID: "C03.R6", Text: "the delivery switch is thrown only by the stream's close: observer.closed is written only by Observer.Close, which is called only from Stream.Close (a reopened stream reuses its observer)", Run: switchOwner},
		},
	})
}

func c03r1(c *Ctx, id string) {
	w := c.W
	oi := observerInfo(c, id)
	lts := listenerTargets(c, id, oi)
	c.need(len(lts) > 0, id, "function bound to the observer's listener")
	fws := forwarders(w)
	c.need(len(fws) > 0, id, "forwarder (function building the ListenerContext)")
	var chain []*ssa.Function
	for _, n := range docHandlers {
		chain = append(chain, oi.handlers[n])
	}
	chain = append(chain, oi.deliver)
	chain = append(chain, lts...)
	chain = append(chain, fws...)
	for _, fn := range chain {
		c.see(fn)
		ac := asyncConstructs(w, fn)
		if len(ac) == 0 {
			c.OK(id, "sync@"+fname(fn), fn.Pos(), "no go / channel / select / timer in the delivery chain function")
		} else {
			c.Fail(id, "sync@"+fname(fn), fn.Pos(), "delivery chain function contains %s — events could be reordered, duplicated or dropped", strings.Join(ac, ", "))
		}
	}
	// hops are plain calls
	hop := func(from *ssa.Function, what string, match func(cc *ssa.CallCommon) bool) {
		n := 0
		allInstrs(from, func(in ssa.Instruction) {
			cc := callOf(in)
			if cc == nil || !match(cc) {
				return
			}
			n++
			c.CallSites++
			if _, ok := in.(*ssa.Call); ok {
				c.OKTrivial(id, "hop:"+what+"@"+fname(from), in.Pos(), "plain call")
			} else {
				c.Fail(id, "hop:"+what+"@"+fname(from), in.Pos(), "%s is started with go/defer", what)
			}
		})
		if n == 0 {
			c.Fail(id, "hop:"+what+"@"+fname(from), from.Pos(), "%s never reaches %s", fname(from), what)
		}
	}
	for _, n := range docHandlers {
		hop(oi.handlers[n], "deliver", func(cc *ssa.CallCommon) bool { return cc.StaticCallee() == oi.deliver })
	}
	hop(oi.deliver, "listener", func(cc *ssa.CallCommon) bool { return !cc.IsInvoke() && derefsTo(cc.Value, oi.listener) })
	for _, lt := range lts {
		for _, fw := range fws {
			hop(lt, "forwarder", func(cc *ssa.CallCommon) bool { return cc.StaticCallee() == fw })
		}
	}
	for _, fw := range fws {
		hop(fw, "ConsumeEvent", func(cc *ssa.CallCommon) bool { return isInvokeOf(cc, "Consumer", "ConsumeEvent") })
	}
	c.Floor(id, 9)
}

// handlerHarness evaluates a stream-observer handler over its predicate oracles.
func handlerHarness(oi *obsInfo, h *ssa.Function) *Harness {
	noinl := map[string]bool{fname(oi.member): true, fname(oi.skipWin): true, fname(oi.deliver): true,
		"(*couchbase.observer).convertToCollectionName": true,
		"(*couchbase.ObserverMetric).AddMutation":       true, "(*couchbase.ObserverMetric).AddDeletion": true, "(*couchbase.ObserverMetric).AddExpiration": true}
	oi.gateNoInline(noinl)
	return &Harness{
		Fn:       h,
		Bools:    []string{"fwd", "skip", "in"},
		NoInline: noinl,
		Quiet:    append([]string{"time.Unix"}, quietLog...),
		Oracle: func(st *State, name string, args []AV, res *types.Tuple) ([]AV, bool) {
			if oi.isGateName(name) {
				return []AV{avBool{st.B("fwd")}}, true
			}
			switch name {
			case fname(oi.skipWin):
				return []AV{avBool{st.B("skip")}}, true
			case fname(oi.member):
				return []AV{avBool{st.B("in")}}, true
			case "(*couchbase.observer).convertToCollectionName":
				return []AV{avStr{sym: "collectionName"}}, true
			}
			return nil, false
		},
	}
}

func c03r2(c *Ctx, id string) {
	w := c.W
	oi := observerInfo(c, id)
	counters := map[string]string{"Mutation": "AddMutation", "Deletion": "AddDeletion", "Expiration": "AddExpiration"}
	for _, n := range docHandlers {
		h := oi.handlers[n]
		hs := handlerHarness(oi, h)
		cnt := counters[n]
		c.oae(id, "handler:"+n, h.Pos(), hs, func(st *State, out *Outcome) string {
			if out.Panicked {
				return "handler panics"
			}
			nd, nc, other := 0, 0, ""
			for _, e := range out.Trace {
				switch {
				case e.Name == fname(oi.deliver):
					nd++
				case strings.HasPrefix(e.Name, "(*couchbase.ObserverMetric).Add"):
					if strings.HasSuffix(e.Name, "."+cnt) {
						nc++
					} else {
						other = e.Name
					}
				}
			}
			want := st.B("fwd") && !st.B("skip") && st.B("in")
			if want && nd != 1 {
				return fmt.Sprintf("event accepted by all documented filters but delivered %d times", nd)
			}
			if !want && nd != 0 {
				return "event delivered although a documented filter rejects it"
			}
			if other != "" {
				return "wrong counter incremented: " + other
			}
			if (nd == 1) != (nc == 1) || nc > 1 {
				return fmt.Sprintf("counter %s incremented %d times for %d deliveries", cnt, nc, nd)
			}
			return ""
		}, "deliver once (and count once, by kind) ⇔ canForward ∧ ¬isBeforeSkipWindow ∧ IsInSnapshotMarker; no other predicate")
	}
	c03DeliverOAE(c, id, oi)
	// the gate predicate itself: canForward = isControl ∨ ¬needCatchup, filter state touched by data events only
	gateOAE(c, id, oi, "filter")
	gateArgsRule(c, id, oi)
	// listener arms
	lts := listenerTargets(c, id, oi)
	fws := forwarders(w)
	pws := w.positionWriterFuncs()
	for _, lt := range lts {
		c.see(lt)
		seqs, complete := pathEvents(lt, func(in ssa.Instruction) (string, *ssa.Function) {
			cc := callOf(in)
			if cc == nil {
				return "", nil
			}
			for _, f := range fws {
				if cc.StaticCallee() == f {
					return "F", nil
				}
			}
			for _, f := range pws {
				if cc.StaticCallee() == f {
					return "P", nil
				}
			}
			return "", nil
		}, 0)
		ok := complete
		for _, s := range seqs {
			if len(strings.Fields(s)) > 1 {
				ok = false
			}
		}
		c.Check(ok, id, "listener-paths@"+fname(lt), lt.Pos(), fmt.Sprintf("every path forwards/absorbs at most once (%d distinct paths: %v)", len(seqs), seqs), fmt.Sprintf("a path through the listener handles one event more than once or the enumeration is incomplete: %v", seqs))
		// every document arm forwards
		arms := map[string]int{}
		allInstrs(lt, func(in ssa.Instruction) {
			cc := callOf(in)
			if cc == nil {
				return
			}
			isF := false
			for _, f := range fws {
				if cc.StaticCallee() == f {
					isF = true
				}
			}
			if !isF {
				return
			}
			for _, g := range guardsOf(in.Block()) {
				if ex, ok := g.Cond.(*ssa.Extract); ok && g.Branch {
					if ta, ok := ex.Tuple.(*ssa.TypeAssert); ok && isDocEventWrapper(ta.AssertedType) {
						arms[embeddedGocbEvent(ta.AssertedType)]++
					}
				}
			}
		})
		for _, k := range docKinds {
			c.Check(arms[k] == 1, id, "listener-arm:"+k+"@"+fname(lt), lt.Pos(), "document arm forwards exactly once", fmt.Sprintf("document arm %s forwards %d times", k, arms[k]))
		}
		// every event is looked at: no path leaves the listener before the dispatch on the event's type (an early return in
		// front of the type switch is a filter on whatever it tests — guards computed by dominance do not see a
		// disjunction like `ok && !streaming`, so this is checked on paths)
		{
			var asserts []ssa.Instruction
			allInstrs(lt, func(in ssa.Instruction) {
				if ta, isTA := in.(*ssa.TypeAssert); isTA {
					if o := w.Origin(ta.X); strings.Contains(o, "param(") && strings.Contains(o, ".Event") {
						asserts = append(asserts, in)
					}
				}
			})
			var head ssa.Instruction
			for _, a := range asserts {
				dom := true
				for _, b := range asserts {
					if a != b && !dominatesInstr(a, b) {
						dom = false
					}
				}
				if dom {
					head = a
				}
			}
			if head == nil {
				c.Undecided(id, "listener-entry@"+fname(lt), lt.Pos(), "the dispatch on the event's type was not found in the listener (%d type tests on the event)", len(asserts))
			} else {
				first := lt.Blocks[0].Instrs[0]
				early := first != head && existsPathAvoiding(first, func(in ssa.Instruction) bool { return in == head }, false)
				c.Check(!early, id, "listener-entry@"+fname(lt), head.Pos(), "every path through the listener reaches the dispatch on the event's type", "a path leaves the listener before the event's type is looked at: events arriving in that state are dropped — an undocumented filter")
			}
		}
		// no undocumented filter in the listener: a forward is conditional on the event's type only
		allInstrs(lt, func(in ssa.Instruction) {
			cc := callOf(in)
			if cc == nil {
				return
			}
			isF := false
			for _, f := range fws {
				if cc.StaticCallee() == f {
					isF = true
				}
			}
			if !isF {
				return
			}
			var extra []string
			for _, g := range guardsOf(in.Block()) {
				if ex, ok := g.Cond.(*ssa.Extract); ok {
					if _, isTA := ex.Tuple.(*ssa.TypeAssert); isTA {
						continue
					}
				}
				extra = append(extra, fmt.Sprintf("%v:%s", g.Branch, w.Origin(g.Cond)))
			}
			c.Check(len(extra) == 0, id, "listener-filter@"+fname(lt), in.Pos(), "forwarding depends on the event type only", "the listener forwards a document event only under "+strings.Join(extra, " ∧ ")+" — an undocumented filter (events arriving in that state are dropped)")
		})
	}
	// forwarder
	for _, fw := range fws {
		var pPayload, pOff, pVb *vparam
		for _, vp := range vparams(fw) {
			vp := vp
			switch {
			case w.isOffsetPtr(vp.Type()):
				pOff = &vp
			case isUint16(vp.Type()):
				pVb = &vp
			case types.IsInterface(vp.Type()) && pPayload == nil && !strings.Contains(vp.Type().String(), "tracing."):
				pPayload = &vp
			}
		}
		if pPayload == nil || pOff == nil || pVb == nil {
			c.Undecided(id, "forwarder@"+fname(fw), fw.Pos(), "cannot identify payload/offset/vbID parameters")
			continue
		}
		noinl := map[string]bool{}
		for _, pw := range pws {
			noinl[fname(pw)] = true
		}
		hs := &Harness{Fn: fw, Bools: []string{"meta"}, NoInline: noinl, Quiet: append([]string{"time.", "(time.", "(*tracing.", "tracing."}, quietLog...),
			Oracle: func(st *State, name string, args []AV, res *types.Tuple) ([]AV, bool) {
				if name == "helpers.IsMetadata" {
					if len(args) != 1 || avString(args[0]) != pPayload.Name() {
						return []AV{avOpaque{"IsMetadata on something else than the payload"}}, true
					}
					return []AV{avBool{st.B("meta")}}, true
				}
				return nil, false
			}}
		recv := fw.Params[0].Name()
		c.oae(id, "forwarder@"+fname(fw), fw.Pos(), hs, func(st *State, out *Outcome) string {
			if out.Panicked {
				return "forwarder panics"
			}
			var ce []Effect
			for _, e := range out.Trace {
				if e.Name == recv+".consumer.ConsumeEvent" {
					ce = append(ce, e)
				}
			}
			if st.B("meta") {
				if len(ce) != 0 {
					return "library-internal key shown to the consumer"
				}
				return ""
			}
			if len(ce) != 1 {
				return fmt.Sprintf("ConsumeEvent invoked %d times for one event", len(ce))
			}
			p, ok := ce[0].Args[0].(avPtr)
			if !ok || p.c == nil {
				return "ConsumeEvent argument is not a ListenerContext"
			}
			st0 := p.c.typ.Underlying().(*types.Struct)
			for i := 0; i < st0.NumFields(); i++ {
				if st0.Field(i).Name() == "Event" {
					if p.c.fields == nil || p.c.fields[i] == nil || avString(p.c.fields[i].val) != pPayload.Name() {
						return "ListenerContext.Event is not the received payload"
					}
				}
			}
			return ""
		}, "ConsumeEvent(ctx{Event: payload}) exactly once ⇔ ¬IsMetadata(payload)")
	}
}

func c03r3(c *Ctx, id string) {
	w := c.W
	oi := observerInfo(c, id)
	// the reserved-key filter removes exactly the keys under the two reserved prefixes (same rule as C14.R2)
	c14r2(c, id)
	// isBeforeSkipWindow
	sw := oi.skipWin
	c.see(sw)
	var rets []string
	okShape := true
	allInstrs(sw, func(in ssa.Instruction) {
		r, ok := in.(*ssa.Return)
		if !ok || len(r.Results) != 1 {
			return
		}
		o := w.Origin(r.Results[0])
		var gs []string
		for _, g := range guardsOf(in.Block()) {
			v, pol := stripNot(g.Cond, g.Branch)
			gs = append(gs, fmt.Sprintf("%v:%s", pol, w.Origin(v)))
		}
		rets = append(rets, strings.Join(gs, "∧")+" → "+o)
	})
	sort.Strings(rets)
	su := "recv.config.Dcp.Listener.SkipUntil"
	p := "param(" + sw.Params[1].Name() + ")"
	wantNil := "true:(" + su + " == const(nil)) → const(false)"
	wantA := "false:(" + su + " == const(nil)) → call((time.Time).After)(*" + su + ", " + p + ")"
	wantB := "false:(" + su + " == const(nil)) → call((time.Time).Before)(" + p + ", *" + su + ")"
	if len(rets) != 2 {
		okShape = false
	} else {
		hasNil, hasCmp := false, false
		for _, r := range rets {
			if r == wantNil {
				hasNil = true
			}
			if r == wantA || r == wantB {
				hasCmp = true
			}
		}
		okShape = hasNil && hasCmp
	}
	c.Check(okShape, id, "skip-window@"+fname(sw), sw.Pos(), "isBeforeSkipWindow: "+strings.Join(rets, " ; "), "isBeforeSkipWindow is not (SkipUntil≠nil ∧ SkipUntil.After(eventTime)): "+strings.Join(rets, " ; "))

	// convertToCollectionName
	cv := w.Method("couchbase", oi.typ.Obj().Name(), "convertToCollectionName")
	c.need(cv != nil, id, "observer.convertToCollectionName")
	c.see(cv)
	var crets []string
	allInstrs(cv, func(in ssa.Instruction) {
		r, ok := in.(*ssa.Return)
		if !ok || len(r.Results) != 1 {
			return
		}
		var gs []string
		for _, g := range guardsOf(in.Block()) {
			gs = append(gs, fmt.Sprintf("%v:%s", g.Branch, w.Origin(g.Cond)))
		}
		crets = append(crets, strings.Join(gs, "∧")+" → "+w.Origin(r.Results[0]))
	})
	sort.Strings(crets)
	cp := "param(" + cv.Params[1].Name() + ")"
	lk := "recv.collectionIDs[" + cp + "]"
	okc := len(crets) == 2 && crets[0] == "false:"+lk+"#1 → const(\"_default\")" && crets[1] == "true:"+lk+"#1 → "+lk+"#0"
	if !okc {
		// … or through a lookup-or-default helper: `return valueOr(so.collectionIDs, collectionID, DefaultCollectionName)`
		nRet := 0
		allInstrs(cv, func(in ssa.Instruction) {
			r, ok := in.(*ssa.Return)
			if !ok || len(r.Results) != 1 {
				return
			}
			nRet++
			if call, isCall := unwrap(r.Results[0]).(*ssa.Call); isCall && len(guardsOf(in.Block())) == 0 {
				a := call.Common().Args
				if isLookupOrDefault(w, call.Common().StaticCallee()) && len(a) == 3 && w.Origin(a[0]) == "recv.collectionIDs" && w.Origin(a[1]) == cp && w.Origin(a[2]) == "const(\"_default\")" {
					okc = true
				}
			}
		})
		okc = okc && nRet == 1
	}
	c.Check(okc, id, "collection-name@"+fname(cv), cv.Pos(), "collection name: "+strings.Join(crets, " ; "), "collection name is not (configured entry | \"_default\"): "+strings.Join(crets, " ; "))
}

func c03r4(c *Ctx, id string) {
	w := c.W
	oi := observerInfo(c, id)
	n := 0
	for _, name := range sortedKeys(oi.handlers) {
		h := oi.handlers[name]
		if len(h.Params) < 2 {
			continue
		}
		ev := h.Params[1]
		// wrapper allocs: models structs embedding a gocbcore event
		allInstrs(h, func(in ssa.Instruction) {
			a, ok := in.(*ssa.Alloc)
			if !ok {
				return
			}
			et := a.Type().(*types.Pointer).Elem()
			kind := embeddedGocbEvent(et)
			if kind == "" {
				return
			}
			n++
			c.see(h)
			tab, _ := allocTable(a)
			construct := "wrapper@" + fname(h)
			// embedded pointer: points to the handler's own copy of the event parameter
			emb := tab[kind]
			okEmb := false
			if ea := asAlloc(emb); ea != nil {
				if s, ok := singleStore(ea); ok && s == ssa.Value(ev) {
					okEmb = true
				}
			}
			if !okEmb {
				c.Fail(id, construct+":event", a.Pos(), "wrapper embeds %s, expected a pointer to the handler's own copy of param(%s)", w.Origin(emb), ev.Name())
			} else {
				c.OK(id, construct+":event", a.Pos(), "embeds &copy of param(%s) (%s)", ev.Name(), kind)
			}
			e := "param(" + ev.Name() + ")"
			if v, has := tab["CollectionName"]; has {
				got := w.Origin(v)
				want := "call((*couchbase.observer).convertToCollectionName)(recv, " + e + ".CollectionID)"
				okName := got == want
				if call, isCall := unwrap(v).(*ssa.Call); isCall && !okName {
					// (the converter may be a one-line forwarder that provenance reads through: judge the call itself)
					cvf := w.Method("couchbase", oi.typ.Obj().Name(), "convertToCollectionName")
					if cvf != nil && call.Common().StaticCallee() == cvf && len(call.Common().Args) == 2 && w.Origin(call.Common().Args[0]) == "recv" && w.Origin(call.Common().Args[1]) == e+".CollectionID" {
						okName = true
					}
				}
				c.Check(okName, id, construct+":collection", a.Pos(), "CollectionName ← "+got, "CollectionName ← "+got+", expected "+want)
			}
			if v, has := tab["EventTime"]; has {
				got := w.Origin(v)
				want := "call(time.Unix)((" + e + ".Cas / const(1000000000)), const(0))"
				c.Check(got == want, id, construct+":eventtime", a.Pos(), "EventTime ← "+got, "EventTime ← "+got+", expected "+want)
			} else if isDocKind(kind) {
				c.Fail(id, construct+":eventtime", a.Pos(), "document wrapper without EventTime")
			}
			if ol, ok := w.litOf(tab["Offset"]); ok {
				got := ol.Table["SeqNo"]
				c.Check(got == e+".SeqNo", id, construct+":seqno", a.Pos(), "Offset.SeqNo ← "+got, "Offset.SeqNo ← "+got+", expected "+e+".SeqNo")
			} else {
				c.Fail(id, construct+":seqno", a.Pos(), "wrapper's Offset is not a fresh literal: %s", w.Origin(tab["Offset"]))
			}
		})
	}
	if n < 10 {
		c.Undecided(id, "floor", 0, "only %d wrapper literals found in the handlers (10 confirmed by hand)", n)
	}
	// no event is made up: outside the handler of its own kind nobody builds an event wrapper (a synthetic
	// seqno-advanced, say, would move the position over events the server never reported as settled)
	isHandler := map[*ssa.Function]bool{}
	for _, h := range oi.handlers {
		isHandler[h] = true
	}
	for _, fn := range w.ModFuncs {
		if isHandler[rootFn(fn)] {
			continue
		}
		allInstrs(fn, func(in ssa.Instruction) {
			a, ok := in.(*ssa.Alloc)
			if !ok {
				return
			}
			if kind := embeddedGocbEvent(a.Type().(*types.Pointer).Elem()); kind != "" {
				// a helper that only wraps what a handler hands it: the embedded event is (the address of a copy of) its parameter
				tab, _ := allocTable(a)
				if len(tab) == 0 {
					return // a local copy of a received wrapper (type-switch variable), not a literal
				}
				if _, isParam := unwrap(tab[kind]).(*ssa.Parameter); isParam && onlyCalledFrom(w, fn, isHandler) {
					return
				}
				if ea := asAlloc(tab[kind]); ea != nil {
					if sv, ok := singleStore(ea); ok {
						if _, isParam := sv.(*ssa.Parameter); isParam && onlyCalledFrom(w, fn, isHandler) {
							return
						}
					}
				}
				c.Fail(id, "wrapper-outside-handler@"+fname(fn), a.Pos(), "%s builds a %s wrapper from %s: events reach the listener only as the stream-observer handler of that kind received them", fname(fn), kind, w.Origin(tab[kind]))
			}
		})
	}
	immutableOffsets(c, id)
}

func c03r5(c *Ctx, id string) {
	w := c.W
	oi := observerInfo(c, id)
	la := w.NamedType("models", "ListenerArgs")
	emitted := map[string]bool{}
	for _, name := range sortedKeys(oi.handlers) {
		h := oi.handlers[name]
		for _, a := range allocsOf(h, la) {
			tab, _ := allocTable(a)
			if v, ok := tab["Event"]; ok {
				if mi, ok := v.(*ssa.MakeInterface); ok {
					emitted[shortType(mi.X.Type())] = true
				} else {
					c.Undecided(id, "emit@"+fname(h), a.Pos(), "event stored without a static type: %s", w.Origin(v))
				}
			}
		}
	}
	arms := map[string]bool{}
	for _, lt := range listenerTargets(c, id, oi) {
		c.see(lt)
		allInstrs(lt, func(in ssa.Instruction) {
			if ta, ok := in.(*ssa.TypeAssert); ok && strings.HasSuffix(w.Origin(ta.X), ".Event") {
				arms[shortType(ta.AssertedType)] = true
			}
		})
	}
	noop := map[string]bool{"gocbcore.DcpSnapshotMarker": true, "gocbcore.DcpOSOSnapshot": true}
	for _, t := range sortedKeys(emitted) {
		switch {
		case arms[t]:
			c.OK(id, "type:"+t, 0, "emitted by the observer and handled by a listener arm")
		case noop[t]:
			c.OKTrivial(id, "type:"+t, 0, "emitted; deliberately ignored by the listener (carries no position)")
		default:
			c.Fail(id, "type:"+t, 0, "the observer emits %s but no listener arm has exactly this type (pointer/value mismatch drops every such event silently)", t)
		}
	}
	for _, t := range sortedKeys(arms) {
		if !emitted[t] {
			c.Fail(id, "arm:"+t, 0, "listener arm for %s which the observer never emits", t)
		}
	}
	c.Floor(id, 9)
}

// onlyCalledFrom: fn is called (statically) at least once and only from functions of the given set.
func onlyCalledFrom(w *World, fn *ssa.Function, set map[*ssa.Function]bool) bool {
	cs := w.callersOf(fn)
	if len(cs) == 0 || len(w.usesAsValue(fn)) > 0 {
		return false
	}
	for _, s := range cs {
		if !set[rootFn(s.Fn)] {
			return false
		}
	}
	return true
}
