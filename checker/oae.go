package main

// oae.go — finite order-abstraction evaluator (P6 of DESIGN.md).
//
// A guard function is evaluated, abstractly, once per element of a finite and exhaustive case split of
// its inputs: every weak ordering of the integer atoms it compares (per group of mutually compared
// atoms) × every assignment of its boolean atoms / oracle outcomes. The evaluator walks the SSA CFG over
// an abstract store in which integers are *rank tokens* (or concrete small integers for loop counters and
// slice lengths), never machine values of the analysed program. It enforces comparison-only control: a
// branch on anything that is not determined by the abstract state makes the obligation UNDECIDED, as does
// arithmetic on a rank token that later reaches a branch or a tracked effect. Under that discipline the
// control flow, result and effect trace of the function depend on the integer inputs only through their
// relative order, so the table produced is valid for all concrete inputs.
//
// No code of the analysed repository is compiled or run; there is no solver.

import (
	"fmt"
	"go/constant"
	"go/token"
	"go/types"
	"regexp"
	"sort"
	"strings"

	"golang.org/x/tools/go/ssa"
)

// ---- abstract values

type AV interface{}

type avInt struct {
	atom string // symbolic rank token, or ""
	conc int64  // concrete value when atom == ""
}
type avBool struct{ b bool }
type avOpaque struct{ why string }
type avPtr struct{ c *cell } // c == nil: nil pointer
type avStruct struct{ c *cell }
type avIface struct {
	isNil bool
	sym   string     // symbolic identity (for invokes / errors.Is oracles)
	dyn   types.Type // dynamic type when built by MakeInterface
	val   AV
}
type avFunc struct {
	sym      string
	fn       *ssa.Function
	bindings []AV
}
type avSlice struct {
	cells []*cell
	sym   string
	isNil bool
}
type avRef struct{ sym string } // map / chan / other reference token
// avMap is a map with concrete contents (Harness.Concrete): built by make or handed in by the harness; iterated in
// insertion order (one of the orders Go may choose).
type avMap struct{ o *mapObj }
type mapObj struct {
	sym        string
	keys, vals []AV
}

// avChan is a channel of known capacity with concrete contents (Harness.Concrete).
type avChan struct{ o *chanObj }
type chanObj struct {
	cap int
	buf []AV
}
type avIter struct {
	o   *mapObj
	pos *int
}
type avStr struct {
	sym  string
	conc string
	isC  bool
}
type avTuple struct{ vs []AV }

type cell struct {
	typ     types.Type
	val     AV
	have    bool // val is materialised
	written bool // the analysed code stored into this location
	fields  []*cell
	elems   []*cell
	sym     string
}

type Effect struct {
	Name string
	Args []AV
}

func (e Effect) String() string {
	var as []string
	for _, a := range e.Args {
		as = append(as, avString(a))
	}
	return e.Name + "(" + strings.Join(as, ",") + ")"
}

func avString(a AV) string {
	switch x := a.(type) {
	case nil:
		return "nil"
	case avInt:
		if x.atom != "" {
			return x.atom
		}
		return fmt.Sprint(x.conc)
	case avBool:
		return fmt.Sprint(x.b)
	case avOpaque:
		return "?" + x.why
	case avPtr:
		if x.c == nil {
			return "nilptr"
		}
		if x.c.sym != "" {
			return "&" + x.c.sym
		}
		return "&obj"
	case avStruct:
		if x.c != nil && x.c.sym != "" {
			return x.c.sym
		}
		return "struct"
	case avIface:
		if x.isNil {
			return "nil"
		}
		if x.sym != "" {
			return x.sym
		}
		if x.val != nil {
			return avString(x.val)
		}
		return "iface"
	case avFunc:
		if x.fn != nil {
			return "func:" + fname(x.fn)
		}
		return "func:" + x.sym
	case avSlice:
		return fmt.Sprintf("slice[%d]%s", len(x.cells), x.sym)
	case avRef:
		return x.sym
	case avMap:
		if x.o.sym != "" {
			return x.o.sym
		}
		return "map"
	case avIter:
		return "iter"
	case avChan:
		return "chan"
	case avStr:
		if x.isC {
			return fmt.Sprintf("%q", x.conc)
		}
		return x.sym
	case avTuple:
		var ps []string
		for _, v := range x.vs {
			ps = append(ps, avString(v))
		}
		return "(" + strings.Join(ps, ",") + ")"
	}
	return fmt.Sprintf("%T", a)
}

// ---- harness and state

type Group struct {
	Atoms    []string // symbolic names; names of the form "#<n>" are constants with value n
	Unsigned bool
	EqOnly   bool // atoms only tested for equality: enumerate set partitions instead of weak orderings
}

type Harness struct {
	Fn      *ssa.Function
	Groups  []Group
	Bools   []string
	Choices map[string]int // name → domain size (select sites, oracle outcomes)
	// Input materialises a symbolic location that is neither a declared atom nor a declared bool.
	// Return nil to get the default (see defaultInput).
	Input func(st *State, sym string, t types.Type) AV
	// Oracle decides the results of a non-inlined call. Return handled=false for the default
	// (effect recorded, results opaque).
	Oracle func(st *State, name string, args []AV, res *types.Tuple) ([]AV, bool)
	// NoInline: module functions that must be treated as calls (named by fname).
	NoInline map[string]bool
	// Quiet: effect-name prefixes that are dropped from the trace (formatting sinks).
	Quiet []string
	// Valid filters states (e.g. structural constraints between atoms).
	Valid func(st *State) bool
	// MaxSteps bounds one abstract run.
	MaxSteps int
	// Args overrides the materialisation of parameters (by parameter name).
	Args map[string]func(st *State) AV
	// InlineAll: inline module functions of every package (default: only the package of Fn).
	InlineAll bool
	// StopAfter ends the run (successfully) right after an effect for which it returns true.
	StopAfter func(e Effect) bool
	// Concrete: maps built by make (or handed in as avMap) keep their contents and can be ranged over, append on
	// slices of known length is computed, and functions handed to `go` or errgroup.Group.Go run to completion at
	// that point (one sequential schedule), Group.Wait returning the first non-nil error they returned.
	Concrete bool
	// Complete (Concrete mode): before a non-inlined call returns, run this function value with these arguments —
	// the completion callback of an asynchronous operation being invoked before the operation call returns.
	// Several argument lists mean several invocations in that order (a Range over a map of known contents); an
	// invocation returning the boolean false ends the sequence (Range's early exit).
	Complete func(st *State, name string, args []AV) (fn AV, calls [][]AV, ok bool)
	// Sequence: a boolean location (by symbol) whose successive reads yield these values (the last one repeating) —
	// a running-flag flipped by another goroutine; lets one iteration of a `for flag {…}` loop be evaluated.
	Sequence map[string][]bool
	// SelectChoice picks the ready case of the nth (0-based) execution of a select statement in a run;
	// when nil, the choice atom named "select@<function>" is used for every execution.
	SelectChoice func(st *State, name string, nth int) int
}

type State struct {
	dyn    map[string]bool // outcomes assumed for comparisons on configuration values only (see freeConfigCond)
	rank   map[string]int
	bools  map[string]bool
	choice map[string]int
	group  map[string]int
	h      *Harness
}

func (s *State) B(name string) bool { return s.bools[name] }
func (s *State) C(name string) int  { return s.choice[name] }
func (s *State) Rank(a string) int  { return s.rank[a] }
func (s *State) Lt(a, b string) bool {
	return s.rank[a] < s.rank[b]
}
func (s *State) Le(a, b string) bool { return s.rank[a] <= s.rank[b] }
func (s *State) Eq(a, b string) bool { return s.rank[a] == s.rank[b] }

func (s *State) String() string {
	var parts []string
	for gi, g := range s.h.Groups {
		// render as chain a<b=c
		as := append([]string{}, g.Atoms...)
		sort.SliceStable(as, func(i, j int) bool { return s.rank[as[i]] < s.rank[as[j]] })
		var sb strings.Builder
		for i, a := range as {
			if i > 0 {
				if s.rank[as[i-1]] == s.rank[a] {
					sb.WriteString("=")
				} else if g.EqOnly {
					sb.WriteString("≠")
				} else {
					sb.WriteString("<")
				}
			}
			sb.WriteString(a)
		}
		_ = gi
		parts = append(parts, sb.String())
	}
	for _, b := range s.h.Bools {
		parts = append(parts, fmt.Sprintf("%s=%v", b, s.bools[b]))
	}
	for _, c := range sortedKeys(s.h.Choices) {
		parts = append(parts, fmt.Sprintf("%s=%d", c, s.choice[c]))
	}
	var dk []string
	for k := range s.dyn {
		dk = append(dk, k)
	}
	sort.Strings(dk)
	for _, k := range dk {
		parts = append(parts, fmt.Sprintf("assume %s=%v", k, s.dyn[k]))
	}
	return strings.Join(parts, " ")
}

type Outcome struct {
	Panicked  bool
	PanicVal  AV
	Ret       []AV
	Trace     []Effect
	Undecided string // non-empty: the run left the decidable fragment
	NeedDyn   string // non-empty: the run needs an assumption for this configuration-only comparison
	Stopped   bool   // the harness ended the run early (StopAfter)
	Blocked   string // non-empty: the run blocks for ever here (Concrete channels: receive from an empty / send on a full channel)
	cells     map[string]*cell
	Steps     int
}

// Final returns the final value of a symbolic location written during the run (nil if never written).
func (o *Outcome) Final(sym string) AV {
	if c := o.cells[sym]; c != nil && c.written {
		return c.val
	}
	return nil
}

func (o *Outcome) Effects(prefix string) []Effect {
	var out []Effect
	for _, e := range o.Trace {
		if strings.HasPrefix(e.Name, prefix) {
			out = append(out, e)
		}
	}
	return out
}

func (o *Outcome) TraceString() string {
	var ps []string
	for _, e := range o.Trace {
		ps = append(ps, e.String())
	}
	s := strings.Join(ps, "; ")
	if o.Panicked {
		s += " → panic"
	} else {
		var rs []string
		for _, r := range o.Ret {
			rs = append(rs, avString(r))
		}
		s += " → return(" + strings.Join(rs, ",") + ")"
	}
	return s
}

// ---- enumeration of abstract states

func constAtomVal(a string) (int64, bool) {
	if !strings.HasPrefix(a, "#") {
		return 0, false
	}
	var v int64
	_, err := fmt.Sscan(a[1:], &v)
	return v, err == nil
}

// orderings enumerates the rank assignments of one group.
func orderings(g Group) []map[string]int {
	n := len(g.Atoms)
	var out []map[string]int
	ranks := make([]int, n)
	var rec func(i, maxUsed int)
	rec = func(i, maxUsed int) {
		if i == n {
			m := map[string]int{}
			if g.EqOnly {
				for k, a := range g.Atoms {
					m[a] = ranks[k]
				}
				out = append(out, m)
				return
			}
			// ranks must be surjective onto 0..k
			used := map[int]bool{}
			mx := 0
			for _, r := range ranks {
				used[r] = true
				if r > mx {
					mx = r
				}
			}
			for r := 0; r <= mx; r++ {
				if !used[r] {
					return
				}
			}
			for k, a := range g.Atoms {
				m[a] = ranks[k]
			}
			// constants keep their numeric order; unsigned atoms are ≥ #0
			for i1, a := range g.Atoms {
				va, ca := constAtomVal(a)
				for i2, b := range g.Atoms {
					vb, cb := constAtomVal(b)
					if ca && cb && i1 != i2 {
						if (va < vb) != (m[a] < m[b]) || (va == vb) != (m[a] == m[b]) {
							return
						}
					}
					if ca && !cb && g.Unsigned && va == 0 && m[b] < m[a] {
						return
					}
				}
			}
			out = append(out, m)
			return
		}
		if g.EqOnly {
			// restricted growth strings (set partitions)
			for r := 0; r <= maxUsed+1; r++ {
				ranks[i] = r
				nm := maxUsed
				if r > maxUsed {
					nm = r
				}
				rec(i+1, nm)
			}
			return
		}
		for r := 0; r < n; r++ {
			ranks[i] = r
			rec(i+1, 0)
		}
	}
	rec(0, -1)
	return out
}

func (h *Harness) states() []*State {
	groupOf := map[string]int{}
	var perGroup [][]map[string]int
	for gi, g := range h.Groups {
		for _, a := range g.Atoms {
			groupOf[a] = gi
		}
		perGroup = append(perGroup, orderings(g))
	}
	var out []*State
	nb := len(h.Bools)
	chNames := sortedKeys(h.Choices)
	var recG func(gi int, rank map[string]int)
	recG = func(gi int, rank map[string]int) {
		if gi == len(perGroup) {
			for mask := 0; mask < 1<<nb; mask++ {
				bs := map[string]bool{}
				for i, b := range h.Bools {
					bs[b] = mask&(1<<i) != 0
				}
				var recC func(ci int, ch map[string]int)
				recC = func(ci int, ch map[string]int) {
					if ci == len(chNames) {
						st := &State{rank: map[string]int{}, bools: bs, choice: map[string]int{}, group: groupOf, h: h}
						for k, v := range rank {
							st.rank[k] = v
						}
						for k, v := range ch {
							st.choice[k] = v
						}
						if h.Valid == nil || h.Valid(st) {
							out = append(out, st)
						}
						return
					}
					for v := 0; v < h.Choices[chNames[ci]]; v++ {
						ch[chNames[ci]] = v
						recC(ci+1, ch)
					}
				}
				recC(0, map[string]int{})
			}
			return
		}
		for _, m := range perGroup[gi] {
			for k, v := range m {
				rank[k] = v
			}
			recG(gi+1, rank)
		}
	}
	recG(0, map[string]int{})
	return out
}

// ---- interpreter

type undecided struct{ why string }

type machine struct {
	w     *World
	h     *Harness
	st    *State
	out   *Outcome
	steps int
	depth int
	nsel  map[string]int
	nseq  map[string]int
	egErr AV // first non-nil error returned by a function run through errgroup.Group.Go (Harness.Concrete)
}

type frame struct {
	fn     *ssa.Function
	env    map[ssa.Value]AV
	defers []func()
	free   []AV
}

func (m *machine) fail(format string, a ...any) {
	panic(undecided{fmt.Sprintf(format, a...)})
}

// RunState evaluates the harness function in one abstract state.
func (h *Harness) RunState(w *World, st *State) (out *Outcome) {
	out = &Outcome{cells: map[string]*cell{}}
	m := &machine{w: w, h: h, st: st, out: out}
	defer func() {
		if r := recover(); r != nil {
			if u, ok := r.(undecided); ok {
				out.Undecided = u.why
				return
			}
			if d, ok := r.(needDyn); ok {
				out.NeedDyn = d.key
				return
			}
			if p, ok := r.(goPanic); ok {
				out.Panicked = true
				out.PanicVal = p.v
				return
			}
			if _, ok := r.(stopRun); ok {
				out.Stopped = true
				return
			}
			if b, ok := r.(blocked); ok {
				out.Blocked = b.where
				return
			}
			panic(r)
		}
	}()
	var args []AV
	for _, p := range h.Fn.Params {
		if f, ok := h.Args[p.Name()]; ok {
			args = append(args, f(st))
			continue
		}
		args = append(args, m.symbolic(p.Name(), p.Type()))
	}
	var free []AV
	for _, fv := range h.Fn.FreeVars {
		// free variables are pointers to captured cells (or captured values)
		if f, ok := h.Args[fv.Name()]; ok {
			free = append(free, f(st))
			continue
		}
		// a captured variable is a cell named after the variable (the closure receives its address)
		if pt, ok := fv.Type().Underlying().(*types.Pointer); ok {
			cl := &cell{typ: pt.Elem(), sym: fv.Name()}
			out.cells[fv.Name()] = cl
			free = append(free, avPtr{cl})
			continue
		}
		free = append(free, m.symbolic(fv.Name(), fv.Type()))
	}
	out.Ret = m.call(h.Fn, args, free)
	out.Steps = m.steps
	return out
}

type goPanic struct{ v AV }
type stopRun struct{}
type blocked struct{ where string }
type needDyn struct{ key string }

var cfgLeaf = regexp.MustCompile(`recv\.config(\.[A-Za-z_][A-Za-z_0-9]*)+`)
var cfgRest = regexp.MustCompile(`^(const\([^()]*\)|[\s()!<>=&|]|len)*$`)

// freeConfigCond: the origin term of cond when it is built from fields of the receiver's configuration and constants
// only; "" otherwise.
func freeConfigCond(w *World, cond ssa.Value) string {
	o := w.Origin(cond)
	if !cfgLeaf.MatchString(o) {
		return ""
	}
	if !cfgRest.MatchString(cfgLeaf.ReplaceAllString(o, "")) {
		return ""
	}
	return o
}

// symbolic materialises a symbolic input named sym of type t.
func (m *machine) symbolic(sym string, t types.Type) AV {
	if m.h.Input != nil {
		if v := m.h.Input(m.st, sym, t); v != nil {
			return v
		}
	}
	return m.defaultInput(sym, t)
}

func (m *machine) isAtom(sym string) bool {
	_, ok := m.st.rank[sym]
	return ok
}

func (m *machine) defaultInput(sym string, t types.Type) AV {
	switch u := t.Underlying().(type) {
	case *types.Basic:
		switch {
		case u.Info()&types.IsInteger != 0:
			if m.isAtom(sym) {
				return avInt{atom: sym}
			}
			return avOpaque{"int " + sym}
		case u.Kind() == types.Bool:
			if b, ok := m.st.bools[sym]; ok {
				return avBool{b}
			}
			return avOpaque{"bool " + sym}
		case u.Info()&types.IsString != 0:
			return avStr{sym: sym}
		}
		return avOpaque{"basic " + sym}
	case *types.Pointer:
		if b, ok := m.st.bools[sym+"==nil"]; ok && b {
			return avPtr{nil}
		}
		return avPtr{m.symCell(sym, u.Elem())}
	case *types.Struct:
		return avStruct{m.symCell(sym, t)}
	case *types.Interface:
		if b, ok := m.st.bools[sym+"==nil"]; ok && b {
			return avIface{isNil: true}
		}
		return avIface{sym: sym}
	case *types.Signature:
		return avFunc{sym: sym}
	case *types.Slice:
		return avOpaque{"slice " + sym}
	case *types.Map, *types.Chan:
		return avRef{sym}
	}
	return avOpaque{"input " + sym}
}

// symCell returns the symbolic object named sym (the pointee of a symbolic pointer, a global, a struct
// parameter). It is registered under sym+"->" so that it cannot be confused with the location that holds
// the pointer; its fields are registered as sym.field.
func (m *machine) symCell(sym string, t types.Type) *cell {
	key := sym + "->"
	if c, ok := m.out.cells[key]; ok {
		return c
	}
	c := &cell{typ: t, sym: sym}
	m.out.cells[key] = c
	return c
}

func newCell(t types.Type) *cell { return &cell{typ: t} }

func (m *machine) fieldCell(c *cell, idx int) *cell {
	st, ok := c.typ.Underlying().(*types.Struct)
	if !ok {
		m.fail("field access on non-struct cell %s", c.typ)
	}
	if c.fields == nil {
		c.fields = make([]*cell, st.NumFields())
	}
	if c.fields[idx] == nil {
		f := st.Field(idx)
		fc := &cell{typ: f.Type()}
		if o, ok := c.val.(avOpaque); ok {
			fc.val, fc.have = avOpaque{o.why + "." + f.Name()}, true
			c.fields[idx] = fc
			return fc
		}
		if c.sym != "" && embeddedPart(f) {
			// a struct embedded by value is transparent in names: its fields are named as if they were the parent's
			fc.sym = c.sym
			key := c.sym + ".(" + f.Name() + ")"
			if old, ok := m.out.cells[key]; ok {
				fc = old
			} else {
				m.out.cells[key] = fc
			}
		} else if c.sym != "" {
			fc.sym = c.sym + "." + f.Name()
			if old, ok := m.out.cells[fc.sym]; ok {
				fc = old
			} else {
				m.out.cells[fc.sym] = fc
			}
		} else {
			// zero value for non-symbolic cells
			fc.val = m.zero(f.Type())
			fc.have = fc.val != nil
		}
		c.fields[idx] = fc
	}
	return c.fields[idx]
}

func (m *machine) zero(t types.Type) AV {
	switch u := t.Underlying().(type) {
	case *types.Basic:
		switch {
		case u.Info()&types.IsInteger != 0:
			return avInt{conc: 0}
		case u.Kind() == types.Bool:
			return avBool{false}
		case u.Info()&types.IsString != 0:
			return avStr{isC: true}
		}
		return avOpaque{"zero"}
	case *types.Pointer:
		return avPtr{nil}
	case *types.Interface:
		return avIface{isNil: true}
	case *types.Slice:
		return avSlice{isNil: true}
	case *types.Signature:
		return avFunc{}
	case *types.Map, *types.Chan:
		return avRef{"nil"}
	case *types.Struct, *types.Array:
		return nil // composite: fields materialised lazily
	}
	return avOpaque{"zero"}
}

func (m *machine) loadCell(c *cell) AV {
	switch c.typ.Underlying().(type) {
	case *types.Struct, *types.Array:
		if o, ok := c.val.(avOpaque); ok {
			return o
		}
		return avStruct{c}
	}
	if v, ok := m.sequenced(c); ok {
		return v
	}
	if !c.have {
		if c.sym != "" {
			c.val = m.symbolic(c.sym, c.typ)
		} else {
			c.val = m.zero(c.typ)
		}
		c.have = true
	}
	return c.val
}

func (m *machine) storeCell(c *cell, v AV) {
	switch c.typ.Underlying().(type) {
	case *types.Struct, *types.Array:
		sv, ok := v.(avStruct)
		if !ok {
			// an opaque struct value (result of a non-inlined call): the whole cell becomes opaque
			if o, isO := v.(avOpaque); isO {
				c.val, c.fields, c.elems, c.have, c.written = o, nil, nil, true, true
				return
			}
			m.fail("store of non-struct value %s into struct cell", avString(v))
		}
		c.val = nil
		m.copyStruct(c, sv.c)
		c.written = true
		return
	}
	c.val = v
	c.have = true
	c.written = true
}

func (m *machine) copyStruct(dst, src *cell) {
	if src != nil {
		if o, ok := src.val.(avOpaque); ok {
			dst.val, dst.fields, dst.elems, dst.have = o, nil, nil, true
			return
		}
	}
	if src == nil {
		dst.fields, dst.elems = nil, nil
		return
	}
	switch u := dst.typ.Underlying().(type) {
	case *types.Struct:
		for i := 0; i < u.NumFields(); i++ {
			sf := m.fieldCell(src, i)
			df := m.fieldCell(dst, i)
			switch sf.typ.Underlying().(type) {
			case *types.Struct, *types.Array:
				m.copyStruct(df, sf)
			default:
				df.val = m.loadCell(sf)
				df.have = true
				df.written = true
			}
		}
	case *types.Array:
		n := int(u.Len())
		if dst.elems == nil {
			dst.elems = make([]*cell, n)
		}
		for i := 0; i < n; i++ {
			if dst.elems[i] == nil {
				dst.elems[i] = newCell(u.Elem())
			}
			if src.elems != nil && src.elems[i] != nil {
				dst.elems[i].val = m.loadCell(src.elems[i])
				dst.elems[i].have = true
			}
		}
	}
}

func (m *machine) elemCell(c *cell, i int) *cell {
	at, ok := c.typ.Underlying().(*types.Array)
	if !ok {
		m.fail("index into non-array cell")
	}
	if c.elems == nil {
		c.elems = make([]*cell, int(at.Len()))
	}
	if i < 0 || i >= len(c.elems) {
		m.fail("array index %d out of range", i)
	}
	if c.elems[i] == nil {
		c.elems[i] = newCell(at.Elem())
	}
	return c.elems[i]
}

func (m *machine) call(fn *ssa.Function, args []AV, free []AV) []AV {
	if m.depth > 12 {
		m.fail("inlining depth exceeded at %s", fname(fn))
	}
	if fn.Blocks == nil {
		m.fail("no body for %s", fname(fn))
	}
	m.depth++
	defer func() { m.depth-- }()
	fr := &frame{fn: fn, env: map[ssa.Value]AV{}, free: free}
	for i, p := range fn.Params {
		if i < len(args) {
			fr.env[p] = args[i]
		}
	}
	for i, fv := range fn.FreeVars {
		if i < len(free) {
			fr.env[fv] = free[i]
		}
	}
	var prev *ssa.BasicBlock
	b := fn.Blocks[0]
	max := m.h.MaxSteps
	if max == 0 {
		max = 200000
	}
	for {
		var next *ssa.BasicBlock
		for _, in := range b.Instrs {
			m.steps++
			if m.steps > max {
				m.fail("step bound exceeded (unbounded loop?) in %s", fname(fn))
			}
			switch x := in.(type) {
			case *ssa.Phi:
				for i, p := range b.Preds {
					if p == prev {
						fr.env[x] = m.eval(fr, x.Edges[i])
					}
				}
			case *ssa.If:
				c := m.eval(fr, x.Cond)
				cb, ok := c.(avBool)
				if !ok {
					// a comparison that involves nothing but configuration values and constants is a free input:
					// both outcomes are explored (the same outcome for the same comparison within a run)
					if key := freeConfigCond(m.w, x.Cond); key != "" {
						v, has := m.st.dyn[key]
						if !has {
							panic(needDyn{key})
						}
						cb, ok = avBool{v}, true
					}
				}
				if !ok {
					m.fail("branch on a value not determined by the abstract state: %s at %s", avString(c), m.w.pos(x.Cond.Pos()))
				}
				if cb.b {
					next = b.Succs[0]
				} else {
					next = b.Succs[1]
				}
			case *ssa.Jump:
				next = b.Succs[0]
			case *ssa.Return:
				var rs []AV
				for _, r := range x.Results {
					rs = append(rs, m.eval(fr, r))
				}
				m.runDefers(fr)
				return rs
			case *ssa.Panic:
				v := m.eval(fr, x.X)
				m.runDefers(fr)
				panic(goPanic{v})
			case *ssa.RunDefers:
				m.runDefers(fr)
			case *ssa.Store:
				addr := m.eval(fr, x.Addr)
				p, ok := addr.(avPtr)
				if !ok || p.c == nil {
					m.fail("store through %s at %s", avString(addr), m.w.pos(x.Pos()))
				}
				m.storeCell(p.c, m.eval(fr, x.Val))
			case *ssa.Go:
				cc := x.Common()
				args := m.evalArgs(fr, cc)
				label := m.calleeLabel(fr, cc)
				m.effect("go:"+label, args)
				if m.h.Concrete {
					m.invoke(fr, cc, args, label)
				}
			case *ssa.Defer:
				cc := x.Common()
				args := m.evalArgs(fr, cc)
				label := m.calleeLabel(fr, cc)
				xx := x
				fr.defers = append(fr.defers, func() {
					m.invoke(fr, xx.Common(), args, label)
				})
			case *ssa.Send:
				ch, v := m.eval(fr, x.Chan), m.eval(fr, x.X)
				m.effect("send:"+avString(ch), []AV{v})
				if cc, ok := ch.(avChan); ok {
					if len(cc.o.buf) >= cc.o.cap {
						panic(blocked{"send on a channel without room and without a receiver at " + m.w.pos(x.Pos())})
					}
					cc.o.buf = append(cc.o.buf, v)
				}
			case *ssa.MapUpdate:
				mp, k, v := m.eval(fr, x.Map), m.eval(fr, x.Key), m.eval(fr, x.Value)
				m.effect("mapupdate:"+avString(mp), []AV{k, v})
				if mm, ok := mp.(avMap); ok {
					found := false
					for i := range mm.o.keys {
						if avString(mm.o.keys[i]) == avString(k) {
							mm.o.vals[i], found = v, true
						}
					}
					if !found {
						mm.o.keys, mm.o.vals = append(mm.o.keys, k), append(mm.o.vals, v)
					}
				}
			case *ssa.DebugRef:
			case ssa.Value:
				fr.env[x] = m.evalInstr(fr, x)
			default:
				m.fail("unmodelled instruction %T at %s", in, m.w.pos(in.Pos()))
			}
		}
		if next == nil {
			m.fail("block without successor in %s", fname(fn))
		}
		prev, b = b, next
	}
}

func (m *machine) runDefers(fr *frame) {
	for i := len(fr.defers) - 1; i >= 0; i-- {
		d := fr.defers[i]
		fr.defers = fr.defers[:i]
		d()
	}
}

func (m *machine) effect(name string, args []AV) {
	for _, q := range m.h.Quiet {
		if strings.HasPrefix(name, q) {
			return
		}
	}
	e := Effect{name, args}
	m.out.Trace = append(m.out.Trace, e)
	if m.h.StopAfter != nil && m.h.StopAfter(e) {
		panic(stopRun{})
	}
}

func (m *machine) eval(fr *frame, v ssa.Value) AV {
	if av, ok := fr.env[v]; ok {
		return av
	}
	switch x := v.(type) {
	case *ssa.Const:
		return m.constVal(x)
	case *ssa.Global:
		sym := x.Pkg.Pkg.Name() + "." + x.Name()
		c := m.symCell(sym, x.Type().(*types.Pointer).Elem())
		if !c.have {
			if v, ok := m.staticSliceInit(x); ok {
				c.val, c.have = v, true
			}
		}
		if c.elems == nil {
			m.staticArrayInit(x, c)
		}
		return avPtr{c}
	case *ssa.Function:
		return avFunc{fn: x}
	case *ssa.Builtin:
		return avFunc{sym: "builtin:" + x.Name()}
	case *ssa.FreeVar:
		m.fail("unbound free variable %s", x.Name())
	case *ssa.Parameter:
		m.fail("unbound parameter %s", x.Name())
	}
	m.fail("value %s (%T) used before definition", v.Name(), v)
	return nil
}

func (m *machine) constVal(c *ssa.Const) AV {
	if c.Value == nil {
		return m.zero(c.Type())
	}
	switch c.Value.Kind() {
	case constant.Bool:
		return avBool{constant.BoolVal(c.Value)}
	case constant.Int:
		if i, ok := constant.Int64Val(c.Value); ok {
			return avInt{conc: i}
		}
		if u, ok := constant.Uint64Val(c.Value); ok && u == ^uint64(0) {
			return avInt{atom: "#max"} // 2^64-1: only usable as an opaque token / equality
		}
		return avOpaque{"bigconst"}
	case constant.String:
		return avStr{isC: true, conc: constant.StringVal(c.Value)}
	}
	return avOpaque{"const"}
}

func (m *machine) evalArgs(fr *frame, cc *ssa.CallCommon) []AV {
	var out []AV
	for _, a := range cc.Args {
		out = append(out, m.eval(fr, a))
	}
	return out
}

func (m *machine) calleeLabel(fr *frame, cc *ssa.CallCommon) string {
	if cc.IsInvoke() {
		return avString(m.eval(fr, cc.Value)) + "." + cc.Method.Name()
	}
	if f := cc.StaticCallee(); f != nil {
		if name, _ := csmapMethod(cc); name != "" {
			return avString(m.eval(fr, cc.Args[0])) + "." + name
		}
		if o := f.Origin(); o != nil {
			return fname(o)
		}
		return fname(f)
	}
	return avString(m.eval(fr, cc.Value))
}

func (m *machine) evalInstr(fr *frame, v ssa.Value) AV {
	switch x := v.(type) {
	case *ssa.Alloc:
		return avPtr{newCell(x.Type().(*types.Pointer).Elem())}
	case *ssa.FieldAddr:
		p, ok := m.eval(fr, x.X).(avPtr)
		if !ok || p.c == nil {
			m.fail("field address through nil/unknown pointer %s at %s", m.w.Origin(x.X), m.w.pos(x.Pos()))
		}
		return avPtr{m.fieldCell(p.c, x.Field)}
	case *ssa.Field:
		s, ok := m.eval(fr, x.X).(avStruct)
		if !ok || s.c == nil {
			m.fail("field of unknown struct value at %s", m.w.pos(x.Pos()))
		}
		return m.loadCell(m.fieldCell(s.c, x.Field))
	case *ssa.IndexAddr:
		base := m.eval(fr, x.X)
		idx, ok := m.eval(fr, x.Index).(avInt)
		if !ok || idx.atom != "" {
			m.fail("symbolic index at %s", m.w.pos(x.Pos()))
		}
		switch b := base.(type) {
		case avPtr:
			if b.c == nil {
				m.fail("index through nil pointer")
			}
			return avPtr{m.elemCell(b.c, int(idx.conc))}
		case avSlice:
			if int(idx.conc) < 0 || int(idx.conc) >= len(b.cells) {
				panic(goPanic{avStr{isC: true, conc: "index out of range"}})
			}
			return avPtr{b.cells[idx.conc]}
		}
		m.fail("index into %s at %s", avString(base), m.w.pos(x.Pos()))
	case *ssa.Slice:
		base := m.eval(fr, x.X)
		if x.Low != nil || x.High != nil || x.Max != nil {
			// only full slices of arrays are needed (variadic packaging)
			if p, ok := base.(avPtr); ok && p.c != nil {
				if _, isArr := p.c.typ.Underlying().(*types.Array); isArr {
					return avOpaque{"subslice"}
				}
			}
			return avOpaque{"subslice"}
		}
		if p, ok := base.(avPtr); ok && p.c != nil {
			if at, isArr := p.c.typ.Underlying().(*types.Array); isArr {
				var cs []*cell
				for i := 0; i < int(at.Len()); i++ {
					cs = append(cs, m.elemCell(p.c, i))
				}
				return avSlice{cells: cs}
			}
		}
		return base
	case *ssa.UnOp:
		return m.unop(fr, x)
	case *ssa.BinOp:
		return m.binop(fr, x)
	case *ssa.ChangeType:
		return m.eval(fr, x.X)
	case *ssa.ChangeInterface:
		return m.eval(fr, x.X)
	case *ssa.Convert:
		return m.convert(fr, x)
	case *ssa.MakeInterface:
		inner := m.eval(fr, x.X)
		return avIface{dyn: x.X.Type(), val: inner}
	case *ssa.MakeClosure:
		var bs []AV
		for _, b := range x.Bindings {
			bs = append(bs, m.eval(fr, b))
		}
		return avFunc{fn: x.Fn.(*ssa.Function), bindings: bs}
	case *ssa.Extract:
		t, ok := m.eval(fr, x.Tuple).(avTuple)
		if !ok || x.Index >= len(t.vs) {
			return avOpaque{"extract"}
		}
		return t.vs[x.Index]
	case *ssa.Call:
		cc := x.Common()
		args := m.evalArgs(fr, cc)
		rs := m.invoke(fr, cc, args, m.calleeLabel(fr, cc))
		switch len(rs) {
		case 0:
			return nil
		case 1:
			return rs[0]
		}
		return avTuple{rs}
	case *ssa.TypeAssert:
		i, ok := m.eval(fr, x.X).(avIface)
		if !ok {
			m.fail("type assertion on unknown value at %s", m.w.pos(x.Pos()))
		}
		if i.dyn == nil {
			if i.isNil {
				if x.CommaOk {
					return avTuple{[]AV{m.zeroOrStruct(x.AssertedType), avBool{false}}}
				}
				panic(goPanic{avStr{isC: true, conc: "type assertion on nil"}})
			}
			// asserting a non-nil symbolic interface to an interface its static type already satisfies
			// (the nil-check go/ssa emits for interface method values) always succeeds
			if it, isI := x.AssertedType.Underlying().(*types.Interface); isI && types.Implements(x.X.Type(), it) {
				if x.CommaOk {
					return avTuple{[]AV{i, avBool{true}}}
				}
				return i
			}
			m.fail("type assertion on a symbolic interface without dynamic type (%s) at %s", i.sym, m.w.pos(x.Pos()))
		}
		match := types.Identical(i.dyn, x.AssertedType)
		if it, isI := x.AssertedType.Underlying().(*types.Interface); isI {
			match = types.Implements(i.dyn, it)
			if match {
				if x.CommaOk {
					return avTuple{[]AV{i, avBool{true}}}
				}
				return i
			}
		}
		if x.CommaOk {
			if match {
				return avTuple{[]AV{i.val, avBool{true}}}
			}
			return avTuple{[]AV{m.zeroOrStruct(x.AssertedType), avBool{false}}}
		}
		if !match {
			panic(goPanic{avStr{isC: true, conc: "type assertion failed"}})
		}
		return i.val
	case *ssa.MakeChan:
		if n, ok := m.eval(fr, x.Size).(avInt); ok && m.h.Concrete && n.atom == "" {
			return avChan{&chanObj{cap: int(n.conc)}}
		}
		return avRef{"chan"}
	case *ssa.MakeMap:
		if m.h.Concrete {
			return avMap{&mapObj{}}
		}
		return avRef{"map"}
	case *ssa.MakeSlice:
		// a slice of concrete length: that many fresh (zero) elements
		if n, ok := m.eval(fr, x.Len).(avInt); ok && n.atom == "" && n.conc >= 0 && n.conc <= 64 {
			if st, isSl := x.Type().Underlying().(*types.Slice); isSl {
				cs := make([]*cell, n.conc)
				for i := range cs {
					cs[i] = &cell{typ: st.Elem(), sym: fmt.Sprintf("elem%d", i), have: true, val: m.zero(st.Elem())}
				}
				return avSlice{cells: cs}
			}
		}
		return avOpaque{"makeslice"}
	case *ssa.Select:
		name := fmt.Sprintf("select@%s", fname(fr.fn))
		n, ok := m.st.choice[name]
		if m.h.SelectChoice != nil {
			if m.nsel == nil {
				m.nsel = map[string]int{}
			}
			n, ok = m.h.SelectChoice(m.st, name, m.nsel[name]), true
			m.nsel[name]++
		}
		if !ok {
			m.fail("select without a declared choice atom %s", name)
		}
		vs := []AV{avInt{conc: int64(n)}, avBool{true}}
		for _, s := range x.States {
			if s.Dir == types.RecvOnly {
				vs = append(vs, avOpaque{"recv"})
			}
		}
		var chans []AV
		for _, s := range x.States {
			chans = append(chans, m.eval(fr, s.Chan))
		}
		m.effect(fmt.Sprintf("select→%d", n), chans)
		return avTuple{vs}
	case *ssa.Lookup:
		mp := m.eval(fr, x.X)
		key := m.eval(fr, x.Index)
		rs, handled := m.oracle("lookup:"+avString(mp), []AV{key}, nil)
		if handled {
			if x.CommaOk {
				return avTuple{rs}
			}
			return rs[0]
		}
		if mm, ok := mp.(avMap); ok {
			conc := func(a AV) bool {
				switch y := a.(type) {
				case avInt:
					return y.atom == ""
				case avStr:
					return y.isC
				}
				return false
			}
			allConc := conc(key)
			for i, k := range mm.o.keys {
				if avString(k) == avString(key) {
					if x.CommaOk {
						return avTuple{[]AV{mm.o.vals[i], avBool{true}}}
					}
					return mm.o.vals[i]
				}
				allConc = allConc && conc(k)
			}
			if mt, isMap := x.X.Type().Underlying().(*types.Map); isMap && allConc {
				if z := m.zero(mt.Elem()); z != nil {
					if x.CommaOk {
						return avTuple{[]AV{z, avBool{false}}}
					}
					return z
				}
			}
		}
		return avOpaque{"lookup"}
	case *ssa.Index:
		// an element of an array value with known cells (a package-level table ranged over by value)
		if sv, ok := m.eval(fr, x.X).(avStruct); ok && sv.c != nil {
			if _, isArr := sv.c.typ.Underlying().(*types.Array); isArr && sv.c.elems != nil {
				if idx, ok := m.eval(fr, x.Index).(avInt); ok && idx.atom == "" && int(idx.conc) >= 0 && int(idx.conc) < len(sv.c.elems) && sv.c.elems[idx.conc] != nil {
					return m.loadCell(sv.c.elems[idx.conc])
				}
			}
		}
		return avOpaque{"index"}
	case *ssa.Range:
		if mm, ok := m.eval(fr, x.X).(avMap); ok {
			return avIter{o: mm.o, pos: new(int)}
		}
		m.fail("range over a map of unknown contents / a string is outside the decidable fragment at %s", m.w.pos(v.Pos()))
	case *ssa.Next:
		it, ok := m.eval(fr, x.Iter).(avIter)
		if !ok {
			m.fail("range over map/string is outside the decidable fragment at %s", m.w.pos(v.Pos()))
		}
		if *it.pos >= len(it.o.keys) {
			return avTuple{[]AV{avBool{false}, avOpaque{"no key"}, avOpaque{"no value"}}}
		}
		i := *it.pos
		*it.pos = i + 1
		return avTuple{[]AV{avBool{true}, it.o.keys[i], it.o.vals[i]}}
	}
	m.fail("unmodelled value instruction %T at %s", v, m.w.pos(v.Pos()))
	return nil
}

func (m *machine) zeroOrStruct(t types.Type) AV {
	if z := m.zero(t); z != nil {
		return z
	}
	return avStruct{newCell(t)}
}

func (m *machine) oracle(name string, args []AV, res *types.Tuple) ([]AV, bool) {
	if m.h.Oracle == nil {
		return nil, false
	}
	return m.h.Oracle(m.st, name, args, res)
}

// invoke performs a call: inline module-local code, otherwise consult the oracle / record an effect.
func (m *machine) invoke(fr *frame, cc *ssa.CallCommon, args []AV, label string) []AV {
	res := cc.Signature().Results()
	opaqueResults := func() []AV {
		var out []AV
		for i := 0; i < res.Len(); i++ {
			out = append(out, avOpaque{"result of " + label})
		}
		return out
	}
	if cc.IsInvoke() {
		if rs, ok := m.oracle(label, args, res); ok {
			m.effect(label, args)
			return rs
		}
		m.effect(label, args)
		return opaqueResults()
	}
	if b, ok := cc.Value.(*ssa.Builtin); ok {
		return m.builtin(b.Name(), args, cc)
	}
	var target *ssa.Function
	var free []AV
	if f := cc.StaticCallee(); f != nil {
		target = f
		if mc, ok := cc.Value.(*ssa.MakeClosure); ok {
			for _, b := range mc.Bindings {
				free = append(free, m.eval(fr, b))
			}
		}
	} else {
		fv, ok := m.eval(fr, cc.Value).(avFunc)
		if !ok {
			label = "call:" + avString(m.eval(fr, cc.Value))
			m.effect(label, args)
			return opaqueResults()
		}
		if fv.fn != nil {
			target, free = fv.fn, fv.bindings
			label = fname(fv.fn)
		} else {
			label = fv.sym
		}
	}
	if target != nil {
		if rs, ok := m.atomicIntrinsic(target, args); ok {
			return rs
		}
		if rs, ok := m.slicesIntrinsic(target, args); ok {
			return rs
		}
		if rs, ok := m.errgroupIntrinsic(target, args); ok {
			return rs
		}
		name, _ := csmapMethod(cc)
		inl := target.Blocks != nil && m.w.inModule(target) && name == "" && !m.h.NoInline[fname(target)] && !m.h.NoInline[label]
		if inl && !m.h.InlineAll && pkgOfFn(target) != pkgOfFn(m.h.Fn) {
			inl = false
			// a predicate or accessor of another package of the module that only reads (`doc.IsAheadOf(seqNo)`): what the
			// oracle does not answer for is evaluated like the expression it stands for
			if pureLeaf(target) {
				if rs, ok := m.oracle(label, args, res); ok {
					m.effect(label, args)
					return rs
				}
				return m.call(target, args, free)
			}
		}
		if inl {
			return m.call(target, args, free)
		}
	}
	if m.h.Complete != nil {
		if f, calls, ok := m.h.Complete(m.st, label, args); ok {
			fv, isF := f.(avFunc)
			if !isF || fv.fn == nil {
				m.fail("the completion callback handed to %s is not a known function", label)
			}
			m.effect(label, args)
			for _, cbArgs := range calls {
				rs := m.call(fv.fn, cbArgs, fv.bindings)
				if len(rs) == 1 {
					if b, isB := rs[0].(avBool); isB && !b.b {
						break
					}
				}
			}
			if rs, ok := m.oracle(label, args, res); ok {
				return rs
			}
			return opaqueResults()
		}
	}
	if rs, ok := m.oracle(label, args, res); ok {
		m.effect(label, args)
		return rs
	}
	m.effect(label, args)
	return opaqueResults()
}

func (m *machine) builtin(name string, args []AV, cc *ssa.CallCommon) []AV {
	switch name {
	case "len":
		switch a := args[0].(type) {
		case avSlice:
			return []AV{avInt{conc: int64(len(a.cells))}}
		case avStr:
			if a.isC {
				return []AV{avInt{conc: int64(len(a.conc))}}
			}
		case avMap:
			return []AV{avInt{conc: int64(len(a.o.keys))}}
		}
		return []AV{avOpaque{"len"}}
	case "append":
		if m.h.Concrete && len(args) == 2 {
			a, ok1 := args[0].(avSlice)
			b, ok2 := args[1].(avSlice)
			known := func(s avSlice) bool { return s.isNil || s.cells != nil || s.sym == "" }
			if ok1 && ok2 && known(a) && known(b) {
				cs := append([]*cell{}, a.cells...)
				for _, c := range b.cells {
					nc := newCell(c.typ)
					if _, isStruct := c.typ.Underlying().(*types.Struct); isStruct {
						m.copyStruct(nc, c)
					} else {
						nc.val, nc.have = m.loadCell(c), true
					}
					cs = append(cs, nc)
				}
				if cs == nil {
					cs = []*cell{}
				}
				return []AV{avSlice{cells: cs}}
			}
		}
		return []AV{avOpaque{name}}
	case "close":
		m.effect("close:"+avString(args[0]), nil)
		return nil
	case "copy", "cap", "delete", "print", "println", "min", "max":
		return []AV{avOpaque{name}}
	case "ssa:wrapnilchk":
		// the nil check of a pointer receiver in the wrapper of a value-receiver method: the pointer itself
		if p, ok := args[0].(avPtr); ok && p.c == nil {
			panic(goPanic{avStr{isC: true, conc: "value method called using nil pointer"}})
		}
		return []AV{args[0]}
	}
	m.fail("unmodelled builtin %s", name)
	return nil
}

func (m *machine) unop(fr *frame, x *ssa.UnOp) AV {
	a := m.eval(fr, x.X)
	switch x.Op {
	case token.MUL:
		p, ok := a.(avPtr)
		if !ok {
			m.fail("load through %s at %s", avString(a), m.w.pos(x.Pos()))
		}
		if p.c == nil {
			panic(goPanic{avStr{isC: true, conc: "nil dereference"}})
		}
		return m.loadCell(p.c)
	case token.NOT:
		b, ok := a.(avBool)
		if !ok {
			return avOpaque{"!" + avString(a)}
		}
		return avBool{!b.b}
	case token.SUB:
		if i, ok := a.(avInt); ok && i.atom == "" {
			return avInt{conc: -i.conc}
		}
		return avOpaque{"neg"}
	case token.ARROW:
		m.effect("recv:"+avString(a), nil)
		if cc, ok := a.(avChan); ok {
			if len(cc.o.buf) == 0 {
				panic(blocked{"receive from a channel nothing was sent on at " + m.w.pos(x.Pos())})
			}
			v := cc.o.buf[0]
			cc.o.buf = cc.o.buf[1:]
			if x.CommaOk {
				return avTuple{[]AV{v, avBool{true}}}
			}
			return v
		}
		if x.CommaOk {
			return avTuple{[]AV{avOpaque{"recv"}, avOpaque{"recvok"}}}
		}
		return avOpaque{"recv"}
	}
	return avOpaque{"unop"}
}

func (m *machine) convert(fr *frame, x *ssa.Convert) AV {
	a := m.eval(fr, x.X)
	i, ok := a.(avInt)
	if !ok {
		if s, isS := a.(avStr); isS {
			return s
		}
		// string(b) of a symbolic byte slice is a symbolic string (it can be an atom of an equality-only group)
		if tb, isB := x.Type().Underlying().(*types.Basic); isB && tb.Info()&types.IsString != 0 {
			switch y := a.(type) {
			case avOpaque:
				if strings.HasPrefix(y.why, "slice ") {
					return avStr{sym: "string(" + strings.TrimPrefix(y.why, "slice ") + ")"}
				}
			case avSlice:
				if y.sym != "" {
					return avStr{sym: "string(" + y.sym + ")"}
				}
			}
		}
		return avOpaque{"convert " + avString(a)}
	}
	if i.atom == "" {
		return i
	}
	from, ok1 := x.X.Type().Underlying().(*types.Basic)
	to, ok2 := x.Type().Underlying().(*types.Basic)
	if ok1 && ok2 && from.Info()&types.IsInteger != 0 && to.Info()&types.IsInteger != 0 {
		fs, ts := m.w.Prog.Fset != nil, true
		_ = fs
		_ = ts
		sf, st := intSize(from), intSize(to)
		uf, ut := from.Info()&types.IsUnsigned != 0, to.Info()&types.IsUnsigned != 0
		if (sf == st && uf == ut) || (uf && st > sf) || (!uf && !ut && st > sf) {
			return i // order-preserving
		}
	}
	return avOpaque{"wrapping conversion of " + i.atom}
}

func intSize(b *types.Basic) int {
	switch b.Kind() {
	case types.Int8, types.Uint8:
		return 8
	case types.Int16, types.Uint16:
		return 16
	case types.Int32, types.Uint32:
		return 32
	}
	return 64
}

func (m *machine) binop(fr *frame, x *ssa.BinOp) AV {
	a, b := m.eval(fr, x.X), m.eval(fr, x.Y)
	switch x.Op {
	case token.EQL, token.NEQ, token.LSS, token.LEQ, token.GTR, token.GEQ:
		r, ok := m.compare(a, b, x)
		if !ok {
			return avOpaque{fmt.Sprintf("(%s %s %s)", avString(a), x.Op, avString(b))}
		}
		switch x.Op {
		case token.EQL:
			return avBool{r == 0}
		case token.NEQ:
			return avBool{r != 0}
		case token.LSS:
			return avBool{r < 0}
		case token.LEQ:
			return avBool{r <= 0}
		case token.GTR:
			return avBool{r > 0}
		case token.GEQ:
			return avBool{r >= 0}
		}
	case token.ADD, token.SUB, token.MUL, token.QUO, token.REM:
		ia, ok1 := a.(avInt)
		ib, ok2 := b.(avInt)
		if ok1 && ok2 && ia.atom == "" && ib.atom == "" {
			switch x.Op {
			case token.ADD:
				return avInt{conc: ia.conc + ib.conc}
			case token.SUB:
				return avInt{conc: ia.conc - ib.conc}
			case token.MUL:
				return avInt{conc: ia.conc * ib.conc}
			case token.QUO:
				if ib.conc != 0 {
					return avInt{conc: ia.conc / ib.conc}
				}
			case token.REM:
				if ib.conc != 0 {
					return avInt{conc: ia.conc % ib.conc}
				}
			}
		}
		if sa, ok := a.(avStr); ok {
			if sb, ok := b.(avStr); ok && x.Op == token.ADD {
				if sa.isC && sb.isC {
					return avStr{isC: true, conc: sa.conc + sb.conc}
				}
				return avStr{sym: "(" + avString(sa) + "+" + avString(sb) + ")"}
			}
		}
		return avOpaque{fmt.Sprintf("arith(%s %s %s)", avString(a), x.Op, avString(b))}
	case token.LAND, token.LOR, token.AND, token.OR:
		ba, ok1 := a.(avBool)
		bb, ok2 := b.(avBool)
		if ok1 && ok2 {
			if x.Op == token.AND || x.Op == token.LAND {
				return avBool{ba.b && bb.b}
			}
			return avBool{ba.b || bb.b}
		}
	}
	return avOpaque{fmt.Sprintf("binop(%s %s %s)", avString(a), x.Op, avString(b))}
}

// compare returns sign(a-b); ok=false when the abstract state does not determine it.
func (m *machine) compare(a, b AV, x *ssa.BinOp) (int, bool) {
	eqOnly := x.Op == token.EQL || x.Op == token.NEQ
	switch av := a.(type) {
	case avInt:
		bv, ok := b.(avInt)
		if !ok {
			return 0, false
		}
		return m.cmpInt(av, bv, eqOnly)
	case avBool:
		bv, ok := b.(avBool)
		if !ok || !eqOnly {
			return 0, false
		}
		if av.b == bv.b {
			return 0, true
		}
		return 1, true
	case avPtr:
		bv, ok := b.(avPtr)
		if !ok || !eqOnly {
			return 0, false
		}
		if av.c == bv.c {
			return 0, true
		}
		return 1, true
	case avIface:
		bv, ok := b.(avIface)
		if !ok || !eqOnly {
			return 0, false
		}
		if av.isNil && bv.isNil {
			return 0, true
		}
		if av.isNil != bv.isNil {
			return 1, true
		}
		if av.sym != "" && av.sym == bv.sym {
			return 0, true
		}
		return 0, false
	case avSlice:
		bv, ok := b.(avSlice)
		if ok && eqOnly && bv.isNil {
			if av.isNil {
				return 0, true
			}
			return 1, true
		}
		return 0, false
	case avFunc:
		bv, ok := b.(avFunc)
		if ok && eqOnly && bv.fn == nil && bv.sym == "" {
			if av.fn == nil && av.sym == "" {
				return 0, true
			}
			return 1, true
		}
		return 0, false
	case avStr:
		bv, ok := b.(avStr)
		if !ok || !eqOnly {
			return 0, false
		}
		if av.isC && bv.isC {
			if av.conc == bv.conc {
				return 0, true
			}
			return 1, true
		}
		// two symbolic strings declared as atoms of an equality-only group
		if !av.isC && !bv.isC {
			ra, oka := m.st.rank[av.sym]
			rb, okb := m.st.rank[bv.sym]
			if oka && okb {
				if ra == rb {
					return 0, true
				}
				return 1, true
			}
			return 0, false
		}
		// symbolic string against a constant: a declared boolean atom "<sym>==<const>"
		s, c := av, bv
		if s.isC {
			s, c = bv, av
		}
		if c.isC {
			if v, ok := m.st.bools[fmt.Sprintf("%s==%q", s.sym, c.conc)]; ok {
				if v {
					return 0, true
				}
				return 1, true
			}
		}
		return 0, false
	case avChan:
		if r, isRef := b.(avRef); isRef && eqOnly && r.sym == "nil" {
			return 1, true
		}
		if bc, isC := b.(avChan); isC && eqOnly {
			if av.o == bc.o {
				return 0, true
			}
			return 1, true
		}
		return 0, false
	case avMap:
		if !eqOnly {
			return 0, false
		}
		switch bv := b.(type) {
		case avMap:
			if av.o == bv.o {
				return 0, true
			}
			return 1, true
		case avRef:
			if bv.sym == "nil" {
				return 1, true
			}
		}
		return 0, false
	case avRef:
		if bm, isMap := b.(avMap); isMap && eqOnly && av.sym == "nil" {
			_ = bm
			return 1, true
		}
		bv, ok := b.(avRef)
		if ok && eqOnly {
			if av.sym == bv.sym {
				return 0, true
			}
			if bv.sym == "nil" || av.sym == "nil" {
				return 1, true
			}
		}
		return 0, false
	}
	return 0, false
}

func (m *machine) cmpInt(a, b avInt, eqOnly bool) (int, bool) {
	if a.atom == "" && b.atom == "" {
		switch {
		case a.conc < b.conc:
			return -1, true
		case a.conc > b.conc:
			return 1, true
		}
		return 0, true
	}
	ga, gb := -1, -1
	if a.atom != "" {
		g, ok := m.st.group[a.atom]
		if !ok {
			return 0, false
		}
		ga = g
	}
	if b.atom != "" {
		g, ok := m.st.group[b.atom]
		if !ok {
			return 0, false
		}
		gb = g
	}
	name := func(x avInt, g int) (string, bool) {
		if x.atom != "" {
			return x.atom, true
		}
		c := fmt.Sprintf("#%d", x.conc)
		if gg, ok := m.st.group[c]; ok && gg == g {
			return c, true
		}
		return "", false
	}
	g := ga
	if g < 0 {
		g = gb
	}
	if ga >= 0 && gb >= 0 && ga != gb {
		return 0, false // atoms of different groups are never comparable
	}
	na, ok1 := name(a, g)
	nb, ok2 := name(b, g)
	if !ok1 || !ok2 {
		return 0, false
	}
	if m.h.Groups[g].EqOnly && !eqOnly {
		return 0, false
	}
	ra, rb := m.st.rank[na], m.st.rank[nb]
	switch {
	case ra < rb:
		return -1, true
	case ra > rb:
		return 1, true
	}
	return 0, true
}

// ---- driver

type OAEResult struct {
	States    int
	Mismatch  []string
	Undecided []string
	Samples   []string
}

// RunOAE evaluates all abstract states and compares each outcome with spec (returns "" when it agrees).
func RunOAE(w *World, h *Harness, spec func(st *State, out *Outcome) string) *OAEResult {
	res := &OAEResult{}
	type run struct {
		st  *State
		out *Outcome
	}
	var runs []run
	for _, base := range h.states() {
		// fork on configuration-only comparisons the run meets (at most 5 per base state); every state is run once
		work := []*State{base}
		for len(work) > 0 {
			st := work[0]
			work = work[1:]
			out := h.RunState(w, st)
			if out.NeedDyn != "" && len(st.dyn) < 5 {
				for _, v := range []bool{false, true} {
					cp := *st
					cp.dyn = map[string]bool{out.NeedDyn: v}
					for k, x := range st.dyn {
						cp.dyn[k] = x
					}
					work = append(work, &cp)
				}
				continue
			}
			if out.NeedDyn != "" {
				out.Undecided = "too many configuration-only comparisons on one path: " + out.NeedDyn
			}
			runs = append(runs, run{st, out})
		}
	}
	for _, r := range runs {
		st, out := r.st, r.out
		res.States++
		if out.Undecided != "" {
			if len(res.Undecided) < 5 {
				res.Undecided = append(res.Undecided, fmt.Sprintf("[%s] %s", st, out.Undecided))
			} else {
				res.Undecided = append(res.Undecided, "")
			}
			continue
		}
		if msg := spec(st, out); msg != "" {
			if len(res.Mismatch) < 6 {
				res.Mismatch = append(res.Mismatch, fmt.Sprintf("[%s] %s — observed: %s", st, msg, out.TraceString()))
			} else {
				res.Mismatch = append(res.Mismatch, "")
			}
		} else if len(res.Samples) < 4 {
			res.Samples = append(res.Samples, fmt.Sprintf("[%s] %s", st, out.TraceString()))
		}
	}
	return res
}

// report turns an OAE result into an obligation.
func (c *Ctx) oae(rule, construct string, pos token.Pos, h *Harness, spec func(st *State, out *Outcome) string, specText string) {
	c.see(h.Fn)
	r := RunOAE(c.W, h, spec)
	switch {
	case r.States == 0:
		c.Undecided(rule, construct, pos, "no abstract state enumerated")
	case len(r.Undecided) > 0:
		c.add(rule, construct, pos, Undecided, true, fmt.Sprintf("%d of %d abstract states left the decidable fragment (comparison-only control): %s",
			len(r.Undecided), r.States, strings.Join(nonEmpty(r.Undecided), " | ")), r.States)
	case len(r.Mismatch) > 0:
		c.add(rule, construct, pos, Violated, true, fmt.Sprintf("spec: %s\n%d of %d abstract states disagree:\n  %s",
			specText, len(r.Mismatch), r.States, strings.Join(nonEmpty(r.Mismatch), "\n  ")), r.States)
	default:
		c.add(rule, construct, pos, Discharged, true, fmt.Sprintf("spec: %s — all %d abstract states agree; e.g. %s",
			specText, r.States, strings.Join(r.Samples, " || ")), r.States)
	}
}

func nonEmpty(in []string) []string {
	var out []string
	for _, s := range in {
		if s != "" {
			out = append(out, s)
		}
	}
	return out
}

func pkgOfFn(f *ssa.Function) string {
	for g := f; g != nil; g = g.Parent() {
		if g.Pkg != nil {
			return g.Pkg.Pkg.Path()
		}
		if o := g.Origin(); o != nil && o.Pkg != nil {
			return o.Pkg.Pkg.Path()
		}
	}
	return ""
}

// atomicIntrinsic models sync/atomic's typed values as plain cells: x.Load() reads and x.Store(v) writes the cell
// that holds x (for Bool the cell is read as a declared boolean atom of the same name, exactly like a plain bool
// field). Swap and CompareAndSwap are modelled as the sequentially-executed read-modify-write they are.
func (m *machine) atomicIntrinsic(target *ssa.Function, args []AV) ([]AV, bool) {
	kind, method := atomicMethod(target)
	if kind == "" || len(args) == 0 {
		return nil, false
	}
	p, ok := args[0].(avPtr)
	if !ok || p.c == nil {
		return nil, false
	}
	c := p.c
	var vt types.Type
	switch kind {
	case "Bool":
		vt = types.Typ[types.Bool]
	case "Int32":
		vt = types.Typ[types.Int32]
	case "Int64":
		vt = types.Typ[types.Int64]
	case "Uint32":
		vt = types.Typ[types.Uint32]
	case "Uint64":
		vt = types.Typ[types.Uint64]
	default:
		return nil, false
	}
	load := func() AV {
		if v, ok := m.sequenced(c); ok {
			return v
		}
		if !c.have || c.val == nil {
			if c.sym != "" {
				c.val = m.symbolic(c.sym, vt)
			} else {
				c.val = m.zero(vt)
			}
			c.have = true
		}
		return c.val
	}
	store := func(v AV) {
		c.val, c.have, c.written, c.fields = v, true, true, nil
	}
	switch method {
	case "Load":
		return []AV{load()}, true
	case "Store":
		if len(args) == 2 {
			store(args[1])
			return nil, true
		}
	case "Swap":
		if len(args) == 2 {
			old := load()
			store(args[1])
			return []AV{old}, true
		}
	}
	return nil, false
}

// atomicMethod: ("Bool", "Load") for (*sync/atomic.Bool).Load etc.; ("", "") otherwise.
func atomicMethod(f *ssa.Function) (string, string) {
	if f == nil || f.Signature.Recv() == nil || f.Pkg == nil || f.Pkg.Pkg.Path() != "sync/atomic" {
		return "", ""
	}
	return recvTypeName(f.Signature.Recv().Type()), f.Name()
}

// staticSliceInit: a module-level slice variable that is assigned exactly once, in its package initialiser, from a
// literal whose elements are constants or other packages' variables (sentinel errors) is materialised with those
// elements instead of being an unknown input.
func (m *machine) staticSliceInit(g *ssa.Global) (AV, bool) {
	if _, isSlice := g.Type().(*types.Pointer).Elem().Underlying().(*types.Slice); !isSlice || g.Pkg == nil || !strings.HasPrefix(g.Pkg.Pkg.Path(), modPath) {
		return nil, false
	}
	var stores []*ssa.Store
	for _, fn := range m.w.ModFuncs {
		allInstrs(fn, func(in ssa.Instruction) {
			if st, ok := in.(*ssa.Store); ok && st.Addr == ssa.Value(g) {
				stores = append(stores, st)
			}
		})
	}
	if len(stores) != 1 || stores[0].Parent().Name() != "init" {
		return nil, false
	}
	// []byte("constant"): the bytes of the constant (represented, like every []byte(string) conversion, by the string)
	if cv, isConv := stores[0].Val.(*ssa.Convert); isConv {
		if k, isK := cv.X.(*ssa.Const); isK && k.Value != nil && k.Value.Kind() == constant.String {
			return avStr{isC: true, conc: constant.StringVal(k.Value)}, true
		}
		return nil, false
	}
	sl, ok := stores[0].Val.(*ssa.Slice)
	if !ok || sl.Low != nil || sl.High != nil {
		return nil, false
	}
	arr, ok := sl.X.(*ssa.Alloc)
	if !ok {
		return nil, false
	}
	at, ok := arr.Type().(*types.Pointer).Elem().Underlying().(*types.Array)
	if !ok {
		return nil, false
	}
	cells := make([]*cell, int(at.Len()))
	for _, r := range *arr.Referrers() {
		ia, ok := r.(*ssa.IndexAddr)
		if !ok {
			continue
		}
		idx, ok := ia.Index.(*ssa.Const)
		if !ok {
			return nil, false
		}
		i := int(idx.Int64())
		for _, r2 := range *ia.Referrers() {
			st, ok := r2.(*ssa.Store)
			if !ok || st.Addr != ssa.Value(ia) {
				continue
			}
			var v AV
			sv := st.Val
			if ct, isCT := sv.(*ssa.ChangeType); isCT {
				sv = ct.X
			}
			switch e := sv.(type) {
			case *ssa.Const:
				v = m.constVal(e)
			case *ssa.UnOp:
				if eg, isG := e.X.(*ssa.Global); isG && e.Op == token.MUL {
					v = m.symbolic(eg.Pkg.Pkg.Name()+"."+eg.Name(), eg.Type().(*types.Pointer).Elem())
				}
			case *ssa.Function:
				v = avFunc{fn: e} // a table of functions
			case *ssa.MakeClosure:
				if f, isF := e.Fn.(*ssa.Function); isF && len(e.Bindings) == 0 {
					v = avFunc{fn: f}
				}
			}
			if v == nil {
				return nil, false
			}
			c := newCell(at.Elem())
			c.val, c.have = v, true
			cells[i] = c
		}
	}
	for _, c := range cells {
		if c == nil {
			return nil, false
		}
	}
	return avSlice{cells: cells}, true
}

// staticArrayInit: a module-level array variable whose elements are stored only by the package initialiser, each from a
// constant or another package's variable (sentinel errors), is materialised with those elements.
func (m *machine) staticArrayInit(g *ssa.Global, c *cell) {
	at, isArr := g.Type().(*types.Pointer).Elem().Underlying().(*types.Array)
	if !isArr || g.Pkg == nil || !strings.HasPrefix(g.Pkg.Pkg.Path(), modPath) || at.Len() > 64 {
		return
	}
	vals := map[int]AV{}
	ok := true
	for _, fn := range m.w.ModFuncs {
		allInstrs(fn, func(in ssa.Instruction) {
			switch x := in.(type) {
			case *ssa.Store:
				if x.Addr == ssa.Value(g) {
					ok = false // assigned as a whole somewhere
				}
			case *ssa.IndexAddr:
				if x.X != ssa.Value(g) {
					return
				}
				for _, r := range *x.Referrers() {
					st, isSt := r.(*ssa.Store)
					if !isSt || st.Addr != ssa.Value(x) {
						continue
					}
					idx, isC := x.Index.(*ssa.Const)
					if !isC || !(fn.Synthetic != "" && fn.Name() == "init") {
						ok = false
						continue
					}
					var v AV
					switch e := st.Val.(type) {
					case *ssa.Const:
						v = m.constVal(e)
					case *ssa.UnOp:
						if eg, isG := e.X.(*ssa.Global); isG && e.Op == token.MUL {
							v = m.symbolic(eg.Pkg.Pkg.Name()+"."+eg.Name(), eg.Type().(*types.Pointer).Elem())
						}
					}
					if v == nil {
						ok = false
						continue
					}
					vals[int(idx.Int64())] = v
				}
			}
		})
	}
	if !ok || len(vals) != int(at.Len()) {
		return
	}
	for i, v := range vals {
		ec := m.elemCell(c, i)
		ec.val, ec.have = v, true
	}
}

// slicesIntrinsic models the search helpers of package slices over a slice with known elements by running the
// predicate on each element in order, as the library does.
func (m *machine) slicesIntrinsic(target *ssa.Function, args []AV) ([]AV, bool) {
	o := target
	if target.Origin() != nil {
		o = target.Origin()
	}
	if o.Pkg == nil || o.Pkg.Pkg.Path() != "slices" {
		return nil, false
	}
	elems := func(a AV) ([]*cell, bool) {
		s, ok := a.(avSlice)
		if !ok {
			return nil, false
		}
		if s.isNil {
			return nil, true
		}
		if s.cells == nil && s.sym != "" {
			return nil, false
		}
		return s.cells, true
	}
	pred := func(f AV, xs ...AV) (bool, bool) {
		fv, ok := f.(avFunc)
		if !ok || fv.fn == nil {
			return false, false
		}
		rs := m.call(fv.fn, xs, fv.bindings)
		if len(rs) != 1 {
			return false, false
		}
		b, ok := rs[0].(avBool)
		if !ok {
			m.fail("predicate handed to slices.%s is not determined by the abstract state: %s", o.Name(), avString(rs[0]))
		}
		return b.b, true
	}
	switch o.Name() {
	case "IndexFunc", "ContainsFunc":
		if len(args) != 2 {
			return nil, false
		}
		cs, ok := elems(args[0])
		if !ok {
			return nil, false
		}
		found := -1
		for i, c := range cs {
			r, ok := pred(args[1], m.loadCell(c))
			if !ok {
				return nil, false
			}
			if r {
				found = i
				break
			}
		}
		if o.Name() == "ContainsFunc" {
			return []AV{avBool{found >= 0}}, true
		}
		return []AV{avInt{conc: int64(found)}}, true
	case "EqualFunc":
		if len(args) != 3 {
			return nil, false
		}
		a, ok1 := elems(args[0])
		b, ok2 := elems(args[1])
		if !ok1 || !ok2 {
			return nil, false
		}
		if len(a) != len(b) {
			return []AV{avBool{false}}, true
		}
		for i := range a {
			r, ok := pred(args[2], m.loadCell(a[i]), m.loadCell(b[i]))
			if !ok {
				return nil, false
			}
			if !r {
				return []AV{avBool{false}}, true
			}
		}
		return []AV{avBool{true}}, true
	}
	return nil, false
}

// errgroupIntrinsic (Harness.Concrete): Group.Go runs the function to completion at the point of the call (one
// sequential schedule) and remembers the first non-nil error; Group.Wait returns it.
func (m *machine) errgroupIntrinsic(target *ssa.Function, args []AV) ([]AV, bool) {
	if !m.h.Concrete || target.Pkg == nil || target.Pkg.Pkg.Path() != "golang.org/x/sync/errgroup" || target.Signature.Recv() == nil {
		return nil, false
	}
	switch target.Name() {
	case "Go":
		m.effect(fname(target), args)
		if len(args) != 2 {
			return nil, false
		}
		fv, ok := args[1].(avFunc)
		if !ok || fv.fn == nil {
			m.fail("errgroup.Go of an unknown function")
		}
		rs := m.call(fv.fn, nil, fv.bindings)
		if len(rs) != 1 {
			m.fail("errgroup.Go of a function without an error result")
		}
		e, ok := rs[0].(avIface)
		if !ok {
			m.fail("the error returned by %s is not determined by the abstract state: %s", fname(fv.fn), avString(rs[0]))
		}
		if !e.isNil && m.egErr == nil {
			m.egErr = e
		}
		return []AV{}, true
	case "Wait":
		m.effect(fname(target), args)
		if m.egErr != nil {
			return []AV{m.egErr}, true
		}
		return []AV{avIface{isNil: true}}, true
	}
	return nil, false
}

// sequenced: the next value of a flag another goroutine flips (Harness.Sequence): successive reads see the listed
// values, the last one for ever; once the analysed code writes the flag itself, its own value counts.
func (m *machine) sequenced(c *cell) (AV, bool) {
	seq, ok := m.h.Sequence[c.sym]
	if !ok || c.sym == "" || c.written {
		return nil, false
	}
	if m.nseq == nil {
		m.nseq = map[string]int{}
	}
	i := m.nseq[c.sym]
	m.nseq[c.sym] = i + 1
	if i >= len(seq) {
		i = len(seq) - 1
	}
	return avBool{seq[i]}, true
}

// bundleArgs: for each parameter of fn that is a parameter bundle and is built, at fn's only call site, by a literal:
// an argument whose constant fields have the values given there (the other fields stay symbolic inputs) — so that a
// bound that moved from a local constant into `policy{maxRetries: 5}` is still the number 5 to the evaluator.
func bundleArgs(w *World, fn *ssa.Function) map[string]func(st *State) AV {
	out := map[string]func(st *State) AV{}
	sites := w.callersOf(fn)
	if len(sites) != 1 {
		return out
	}
	for _, p := range fn.Params {
		if !isBundle(p.Type()) {
			continue
		}
		arg := argOfParam(sites[0].Call.Common(), fn, p)
		var tab map[string]ssa.Value
		if al := asAlloc(arg); al != nil {
			tab, _ = allocTable(al)
		} else if u, isU := unwrap(arg).(*ssa.UnOp); isU && u.Op == token.MUL {
			// a package-level value of the module that only its initialiser writes (`var defaultPolicy = policy{5, time.Second}`)
			if g, isG := u.X.(*ssa.Global); isG {
				tab = globalStructInit(w, g)
			}
		}
		if tab == nil {
			continue
		}
		stt := p.Type().Underlying().(*types.Struct)
		p := p
		out[p.Name()] = func(st *State) AV {
			cs := &cell{typ: p.Type(), sym: p.Name(), fields: make([]*cell, stt.NumFields())}
			for i := 0; i < stt.NumFields(); i++ {
				k, isC := tab[stt.Field(i).Name()].(*ssa.Const)
				if !isC || k.Value == nil {
					continue
				}
				fc := &cell{typ: stt.Field(i).Type(), have: true}
				switch k.Value.Kind() {
				case constant.Int:
					n, _ := constant.Int64Val(k.Value)
					fc.val = avInt{conc: n}
				case constant.Bool:
					fc.val = avBool{constant.BoolVal(k.Value)}
				case constant.String:
					fc.val = avStr{isC: true, conc: constant.StringVal(k.Value)}
				default:
					continue
				}
				cs.fields[i] = fc
			}
			return avStruct{cs}
		}
	}
	return out
}

var pureLeafCache = map[*ssa.Function]int{}

// pureLeaf: a function with results whose body only reads: loads, field and index reads, comparisons, arithmetic,
// conversions, branches — no call, no store, no allocation that escapes, no channel operation.
func pureLeaf(fn *ssa.Function) bool {
	if v, ok := pureLeafCache[fn]; ok {
		return v == 1
	}
	ok := fn.Blocks != nil && fn.Signature.Results().Len() >= 1 && len(fn.AnonFuncs) == 0
	if ok {
		allInstrs(fn, func(in ssa.Instruction) {
			switch x := in.(type) {
			case *ssa.UnOp:
				if x.Op == token.ARROW {
					ok = false
				}
			case *ssa.FieldAddr, *ssa.Field, *ssa.BinOp, *ssa.Phi, *ssa.If, *ssa.Jump, *ssa.Return, *ssa.Convert, *ssa.ChangeType,
				*ssa.IndexAddr, *ssa.Index, *ssa.Extract, *ssa.DebugRef, *ssa.Lookup, *ssa.Slice:
			default:
				ok = false
			}
		})
	}
	if ok {
		pureLeafCache[fn] = 1
	} else {
		pureLeafCache[fn] = 0
	}
	return ok
}

// globalStructInit: the field values the package initialiser gives a package-level struct variable of the module that
// nothing else writes; nil when it is written anywhere else or as a whole.
func globalStructInit(w *World, g *ssa.Global) map[string]ssa.Value {
	if g.Pkg == nil || !strings.HasPrefix(g.Pkg.Pkg.Path(), modPath) {
		return nil
	}
	tab := map[string]ssa.Value{}
	ok := true
	for _, fn := range w.ModFuncs {
		isInit := fn.Synthetic != "" && fn.Name() == "init"
		allInstrs(fn, func(in ssa.Instruction) {
			st, isSt := in.(*ssa.Store)
			if !isSt {
				return
			}
			if st.Addr == ssa.Value(g) {
				ok = false
				return
			}
			if fa, isFA := st.Addr.(*ssa.FieldAddr); isFA && fa.X == ssa.Value(g) {
				if !isInit {
					ok = false
					return
				}
				tab[fieldOfAddr(fa).Name()] = st.Val
			}
		})
	}
	if !ok || len(tab) == 0 {
		return nil
	}
	return tab
}
