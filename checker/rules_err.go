package main

// rules_err.go — module-wide error discipline (P14): what happens to every error a call hands back.
//
// Every call of the module whose callee returns an error is a *site*. A site is SURFACED when the failure can reach
// whoever asked: the error value (or a value derived from it: wrapped, waited for, turned into a message) reaches a
// return, a panic, a channel send or a continuation handed in by the caller; or the failure is CONVERTED — some panic,
// or return of a non-nil error, executes only where this very value is known to be non-nil. Every other site is
// UNSURFACED (never read, only logged, only tested). Unsurfaced sites are legitimate only where the code around them
// was read and found to be right; those are frozen as a table (scope, callee, count, reason). The rule fails for an
// unsurfaced site the table does not cover — a new swallowed error, or a reported one that stopped being reported.

import (
	"fmt"
	"go/constant"
	"go/types"
	"sort"
	"strings"

	"golang.org/x/tools/go/ssa"
)

type errSite struct {
	Fn       *ssa.Function
	Call     ssa.CallInstruction
	Callee   string
	Scope    string // receiver type of the enclosing method, or the package of the enclosing function
	Surfaced bool
	How      string
}

// errAliases: v and every value it flows into unchanged (phis, interface conversions, single cells and closure cells).
func errAliases(v ssa.Value) map[ssa.Value]bool {
	seen := map[ssa.Value]bool{}
	var follow func(v ssa.Value)
	follow = func(v ssa.Value) {
		if seen[v] {
			return
		}
		seen[v] = true
		if v.Referrers() == nil {
			return
		}
		for _, r := range *v.Referrers() {
			switch x := r.(type) {
			case *ssa.Phi:
				follow(x)
			case *ssa.MakeInterface:
				follow(x)
			case *ssa.ChangeInterface:
				follow(x)
			case *ssa.Store:
				if x.Val == v {
					followCell(x.Addr, follow)
				}
			}
		}
	}
	follow(v)
	return seen
}

// converted: somewhere in the function (or in the closures sharing the value through a cell) a panic, a process exit
// or a return of a non-nil error executes only where the value is known to be non-nil.
func converted(v ssa.Value) (bool, string) {
	al := errAliases(v)
	match := func(x ssa.Value) bool { return al[x] }
	fns := map[*ssa.Function]bool{}
	for a := range al {
		if in, ok := a.(ssa.Instruction); ok && in.Parent() != nil {
			fns[in.Parent()] = true
		}
	}
	how := ""
	for fn := range fns {
		allInstrs(fn, func(in ssa.Instruction) {
			if how != "" || deadBlock(in.Block()) {
				return
			}
			if callsNoReturn(in) && errGuard(in.Block(), false, match) {
				how = "a call that never returns (fatal helper) where it is non-nil"
			}
			switch x := in.(type) {
			case *ssa.Panic:
				if errGuard(in.Block(), false, match) {
					how = "panic where it is non-nil"
				}
			case *ssa.Return:
				for _, r := range x.Results {
					if !types.Identical(r.Type(), types.Universe.Lookup("error").Type()) {
						continue
					}
					if c, isC := r.(*ssa.Const); isC && c.Value == nil {
						continue
					}
					if errGuard(in.Block(), false, match) {
						how = "an error is returned where it is non-nil"
					}
				}
			case *ssa.Call:
				n := calleeName(x.Common())
				if (n == "os.Exit" || strings.HasSuffix(n, ".Fatal") || strings.HasSuffix(n, ".Fatalf")) && errGuard(in.Block(), false, match) {
					how = "process exit where it is non-nil"
				}
			}
		})
	}
	return how != "", how
}

// surfaced follows the error value and what is derived from it.
func (w *World) surfaced(v ssa.Value, depth int, seen map[ssa.Value]bool) (bool, string) {
	if seen[v] {
		return false, ""
	}
	seen[v] = true
	sinks := errorSinks(v)
	for _, s := range sinks {
		switch s.Kind {
		case "return", "panic", "send":
			return true, s.Kind
		}
	}
	if ok, how := converted(v); ok {
		return true, how
	}
	for _, s := range sinks {
		if !strings.HasPrefix(s.Kind, "arg:") {
			continue
		}
		ci := s.In
		cc := ci.(ssa.CallInstruction).Common()
		if !cc.IsInvoke() && cc.StaticCallee() == nil {
			if _, isBuiltin := cc.Value.(*ssa.Builtin); !isBuiltin {
				return true, "handed to a continuation (" + s.Kind[4:] + ")"
			}
		}
		if depth == 0 {
			continue
		}
		// a helper of this module that is handed the error: what the helper does with its parameter
		if callee := cc.StaticCallee(); callee != nil && callee.Blocks != nil && w.inModule(callee) {
			args := cc.Args
			for i, a := range args {
				if i < len(callee.Params) && errAliases(v)[a] {
					if ok, how := w.surfaced(callee.Params[i], depth-1, seen); ok {
						return true, "through " + s.Kind[4:] + ": " + how
					}
				}
			}
		}
		call, isCall := ci.(*ssa.Call)
		if !isCall {
			continue
		}
		res := cc.Signature().Results()
		switch res.Len() {
		case 0:
		case 1:
			if ok, how := w.surfaced(call, depth-1, seen); ok {
				return true, "through " + s.Kind[4:] + ": " + how
			}
		default:
			for _, r := range *call.Referrers() {
				if ex, isEx := r.(*ssa.Extract); isEx {
					if ok, how := w.surfaced(ex, depth-1, seen); ok {
						return true, "through " + s.Kind[4:] + ": " + how
					}
				}
			}
		}
	}
	return false, sinkKinds(sinks)
}

func scopeOf(fn *ssa.Function) string {
	r := rootFn(fn)
	if r.Pkg != nil {
		p := r.Pkg.Pkg.Path()
		if i := strings.LastIndex(p, "/"); i >= 0 {
			p = p[i+1:]
		}
		return p
	}
	if r.Signature.Recv() != nil {
		return recvTypeName(r.Signature.Recv().Type())
	}
	return "?"
}

// errSites classifies every call of the module whose callee returns an error.
func (w *World) errSites() []errSite {
	var out []errSite
	for _, fn := range w.ModFuncs {
		if fn.Synthetic != "" {
			continue
		}
		allInstrs(fn, func(in ssa.Instruction) {
			ci, ok := in.(ssa.CallInstruction)
			if !ok || deadBlock(in.Block()) {
				return
			}
			cc := ci.Common()
			if !hasErrorResult(cc) {
				return
			}
			es := errSite{Fn: fn, Call: ci, Callee: calleeName(cc), Scope: scopeOf(fn)}
			call, isCall := in.(*ssa.Call)
			switch {
			case !isCall:
				es.How = "go/defer statement: the result is discarded"
			default:
				ers := errResults(call)
				if len(ers) == 0 {
					es.How = "the error result is never read"
				} else {
					es.Surfaced, es.How = w.surfaced(ers[0], 3, map[ssa.Value]bool{})
					if !es.Surfaced {
						if es.How == "nowhere (dropped)" {
							es.How = "only tested"
						} else {
							es.How = "only " + es.How
						}
					}
				}
			}
			out = append(out, es)
		})
	}
	sort.Slice(out, func(i, j int) bool {
		a, b := out[i], out[j]
		if a.Scope != b.Scope {
			return a.Scope < b.Scope
		}
		if a.Callee != b.Callee {
			return a.Callee < b.Callee
		}
		return a.Call.Pos() < b.Call.Pos()
	})
	return out
}

// unsurfacedAllowed — the unsurfaced sites of today's tree, each confirmed by reading the code around it. Keyed by the
// package of the enclosing function and the resolved callee (type arguments stripped; an unexported helper of the
// module counts as "unexported helper"), with the number of such sites: a refactoring that moves a site inside its
// package or renames a helper keeps the key; an additional swallowed error of the same kind exceeds the count.
type allowedErr struct {
	Scope, Callee string
	N             int
	Why           string
}

var unsurfacedAllowed = []allowedErr{
	{"api", "(*github.com/gofiber/fiber/v2.App).Listen", 1, "the API is an optional side service: a port that cannot be bound is logged, the consumer keeps streaming"},
	{"api", "(*metric.Registerer).RegisterAll", 1, "metrics are optional: a collector that is already registered disables the middleware, logged"},
	{"couchbase", "unexported helper", 1, "cbMembership.monitor: a failed index update is classified (cas mismatch → re-run, else logged) and retried at the next tick"},
	{"couchbase", "(*couchbase.client).GetAgentConfigSnapshot", 1, "GetAgentQueues (metrics only): a snapshot that is not available yet contributes no queue figures"},
	{"couchbase", "(*couchbase.client).GetDcpAgentConfigSnapshot", 1, "GetAgentQueues (metrics only), as above"},
	{"couchbase", "(*github.com/couchbase/gocbcore/v10.Agent).Close", 2, "client.Close at shutdown: nothing can be done with a failed close of a connection that is being dropped"},
	{"couchbase", "(*github.com/couchbase/gocbcore/v10.DCPAgent).Close", 1, "client.DcpClose at shutdown, as above"},
	{"couchbase", "couchbase.Get", 1, "cbMembership.monitor: a failed read of the instance index is logged and the round is skipped; the next tick retries"},
	{"couchbase", "couchbase.UpdateDocument", 1, "cbMembership.heartbeat: a failed heart-beat write is logged; the next tick retries (liveness is judged by the others from the stored time)"},
	{"couchbase", "github.com/bytedance/sonic.Marshal", 5, "payloads are structs/maps of strings and integers (Instance, map[string]int64, int64, CheckpointDocument): encoding cannot fail (C05.R5 checks the argument types of the checkpoint encoder)"},
	{"couchbase", "github.com/bytedance/sonic.Unmarshal", 1, "cbMembership.monitor: an undecodable index is logged and the round is skipped"},
	{"couchbase", "invoke EventBus.Bus.Unsubscribe", 1, "Close: unsubscribing a handler that is not subscribed is harmless, logged"},
	{"couchbase", "invoke couchbase.Client.GetDcpAgentConfigSnapshot", 1, "rollbackMitigation.configWatch: no snapshot yet → keep the table in force and look again at the next tick (the first table is waited for with an error, C07)"},
	{"couchbase", "strconv.Atoi", 1, "nodeVersionFromString: a non-numeric build suffix leaves Build = 0 by design (C18.R3/R4 decide the parse)"},
	{"go-dcp", "github.com/bytedance/sonic.Marshal", 1, "printConfiguration: start-up log line only"},
	{"go-dcp", "invoke EventBus.Bus.Unsubscribe", 1, "dcp.close: logged, the close goes on"},
	{"kubernetes", "invoke EventBus.Bus.Unsubscribe", 2, "Close of the HA membership / leader elector: logged, harmless"},
	{"kubernetes", "invoke v1.PodInterface.Patch", 2, "AddLabel/RemoveLabel: the role label is informational, failure is logged"},
	{"kubernetes", "os.ReadFile", 1, "getNamespace: no service-account file → the default namespace, by design"},
	{"logger", "github.com/sirupsen/logrus.ParseLevel", 1, "Loggers.Log is called with the package's own level constants"},
	{"membership", "invoke EventBus.Bus.Unsubscribe", 1, "dynamicMembership.Close: harmless"},
	{"metadata", "(*wrapper.ConcurrentSwissMap).UnmarshalJSON", 1, "fileMetadata.Load: an undecodable file leaves the state empty, and every assigned vBucket then fails in openStream (C15.R8: no position → error → fatal) — termination, not a partial session"},
	{"metadata", "os.Remove", 1, "fileMetadata.Clear: removing a file that does not exist is not a failure; Clear has no caller that reads its result"},
	{"servicediscovery", "(*servicediscovery.serviceDiscovery).ReassignLeader", 1, "heart-beat: a failed reconnect to the leader makes the follower forget it (C10.R21 decides the round)"},
	{"servicediscovery", "invoke net.Listener.Accept", 1, "rpc accept loop: an Accept error ends the loop (it is how Shutdown stops it, C13.R3)"},
	{"servicediscovery", "invoke net.Listener.Close", 1, "Shutdown: logged"},
	{"servicediscovery", "invoke servicediscovery.Client.Close", 3, "dropping a connection to a peer that is being removed"},
	{"servicediscovery", "invoke servicediscovery.Client.Ping", 2, "heart-beat: a failed ping is the signal that removes the peer (C10.R21, C09.R16)"},
	{"servicediscovery", "invoke servicediscovery.Client.Rebalance", 1, "monitor round: a follower that cannot be told its number is logged; the heart-beat removes it if it is dead and the next round re-sends (C10.R20)"},
	{"stream", "invoke couchbase.Client.CloseStream", 2, "closeAllStreams: a stream that has already ended cannot be closed; logged, the close goes on (C13.R8)"},
	{"stream", "invoke metadata.Metadata.Clear", 1, "checkpoint.Clear discards the result by design (no caller)"},
	{"stream", "invoke metadata.Metadata.Save", 1, "checkpoint.Save: a failed save is logged and keeps the dirty marks, so the next save retries (C05.R4)"},
	{"stream", "servicediscovery.NewClient", 1, "OnBecomeFollower: no connection to the new leader → the follower stays unnumbered until the next election notice; registration itself is fatal on failure"},
}

func normCallee(w *World, cc *ssa.CallCommon) string {
	name := calleeName(cc)
	// strip type arguments
	for {
		i := strings.Index(name, "[")
		if i < 0 {
			break
		}
		depth, j := 0, i
		for ; j < len(name); j++ {
			if name[j] == '[' {
				depth++
			} else if name[j] == ']' {
				depth--
				if depth == 0 {
					break
				}
			}
		}
		if j >= len(name) {
			break
		}
		name = name[:i] + name[j+1:]
	}
	if callee := cc.StaticCallee(); callee != nil && w.inModule(callee) && callee.Object() != nil && !callee.Object().Exported() {
		return "unexported helper"
	}
	return name
}

// errorDiscipline (C15, C20): no error is newly swallowed anywhere in the module.
func errorDiscipline(c *Ctx, id string) {
	w := c.W
	sites := w.errSites()
	total, uns := 0, 0
	type key struct{ scope, callee string }
	found := map[key][]errSite{}
	for _, es := range sites {
		total++
		c.CallSites++
		if es.Surfaced {
			continue
		}
		uns++
		k := key{es.Scope, normCallee(w, es.Call.Common())}
		found[k] = append(found[k], es)
	}
	allowed := map[key]allowedErr{}
	for _, a := range unsurfacedAllowed {
		allowed[key{a.Scope, a.Callee}] = a
	}
	var keys []key
	for k := range found {
		keys = append(keys, k)
	}
	sort.Slice(keys, func(i, j int) bool {
		if keys[i].scope != keys[j].scope {
			return keys[i].scope < keys[j].scope
		}
		return keys[i].callee < keys[j].callee
	})
	for _, k := range keys {
		ss := found[k]
		construct := "err:" + k.scope + "|" + k.callee
		var where []string
		for _, es := range ss {
			where = append(where, fmt.Sprintf("%s @%s (%s)", fname(es.Fn), w.pos(es.Call.Pos()), es.How))
		}
		a, ok := allowed[k]
		switch {
		case !ok:
			c.Fail(id, construct, ss[0].Call.Pos(), "the error of %s is not surfaced (no return, panic, send or continuation reaches the caller, and no panic / error return is conditional on it): %s", k.callee, strings.Join(where, "; "))
		case len(ss) > a.N:
			c.Fail(id, construct, ss[len(ss)-1].Call.Pos(), "%d sites in package %s leave the error of %s unsurfaced, %d were confirmed by reading (%s): %s", len(ss), k.scope, k.callee, a.N, a.Why, strings.Join(where, "; "))
		default:
			c.OK(id, construct, ss[0].Call.Pos(), "%d unsurfaced site(s), confirmed: %s", len(ss), a.Why)
		}
	}
	if total < 200 || uns < 20 {
		c.Undecided(id, "floor", 0, "only %d error-returning call sites found (257 today), %d unsurfaced (44 today): the inventory is not seeing the module", total, uns)
	} else {
		c.OK(id, "err:inventory", 0, "%d error-returning call sites, %d surfaced (return / panic / send / continuation / conditional panic or error return), %d unsurfaced in %d confirmed groups", total, total-uns, uns, len(keys))
	}
}

func errSurvey(c *Ctx, id string) {
	w := c.W
	n := 0
	for _, es := range w.errSites() {
		n++
		if es.Surfaced {
			continue
		}
		fmt.Printf("ERRSITE {%q, %q, 1, \"\"}, // %s @%s: %s\n", es.Scope, normCallee(w, es.Call.Common()), fname(es.Fn), w.pos(es.Call.Pos()), es.How)
	}
	fmt.Println("total sites", n)
}

var _ = constant.MakeBool
