package main

import (
	"fmt"
	"go/types"
	"reflect"
	"strings"

	"golang.org/x/tools/go/ssa"
)

func init() {
	register(&Property{
		ID: "C02",
		Explanation: "Decides the mapping tables behind 'resume exactly where the checkpoint says': (R1) the stream request's arguments, keyed by gocbcore's parameter names, come field by field from the offset; " +
			"(R2) the Save table offset→document and the Load table document→offset are extracted from the code and composed — the composition is the identity on vbUUID, seqNo, snapshot start/end; every tracked entry is dumped; loaded documents are never modified in place; " +
			"(R3) writer and reader use the same document type, distinct JSON tags, the same xattr path / document id expressions, and the file backend reads the file and map type it writes; " +
			"(R4) the all-zero empty document, the 'latest' branch is selected by exactly ¬exist ∧ AutoReset==latest and fills seqNo/snapshot from the sampled vBucket high seqNo and vbUUID from failover entry 0; " +
			"(R5) the requested end is InitializeLatestSeqNo(high seqNo) (= the parameter iff finite mode, else 2^64-1) at both sites and reaches the observer; (R6) the read-only wrapper never calls anything in Save/Clear, forwards Load, and is installed whenever Metadata.ReadOnly. " +
			"Not decided: sonic's and the server's fidelity for 64-bit values (trusted), custom Metadata implementations.",
		Assumptions: []string{"sonic Marshal/Unmarshal round-trip uint64 and string fields with distinct tags", "gocbcore.OpenStream's parameter names denote what they say"},
		Rules: []RuleDef{
			{ID: "C02.R29", Text: "with auto-reset latest every vBucket is requested at its high seqNo or the start stops: the latest-start callback evaluated whole — a fail-over log error is fatal, the position is stored once under the same key (same rule as C01.R21)", Run: latestStartMarked},
			{ID: "C02.R1", Text: "Client.OpenStream passes vbUUID, startSeqNo, endSeqNo, snapStartSeqNo, snapEndSeqNo, vbID, evtHandler from the like-named offset fields / own parameters (conversions only)", Run: c02r1},
			{ID: "C02.R2", Text: "Save table (offset→document) and Load table (document→offset) are mutually inverse on the four checkpoint fields; every ranged entry is dumped; loaded documents are not modified in place", Run: c02r2},
			{ID: "C02.R3", Text: "serialisation symmetry: same document type, exported fields with distinct JSON tags, same xattr path / id expressions on write and read; file backend reads what it writes", Run: c02r3},
			{ID: "C02.R4", Text: "empty document is all-zero; the 'latest' branch runs iff ¬exist ∧ AutoReset==latest and builds the offset from the sampled vBucket (not collection) high seqNo and failover entry 0", Run: c02r4},
			{ID: "C02.R5", Text: "requested end ← InitializeLatestSeqNo(high seqNo) (parameter iff finite mode else 2^64-1) and the observer receives the same offset.LatestSeqNo", Run: c02r5},
			{ID: "C02.R7", Text: "'no checkpoint' is concluded only from evidence: the file backend treats exactly os.ErrNotExist as absent and returns every other read error; the Couchbase backend sets exist only after the xattr was read and parsed", Run: c02r7},
			{ID: "C02.R8", Text: "the re-request after a rollback keeps the requested end and the other identities (same rules as C08.R1, C08.R2)", Run: func(c *Ctx, id string) { c08r1(c, id); c08r2(c, id) }},
			{ID: "C02.R9", Text: "the request is made with the loaded position as it is: openStream passes offsets[vbID] and observers[vbID] of the same key to Client.OpenStream (same rule as C12.R3, open arguments)", Run: c12r3},
			{ID: "C02.R10", Text: "every tracked position is dumped and every loaded document becomes a position: every loop over a concurrent map runs to completion: the Range callback returns true on every path (frozen exception: markAbsentInstances stops at the error it returns)", Run: rangeComplete("stream.checkpoint)", "stream.stream).Open", "metadata.")},
			{ID: "C02.R11", Text: "each assigned vBucket is requested: openAllStreams spawns one opener per element of the assigned vBucket list, Add(len)/Done/Wait (same rule as C15.R3)", Run: c15r3},
			{ID: "C02.R12", Text: "the store that is read and written is the configured one (same rule as C05.R13)", Run: metadataIsTheConfiguredOne},
			{ID: "C02.R13", Text: "the file backend's state map is a faithful map whose JSON decoding is all-or-nothing (same rule as C04.R9)", Run: wrapperFaithful},
			{ID: "C02.R14", Text: "the Couchbase backend's load returns a complete map: every per-vBucket reader signals Done exactly once on every non-panicking path, Add(len(vbIds)), Wait before return", Run: workersSignal("couchbase.cbMetadata).Load")},
			{ID: "C02.R15", Text: "the file backend, exhaustively over the outcomes of reading the file: read → (state, exist, nil); does not exist → (empty documents, ¬exist, nil); any other error → that error", Run: fileLoadExact},
			{ID: "C02.R16", Text: "the first checkpoint of a vBucket is created: upsert, on key-not-found create then upsert again, last step's error returned (same rule as C05.R15)", Run: upsertLadder},
			{ID: "C02.R17", Text: "the Couchbase backend's per-vBucket reader, exhaustively: a parsable document is installed under its vBucket and raises 'exists'; an unparsable one or key-not-found installs an all-zero document without raising it; any other error panics with nothing installed; Done exactly once", Run: cbLoadReader},
			{ID: "C02.R18", Text: "the sampled high sequence number (latest start, finite end) is the largest any node/collection reported (same rule as C15.R16)", Run: seqnoMerge},
			{ID: "C02.R19", Text: "the backend and the requested end are chosen by the documented values of metadata.type and dcp.mode (same rule as C15.R18)", Run: configPredicates},
			{ID: "C02.R20", Text: "what is stored is what was handed over: the backends marshal the document they are given under the id of the same vBucket and write nothing else (same rule as C01.R6)", Run: c01r6},
			{ID: "C02.R21", Text: "in read-only mode the session resumes from what the wrapped store holds now (same rule as C15.R22)", Run: readOnlyForwardsLoad},
			{ID: "C02.R22", Text: "a session starts from the loaded positions and nothing else: the position writer is called only for acknowledgements and absorptions — Open does not push positions through it, where a late acknowledgement of the previous session would win (same rule as C01.R2)", Run: c01r2},
			{ID: "C02.R23", Text: "read-only mode survives defaulting: no configured option is rewritten (same rule as C17.R1)", Run: c17r1},
			{ID: "C02.R24", Text: "a session reads the checkpoints of its own group: the document key is a function of the group name and vBucket id of the call (same rule as C14.R4)", Run: c14r4},
			{ID: "C02.R25", Text: "what a session asks the server and the store is answered by them, not by a layer in between (a cache of sequence numbers or fail-over logs, a retry with a fallback): every layer over a module interface is a proven pass-through and no collaborator is replaced by a wrapper (same rules as C20.R19 and C20.R20)", Run: func(c *Ctx, id string) { decoratorsTransparent()(c, id); noNewLayers(c, id) }},
			{ID: "C02.R26", Text: "the auto-reset and stream modes a session is opened under are the configured ones: outside package config the configuration is only read (same rule as C17.R6)", Run: configImmutable},
			{ID: "C02.R27", Text: "the position requested from the server is the stored one, not one edited on the way: no in-place store to an Offset or SnapshotMarker field (same rules as C06.R3 and C01.R7)", Run: func(c *Ctx, id string) { c06r3(c, id); immutableOffsets(c, id) }},
			{ID: "C02.R28", Text: "each vBucket is requested with its own persisted values: nothing process-wide is shared between documents — no package-level variable is written after initialisation (same rule as C18.R9)", Run: globalsFrozen},
			{ID: "C02.R6", Text: "read-only wrapper: Save/Clear perform no call and return nil, Load forwards its parameters; Start wraps the metadata whenever Metadata.ReadOnly and under no other condition", Run: c02r6},
		},
	})
}

func c02r1(c *Ctx, id string) {
	w := c.W
	impls := w.implsOf("couchbase", "Client", "OpenStream")
	c.need(len(impls) > 0, id, "implementation of couchbase.Client.OpenStream")
	for _, fn := range impls {
		c.see(fn)
		var pOff, pVb, pObs *ssa.Parameter
		for _, p := range fn.Params[1:] {
			switch {
			case w.isOffsetPtr(p.Type()):
				pOff = p
			case isUint16(p.Type()):
				pVb = p
			case recvTypeName(p.Type()) == "Observer":
				pObs = p
			}
		}
		if pOff == nil || pVb == nil || pObs == nil {
			c.Undecided(id, "params@"+fname(fn), fn.Pos(), "cannot identify (vbID, offset, observer) parameters")
			continue
		}
		n := 0
		allInstrs(fn, func(in ssa.Instruction) {
			cc := callOf(in)
			if cc == nil || !isStaticCall(cc, "gocbcore/v10", "DCPAgent", "OpenStream") {
				return
			}
			n++
			c.CallSites++
			o := "param(" + pOff.Name() + ")"
			want := map[string]string{
				"vbID":           "param(" + pVb.Name() + ")",
				"vbUUID":         o + ".VbUUID",
				"startSeqNo":     o + ".SeqNo",
				"endSeqNo":       o + ".LatestSeqNo",
				"snapStartSeqNo": o + ".SnapshotMarker.StartSeqNo",
				"snapEndSeqNo":   o + ".SnapshotMarker.EndSeqNo",
				"evtHandler":     "param(" + pObs.Name() + ")",
			}
			for _, k := range sortedKeys(want) {
				got := w.Origin(argByName(cc, k))
				c.Check(got == want[k], id, "request:"+k+"@"+fname(fn), in.Pos(), k+" ← "+got, k+" ← "+got+", expected "+want[k])
			}
		})
		if n != 1 {
			c.Undecided(id, "request@"+fname(fn), fn.Pos(), "%d DCPAgent.OpenStream calls in the Client.OpenStream implementation (expected 1)", n)
		}
	}
	c.Floor(id, 7)
}

// loadClosures finds the Range callbacks over Metadata.Load()#0 in a Checkpoint.Load implementation.
type loadSite struct {
	closure *ssa.Function
	rng     ssa.CallInstruction
	store   ssa.CallInstruction // offsets.Store(key, &Offset{...})
	table   map[string]string
	latest  bool
	keyP    *ssa.Parameter // the ranged vBucket id (by type: the callback may be a method value with a receiver in front)
	docP    *ssa.Parameter // the ranged document
}

func findLoadSites(c *Ctx, id string, fn *ssa.Function) []*loadSite {
	w := c.W
	var out []*loadSite
	allInstrs(fn, func(in ssa.Instruction) {
		cc := callOf(in)
		m, recv := csmapMethod(cc)
		if m != "Range" || len(cc.Args) != 2 {
			return
		}
		if !strings.Contains(w.Origin(recv), ".metadata.Load)(") || !strings.HasSuffix(w.Origin(recv), "#0") {
			return
		}
		cl := closureOf(cc.Args[1])
		if cl == nil {
			return
		}
		ls := &loadSite{closure: cl, rng: in.(ssa.CallInstruction)}
		for _, prm := range cl.Params {
			if isUint16(prm.Type()) {
				ls.keyP = prm
			}
			if recvTypeName(prm.Type()) == "CheckpointDocument" {
				ls.docP = prm
			}
		}
		allInstrs(cl, func(in2 ssa.Instruction) {
			cc2 := callOf(in2)
			if m2, r2 := csmapMethod(cc2); m2 == "Store" && w.isOffsetMap(r2.Type()) {
				ls.store = in2.(ssa.CallInstruction)
			}
			if cc2 != nil && isInvokeOf(cc2, "Client", "GetFailOverLogs") {
				ls.latest = true
			}
		})
		out = append(out, ls)
	})
	for _, ls := range out {
		c.see(ls.closure)
		if ls.store == nil {
			c.Fail(id, "load-store@"+fname(ls.closure), ls.closure.Pos(), "the load callback stores no offset")
			continue
		}
		lit, ok := w.litOf(ls.store.Common().Args[2])
		if !ok {
			c.Fail(id, "load-store@"+fname(ls.closure), ls.store.Pos(), "stored offset is not a literal (built in place or by a one-level helper): %s", w.Origin(ls.store.Common().Args[2]))
			continue
		}
		ls.table = lit.Table
	}
	return out
}

var ckFields = [][2]string{ // document path, offset path
	{"Checkpoint.VbUUID", "VbUUID"},
	{"Checkpoint.SeqNo", "SeqNo"},
	{"Checkpoint.Snapshot.StartSeqNo", "SnapshotMarker.StartSeqNo"},
	{"Checkpoint.Snapshot.EndSeqNo", "SnapshotMarker.EndSeqNo"},
}

func c02r2(c *Ctx, id string) {
	w := c.W
	saves := w.implsOf("stream", "Checkpoint", "Save")
	loads := w.implsOf("stream", "Checkpoint", "Load")
	c.need(len(saves) > 0 && len(loads) > 0, id, "implementations of stream.Checkpoint.Save/Load")
	for _, sv := range saves {
		sd := findSaveDump(c, id, sv)
		if sd == nil || len(sd.closure.Params) < 2 {
			continue
		}
		c.see(sv)
		vp := "param(" + sd.valName() + ")."
		saveT := map[string]string{} // doc path -> offset path
		for dp, org := range sd.table {
			if rest, ok := strings.CutPrefix(org, vp); ok {
				saveT[dp] = rest
			}
		}
		dumpAll(c, id, sv, sd)
		for _, ld := range loads {
			c.see(ld)
			for _, ls := range findLoadSites(c, id, ld) {
				if ls.table == nil || ls.latest || ls.docP == nil {
					continue
				}
				dp := "param(" + ls.docP.Name() + ")."
				loadT := map[string]string{} // offset path -> doc path
				for op, org := range ls.table {
					if rest, ok := strings.CutPrefix(org, dp); ok {
						loadT[op] = rest
					}
				}
				for _, f := range ckFields {
					docPath, offPath := f[0], f[1]
					s := saveT[docPath]
					l := loadT[offPath]
					construct := "roundtrip:" + docPath + "@" + fname(sv) + "∘" + fname(ld)
					switch {
					case s == "":
						c.Fail(id, construct, sd.update.Pos(), "Save does not fill %s from an offset field (got %s)", docPath, sd.table[docPath])
					case l == "":
						c.Fail(id, construct, ls.store.Pos(), "Load does not fill offset.%s from a document field (got %s)", offPath, ls.table[offPath])
					case s != offPath || l != docPath:
						c.Fail(id, construct, ls.store.Pos(), "not inverse: Save writes %s ← offset.%s, Load reads offset.%s ← %s", docPath, s, offPath, l)
					default:
						c.OK(id, construct, ls.store.Pos(), "Save: %s ← offset.%s ; Load: offset.%s ← %s (identity)", docPath, s, offPath, l)
					}
				}
			}
		}
	}
	// loaded documents are never modified in place
	scanned, bad := 0, 0
	for _, fn := range w.ModFuncs {
		allInstrs(fn, func(in ssa.Instruction) {
			st, ok := in.(*ssa.Store)
			if !ok {
				return
			}
			fa, ok := st.Addr.(*ssa.FieldAddr)
			if !ok {
				return
			}
			tn := recvTypeName(fa.X.Type())
			if !strings.HasPrefix(tn, "CheckpointDocument") {
				return
			}
			scanned++
			if _, isAlloc := fa.X.(*ssa.Alloc); isAlloc {
				return
			}
			bad++
			c.Fail(id, "docmutate:"+tn+"."+structField(fa.X.Type(), fa.Field).Name()+"@"+fname(fn), st.Pos(), "a checkpoint document is modified in place (%s := %s) — the resume position is no longer the stored one", w.Origin(st.Addr), w.Origin(st.Val))
		})
	}
	if bad == 0 {
		c.OK(id, "docmutate:none", 0, "%d stores to checkpoint-document fields, all of them literal initialisations", scanned)
	}
	c.Floor(id, 6)
}

// idTerm: the provenance of a document id, with the vBucket id it is derived from — a uint16 input of the function or
// of an enclosing one, alone or as a field of a parameter bundle — written as param(vbID) whatever its name is.
func idTerm(w *World, fn *ssa.Function, id ssa.Value) string {
	org := w.Origin(id)
	call, ok := resolveCell(id).(*ssa.Call)
	if !ok || len(call.Common().Args) == 0 {
		return org
	}
	a0 := w.Origin(call.Common().Args[0])
	for g := fn; g != nil; g = g.Parent() {
		for _, v := range vparams(g) {
			if v.Term() == a0 && isUint16(v.Type()) {
				return strings.Replace(org, "("+a0+",", "(param(vbID),", 1)
			}
		}
	}
	return org
}

func c02r3(c *Ctx, id string) {
	w := c.W
	doc := w.NamedType("models", "CheckpointDocument")
	c.need(doc != nil, id, "models.CheckpointDocument")
	// struct shape
	var walk func(n *types.Named, seen map[*types.Named]bool)
	walk = func(n *types.Named, seen map[*types.Named]bool) {
		if seen[n] {
			return
		}
		seen[n] = true
		st := n.Underlying().(*types.Struct)
		tags := map[string]string{}
		for i := 0; i < st.NumFields(); i++ {
			f := st.Field(i)
			tag := reflect.StructTag(st.Tag(i)).Get("json")
			name := strings.Split(tag, ",")[0]
			construct := "field:" + n.Obj().Name() + "." + f.Name()
			okType := false
			switch u := f.Type().Underlying().(type) {
			case *types.Basic:
				okType = u.Kind() == types.Uint64 || u.Kind() == types.String
			case *types.Pointer:
				if nn, ok := types.Unalias(u.Elem()).(*types.Named); ok {
					if _, isS := nn.Underlying().(*types.Struct); isS {
						okType = true
						walk(nn, seen)
					}
				}
			}
			switch {
			case !f.Exported():
				c.Fail(id, construct, f.Pos(), "unexported field is silently dropped by the JSON encoder")
			case name == "" || name == "-":
				c.Fail(id, construct, f.Pos(), "field has no JSON name (tag %q)", tag)
			case tags[name] != "":
				c.Fail(id, construct, f.Pos(), "JSON tag %q duplicates field %s", name, tags[name])
			case strings.Contains(tag, ",string") || strings.Contains(tag, "omitempty"):
				c.Fail(id, construct, f.Pos(), "JSON tag option changes the encoding of zero/large values: %q", tag)
			case !okType:
				c.Fail(id, construct, f.Pos(), "field type %s is not uint64/string/pointer-to-struct (lossy for 64-bit values)", f.Type())
			default:
				c.OKTrivial(id, construct, f.Pos(), "json:%q type %s", name, f.Type())
			}
			tags[name] = f.Name()
		}
	}
	walk(doc, map[*types.Named]bool{})

	// marshal / unmarshal types and id/path expressions in the couchbase backend
	var mType, uType types.Type
	var wIDs, rIDs, wPaths, rPaths []string
	var mPos, uPos ssa.Instruction
	for _, fn := range w.ModFuncs {
		root := rootFn(fn)
		if root.Pkg == nil || !strings.HasSuffix(root.Pkg.Pkg.Path(), "/couchbase") || recvTypeName(recvOf(root)) != "cbMetadata" {
			continue
		}
		allInstrs(fn, func(in ssa.Instruction) {
			cc := callOf(in)
			if cc == nil {
				return
			}
			if sf := cc.StaticCallee(); sf != nil && sf.Pkg != nil && strings.HasSuffix(sf.Pkg.Pkg.Path(), "/sonic") {
				if sf.Name() == "Marshal" {
					if mi, ok := cc.Args[0].(*ssa.MakeInterface); ok {
						mType, mPos = mi.X.Type(), in
					}
				}
				if sf.Name() == "Unmarshal" {
					if mi, ok := cc.Args[1].(*ssa.MakeInterface); ok {
						if p, ok := mi.X.Type().(*types.Pointer); ok {
							uType, uPos = p.Elem(), in
						}
					}
				}
			}
			if isStaticCall(cc, "/couchbase", "", "UpsertXattrs") {
				wIDs = append(wIDs, idTerm(w, fn, argByName(cc, "id")))
				wPaths = append(wPaths, w.Origin(argByName(cc, "path")))
			}
			if isStaticCall(cc, "/couchbase", "", "GetXattrs") {
				rIDs = append(rIDs, idTerm(w, fn, argByName(cc, "id")))
				rPaths = append(rPaths, w.Origin(argByName(cc, "path")))
			}
		})
	}
	if mType == nil || uType == nil {
		c.Undecided(id, "types@cbMetadata", 0, "could not find sonic.Marshal / sonic.Unmarshal in the couchbase backend")
	} else if types.Identical(mType, uType) && recvTypeName(mType) == "CheckpointDocument" {
		c.OK(id, "types@cbMetadata", mPos.Pos(), "writer marshals %s, reader unmarshals into %s", shortType(mType), shortType(uType))
	} else {
		c.Fail(id, "types@cbMetadata", uPos.Pos(), "writer marshals %s but reader unmarshals into %s", shortType(mType), shortType(uType))
	}
	normID := func(s string) string { // getCheckpointID(param(vbID), <group expr>) — the parameter name may differ between functions
		return strings.NewReplacer("param(innerVbID)", "param(vbID)").Replace(s)
	}
	if len(wIDs) == 0 || len(rIDs) == 0 {
		c.Undecided(id, "ids@cbMetadata", 0, "no xattr write/read found")
	} else {
		ok := true
		for _, x := range append(append([]string{}, wIDs...), rIDs...) {
			if normID(x) != normID(wIDs[0]) || !strings.HasPrefix(x, "call(couchbase.getCheckpointID)(") {
				ok = false
			}
		}
		for _, x := range append(append([]string{}, wPaths...), rPaths...) {
			if x != wPaths[0] || !strings.HasPrefix(x, "const(") {
				ok = false
			}
		}
		if ok {
			c.OK(id, "ids@cbMetadata", 0, "write and read use id %s and xattr path %s", wIDs[0], wPaths[0])
		} else {
			c.Fail(id, "ids@cbMetadata", 0, "write ids %v paths %v ≠ read ids %v paths %v", wIDs, wPaths, rIDs, rPaths)
		}
	}
	// file backend
	fsave := w.Method("metadata", "fileMetadata", "Save")
	fload := w.Method("metadata", "fileMetadata", "Load")
	c.need(fsave != nil && fload != nil, id, "metadata.fileMetadata.Save/Load")
	c.see(fsave)
	c.see(fload)
	var wName, rName string
	var wT, rT types.Type
	allInstrs(fsave, func(in ssa.Instruction) {
		cc := callOf(in)
		if cc == nil {
			return
		}
		if isStaticCall(cc, "os", "", "WriteFile") {
			wName = w.Origin(cc.Args[0])
		}
		if sf := cc.StaticCallee(); sf != nil && sf.Pkg != nil && strings.HasSuffix(sf.Pkg.Pkg.Path(), "/sonic") && strings.HasPrefix(sf.Name(), "Marshal") {
			if mi, ok := cc.Args[0].(*ssa.MakeInterface); ok {
				wT = mi.X.Type()
			}
		}
	})
	allInstrs(fload, func(in ssa.Instruction) {
		cc := callOf(in)
		if cc == nil {
			return
		}
		if isStaticCall(cc, "os", "", "ReadFile") {
			rName = w.Origin(cc.Args[0])
		}
		if m, recv := csmapMethod(cc); m == "UnmarshalJSON" {
			rT = recv.Type()
		}
	})
	c.Check(wName != "" && wName == rName, id, "file-name@fileMetadata", fsave.Pos(), "writes and reads "+wName, "writes "+wName+" but reads "+rName)
	okT := false
	if mt, ok := wT.(*types.Map); ok && rT != nil {
		okT = isCSMapOf(rT, func(v types.Type) bool { return types.Identical(v, mt.Elem()) })
		if p, ok := rT.Underlying().(*types.Pointer); ok {
			if n, ok := types.Unalias(p.Elem()).(*types.Named); ok && n.TypeArgs().Len() == 2 {
				okT = okT && types.Identical(n.TypeArgs().At(0), mt.Key())
			}
		}
	}
	c.Check(okT, id, "file-types@fileMetadata", fsave.Pos(), fmt.Sprintf("marshals %v, unmarshals into %v", wT, rT), fmt.Sprintf("marshals %v but unmarshals into %v", wT, rT))
	c.Floor(id, 9)
}

func recvOf(fn *ssa.Function) types.Type {
	if fn.Signature.Recv() != nil {
		return fn.Signature.Recv().Type()
	}
	return types.Typ[types.Invalid]
}

func c02r4(c *Ctx, id string) {
	w := c.W
	// empty document
	ne := w.Func("models", "NewEmptyCheckpointDocument")
	c.need(ne != nil, id, "models.NewEmptyCheckpointDocument")
	c.see(ne)
	doc := w.NamedType("models", "CheckpointDocument")
	as := allocsOf(ne, doc)
	if len(as) != 1 {
		c.Undecided(id, "empty-doc", ne.Pos(), "expected one document literal")
	} else {
		t := map[string]string{}
		flattenAlloc(w, as[0], "", t, 0)
		ok := true
		for _, f := range ckFields {
			if v, has := t[f[0]]; has && v != "const(0)" {
				ok = false
			}
		}
		c.Check(ok, id, "empty-doc", as[0].Pos(), "all checkpoint fields zero: "+fmt.Sprint(t), "empty document is not all-zero: "+fmt.Sprint(t))
	}
	for _, ld := range w.implsOf("stream", "Checkpoint", "Load") {
		c.see(ld)
		sites := findLoadSites(c, id, ld)
		var latest, normal *loadSite
		for _, s := range sites {
			if s.latest {
				latest = s
			} else {
				normal = s
			}
		}
		if latest == nil || normal == nil || len(sites) != 2 {
			c.Undecided(id, "branches@"+fname(ld), ld.Pos(), "expected one 'latest' and one normal load callback, found %d", len(sites))
			continue
		}
		// branch condition: exactly {¬exist, AutoReset == "latest"} apart from error guards
		var conds []string
		for _, g := range guardsOf(latest.rng.Block()) {
			v, pol := stripNot(g.Cond, g.Branch)
			if _, isErr := isNilCompare(v, func(x ssa.Value) bool { return types.Implements(x.Type(), errorIface()) }); isErr {
				continue
			}
			conds = append(conds, fmt.Sprintf("%v:%s", pol, w.Origin(v)))
		}
		wantA := "false:call(recv.metadata.Load)(recv.vbIds, recv.bucketUUID)#1"
		got := strings.Join(conds, " ∧ ")
		okc := len(conds) == 2 && conds[0] == wantA && strings.HasPrefix(conds[1], "true:(recv.config.Checkpoint.AutoReset == const(\"latest\"))")
		c.Check(okc, id, "latest-cond@"+fname(ld), latest.rng.Pos(), "latest branch ⇔ "+got, "latest branch is selected by ["+got+"], expected ¬exist ∧ AutoReset==\"latest\"")
		// the normal branch is not guarded by anything else, and is not run after the latest branch
		var nconds []string
		for _, g := range guardsOf(normal.rng.Block()) {
			v, pol := stripNot(g.Cond, g.Branch)
			if _, isErr := isNilCompare(v, func(x ssa.Value) bool { return types.Implements(x.Type(), errorIface()) }); isErr {
				continue
			}
			nconds = append(nconds, fmt.Sprintf("%v:%s", pol, w.Origin(v)))
		}
		both := !existsPathAvoiding(latest.rng, func(in ssa.Instruction) bool { return in == ssa.Instruction(normal.rng) }, true)
		c.Check(len(nconds) == 0 && !both, id, "normal-cond@"+fname(ld), normal.rng.Pos(), "normal branch is the complement of the latest branch", fmt.Sprintf("normal load branch guarded by %v (runs after latest: %v)", nconds, both))

		// tables
		seq := ""
		if latest.table != nil {
			seq = latest.table["SeqNo"]
			key := w.Origin(latest.store.Common().Args[1])
			okSeq := strings.HasPrefix(seq, "call((*wrapper.ConcurrentSwissMap[K, V]).Load)(call(recv.client.GetVBucketSeqNos)(const(false))#0, "+key+")#0")
			c.Check(okSeq, id, "latest:seqno@"+fname(ld), latest.store.Pos(), "SeqNo ← "+seq, "SeqNo ← "+seq+", expected the vBucket (awareCollection=false) high seqNo of the same key "+key)
			c.Check(latest.table["SnapshotMarker.StartSeqNo"] == seq && latest.table["SnapshotMarker.EndSeqNo"] == seq, id, "latest:snapshot@"+fname(ld), latest.store.Pos(),
				"snapshot ← [seqNo, seqNo]", "snapshot ← ["+latest.table["SnapshotMarker.StartSeqNo"]+", "+latest.table["SnapshotMarker.EndSeqNo"]+"], expected both = SeqNo")
			vu := latest.table["VbUUID"]
			c.Check(vu == "&call(recv.client.GetFailOverLogs)("+key+")#0[const(0)].VbUUID", id, "latest:vbuuid@"+fname(ld), latest.store.Pos(), "VbUUID ← "+vu, "VbUUID ← "+vu+", expected failOverLogs[0].VbUUID of the same vBucket")
			lo := latest.table["LatestSeqNo"]
			c.Check(strings.HasPrefix(lo, "call((*stream/offset.OffsetLatestSeqNoInit).InitializeLatestSeqNo)(") && strings.HasSuffix(lo, ", "+seq+")"), id, "latest:end@"+fname(ld), latest.store.Pos(), "LatestSeqNo ← "+lo, "LatestSeqNo ← "+lo+", expected InitializeLatestSeqNo(high seqNo)")
		}
		if normal.table != nil && normal.keyP != nil {
			key := w.Origin(normal.store.Common().Args[1])
			c.Check(key == "param("+normal.keyP.Name()+")", id, "normal:key@"+fname(ld), normal.store.Pos(), "stored under the ranged key", "stored under "+key)
			lo := normal.table["LatestSeqNo"]
			hs := "call((*wrapper.ConcurrentSwissMap[K, V]).Load)(call(recv.client.GetVBucketSeqNos)(const(false))#0, " + key + ")#0"
			c.Check(lo == "call((*stream/offset.OffsetLatestSeqNoInit).InitializeLatestSeqNo)(recv.offsetLatestSeqNoInit, "+hs+")", id, "normal:end@"+fname(ld), normal.store.Pos(), "LatestSeqNo ← "+lo, "LatestSeqNo ← "+lo+", expected InitializeLatestSeqNo(vBucket high seqNo of the same key)")
		}
	}
	c.Floor(id, 8)
}

var errIface *types.Interface

func errorIface() *types.Interface {
	if errIface == nil {
		errIface = types.Universe.Lookup("error").Type().Underlying().(*types.Interface)
	}
	return errIface
}

func c02r5(c *Ctx, id string) {
	w := c.W
	fn := w.Method("stream/offset", "OffsetLatestSeqNoInit", "InitializeLatestSeqNo")
	c.need(fn != nil, id, "offset.(*OffsetLatestSeqNoInit).InitializeLatestSeqNo")
	p := fn.Params[1].Name()
	h := &Harness{Fn: fn, Groups: []Group{{Atoms: []string{p}, Unsigned: true}}, Bools: []string{"finite"},
		NoInline: map[string]bool{"(*config.Dcp).IsDcpModeFinite": true},
		Oracle: func(st *State, name string, args []AV, res *types.Tuple) ([]AV, bool) {
			if name == "(*config.Dcp).IsDcpModeFinite" {
				return []AV{avBool{st.B("finite")}}, true
			}
			return nil, false
		}}
	c.oae(id, fname(fn), fn.Pos(), h, func(st *State, out *Outcome) string {
		if out.Panicked || len(out.Ret) != 1 {
			return "no single result"
		}
		got := avString(out.Ret[0])
		want := "#max"
		if st.B("finite") {
			want = p
		}
		if got != want {
			return "returns " + got + ", expected " + want
		}
		return ""
	}, "result = parameter iff IsDcpModeFinite() else 2^64-1")
	// IsDcpModeFinite ⇔ Mode == "finite"
	fin := w.Method("config", "Dcp", "IsDcpModeFinite")
	c.need(fin != nil, id, "config.(*Dcp).IsDcpModeFinite")
	c.see(fin)
	okFin := false
	allInstrs(fin, func(in ssa.Instruction) {
		if r, ok := in.(*ssa.Return); ok && len(r.Results) == 1 {
			o := w.Origin(r.Results[0])
			okFin = o == "(recv.Dcp.Mode == const(\"finite\"))"
			c.Check(okFin, id, "finite-mode", in.Pos(), "IsDcpModeFinite ← "+o, "IsDcpModeFinite ← "+o+", expected Dcp.Mode == \"finite\"")
		}
	})
	// the observer receives offset.LatestSeqNo
	n := 0
	for _, f := range w.ModFuncs {
		allInstrs(f, func(in ssa.Instruction) {
			cc := callOf(in)
			if cc == nil || !isStaticCall(cc, "/couchbase", "", "NewObserver") {
				return
			}
			n++
			c.see(f)
			got := w.Origin(argByName(cc, "latestSeqNo"))
			vb := w.Origin(argByName(cc, "vbID"))
			okk := false
			for _, p := range f.Params {
				if w.isOffsetPtr(p.Type()) && got == "param("+p.Name()+").LatestSeqNo" {
					okk = true
				}
			}
			c.Check(okk && strings.HasPrefix(vb, "param("), id, "observer-end@"+fname(f), in.Pos(), "NewObserver(vbID="+vb+", latestSeqNo="+got+")", "NewObserver gets latestSeqNo="+got+" vbID="+vb+", expected the ranged offset's LatestSeqNo")
		})
	}
	if n == 0 {
		c.Undecided(id, "observer-end", 0, "no NewObserver call found")
	}
	// the observer keeps it
	no := w.Func("couchbase", "NewObserver")
	if no != nil {
		obs := w.NamedType("couchbase", "observer")
		for _, a := range allocsOf(no, obs) {
			t, _ := allocTable(a)
			got := w.Origin(t["latestSeqNo"])
			c.Check(got == "param(latestSeqNo)", id, "observer-field", a.Pos(), "observer.latestSeqNo ← "+got, "observer.latestSeqNo ← "+got)
		}
	}
}

func c02r6(c *Ctx, id string) {
	w := c.W
	for _, name := range []string{"Save", "Clear"} {
		fn := w.Method("metadata", "readMetadata", name)
		c.need(fn != nil, id, "metadata.readMetadata."+name)
		c.see(fn)
		calls := 0
		retNil := true
		allInstrs(fn, func(in ssa.Instruction) {
			if callOf(in) != nil {
				calls++
			}
			if r, ok := in.(*ssa.Return); ok {
				for _, x := range r.Results {
					if !isNilConst(x) {
						retNil = false
					}
				}
			}
		})
		c.Check(calls == 0 && retNil, id, "readonly:"+name, fn.Pos(), "no call, returns nil", fmt.Sprintf("read-only %s performs %d call(s) / returns non-nil", name, calls))
	}
	ld := w.Method("metadata", "readMetadata", "Load")
	c.need(ld != nil, id, "metadata.readMetadata.Load")
	c.see(ld)
	// the wrapped store: the wrapper's one field of the Metadata interface type (whatever it is called)
	inner := "metadata"
	if rt := w.NamedType("metadata", "readMetadata"); rt != nil {
		if st, ok := rt.Underlying().(*types.Struct); ok {
			for i := 0; i < st.NumFields(); i++ {
				if strings.HasSuffix(types.TypeString(st.Field(i).Type(), nil), "metadata.Metadata") {
					inner = st.Field(i).Name()
				}
			}
		}
	}
	okLoad := false
	allInstrs(ld, func(in ssa.Instruction) {
		if r, ok := in.(*ssa.Return); ok && len(r.Results) == 3 {
			o := w.Origin(r.Results[0])
			want := "call(recv." + inner + ".Load)(param(" + ld.Params[1].Name() + "), param(" + ld.Params[2].Name() + "))#0"
			if o == want && w.Origin(r.Results[1]) == strings.TrimSuffix(want, "0")+"1" && w.Origin(r.Results[2]) == strings.TrimSuffix(want, "0")+"2" {
				okLoad = true
			}
		}
	})
	c.Check(okLoad, id, "readonly:Load", ld.Pos(), "returns inner.Load(own parameters) unchanged", "read-only Load does not forward the inner Load's results for its own parameters")
	// the wrapped value is the constructor's parameter
	nr := w.Func("metadata", "NewReadMetadata")
	c.need(nr != nil, id, "metadata.NewReadMetadata")
	for _, a := range allocsOf(nr, w.NamedType("metadata", "readMetadata")) {
		t, _ := allocTable(a)
		got := w.Origin(w.throughLayers(t[inner]))
		c.Check(got == "param("+nr.Params[0].Name()+")", id, "readonly:wraps", a.Pos(), "wraps "+got, "wraps "+got)
	}
	// Start wraps whenever ReadOnly
	n := 0
	for _, f := range w.ModFuncs {
		allInstrs(f, func(in ssa.Instruction) {
			cc := callOf(in)
			if cc == nil || cc.StaticCallee() != nr {
				return
			}
			n++
			c.see(f)
			var gs []string
			for _, g := range guardsOf(in.Block()) {
				gs = append(gs, fmt.Sprintf("%v:%s", g.Branch, w.Origin(g.Cond)))
			}
			ok := len(gs) == 1 && strings.HasPrefix(gs[0], "true:") && strings.HasSuffix(gs[0], ".Metadata.ReadOnly")
			arg := w.Origin(cc.Args[0])
			// the wrapped backend must be the one in effect and the result must replace it
			stored := false
			if call, isCall := in.(*ssa.Call); isCall {
				for _, r := range *call.Referrers() {
					if st, isSt := r.(*ssa.Store); isSt && "*"+w.Origin(st.Addr) == "*&"+arg || isSt && w.Origin(st.Addr) == "&"+arg {
						stored = true
					}
				}
			}
			// the installation may sit in a selector helper that returns the wrapper (or the store itself): then the
			// helper's result must replace, at its call sites, the value it was handed
			if call, isCall := in.(*ssa.Call); isCall && !stored && strings.HasPrefix(arg, "param(") && f.Parent() == nil {
				returned := false
				for _, r := range *call.Referrers() {
					if _, isRet := r.(*ssa.Return); isRet {
						returned = true
					}
				}
				pi := -1
				for i, p := range f.Params {
					if "param("+p.Name()+")" == arg {
						pi = i
					}
				}
				if returned && pi >= 0 {
					sites, okSites := 0, 0
					for _, g := range w.ModFuncs {
						allInstrs(g, func(x ssa.Instruction) {
							c2, isC := x.(*ssa.Call)
							if !isC || c2.Common().StaticCallee() != f || pi >= len(c2.Common().Args) {
								return
							}
							sites++
							a2 := w.Origin(c2.Common().Args[pi])
							for _, r := range *c2.Referrers() {
								if st, isSt := r.(*ssa.Store); isSt && w.Origin(st.Addr) == "&"+a2 {
									okSites++
								}
							}
						})
					}
					if sites > 0 && sites == okSites {
						stored = true
						arg = arg + " (helper " + fname(f) + ", whose result replaces what it was handed at every call site)"
					}
				}
			}
			c.Check(ok && stored, id, "readonly:install@"+fname(f), in.Pos(), "installed under ["+strings.Join(gs, " ∧ ")+"] replacing "+arg,
				"read-only wrapper installed under ["+strings.Join(gs, " ∧ ")+"] (expected exactly Metadata.ReadOnly) wrapping "+arg+fmt.Sprintf(" (replaces the backend in effect: %v)", stored))
		})
	}
	if n == 0 {
		c.Fail(id, "readonly:install", 0, "NewReadMetadata is never called — read-only mode would write")
	}
}

// dumpAll: every ranged position is dumped — the map update is unconditional inside the Range callback.
func dumpAll(c *Ctx, id string, sv *ssa.Function, sd *saveDump) {
	if gs := guardsOf(sd.update.Block()); len(gs) == 0 {
		c.OK(id, "dump-all@"+fname(sv), sd.update.Pos(), "the dump entry is written unconditionally for every ranged position")
	} else {
		c.Fail(id, "dump-all@"+fname(sv), sd.update.Pos(), "the dump entry is written only under %s — backends that store the whole state (file, custom) would lose the other vBuckets' checkpoints at the next save", c.W.Origin(gs[0].Cond))
	}
}

func c02r7(c *Ctx, id string) {
	w := c.W
	fl := w.Method("metadata", "fileMetadata", "Load")
	c.need(fl != nil, id, "metadata.fileMetadata.Load")
	c.see(fl)
	var rd *ssa.Call
	allInstrs(fl, func(in ssa.Instruction) {
		if call, ok := in.(*ssa.Call); ok && isStaticCall(call.Common(), "os", "", "ReadFile") {
			rd = call
		}
	})
	if rd == nil {
		c.Undecided(id, "file-read", fl.Pos(), "no os.ReadFile in the file backend's Load")
		return
	}
	ers := errResults(rd)
	// (a) the empty-document stores run only under errors.Is(err, os.ErrNotExist)
	nStore := 0
	allInstrs(fl, func(in ssa.Instruction) {
		cc := callOf(in)
		if m, _ := csmapMethod(cc); m != "Store" {
			return
		}
		nStore++
		ok := guardedBy(in.Block(), true, func(v ssa.Value) bool {
			call, isCall := v.(*ssa.Call)
			return isCall && isStaticCall(call.Common(), "errors", "", "Is") && len(ers) > 0 && call.Common().Args[0] == ers[0] && w.Origin(call.Common().Args[1]) == "global(os.ErrNotExist)"
		})
		c.Check(ok, id, "file-absent@"+fname(fl), in.Pos(), "empty documents are produced only when the file does not exist", "empty checkpoint documents are produced for read errors other than os.ErrNotExist: a transient I/O fault at restart looks like 'no checkpoint' (resume from 0 / jump to latest, and the next save overwrites the intact file)")
	})
	if nStore == 0 {
		c.Undecided(id, "file-absent", fl.Pos(), "no empty-document store found")
	}
	// (b) every other read error is returned
	okRet := false
	if len(ers) > 0 {
		for _, sk := range errorSinks(ers[0]) {
			if sk.Kind == "return" {
				okRet = errGuard(sk.In.Block(), false, func(v ssa.Value) bool { return v == ers[0] })
			}
		}
	}
	c.Check(okRet, id, "file-error@"+fname(fl), rd.Pos(), "other read errors are returned", "a read error of the checkpoint file is not returned")
	// Couchbase backend: exist ← true only after a successful read and parse
	cbl := w.Method("couchbase", "cbMetadata", "Load")
	c.need(cbl != nil, id, "couchbase.cbMetadata.Load")
	n := 0
	for _, f := range withAnon(cbl) {
		var get, um *ssa.Call
		allInstrs(f, func(in ssa.Instruction) {
			if call, ok := in.(*ssa.Call); ok {
				if isStaticCall(call.Common(), "/couchbase", "", "GetXattrs") {
					get = call
				}
				if sf := call.Common().StaticCallee(); sf != nil && sf.Pkg != nil && strings.HasSuffix(sf.Pkg.Pkg.Path(), "/sonic") && sf.Name() == "Unmarshal" {
					um = call
				}
			}
		})
		allInstrs(f, func(in ssa.Instruction) {
			// the captured `exist` cell is raised: a plain store of true, or Store(true) on a captured atomic.Bool
			raised := false
			if st, ok := in.(*ssa.Store); ok && w.Origin(st.Val) == "const(true)" && isBool(st.Val.Type()) {
				_, raised = st.Addr.(*ssa.FreeVar)
			}
			if call, ok := in.(*ssa.Call); ok && calleeName(call.Common()) == "(*sync/atomic.Bool).Store" && len(call.Common().Args) == 2 && w.Origin(call.Common().Args[1]) == "const(true)" {
				_, raised = call.Common().Args[0].(*ssa.FreeVar)
			}
			if !raised {
				return
			}
			n++
			c.see(f)
			okGet := get != nil && len(errResults(get)) > 0 && errGuardOrigin(w, in.Block(), true, w.Origin(errResults(get)[0]))
			okUm := um != nil && errGuard(in.Block(), true, func(v ssa.Value) bool { return v == ssa.Value(um) })
			c.Check(okGet && okUm, id, "cb-exist@"+fname(f), in.Pos(), "exist ← true only after the xattr was read and parsed", fmt.Sprintf("exist is raised without both a successful read (%v) and a successful parse (%v): a document without a valid checkpoint counts as 'a checkpoint exists' and auto-reset=latest is skipped", okGet, okUm))
		})
	}
	if n == 0 {
		c.Undecided(id, "cb-exist", cbl.Pos(), "no store exist ← true found in the Couchbase backend's Load")
	}
}

// errGuardOrigin: block b runs only when the error value with the given origin is known nil/non-nil
// (the value may be re-loaded from a cell, so it is compared by origin term).
func errGuardOrigin(w *World, b *ssa.BasicBlock, wantNil bool, origin string) bool {
	return errGuard(b, wantNil, func(v ssa.Value) bool { return w.Origin(v) == origin })
}
