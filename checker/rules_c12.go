package main

import (
	"fmt"
	"go/types"
	"strings"

	"golang.org/x/tools/go/ssa"
)

func init() {
	register(&Property{
		ID: "C12",
		Explanation: "Decides how stream ends are classified, counted and turned into the stop token: (R1+R2) the end listener, evaluated exhaustively over closeWithCancel × error-nil × the seven error classes × the counter result × finishedWithClose: a reopen goroutine is started for exactly {socket closed, backfill failed, state changed, too slow, disconnected} ∧ ¬closeWithCancel ∧ err≠nil, every other end decrements the counter exactly once, and the finish token is sent iff the counter hit 0 ∧ ¬finishedWithClose; " +
			"the counter is written only by Swap(len(vbIDs)) in Open and Add(-1) in the end listener; Open resets both finished flags first; (R3) openStream takes offset and observer stored under the same vbID at call time and passes them on; reopenStream returns at the first success and panics after exactly five consecutive failures (all outcomes of ≤ 6 attempts); " +
			"(R4) End forwards to the end listener iff ¬endClosed; (R5) every offset an observer handler builds carries the end bound sampled at open (LatestSeqNo ← observer.latestSeqNo), and the bound itself is decided in C02.R5. " +
			"NOT decided: 'after every event up to it was delivered' (server behaviour); races between a reopen goroutine and a concurrent Close.",
		Assumptions: []string{"errors.Is classifies gocbcore's sentinel errors", "atomic.Int32.Add returns the new value"},
		Rules: []RuleDef{
			{ID: "C12.R1", Text: "end listener: reopen ⇔ ¬closeWithCancel ∧ err≠nil ∧ err is one of the five transient causes; otherwise count down exactly once; token ⇔ result==0 ∧ ¬finishedWithClose", Run: c12r1},
			{ID: "C12.R2", Text: "activeStreams is written only by Swap(len(vbIDs)) in Open and Add(-1) in the end listener; Open resets both finished flags before anything else", Run: c12r2},
			{ID: "C12.R3", Text: "openStream uses offsets[vbID] and observers[vbID] of the same key read at call time; reopenStream returns at the first success, panics after exactly 5 consecutive failures", Run: c12r3},
			{ID: "C12.R4", Text: "End forwards (event, err) to the end listener ⇔ ¬endClosed; CloseEnd sets the flag", Run: c12r4},
			{ID: "C12.R5", Text: "every offset built by an observer handler carries LatestSeqNo ← observer.latestSeqNo (the end bound sampled at open)", Run: c12r5},
			{ID: "C12.R7", Text: "a reopen resumes from the settled position: the tracked offset (sequence number with its own snapshot range) is never changed in place by later markers (same rule as C06.R3)", Run: c06r3},
			{ID: "C12.R8", Text: "the latest settled position a reopen resumes from never moves backwards: Store ⇔ inRange ∧ (¬found ∨ new ≥ cur), whatever the branch ids (same rule as C04.R1)", Run: c04r1},
			{ID: "C12.R9", Text: "ends during a cancelled shutdown are final because Close recorded the cancellation: the session flags: Close records its closeWithCancel argument (before closing streams) in the flag the end listener reads; stops the mitigation ⇔ ¬Disabled and the schedule ⇔ checkpoint≠nil; hands the finish token ⇔ ¬finishedWithEndEvent; open←true ends Open and open←false is stored by Close; Stream.Save is Checkpoint.Save; Open starts the schedule, whose loop saves under Type==auto", Run: sessionFlags},
			{ID: "C12.R10", Text: "streams are opened, and counted, for the assigned vBuckets only: one opener per element of the list VBucketDiscovery.Get returned (same rule as C15.R3)", Run: c15r3},
			{ID: "C12.R11", Text: "a reopened vBucket keeps being streamed: adopting the branch id a reopen returns never resets or lowers the persistence threshold (same rule as C07.R3)", Run: c07r3},
			{ID: "C12.R12", Text: "the position a reopen resumes from is the acknowledged event's own: the function stored into ListenerContext.Ack moves the position to the offset of the event it was created for, exactly once (same rule as C04.R10)", Run: ackMoves},
			{ID: "C12.R13", Text: "a re-open is admitted only while its session lasts: the close ends the session before it closes the streams and empties the position map (same rule as C13.R28)", Run: sessionAdvancedFirst},
			{ID: "C12.R14", Text: "a transient end stays transient after a rebalance: Rebalance closes the streams with Close(false), so the flag the end listener reads is not left raised (same rule as C15.R20)", Run: c11r3},
			{ID: "C12.R16", Text: "below 5.5.0 every stream end of the next session is handled: the serial close asks every assigned vBucket (its loop is left only by its bound test) and lowers its closing flag on every way out, so no later end waits for a token nobody puts (same rule as C18.R8)", Run: serialCloseTokens},
			{ID: "C12.R17", Text: "a re-open answered with a rollback loses nothing above the position reached, so a finite stream stops only after every event up to its bound was delivered: the catch-up filter skips ⇔ need ∧ seq ≤ F and the first event beyond F ends it without being swallowed (same rule as C08.R5)", Run: c08r5},
			{ID: "C12.R18", Text: "every end of a vBucket stream reaches the end listener that counts and re-opens: the functions handed to the observer constructor are method values of the stream (same rule as C16.R25)", Run: observerCallbacksBound},
			{ID: "C12.R15", Text: "every transient end gets its own re-open request: openStream waits for nothing but its request and never reports success without making it (same rule as C11.R26)", Run: openDoesNotWait},
			{ID: "C12.R6", Text: "a reopened vBucket keeps being streamed: the observer that reopen reuses has its delivery/end switches thrown only by Stream.Close (same rule as C03.R6)", Run: switchOwner},
		},
	})
}

var transientCauses = []string{"ErrSocketClosed", "ErrDCPBackfillFailed", "ErrDCPStreamStateChanged", "ErrDCPStreamTooSlow", "ErrDCPStreamDisconnected"}

func endListener(c *Ctx, id string) *ssa.Function {
	w := c.W
	// the function bound to the observer's endListener: the stream method taking a DcpStreamEndContext
	var out *ssa.Function
	var cands []*ssa.Function
	for _, fn := range w.ModFuncs {
		if fn.Parent() != nil || fn.Signature.Recv() == nil || recvTypeName(fn.Signature.Recv().Type()) != "stream" || len(fn.Params) != 2 {
			continue
		}
		if recvTypeName(fn.Params[1].Type()) == "DcpStreamEndContext" {
			cands = append(cands, fn)
		}
	}
	// helpers of the listener take the same context (a logging helper, say): the listener is the one handed
	// out as a function value
	for _, fn := range cands {
		if len(cands) == 1 || len(w.usesAsValue(fn)) > 0 {
			out = fn
		}
	}
	c.need(out != nil, id, "stream method handling DcpStreamEndContext")
	return out
}

func c12r1(c *Ctx, id string) {
	w := c.W
	fn := endListener(c, id)
	recv, ec := fn.Params[0].Name(), fn.Params[1].Name()
	causes := append(append([]string{}, transientCauses...), "ErrDCPStreamClosed", "other")
	reopen := w.Method("stream", "stream", "reopenStream")
	c.need(reopen != nil, id, "stream.reopenStream")
	sfName, sfType := w.serialCloseField()
	sesd := recv + "." + sfName
	endingF := "ending"
	if sfType != nil {
		if ds, ok := sfType.Underlying().(*types.Struct); ok {
			for j := 0; j < ds.NumFields(); j++ {
				if b, ok := ds.Field(j).Type().Underlying().(*types.Basic); ok && b.Kind() == types.Bool {
					endingF = ds.Field(j).Name()
				}
			}
		}
	}
	h := &Harness{Fn: fn,
		Bools:   []string{recv + ".closeWithCancel", ec + ".Err==nil", recv + ".streamFinishedWithCloseCh", sesd + "==nil", sesd + "." + endingF},
		Choices: map[string]int{"cause": len(causes)},
		Groups:  []Group{{Atoms: []string{"result", "#0"}}},
		Quiet:   quietLog,
		Valid: func(st *State) bool {
			if st.B(ec+".Err==nil") && st.C("cause") != len(causes)-1 {
				return false // a nil error has no class
			}
			if st.B(sesd+"==nil") && st.B(sesd+"."+endingF) {
				return false
			}
			return true
		},
		Oracle: func(st *State, name string, args []AV, res *types.Tuple) ([]AV, bool) {
			switch {
			case name == "errors.Is":
				if len(args) != 2 || avString(args[0]) != ec+".Err" {
					return []AV{avOpaque{"errors.Is on something else than the end error"}}, true
				}
				tgt := avString(args[1])
				for i, cs := range causes {
					if tgt == "gocbcore."+cs {
						return []AV{avBool{st.C("cause") == i}}, true
					}
				}
				return []AV{avBool{false}}, true // a sentinel outside the classified set: the error is none of those either
			case strings.HasSuffix(name, "atomic.Int32).Add"):
				return []AV{avInt{atom: "result"}}, true
			}
			return nil, false
		},
	}
	c.oae(id, fname(fn), fn.Pos(), h, func(st *State, out *Outcome) string {
		if out.Panicked {
			return "panics"
		}
		var goes, adds, sends []Effect
		for _, e := range out.Trace {
			switch {
			case strings.HasPrefix(e.Name, "go:"):
				goes = append(goes, e)
			case strings.HasSuffix(e.Name, "atomic.Int32).Add"):
				adds = append(adds, e)
			case strings.HasPrefix(e.Name, "send:"):
				sends = append(sends, e)
			}
		}
		transient := st.C("cause") < len(transientCauses)
		wantReopen := !st.B(recv+".closeWithCancel") && !st.B(ec+".Err==nil") && transient
		if wantReopen {
			if len(goes) != 1 || goes[0].Name != "go:"+fname(reopen) {
				return "a transient end (" + causes[st.C("cause")] + ") does not start exactly one reopen"
			}
			// (receiver, the ended vBucket[, the current session token])
			// the arguments by the type of the input they are for: a context or logger threaded through is neither
			var aVb, aSess AV
			for _, vp := range vparams(reopen) {
				if bt, isB := vp.Type().Underlying().(*types.Basic); isB && bt.Info()&types.IsInteger != 0 {
					if bt.Kind() == types.Uint16 {
						aVb = effectVArg(goes[0], reopen, vp)
					} else {
						aSess = effectVArg(goes[0], reopen, vp)
					}
				}
			}
			if aVb == nil || avString(aVb) != ec+".Event.VbID" && !strings.HasSuffix(avString(aVb), ".VbID") {
				return "reopen started for something else than the ended vBucket: " + goes[0].String()
			}
			if aSess != nil && !strings.HasPrefix(strings.TrimPrefix(avString(aSess), "?int "), recv+".") {
				return "reopen started with a session token that is not the stream's current one: " + goes[0].String()
			}
			if len(adds) != 0 || len(sends) != 0 {
				return "a reopened stream is also counted as ended"
			}
			return ""
		}
		if len(goes) != 0 {
			return "reopen started for a final end (cause " + causes[st.C("cause")] + fmt.Sprintf(", closeWithCancel=%v, err nil=%v)", st.B(recv+".closeWithCancel"), st.B(ec+".Err==nil"))
		}
		if len(adds) != 1 || len(adds[0].Args) != 2 || avString(adds[0].Args[1]) != "-1" || !strings.HasSuffix(avString(adds[0].Args[0]), ".activeStreams") {
			return fmt.Sprintf("a final end must decrement activeStreams exactly once by 1 (observed %d decrements)", len(adds))
		}
		wantTok := st.Eq("result", "#0") && !st.B(recv+".streamFinishedWithCloseCh")
		if wantTok != (len(sends) == 1) || len(sends) > 1 {
			return fmt.Sprintf("finish token sent %d times; expected %v (result==0: %v, finishedWithClose: %v)", len(sends), wantTok, st.Eq("result", "#0"), st.B(recv+".streamFinishedWithCloseCh"))
		}
		if len(sends) == 1 && !strings.Contains(sends[0].Name, "finishStreamWithEndEventCh") {
			return "token sent on the wrong channel: " + sends[0].Name
		}
		return ""
	}, "reopen ⇔ ¬closeWithCancel ∧ err≠nil ∧ cause ∈ {5 transient}; else Add(-1) once; token ⇔ result==0 ∧ ¬finishedWithClose")
}

func c12r2(c *Ctx, id string) {
	c12r2counter(c, id)
	c12r2flags(c, id)
}

// c12r2counter: who may write the active-stream counter.
func c12r2counter(c *Ctx, id string) {
	w := c.W
	f := w.Field("stream", "stream", "activeStreams")
	c.need(f != nil, id, "stream.activeStreams")
	el := endListener(c, id)
	n := 0
	for _, fn := range w.ModFuncs {
		allInstrs(fn, func(in ssa.Instruction) {
			cc := callOf(in)
			if cc == nil || cc.IsInvoke() || cc.StaticCallee() == nil || len(cc.Args) == 0 || fieldOfAddr(cc.Args[0]) != f {
				return
			}
			m := cc.StaticCallee().Name()
			if m == "Load" {
				return
			}
			n++
			c.see(fn)
			construct := "counter:" + m + "@" + fname(fn)
			switch {
			case m == "Swap" && fn.Name() == "Open" && strings.HasPrefix(w.Origin(cc.Args[1]), "len(call(recv.vBucketDiscovery.Get)()"):
				// before any stream is opened: an end arriving while the streams are being opened must not be overwritten
				before := true
				allInstrs(fn, func(x ssa.Instruction) {
					if c2 := callOf(x); c2 != nil && c2.StaticCallee() != nil && w.inModule(c2.StaticCallee()) {
						opens := false
						for _, f := range withAnon(c2.StaticCallee()) {
							allInstrs(f, func(y ssa.Instruction) {
								if c3 := callOf(y); c3 != nil && (isInvokeOf(c3, "Client", "OpenStream") || (c3.StaticCallee() != nil && c3.StaticCallee().Name() == "openStream")) {
									opens = true
								}
							})
						}
						if opens && !dominatesInstr(in, x) {
							before = false
						}
					}
				})
				if before {
					c.OK(id, construct, in.Pos(), "Open: Swap(%s) before the streams are opened", w.Origin(cc.Args[1]))
				} else {
					c.Fail(id, construct, in.Pos(), "the active-stream count is set after streams were opened: a final end arriving meanwhile is overwritten and the client never stops")
				}
			case m == "Add" && fn == el && w.Origin(cc.Args[1]) == "const(-1)":
				c.OK(id, construct, in.Pos(), "end listener: Add(-1)")
			default:
				c.Fail(id, construct, in.Pos(), "activeStreams.%s(%s) in %s — the count must only be set to the number of assigned vBuckets at open and decremented by final ends", m, w.Origin(cc.Args[1]), fname(fn))
			}
		})
	}
	if n < 2 {
		c.Undecided(id, "counter", 0, "only %d writers of activeStreams found", n)
	}
}

// c12r2flags: the finished flags' protocol (reset at open, raised by the wait goroutine).
func c12r2flags(c *Ctx, id string) {
	w := c.W
	// Open resets both finished flags before any call
	for _, op := range w.implsOf("stream", "Stream", "Open") {
		c.see(op)
		reset := map[string]bool{}
		for _, in := range op.Blocks[0].Instrs {
			if fld, _, val := flagWrite(in); fld != nil {
				if w.Origin(val) == "const(false)" {
					reset[fld.Name()] = true
				}
				continue
			}
			if callOf(in) != nil {
				break
			}
		}
		ok := reset["streamFinishedWithCloseCh"] && reset["streamFinishedWithEndEventCh"]
		c.Check(ok, id, "reset-flags@"+fname(op), op.Pos(), "both finished flags are reset at the start of Open", fmt.Sprintf("Open does not reset both finished flags first (%v): after a rebalance the finish token of the last final end would be suppressed", reset))
	}
	// the flags are raised only by the wait goroutine after receiving the matching token
	for _, name := range []string{"streamFinishedWithCloseCh", "streamFinishedWithEndEventCh"} {
		fl := w.Field("stream", "stream", name)
		for _, fs := range w.fieldStores(fl) {
			if w.Origin(fs.Store.Val) == "const(true)" {
				c.Check(fs.Fn.Name() == "wait", id, "flag-raise:"+name+"@"+fname(fs.Fn), fs.Store.Pos(), "raised by the wait goroutine", name+" raised in "+fname(fs.Fn))
			}
		}
	}
}

func c12r3(c *Ctx, id string) {
	w := c.W
	os := w.Method("stream", "stream", "openStream")
	ro := w.Method("stream", "stream", "reopenStream")
	c.need(os != nil && ro != nil, id, "stream.openStream / reopenStream")
	c.see(os)
	// the inputs by type: the vBucket id is the uint16 one, the session token (if any) the other integer; a context or a
	// logger threaded through the chain is neither
	paramOf := func(fn *ssa.Function, pick func(types.Type) bool) *vparam { // parameters, or the fields of a parameter bundle
		for _, p := range vparams(fn) {
			p := p
			if pick(p.Type()) {
				return &p
			}
		}
		return nil
	}
	isSession := func(t types.Type) bool {
		bt, ok := t.Underlying().(*types.Basic)
		return ok && bt.Info()&types.IsInteger != 0 && bt.Kind() != types.Uint16
	}
	osVb, roVb, roSess := paramOf(os, isUint16), paramOf(ro, isUint16), paramOf(ro, isSession)
	c.need(osVb != nil && roVb != nil, id, "the vBucket id inputs of openStream / reopenStream")
	vb := osVb.Term()
	n := 0
	allInstrs(os, func(in ssa.Instruction) {
		cc := callOf(in)
		if cc == nil || !isInvokeOf(cc, "Client", "OpenStream") {
			return
		}
		n++
		off := w.Origin(argByName(cc, "offset"))
		obs := w.Origin(argByName(cc, "observer"))
		vbo := w.Origin(argByName(cc, "vbID"))
		wantOff := "call((*wrapper.ConcurrentSwissMap[K, V]).Load)(recv.offsets, " + vb + ")#0"
		wantObs := "call((*wrapper.ConcurrentSwissMap[K, V]).Load)(recv.observers, " + vb + ")#0"
		if off != wantOff {
			// the position may be looked up by a helper that fails when there is none (`offset, err := s.offsetOf(vbID)`)
			if t := w.successValueOf(argByName(cc, "offset")); t != "" {
				off = t
			}
		}
		if obs != wantObs {
			if t := w.successValueOf(argByName(cc, "observer")); t != "" {
				obs = t
			}
		}
		ok := off == wantOff && obs == wantObs && vbo == vb
		c.Check(ok, id, "open-args@"+fname(os), in.Pos(), "OpenStream(vbID, offsets[vbID], observers[vbID]) read at call time", "openStream passes vbID="+vbo+" offset="+off+" observer="+obs+" — expected the current position and observer of the same vBucket")
		// result returned
		ret := false
		if call, ok := in.(*ssa.Call); ok {
			for _, sk := range errorSinks(call) {
				if sk.Kind == "return" {
					ret = true
				}
			}
		}
		c.Check(ret, id, "open-result@"+fname(os), in.Pos(), "the client's error is returned", "the result of Client.OpenStream is dropped")
	})
	if n != 1 {
		c.Undecided(id, "open-args", os.Pos(), "%d Client.OpenStream calls in openStream", n)
	}
	// reopen loop
	calls := map[*State]int{}
	// a session token: when reopenStream is handed the session it was started in and compares it with the stream's
	// current one, both are atoms of an equality-only group (moved ⇒ the stream was closed meanwhile)
	var groups []Group
	sessionP, sessionF := "", ""
	if roSess != nil {
		{
			// the comparison may sit in the loop itself or in a small accessor the loop hands its session argument to
			scan := []*ssa.Function{ro}
			allInstrs(ro, func(in ssa.Instruction) {
				if cc := callOf(in); cc != nil && cc.StaticCallee() != nil && cc.StaticCallee() != os && cc.StaticCallee().Blocks != nil && w.inModule(cc.StaticCallee()) {
					for _, a := range cc.Args {
						if w.Origin(a) == roSess.Term() {
							scan = append(scan, cc.StaticCallee())
						}
					}
				}
			})
			// … or one accessor further down (sessionEnded(x) { return currentSession() != x })
			for _, g := range append([]*ssa.Function{}, scan[1:]...) {
				for f := range w.syncCallees(g, 2, false) {
					if f != os && w.inModule(f) && f.Blocks != nil && pkgPathOf(f) == pkgPathOf(ro) {
						scan = append(scan, f)
					}
				}
			}
			for _, g := range scan {
				allInstrs(g, func(in ssa.Instruction) {
					if cc := callOf(in); cc != nil && strings.Contains(calleeName(cc), "sync/atomic.") && strings.HasSuffix(calleeName(cc), ".Load") && len(cc.Args) == 1 {
						if f := fieldOfAddr(cc.Args[0]); f != nil {
							sessionF = ro.Params[0].Name() + "." + f.Name()
						}
					}
				})
			}
			if sessionF != "" {
				sessionP = roSess.Name()
				groups = []Group{{Atoms: []string{sessionF, sessionP}, EqOnly: true}}
			}
		}
	}
	h := &Harness{Fn: ro, Choices: map[string]int{"fails": 7}, Groups: groups, Quiet: quietLog, MaxSteps: 4000,
		NoInline: map[string]bool{fname(os): true},
		Oracle: func(st *State, name string, args []AV, res *types.Tuple) ([]AV, bool) {
			if name == fname(os) {
				calls[st]++
				if calls[st] <= st.C("fails") {
					return []AV{avIface{sym: "openErr"}}, true
				}
				return []AV{avIface{isNil: true}}, true
			}
			return nil, false
		}}
	c.oae(id, fname(ro), ro.Pos(), h, func(st *State, out *Outcome) string {
		nOpen, nSleep := 0, 0
		for _, e := range out.Trace {
			if e.Name == fname(os) {
				nOpen++
				a := effectVArg(e, os, *osVb)
				if a == nil || avString(a) != roVb.Name() && !strings.Contains(avString(a), roVb.Name()) {
					return "reopens another vBucket: " + e.String()
				}
			}
			if e.Name == "time.Sleep" {
				nSleep++
			}
		}
		if sessionP != "" && !st.Eq(sessionF, sessionP) {
			// the stream was closed since this re-open was started: nothing is attempted, nothing is fatal
			if out.Panicked || nOpen != 0 {
				return fmt.Sprintf("the stream was closed meanwhile, yet %d attempts are made (panic: %v)", nOpen, out.Panicked)
			}
			return ""
		}
		f := st.C("fails")
		if f < 5 {
			if out.Panicked {
				return fmt.Sprintf("panics although attempt %d succeeds", f+1)
			}
			if nOpen != f+1 {
				return fmt.Sprintf("%d attempts for %d failures followed by a success", nOpen, f)
			}
			return ""
		}
		if !out.Panicked {
			return "returns silently although five consecutive attempts failed — the client keeps running without this vBucket"
		}
		if nOpen != 5 {
			return fmt.Sprintf("gives up after %d attempts instead of 5", nOpen)
		}
		return ""
	}, "return at the first success; panic after exactly 5 consecutive failures; nothing at all once the stream was closed")
}

func c12r4(c *Ctx, id string) {
	w := c.W
	oi := observerInfo(c, id)
	end := oi.handlers["End"]
	c.need(end != nil, id, "observer.End")
	recv := end.Params[0].Name()
	h := &Harness{Fn: end, Bools: []string{recv + "." + oi.fEndClosed}}
	c.oae(id, fname(end), end.Pos(), h, func(st *State, out *Outcome) string {
		var calls []Effect
		for _, e := range out.Trace {
			if e.Name == recv+".endListener" {
				calls = append(calls, e)
			}
		}
		if out.Final(recv+"."+oi.fEndClosed) != nil {
			return "the end handler itself writes the end switch: the observer is reused when the vBucket is reopened, so later ends of that vBucket would be swallowed"
		}
		if st.B(recv + "." + oi.fEndClosed) {
			if len(calls) != 0 {
				return "end forwarded although the end switch is closed"
			}
			return ""
		}
		if len(calls) != 1 {
			return fmt.Sprintf("end forwarded %d times", len(calls))
		}
		a, ok := calls[0].Args[0].(avStruct)
		if !ok || a.c == nil {
			return "end context is not a struct value"
		}
		st0 := a.c.typ.Underlying().(*types.Struct)
		for i := 0; i < st0.NumFields(); i++ {
			fc := a.c.fields[i]
			want := map[string]string{"Err": end.Params[2].Name(), "Event": end.Params[1].Name()}[st0.Field(i).Name()]
			if fc == nil || want == "" {
				continue
			}
			got := avString(fc.val)
			if st0.Field(i).Name() == "Event" {
				if sv, ok := m_loadStruct(fc); ok {
					got = sv
				}
			}
			if got != want {
				return "end context field " + st0.Field(i).Name() + " ← " + got + ", expected " + want
			}
		}
		return ""
	}, "endListener({Event: event, Err: err}) exactly once ⇔ ¬endClosed")
	ce := w.Method("couchbase", oi.typ.Obj().Name(), "CloseEnd")
	c.need(ce != nil, id, "observer.CloseEnd")
	f := w.Field("couchbase", oi.typ.Obj().Name(), oi.fEndClosed)
	ok := false
	allInstrs(ce, func(in ssa.Instruction) {
		if fl, _, val := flagWrite(in); fl != nil && fl == f && w.Origin(val) == "const(true)" {
			ok = true
		}
	})
	c.Check(ok, id, "close-end", ce.Pos(), "CloseEnd sets endClosed", "CloseEnd does not set endClosed")
	for _, fs := range w.fieldStores(f) {
		if _, isAlloc := fs.Store.Addr.(*ssa.FieldAddr).X.(*ssa.Alloc); isAlloc {
			continue
		}
		c.Check(fs.Fn == ce, id, "end-switch-writer@"+fname(fs.Fn), fs.Store.Pos(), "written only by CloseEnd", "the end switch is written in "+fname(fs.Fn))
	}
}

// m_loadStruct renders a struct cell that was copied from a symbolic struct parameter.
func m_loadStruct(fc *cell) (string, bool) {
	if fc.sym != "" {
		return fc.sym, true
	}
	// copied struct: all materialised fields must stem from one symbolic parent
	parent := ""
	for _, f := range fc.fields {
		if f == nil || !f.have {
			continue
		}
		s := avString(f.val)
		i := strings.LastIndex(s, ".")
		if i < 0 {
			return "", false
		}
		p := strings.TrimPrefix(s[:i], "?int ")
		if parent != "" && p != parent {
			return "", false
		}
		parent = p
	}
	return parent, parent != ""
}

func c12r5(c *Ctx, id string) {
	w := c.W
	oi := observerInfo(c, id)
	// the bound itself: finite mode ⇒ the sampled high seqNo for every value (also 0), else 2^64-1 (same rule as C02.R5)
	c02r5(c, id)
	off := w.NamedType("models", "Offset")
	n := 0
	for _, name := range sortedKeys(oi.handlers) {
		h := oi.handlers[name]
		for _, l := range w.litsIn(h, off) {
			n++
			c.see(h)
			got := l.Table["LatestSeqNo"]
			c.Check(got == "recv.latestSeqNo", id, "end-bound@"+fname(h), l.Pos, "LatestSeqNo ← "+got, "LatestSeqNo ← "+got+": the position writer would store this over the end bound sampled at open, and a reopen would request the wrong end")
		}
	}
	if n < 10 {
		c.Undecided(id, "floor", 0, "only %d offset literals in the handlers", n)
	}
	// … and so does every offset any other method of the observer builds (a helper the handlers share)
	isHandler := map[*ssa.Function]bool{}
	for _, h := range oi.handlers {
		isHandler[h] = true
	}
	for _, fn := range w.ModFuncs {
		root := rootFn(fn)
		if isHandler[root] || root.Signature.Recv() == nil || recvTypeName(root.Signature.Recv().Type()) != oi.typ.Obj().Name() || pkgPathOf(root) != oi.typ.Obj().Pkg().Path() || fn != root {
			continue
		}
		for _, l := range w.litsIn(fn, off) {
			c.see(fn)
			got := l.Table["LatestSeqNo"]
			c.Check(got == "recv.latestSeqNo", id, "end-bound@"+fname(fn), l.Pos, "LatestSeqNo ← "+got, "LatestSeqNo ← "+got+": the position writer would store this over the end bound sampled at open, and a reopen would request the wrong end")
		}
	}
	// the field has no writer but the constructor
	f := w.Field("couchbase", oi.typ.Obj().Name(), "latestSeqNo")
	for _, fs := range w.fieldStores(f) {
		if _, isAlloc := fs.Store.Addr.(*ssa.FieldAddr).X.(*ssa.Alloc); !isAlloc {
			c.Fail(id, "end-bound-writer@"+fname(fs.Fn), fs.Store.Pos(), "observer.latestSeqNo is modified after construction")
		}
	}
}
