package main

import (
	"fmt"
	"go/token"
	"go/types"
	"sort"
	"strings"
	"unicode"

	"golang.org/x/tools/go/ssa"
)

func init() {
	register(&Property{
		ID: "C16",
		Explanation: "Decides that the exposed numbers are wired to what they claim: (R1) each MustNewConstMetric in Collect pairs its descriptor field with the origin the property names (tracked seqNo / snapshot start / end, persist seqNo, per-kind counters, active streams, rebalance count, discovery values), labelled with the ranged vBucket id; VBucketDiscovery.Get fills its metric struct from the same GetInfo() value and the first/last element of the selected chunk; " +
			"(R2) the unsigned lag subtraction hi−lo is dominated by hi>lo on the same operands, is 0 otherwise, and total lag is the running sum emitted after the loop; (R3) counters by kind: each document handler increments exactly its own counter once per accepted event (exhaustive, C03.R2) and each Add* adds 1 to its own field; " +
			"(R4) closed-stream scrape: every send and every use of the observers map in Collect is dominated by GetObservers()≠nil, and the offsets endpoint tests IsOpen first; (R5) the active-stream count is decremented only by final ends (C12.R1/R2). " +
			"NOT decided: atomicity of a scrape against concurrent updates; prometheus' own behaviour.",
		Assumptions: []string{"prometheus.MustNewConstMetric(desc, type, value, labels...) exposes value under desc"},
		Rules: []RuleDef{
			{ID: "C16.R1", Text: "gauge table: descriptor field ↔ value origin ↔ label; discovery metric struct filled from one GetInfo() value and the selected chunk's first/last element", Run: c16r1},
			{ID: "C16.R2", Text: "lag = hi>lo ? hi−lo : 0 with the subtraction dominated by the comparison on the same operands; totalLag accumulates every lag and is emitted after the loop", Run: c16r2},
			{ID: "C16.R3", Text: "counters by kind: handler→its own Add* exactly once per accepted event; Add* increments its own field by 1", Run: c16r3},
			{ID: "C16.R4", Text: "closed-stream scrape: sends and observers uses in Collect are dominated by GetObservers()≠nil; /states/offset tests IsOpen first", Run: c16r4},
			{ID: "C16.R6", Text: "the snapshot gauges are those of the tracked position: a tracked offset's snapshot range is never changed in place by a later marker (same rule as C06.R3)", Run: c06r3},
			{ID: "C16.R7", Text: "the position gauges move with the work done: acknowledgements and absorbed events move the tracked position (same rule as C04.R10)", Run: func(c *Ctx, id string) { ackMoves(c, id); absorbMoves(c, id) }},
			{ID: "C16.R8", Text: "every vBucket is reported: every loop over a concurrent map runs to completion: the Range callback returns true on every path (frozen exception: markAbsentInstances stops at the error it returns)", Run: rangeComplete("metric.")},
			{ID: "C16.R9", Text: "the active-stream count is not lowered by ends of a previous session: End forwards ⇔ ¬endClosed (same rule as C12.R4)", Run: c12r4},
			{ID: "C16.R10", Text: "counters count this session's events of this stream: NewObserver gives every observer a fresh metrics object (no package-level registry) and wires its parameters unchanged", Run: constructorWiring(wireObserver)},
			{ID: "C16.R11", Text: "scraping neither blocks: the stream getters behind the collector and the state endpoints only read fields — no lock, channel operation, wait or sleep", Run: gettersDoNotBlock},
			{ID: "C16.R12", Text: "the state endpoints' IsOpen test tells the truth: the session flags: Close records its closeWithCancel argument (before closing streams) in the flag the end listener reads; stops the mitigation ⇔ ¬Disabled and the schedule ⇔ checkpoint≠nil; hands the finish token ⇔ ¬finishedWithEndEvent; open←true ends Open and open←false is stored by Close; Stream.Save is Checkpoint.Save; Open starts the schedule, whose loop saves under Type==auto", Run: sessionFlags},
			{ID: "C16.R13", Text: "lag is computed against the vBucket's true high sequence number (same rule as C15.R16)", Run: seqnoMerge},
			{ID: "C16.R14", Text: "each value appears under its own name: the constructor gives the descriptor field X the metric whose name spells X (words of the BuildFQName constants, generic suffixes current/total/ms aside; no name given twice) — the other half of the field ↔ value table of C16.R1", Run: descriptorNames},
			{ID: "C16.R15", Text: "the counters of a vBucket survive a reopen: the reopened stream keeps the session's observer, whose switches only Stream.Close throws (same rule as C12.R6)", Run: switchOwner},
			{ID: "C16.R16", Text: "member number, group size and range stay the values in effect until the streams are gone: the discovery's metric record is assigned only by the constructor (Get updates its fields from the membership in effect; Close does not reset it)", Run: func(c *Ctx, id string) {
				fieldWriters("stream", "vBucketDiscovery", c.W.discoveryMetricField(), "a scrape during shutdown would report member 0 of 0 while the streams are still open", "stream.NewVBucketDiscovery")(c, id)
			}},
			{ID: "C16.R17", Text: "the state endpoints answer from the live state: the offset/followers/status/rebalance handlers store nothing into the API object or package-level variables", Run: apiHandlersStateless},
			{ID: "C16.R18", Text: "member number and group size are those of the announcement in effect: bus-fed memberships record the announced object and never update a kept one in place (same rule as C10.R17)", Run: firstInfoHandOver},
			{ID: "C16.R19", Text: "a state query reaches the endpoint that answers from the live state: routes and middlewares as registered (same rule as C10.R31)", Run: apiRoutesExact},
			{ID: "C16.R20", Text: "what an endpoint or a scrape reports is read now, not remembered process-wide (same rule as C18.R9)", Run: globalsFrozen},
			{ID: "C16.R21", Text: "a scrape asks the cluster itself and is not queued behind another: no coalescing or serialising layer in front of the client or the collector that is not a proven pass-through (same rules as C20.R19 and C20.R20)", Run: func(c *Ctx, id string) { decoratorsTransparent()(c, id); noNewLayers(c, id) }},
			{ID: "C16.R22", Text: "the active-stream gauge counts the streams that are open: one opener per assigned vBucket (same rule as C15.R3)", Run: c15r3},
			{ID: "C16.R24", Text: "a scrape observes and does not interfere: the stream getters behind the collector and the state endpoints change no state (same rule as C01.R19)", Run: streamGettersArePure},
			{ID: "C16.R25", Text: "the active-stream gauge follows every end: the end listener handed to every observer is the stream own end listener, a method value — not a once-only or filtering closure (the observer is reused across a re-open)", Run: observerCallbacksBound},
			{ID: "C16.R23", Text: "the active-stream gauge follows every re-open: the re-open loop makes its request or gives up loudly, it never skips silently (same rule as C12.R3)", Run: c12r3},
			{ID: "C16.R5", Text: "active-stream count: set at open, decremented once per final end only (same rules as C12.R1, C12.R2)", Run: func(c *Ctx, id string) { c12r1(c, id); c12r2counter(c, id) }},
		},
	})
}

func collectFns(c *Ctx, id string) []*ssa.Function {
	fn := c.W.Method("metric", "metricCollector", "Collect")
	c.need(fn != nil, id, "metric.metricCollector.Collect")
	// Collect first (rules take fns[0] as the root), then the methods of the collector it calls synchronously
	out := withAnon(fn)
	var helpers []*ssa.Function
	for g := range c.W.syncCallees(fn, 2, false) {
		if g != fn && g.Pkg == fn.Pkg && g.Signature.Recv() != nil && recvTypeName(g.Signature.Recv().Type()) == "metricCollector" {
			helpers = append(helpers, g)
		}
	}
	sort.Slice(helpers, func(i, j int) bool { return fname(helpers[i]) < fname(helpers[j]) })
	for _, g := range helpers {
		out = append(out, withAnon(g)...)
	}
	return out
}

func upperFirst(s string) string {
	r := []rune(s)
	r[0] = unicode.ToUpper(r[0])
	return string(r)
}

func c16r1(c *Ctx, id string) {
	w := c.W
	want := map[string]string{
		"currentSeqNo":       "param(offset).SeqNo",
		"startSeqNo":         "param(offset).SnapshotMarker.StartSeqNo",
		"endSeqNo":           "param(offset).SnapshotMarker.EndSeqNo",
		"persistSeqNo":       "call(param(observer).GetPersistSeqNo)()",
		"mutation":           "call(param(observer).GetMetrics)().TotalMutations",
		"deletion":           "call(param(observer).GetMetrics)().TotalDeletions",
		"expiration":         "call(param(observer).GetMetrics)().TotalExpirations",
		"activeStream":       "call(recv.stream.GetMetric)()#1",
		"rebalance":          "call(recv.stream.GetMetric)()#0.Rebalance",
		"processLatency":     "call(recv.stream.GetMetric)()#0.ProcessLatency",
		"dcpLatency":         "call(recv.stream.GetMetric)()#0.DcpLatency",
		"offsetWrite":        "call(recv.stream.GetCheckpointMetric)().OffsetWrite",
		"offsetWriteLatency": "call(recv.stream.GetCheckpointMetric)().OffsetWriteLatency",
	}
	for _, d := range []string{"totalMembers", "memberNumber", "vBucketCount", "vBucketRangeStart", "vBucketRangeEnd"} {
		want[d] = "call(recv.vBucketDiscovery.GetMetric)()." + upperFirst(d)
	}
	perVb := map[string]bool{"currentSeqNo": true, "startSeqNo": true, "endSeqNo": true, "persistSeqNo": true, "mutation": true, "deletion": true, "expiration": true, "lag": true}
	seen := map[string]bool{}
	for _, fn := range collectFns(c, id) {
		c.see(fn)
		allInstrs(fn, func(in ssa.Instruction) {
			cc := callOf(in)
			if cc == nil || cc.StaticCallee() == nil {
				return
			}
			descArg, valArg := ssa.Value(nil), ssa.Value(nil)
			if cc.StaticCallee().Name() == "MustNewConstMetric" {
				descArg, valArg = cc.Args[0], cc.Args[2]
			} else if di, vi, ok := gaugeHelper(w, cc.StaticCallee()); ok && di < len(cc.Args) && vi < len(cc.Args) {
				// `sendGauge(ch, desc, v)`: a helper of the module that emits its value parameter under its descriptor
				// parameter, without labels
				descArg, valArg = cc.Args[di], cc.Args[vi]
			} else {
				return
			}
			c.CallSites++
			f := loadedField(descArg)
			if f == nil {
				if _, isParam := unwrap(descArg).(*ssa.Parameter); isParam {
					return // the emission inside the helper itself: judged at the helper's call sites
				}
				c.Undecided(id, "metric@"+w.pos(in.Pos()), in.Pos(), "descriptor is not a collector field: %s", w.Origin(descArg))
				return
			}
			name := f.Name()
			seen[name] = true
			got := w.Origin(valArg)
			if wv, ok := want[name]; ok {
				c.Check(got == wv, id, "gauge:"+name, in.Pos(), name+" ← "+got, name+" ← "+got+", expected "+wv)
			}
			if perVb[name] && cc.StaticCallee().Name() == "MustNewConstMetric" {
				labels := variadicArgs(cc.Args[3])
				okL := len(labels) == 1 && w.Origin(labels[0]) == "call(strconv.Itoa)(param(vbID))"
				c.Check(okL, id, "label:"+name, in.Pos(), "labelled with the ranged vbID", name+" is labelled with "+fmt.Sprint(len(labels))+" label(s), expected the ranged vbID")
			}
		})
	}
	for _, n := range sortedKeys(want) {
		if !seen[n] {
			c.Fail(id, "gauge:"+n, 0, "metric %s is no longer emitted", n)
		}
	}
	// the ranged maps are the stream's
	for _, fn := range collectFns(c, id) {
		allInstrs(fn, func(in ssa.Instruction) {
			cc := callOf(in)
			if m, recv := csmapMethod(cc); m == "Range" && cc != nil {
				o := w.Origin(recv)
				ok := o == "call(recv.stream.GetObservers)()" || o == "call(recv.stream.GetOffsets)()#0"
				c.Check(ok, id, "range-source:"+o, in.Pos(), "ranges over "+o, "Collect ranges over "+o)
			}
		})
	}
	// discovery metric struct
	for _, get := range w.implsOf("stream", "VBucketDiscovery", "Get") {
		c.see(get)
		info := "call(recv.membership.GetInfo)()"
		n := 0
		// the slice Get returns (whatever computes it: that is C09's business)
		var ret ssa.Value
		allInstrs(get, func(in ssa.Instruction) {
			if r, ok := in.(*ssa.Return); ok && len(r.Results) == 1 {
				ret = r.Results[0]
			}
		})
		elemOf := func(v ssa.Value) (idx ssa.Value, ok bool) { // v = ret[idx]
			ld, isLd := unwrap(v).(*ssa.UnOp)
			if !isLd {
				return nil, false
			}
			ia, isIA := ld.X.(*ssa.IndexAddr)
			if !isIA || ia.X != ret {
				return nil, false
			}
			return ia.Index, true
		}
		allInstrs(get, func(in ssa.Instruction) {
			st, ok := in.(*ssa.Store)
			if !ok || !strings.HasPrefix(w.Origin(st.Addr), "&recv."+w.discoveryMetricField()+".") {
				return
			}
			n++
			field := strings.TrimPrefix(w.Origin(st.Addr), "&recv."+w.discoveryMetricField()+".")
			got := w.Origin(st.Val)
			okv := false
			switch field {
			case "TotalMembers", "MemberNumber":
				okv = got == info+"."+field
			case "VBucketRangeStart":
				if idx, ok := elemOf(st.Val); ok {
					okv = w.Origin(idx) == "const(0)"
				}
			case "VBucketRangeEnd":
				if idx, ok := elemOf(st.Val); ok {
					if b, isB := idx.(*ssa.BinOp); isB && b.Op == token.SUB && w.Origin(b.Y) == "const(1)" {
						if call, isC := b.X.(*ssa.Call); isC {
							if bi, isBi := call.Common().Value.(*ssa.Builtin); isBi && bi.Name() == "len" && call.Common().Args[0] == ret {
								okv = true
							}
						}
					}
				}
			}
			c.Check(okv, id, "discovery:"+field, in.Pos(), field+" ← value in effect", "discovery metric "+field+" ← "+got)
		})
		if n != 4 {
			c.Undecided(id, "discovery", get.Pos(), "%d discovery metric fields written in Get (expected 4)", n)
		}
	}
	noRetainedPositionMap(c, id)
	// the discovery metric accessor only hands out the struct Get filled (values in effect, not pending ones)
	for _, gm := range w.implsOf("stream", "VBucketDiscovery", "GetMetric") {
		c.see(gm)
		pure := true
		allInstrs(gm, func(in ssa.Instruction) {
			if callOf(in) != nil {
				pure = false
			}
			if _, isSt := in.(*ssa.Store); isSt {
				pure = false
			}
		})
		c.Check(pure, id, "discovery-accessor@"+fname(gm), gm.Pos(), "GetMetric is a plain accessor", "GetMetric recomputes or refreshes values on every scrape: a scrape during a pending membership change reports numbers that are not in effect")
	}
	// the stream's metric struct lives as long as the stream; the rebalance count is only ever incremented by the reopen
	mf := w.Field("stream", "stream", "metric")
	if mf == nil {
		c.Undecided(id, "stream-metric", 0, "stream.metric not found")
	} else {
		for _, fs := range w.fieldStores(mf) {
			_, isLit := fs.Store.Addr.(*ssa.FieldAddr).X.(*ssa.Alloc)
			c.Check(isLit, id, "stream-metric-writer@"+fname(fs.Fn), fs.Store.Pos(), "assigned once, in the constructor", "the stream's metric struct is replaced in "+fname(fs.Fn)+": the process-lifetime rebalance count is reset")
		}
	}
	if rf := w.Field("stream", "Metric", "Rebalance"); rf != nil {
		n := 0
		for _, fs := range w.fieldStores(rf) {
			n++
			o := w.Origin(fs.Store.Val)
			c.Check(o == "(recv.metric.Rebalance + const(1))", id, "rebalance-count@"+fname(fs.Fn), fs.Store.Pos(), "Rebalance ← Rebalance + 1", "rebalance count ← "+o)
			// counted where the rebalance takes effect (the reopen armed by the timer), once per run of it — not per
			// notification: notifications inside one delay window are merged into a single close/reopen
			sf := streamLifecycle(c, id)
			skipped := false
			st := fs.Store
			allInstrs(fs.Fn, func(in ssa.Instruction) {
				if _, isRet := in.(*ssa.Return); isRet && existsEntryPathAvoiding(fs.Fn, in, func(x ssa.Instruction) bool { return x == ssa.Instruction(st) }) {
					skipped = true
				}
			})
			c.Check(fs.Fn == sf.timerFn && !skipped && !cycleBlocks(fs.Fn)[st.Block()], id, "rebalance-count-site", fs.Store.Pos(), "incremented exactly once by every run of the reopen function the timer fires",
				fmt.Sprintf("rebalance count incremented in %s (on every path: %v); expected once per run of %s, the function that performs the rebalance", fname(fs.Fn), !skipped, fname(sf.timerFn)))
		}
		if n != 1 {
			c.Undecided(id, "rebalance-count", 0, "%d writers of Metric.Rebalance (expected 1)", n)
		}
	}
	c.Floor(id, 20)
}

func c16r2(c *Ctx, id string) {
	w := c.W
	var sub *ssa.BinOp
	var subFn *ssa.Function
	for _, fn := range collectFns(c, id) {
		allInstrs(fn, func(in ssa.Instruction) {
			if b, ok := in.(*ssa.BinOp); ok && b.Op == token.SUB && strings.Contains(w.Origin(b), "SeqNo") {
				sub, subFn = b, fn
			}
		})
	}
	if sub == nil {
		c.Fail(id, "lag-subtraction", 0, "no lag subtraction found in Collect")
		return
	}
	hi, lo := sub.X, sub.Y
	okG := guardedBy(sub.Block(), true, func(v ssa.Value) bool {
		b, ok := v.(*ssa.BinOp)
		if !ok {
			return false
		}
		// go/ssa performs no CSE: the guard reloads the operands, so they are compared by origin term
		// (offsets are immutable, C06.R3; the high seqNo is one map read per vBucket)
		x, y := w.Origin(b.X), w.Origin(b.Y)
		h, l := w.Origin(hi), w.Origin(lo)
		return (b.Op == token.GTR && x == h && y == l) || (b.Op == token.LSS && x == l && y == h) ||
			(b.Op == token.GEQ && x == h && y == l) || (b.Op == token.LEQ && x == l && y == h)
	})
	c.Check(okG, id, "lag-guard", sub.Pos(), "hi − lo computed only under hi > lo on the same operands ("+w.Origin(hi)+" − "+w.Origin(lo)+")", "the unsigned subtraction "+w.Origin(sub)+" is not dominated by a comparison of the same operands: a server high seqNo below the tracked position wraps to ~1.8e19")
	ho, loo := w.Origin(hi), w.Origin(lo)
	okOps := strings.Contains(ho, ".GetVBucketSeqNos)(") && strings.HasSuffix(ho, ", param(vbID))#0") && loo == "param(offset).SeqNo"
	c.Check(okOps, id, "lag-operands", sub.Pos(), "server high seqNo of the ranged vBucket − tracked seqNo", "lag operands: "+ho+" − "+loo)
	// the lag is computed exactly when the high-seqNo query succeeded: the subtraction sits under a nil test of the
	// error that query returned — not of an error some other call has written over it since
	var errOrigins []string
	okErr := false
	for _, g := range guardsOf(sub.Block()) {
		v, pol := stripNot(g.Cond, g.Branch)
		isEq, ok := isNilCompare(v, func(x ssa.Value) bool { return types.Identical(x.Type(), types.Universe.Lookup("error").Type()) })
		if !ok || isEq != pol {
			continue // not a test that establishes err == nil here
		}
		b := v.(*ssa.BinOp)
		e := b.X
		if isNilConst(e) {
			e = b.Y
		}
		o := w.Origin(e)
		errOrigins = append(errOrigins, o)
		// the error result of the very call whose first result is the map the high seqNo is read from
		if strings.HasSuffix(o, "#1") && strings.Contains(w.Origin(hi), strings.TrimSuffix(o, "#1")+"#0") {
			okErr = true
		}
	}
	c.Check(okErr, id, "lag-error", sub.Pos(), "the lag is computed under err == nil of the high-seqNo query's own error", "the lag computation is not guarded by the error of the high-seqNo query itself (nil tests seen: "+strings.Join(errOrigins, ", ")+"): with another call's error in the same variable the map is used when the query failed, or the lag is withheld although it is known")
	// lag value emitted = phi(0 | sub)
	var lagCall ssa.Instruction
	allInstrs(subFn, func(in ssa.Instruction) {
		if cc := callOf(in); cc != nil && cc.StaticCallee() != nil && cc.StaticCallee().Name() == "MustNewConstMetric" {
			if f := loadedField(cc.Args[0]); f != nil && f.Name() == "lag" {
				lagCall = in
			}
		}
	})
	if lagCall == nil {
		c.Fail(id, "lag-value", sub.Pos(), "the lag gauge is not emitted")
		return
	}
	lagV := unwrap(callOf(lagCall).Args[2])
	okPhi := false
	if phi, ok := lagV.(*ssa.Phi); ok && len(phi.Edges) == 2 {
		zero, s := false, false
		for _, e := range phi.Edges {
			if w.Origin(e) == "const(0)" {
				zero = true
			}
			if unwrap(e) == ssa.Value(sub) {
				s = true
			}
		}
		okPhi = zero && s
	}
	c.Check(okPhi, id, "lag-value", lagCall.Pos(), "lag = hi>lo ? hi−lo : 0", "the emitted lag is "+w.Origin(lagV)+", expected 0 or the guarded difference")
	// total lag: cell := cell + lag, unconditional next to the lag emission; emitted after the Range
	okSum := false
	var cellAddr ssa.Value
	allInstrs(subFn, func(in ssa.Instruction) {
		st, ok := in.(*ssa.Store)
		if !ok {
			return
		}
		b, ok := st.Val.(*ssa.BinOp)
		if !ok || b.Op != token.ADD {
			return
		}
		ld, ok := b.X.(*ssa.UnOp)
		if ok && ld.X == st.Addr && unwrap(b.Y) == lagV && st.Block() == lagCall.Block() {
			okSum = true
			cellAddr = st.Addr
		}
	})
	c.Check(okSum, id, "total-lag-sum", lagCall.Pos(), "totalLag ← totalLag + lag for every vBucket whose lag is emitted", "total lag is not the running sum of the emitted lags")
	if okSum {
		root := rootFn(subFn)
		var tot, rng ssa.Instruction
		allInstrs(root, func(in ssa.Instruction) {
			cc := callOf(in)
			if cc == nil {
				return
			}
			if cc.StaticCallee() != nil && cc.StaticCallee().Name() == "MustNewConstMetric" {
				if f := loadedField(cc.Args[0]); f != nil && f.Name() == "totalLag" {
					tot = in
				}
			}
			if m, _ := csmapMethod(cc); m == "Range" && len(cc.Args) == 2 && closureOf(cc.Args[1]) == subFn {
				rng = in
			}
		})
		okEmit := tot != nil && rng != nil && dominatesInstr(rng, tot)
		if okEmit {
			v := callOf(tot).Args[2]
			ld, isLd := unwrap(v).(*ssa.UnOp)
			var cellRoot ssa.Value
			if fv, ok := cellAddr.(*ssa.FreeVar); ok {
				cellRoot, _ = bindingOf(fv)
			}
			okEmit = isLd && ld.X == cellRoot
		}
		c.Check(okEmit, id, "total-lag-emit", root.Pos(), "the accumulated total is emitted after the loop", "totalLag is not emitted from the accumulated cell after the per-vBucket loop")
	}
}

func c16r3(c *Ctx, id string) {
	w := c.W
	oi := observerInfo(c, id)
	counters := map[string]string{"Mutation": "AddMutation", "Deletion": "AddDeletion", "Expiration": "AddExpiration"}
	for _, n := range docHandlers {
		h := oi.handlers[n]
		hs := handlerHarness(oi, h)
		cnt := counters[n]
		c.oae(id, "count:"+n, h.Pos(), hs, func(st *State, out *Outcome) string {
			nd, nc := 0, 0
			for _, e := range out.Trace {
				if e.Name == fname(oi.deliver) {
					nd++
				}
				if strings.HasPrefix(e.Name, "(*couchbase.ObserverMetric).Add") {
					if !strings.HasSuffix(e.Name, "."+cnt) {
						return "wrong counter incremented: " + e.Name
					}
					nc++
				}
			}
			if nd != nc {
				return fmt.Sprintf("%d deliveries but %d increments of %s", nd, nc, cnt)
			}
			return ""
		}, "one "+cnt+" per delivered event, no other counter")
		fld := map[string]string{"AddMutation": "TotalMutations", "AddDeletion": "TotalDeletions", "AddExpiration": "TotalExpirations"}[cnt]
		add := w.Method("couchbase", "ObserverMetric", cnt)
		if add == nil {
			c.Undecided(id, "inc:"+cnt, 0, "ObserverMetric.%s not found", cnt)
			continue
		}
		c.see(add)
		ok := false
		allInstrs(add, func(in ssa.Instruction) {
			if st, isSt := in.(*ssa.Store); isSt && w.Origin(st.Addr) == "&recv."+fld && w.Origin(st.Val) == "(recv."+fld+" + const(1))" {
				ok = true
			}
		})
		c.Check(ok, id, "inc:"+cnt, add.Pos(), fld+" ← "+fld+" + 1", cnt+" does not add 1 to "+fld)
	}
	// the counters are written by their own Add* methods only: GetMetrics hands out the live object, so a reader that
	// totals "into" what it was given (an endpoint summing the per-vBucket counters) inflates a vBucket's counters
	add := w.Method("couchbase", "ObserverMetric", "AddMutation")
	if add == nil {
		return
	}
	mt := add.Signature.Recv().Type()
	if p, isP := mt.Underlying().(*types.Pointer); isP {
		mt = p.Elem()
	}
	stc, isStruct := mt.Underlying().(*types.Struct)
	if !isStruct {
		c.Undecided(id, "counter-writers", 0, "the counters' type is not a struct")
		return
	}
	var other []string
	n := 0
	own := func(fn *ssa.Function, addr ssa.Value) bool {
		if r := fn.Signature.Recv(); r != nil && recvTypeName(r.Type()) == recvTypeName(mt) && fn.Pkg == add.Pkg {
			return true
		}
		if a := rootAlloc(addr); a != nil && a.Parent() == fn {
			return true
		}
		return ownCounterObject(fn, addr)
	}
	for j := 0; j < stc.NumFields(); j++ {
		for _, fs := range w.fieldStores(stc.Field(j)) {
			n++
			if !own(fs.Fn, fs.Store.Addr) {
				other = append(other, fname(fs.Fn)+": "+w.Origin(fs.Store.Addr)+" ← "+w.Origin(fs.Store.Val)+" @"+w.pos(fs.Store.Pos()))
			}
		}
	}
	for _, fn := range w.ModFuncs {
		allInstrs(fn, func(in ssa.Instruction) {
			if st, isSt := in.(*ssa.Store); isSt && types.Identical(st.Val.Type(), mt) {
				n++
				if _, isAlloc := st.Addr.(*ssa.Alloc); !isAlloc && !own(fn, st.Addr) {
					other = append(other, fname(fn)+": whole counter object overwritten @"+w.pos(st.Pos()))
				}
			}
		})
	}
	sort.Strings(other)
	c.Check(len(other) == 0, id, "counter-writers", add.Pos(), fmt.Sprintf("the %d stores into the counters are those of the type's own methods (or fill a value still local to its maker)", n),
		"an observer's live counters are written outside their own Add* methods: "+strings.Join(other, "; "))
}

func c16r4(c *Ctx, id string) {
	w := c.W
	fns := collectFns(c, id)
	root := fns[0]
	var getObs *ssa.Call
	allInstrs(root, func(in ssa.Instruction) {
		if call, ok := in.(*ssa.Call); ok && isInvokeOf(call.Common(), "Stream", "GetObservers") {
			getObs = call
		}
	})
	if getObs == nil {
		c.Fail(id, "nil-guard", root.Pos(), "Collect does not fetch the observers")
		return
	}
	nonNil := func(b *ssa.BasicBlock) bool {
		return guardedBy(b, false, func(v ssa.Value) bool {
			eq, ok := isNilCompare(v, func(x ssa.Value) bool { return x == ssa.Value(getObs) })
			return ok && eq
		}) || guardedBy(b, true, func(v ssa.Value) bool {
			eq, ok := isNilCompare(v, func(x ssa.Value) bool { return x == ssa.Value(getObs) })
			return ok && !eq
		})
	}
	var bad []string
	n := 0
	allInstrs(root, func(in ssa.Instruction) {
		switch x := in.(type) {
		case *ssa.Send:
			n++
			if !nonNil(in.Block()) {
				bad = append(bad, "send @"+w.pos(in.Pos()))
			}
		case ssa.CallInstruction:
			if in == ssa.Instruction(getObs) {
				return
			}
			n++
			if !nonNil(in.Block()) {
				bad = append(bad, calleeName(x.Common())+" @"+w.pos(in.Pos()))
			}
		}
	})
	c.Check(len(bad) == 0 && n > 10, id, "nil-guard@"+fname(root), getObs.Pos(), fmt.Sprintf("all %d calls/sends of Collect are dominated by GetObservers()≠nil", n), "Collect acts while the stream may be closed (observers nil): "+strings.Join(bad, ", "))
	// the guard means something: the open indicator (observers) becomes non-nil only after every piece of stream state
	// that the collector reads behind the guard has been (re)assigned by the same lifecycle function
	if obsField := w.Field("stream", "stream", "observers"); obsField != nil {
		behind := map[*types.Var]string{}
		for _, f := range fns {
			allInstrs(f, func(in ssa.Instruction) {
				cc := callOf(in)
				// any (possibly narrowed) interface view of the stream
				streamT := w.NamedType("stream", "stream")
				ifc, isIfc := cc0Iface(cc)
				if cc == nil || !cc.IsInvoke() || streamT == nil || !isIfc || ifc.NumMethods() == 0 || !types.Implements(types.NewPointer(streamT), ifc) {
					return
				}
				if !strings.Contains(strings.ToLower(types.TypeString(cc.Value.Type(), nil)), "stream") {
					return
				}
				getter := w.Method("stream", "stream", cc.Method.Name())
				if getter == nil {
					return
				}
				allInstrs(getter, func(gi ssa.Instruction) {
					if fa, ok := gi.(*ssa.FieldAddr); ok {
						if fv := structField(fa.X.Type(), fa.Field); fv != nil && fv != obsField && len(getter.Params) > 0 && fa.X == ssa.Value(getter.Params[0]) {
							behind[fv] = cc.Method.Name()
						}
					}
				})
			})
		}
		nSites := 0
		for _, fs := range w.fieldStores(obsField) {
			if isNilConst(fs.Store.Val) {
				continue
			}
			nSites++
			var late []string
			for fv, getter := range behind {
				var stores []*ssa.Store
				allInstrs(fs.Fn, func(in ssa.Instruction) {
					if st, ok := in.(*ssa.Store); ok && fieldOfAddr(st.Addr) == fv {
						stores = append(stores, st)
					}
				})
				if len(stores) == 0 {
					continue // assigned before this lifecycle function runs (construction)
				}
				ok := false
				for _, st := range stores {
					if dominatesInstr(st, fs.Store) {
						ok = true
					}
				}
				if !ok {
					late = append(late, fv.Name()+" (read through "+getter+")")
				}
			}
			sort.Strings(late)
			c.Check(len(late) == 0, id, "ready-before-visible@"+fname(fs.Fn), fs.Store.Pos(), fmt.Sprintf("observers becomes non-nil only after the %d stream fields the collector reads behind its guard are assigned", len(behind)), "observers is made non-nil (the collector's only closed test passes) before "+strings.Join(late, ", ")+" is assigned: a scrape in between dereferences state of a stream that is not open yet")
		}
		if nSites == 0 || len(behind) == 0 {
			c.Undecided(id, "ready-before-visible", root.Pos(), "no non-nil assignment of stream.observers / no stream state read by the collector found (%d sites, %d fields)", nSites, len(behind))
		}
	}
	// offsets endpoint
	for _, fn := range w.ModFuncs {
		if fname(fn) != "(*api.api).offset" {
			continue
		}
		c.see(fn)
		allInstrs(fn, func(in ssa.Instruction) {
			if cc := callOf(in); cc != nil && isInvokeOf(cc, "Stream", "GetOffsets") {
				ok := guardedBy(in.Block(), true, func(v ssa.Value) bool {
					call, isCall := v.(*ssa.Call)
					return isCall && isInvokeOf(call.Common(), "Stream", "IsOpen")
				})
				c.Check(ok, id, "offset-endpoint", in.Pos(), "GetOffsets only when IsOpen()", "/states/offset reads the offsets without testing IsOpen()")
			}
		})
	}
}

func cc0Iface(cc *ssa.CallCommon) (*types.Interface, bool) {
	if cc == nil || cc.Value == nil {
		return nil, false
	}
	i, ok := cc.Value.Type().Underlying().(*types.Interface)
	return i, ok
}

// gaugeHelper: g is a module function whose body emits exactly one constant metric — descriptor and value are two of
// its parameters, no labels — (`func sendGauge[T number](ch chan<- prometheus.Metric, desc *prometheus.Desc, v T)`):
// the indices of those parameters.
func gaugeHelper(w *World, g *ssa.Function) (int, int, bool) {
	if g == nil || g.Blocks == nil || !w.inModule(g) {
		return 0, 0, false
	}
	di, vi, n := -1, -1, 0
	allInstrs(g, func(in ssa.Instruction) {
		cc := callOf(in)
		if cc == nil || cc.StaticCallee() == nil || cc.StaticCallee().Name() != "MustNewConstMetric" || len(cc.Args) < 4 {
			return
		}
		n++
		if len(variadicArgs(cc.Args[3])) != 0 {
			n += 10
			return
		}
		for i, p := range g.Params {
			if unwrap(cc.Args[0]) == ssa.Value(p) {
				di = i
			}
			if unwrap(cc.Args[2]) == ssa.Value(p) {
				vi = i
			}
		}
	})
	return di, vi, n == 1 && di >= 0 && vi >= 0
}

// localCell names a variable (or a field path of one) local to a source function and its closures.
func localCell(v ssa.Value, depth int) (*ssa.Alloc, string) {
	if depth > 8 {
		return nil, ""
	}
	switch x := v.(type) {
	case *ssa.Alloc:
		return x, ""
	case *ssa.FreeVar:
		if b, ok := bindingOf(x); ok {
			return localCell(b, depth+1)
		}
	case *ssa.FieldAddr:
		if a, p := localCell(x.X, depth+1); a != nil {
			return a, fmt.Sprintf("%s.%d", p, x.Field)
		}
	}
	return nil, ""
}

// ownCounterObject: the object written at addr is one this function (or its enclosing function) made itself: the
// pointer it is reached through is read from a local variable — also one captured by a closure, or a field of a local
// struct — that is only ever assigned freshly allocated objects.
func ownCounterObject(fn *ssa.Function, addr ssa.Value) bool {
	base := addr
	for {
		if fa, ok := base.(*ssa.FieldAddr); ok {
			base = fa.X
			continue
		}
		break
	}
	if a, _ := localCell(base, 0); a != nil {
		return true // a struct value living in a local variable
	}
	ld, ok := base.(*ssa.UnOp)
	if !ok {
		return false
	}
	cell, path := localCell(ld.X, 0)
	if cell == nil {
		return false
	}
	fresh, seen := true, 0
	var walk func(f *ssa.Function)
	walk = func(f *ssa.Function) {
		allInstrs(f, func(in ssa.Instruction) {
			if st, isSt := in.(*ssa.Store); isSt {
				if a, p := localCell(st.Addr, 0); a == cell && p == path {
					seen++
					if _, isNew := st.Val.(*ssa.Alloc); !isNew && !isNilConst(st.Val) {
						fresh = false
					}
				} else if a == cell && p != path && strings.HasPrefix(path, p) {
					fresh = false // the enclosing struct is overwritten whole
				}
			}
		})
		for _, af := range f.AnonFuncs {
			walk(af)
		}
	}
	walk(rootFn(fn))
	return fresh && seen > 0
}
