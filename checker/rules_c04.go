package main

import (
	"fmt"
	"go/types"
	"sort"
	"strings"

	"golang.org/x/tools/go/ssa"
)

func init() {
	register(&Property{
		ID: "C04",
		Explanation: "Decides guard exactness of the position writer and of the range test, for all integer inputs, by exhaustive evaluation over the finite order abstraction: " +
			"(R1) the writer stores (and immediately reports through TrackOffset) iff the vBucket is in range and (no position is tracked or new ≥ current) — storing an equal position is accepted either way — and does nothing when out of range; " +
			"(R2) VbIDRange.In ⇔ Start ≤ vbID ≤ End, Open derives the range from the first/last assigned vBucket and the writer reads the range field at call time; " +
			"(R3) every map operation of the writer is keyed by its vbID parameter; (R4) there is no other writer (C01.R1). " +
			"Not decided: behaviour under truly concurrent acknowledgements of one and the same vBucket (excluded by the property's quantifier), memory-model visibility of the plain bool flag.",
		Assumptions: []string{
			"concurrent-swiss-map Load/Store are per-key atomic and keep distinct keys independent",
			"comparison-only control (enforced by the evaluator) makes the weak-order case split exhaustive for all uint64 inputs",
		},
		Rules: []RuleDef{
			{ID: "C04.R1", Text: "position writer: Store ⇔ inRange ∧ (¬found ∨ new ≥ cur) [new = cur may go either way]; TrackOffset(vbID, offset) immediately after every Store and never otherwise; no effect when out of range", Run: c04r1},
			{ID: "C04.R2", Text: "VbIDRange.In ⇔ Start ≤ vbID ≤ End; Open sets Start/End from the first/last assigned vBucket; the writer tests the range field read at call time", Run: c04r2},
			{ID: "C04.R3", Text: "every map operation in the position writer uses the parameter vbID as key", Run: c04r3},
			{ID: "C04.R5", Text: "positions are values of their own event: every wrapper's Offset is a fresh literal built from that event and no offset is mutated or reused in place (same rule as C03.R4)", Run: c03r4},
			{ID: "C04.R6", Text: "written by the next save: the dump's seqNo is the tracked offset's seqNo under the tracked key, for every tracked vBucket (same rules as C01.R5, C02.R2 dump-all)", Run: func(c *Ctx, id string) {
				c01r5(c, id)
				for _, sv := range c.W.implsOf("stream", "Checkpoint", "Save") {
					if sd := findSaveDump(c, id, sv); sd != nil {
						dumpAll(c, id, sv, sd)
					}
				}
			}},
			{ID: "C04.R7", Text: "what is exposed is the live position: no reader (API, metrics, checkpoint) retains a reference to the position map in a field of its own", Run: noRetainedPositionMap},
			{ID: "C04.R8", Text: "written by the next save: a position that moved with dirty=true is marked (whatever the mark's previous value) and raises the save flag (same rules as C05.R1, C05.R2)", Run: func(c *Ctx, id string) { c05r1(c, id); c05r2(c, id) }},
			{ID: "C04.R9", Text: "the position map is a map: wrapper.ConcurrentSwissMap forwards Load/Store/StoreIf/Delete/Count to the wrapped concurrent map with its own arguments and untouched results, and Range visits every entry until the callback returns false", Run: wrapperFaithful},
			{ID: "C04.R10", Text: "the tracked position follows what is settled: the function stored into ListenerContext.Ack calls the position writer exactly once on every path with dirty=true (Commit reaches Checkpoint.Save), every non-document listener arm and the reserved-key branch call it exactly once", Run: func(c *Ctx, id string) { ackMoves(c, id); absorbMoves(c, id) }},
			{ID: "C04.R11", Text: "what the tracker is told is what the library tracks: NewStream wires the consumer, client and metadata it was given into the stream unchanged (no decorator between the position writer and Consumer.TrackOffset)", Run: constructorWiring(wireStream)},
			{ID: "C04.R12", Text: "a closed session's positions are forgotten: Stream.Close unconditionally replaces the position map and the dirty marks by fresh maps after the streams were closed — nothing of a vBucket handed to another member can be written by a later save", Run: closeResets},
			{ID: "C04.R13", Text: "the position gauge is the tracked position: the descriptor is paired with the ranged offset's own SeqNo, uncapped (same rule as C16.R1)", Run: c16r1},
			{ID: "C04.R14", Text: "the range the acknowledgement guard tests is exactly what the member owns: the assigned list is the contiguous chunk MemberNumber-1 of TotalMembers chunks (a sparse assignment would make first..last a hull over other members' vBuckets) (same rule as C09.R2)", Run: c09r2},
			{ID: "C04.R15", Text: "a save reaches the store once, when it was asked for: no layer repeats, delays or reorders it (same rules as C20.R19 and C20.R20)", Run: func(c *Ctx, id string) { decoratorsTransparent()(c, id); noNewLayers(c, id) }},
			{ID: "C04.R16", Text: "the next save writes the tracked position of every vBucket settled since the last successful one: dirty marks are cleared only after a successful write and never replaced wholesale (same rule as C05.R4)", Run: c05r4},
			{ID: "C04.R17", Text: "no save while the stream is closed for a rebalance: the position map is the empty one Close installed and the old range is still in force — nothing the rebalance or its re-open callback runs synchronously saves", Run: noSaveWhileClosed},
			{ID: "C04.R4", Text: "the position map has no other writer (same rule as C01.R1)", Run: c01r1},
		},
	})
}

var quietLog = []string{"logger.Log.", "fmt.", "errors.New", "time.Since", "(time.Duration)"}

// writerHarness builds the abstract environment of a position writer.
func writerHarness(w *World, pw *ssa.Function) (*Harness, string, string, error) {
	in := w.writerInputs(pw)
	pVb, pOff, pDirty := in.vb, in.off, in.dirty
	_, isMode := w.writerModeConst(pw)
	if pVb == nil || pOff == nil || (pDirty == nil && !isMode) {
		return nil, "", "", fmt.Errorf("cannot identify (vbID, offset, dirty) parameters of %s", fname(pw))
	}
	off := pOff.Name()
	h := &Harness{
		Fn: pw,
		Groups: []Group{
			{Atoms: []string{off + ".SeqNo", "cur.SeqNo"}, Unsigned: true},
			{Atoms: []string{pVb.Name()}, Unsigned: true},
		},
		Bools:    writerBools(pDirty),
		NoInline: map[string]bool{"(*models.VbIDRange).In": true},
		Quiet:    quietLog,
	}
	offType := w.NamedType("models", "Offset")
	h.Oracle = func(st *State, name string, args []AV, res *types.Tuple) ([]AV, bool) {
		switch {
		case name == "(*models.VbIDRange).In":
			return []AV{avBool{st.B("inRange")}}, true
		case strings.HasSuffix(name, ".Load") && len(args) == 2:
			if st.B("found") {
				return []AV{avPtr{&cell{typ: offType, sym: "cur"}}, avBool{true}}, true
			}
			return []AV{avPtr{nil}, avBool{false}}, true
		}
		return nil, false
	}
	return h, off, pVb.Name(), nil
}

// writerBools: the boolean inputs of the writer's evaluation; a mode of a split writer has no dirty input.
func writerBools(dirty *vparam) []string {
	if dirty == nil {
		return []string{"inRange", "found"}
	}
	return []string{dirty.Name(), "inRange", "found"}
}

// writerDirty: the dirty flag of a writer call in an abstract state — the input, or the constant a mode stands for.
func (w *World) writerDirty(pw *ssa.Function) func(st *State) bool {
	if in := w.writerInputs(pw); in.dirty != nil {
		name := in.dirty.Name()
		return func(st *State) bool { return st.B(name) }
	}
	w.positionWriterFuncs()
	m := w.pwMode[pw]
	return func(st *State) bool { return m }
}

func c04r1(c *Ctx, id string) {
	w := c.W
	pws := w.positionWriterFuncs()
	c.need(len(pws) > 0, id, "position writer")
	for _, pw := range pws {
		h, off, vb, err := writerHarness(w, pw)
		if err != nil {
			c.Undecided(id, fname(pw), pw.Pos(), "%v", err)
			continue
		}
		recvName := pw.Params[0].Name()
		spec := func(st *State, out *Outcome) string {
			if out.Panicked {
				return "writer panics"
			}
			newA, curA := off+".SeqNo", "cur.SeqNo"
			must := st.B("inRange") && (!st.B("found") || st.Lt(curA, newA))
			may := st.B("inRange") && st.B("found") && st.Eq(curA, newA)
			var stores, tracks []int
			for i, e := range out.Trace {
				if strings.HasSuffix(e.Name, ".Store") && w.isOffsetMapLabel(e.Name) {
					stores = append(stores, i)
					if len(e.Args) != 3 || avString(e.Args[1]) != vb || avString(e.Args[2]) != "&"+off {
						return "Store does not write (vbID, offset) of this call: " + e.String()
					}
				}
				if strings.HasSuffix(e.Name, ".TrackOffset") {
					tracks = append(tracks, i)
					if len(e.Args) != 2 || avString(e.Args[0]) != vb || avString(e.Args[1]) != "&"+off {
						return "TrackOffset does not report (vbID, offset) of this call: " + e.String()
					}
				}
			}
			stored := len(stores) > 0
			if len(stores) > 1 {
				return "position stored more than once"
			}
			if !may {
				if must && !stored {
					return "position NOT stored although inRange ∧ (¬found ∨ new > cur)"
				}
				if !must && stored {
					return "position stored although it must not move (out of range, or new < cur)"
				}
			}
			if stored {
				if len(tracks) != 1 || tracks[0] != stores[0]+1 {
					return "TrackOffset does not immediately follow the Store"
				}
			} else if len(tracks) > 0 {
				return "TrackOffset reported without a Store"
			}
			if !st.B("inRange") {
				for _, e := range out.Trace {
					if e.Name == "(*models.VbIDRange).In" || strings.HasSuffix(e.Name, ".Load") {
						continue // pure reads
					}
					return "effect performed for a vBucket outside the assigned range: " + e.String()
				}
				if out.Final(recvName+".anyDirtyOffset") != nil {
					return "save flag touched for a vBucket outside the assigned range"
				}
			}
			return ""
		}
		c.oae(id, fname(pw), pw.Pos(), h, spec, "Store ⇔ inRange ∧ (¬found ∨ new ≥ cur); TrackOffset right after each Store; nothing when ¬inRange")
	}
}

// isOffsetMapLabel: the effect label refers to the offsets field (not the dirty map).
func (w *World) isOffsetMapLabel(name string) bool {
	return strings.Contains(name, "offsets") && !strings.Contains(strings.ToLower(name), "dirty")
}

func c04r2(c *Ctx, id string) {
	w := c.W
	in := w.Method("models", "VbIDRange", "In")
	c.need(in != nil, id, "models.(*VbIDRange).In")
	recv := in.Params[0].Name()
	arg := in.Params[1].Name()
	h := &Harness{Fn: in, Groups: []Group{{Atoms: []string{arg, recv + ".Start", recv + ".End"}, Unsigned: true}}}
	c.oae(id, fname(in), in.Pos(), h, func(st *State, out *Outcome) string {
		if out.Panicked || len(out.Ret) != 1 {
			return "does not return a single value"
		}
		b, ok := out.Ret[0].(avBool)
		if !ok {
			return "result not determined"
		}
		want := st.Le(recv+".Start", arg) && st.Le(arg, recv+".End")
		if b.b != want {
			return fmt.Sprintf("In = %v, expected Start ≤ vbID ≤ End = %v", b.b, want)
		}
		return ""
	}, "In ⇔ Start ≤ vbID ≤ End")

	// Open derives the range from the first and last assigned vBucket
	vr := w.NamedType("models", "VbIDRange")
	c.need(vr != nil, id, "models.VbIDRange")
	n := 0
	for _, fn := range w.ModFuncs {
		for _, a := range allocsOf(fn, vr) {
			tab, ok := allocTable(a)
			if !ok || len(tab) == 0 {
				continue
			}
			n++
			c.see(fn)
			s, e := w.Origin(tab["Start"]), w.Origin(tab["End"])
			// a constructor of the range (`models.NewVbIDRange(vbIDs)`): the literal is judged where its result is used,
			// in terms of what is handed in
			if isCtor := returnsAlloc(fn, a); isCtor && fn.Parent() == nil {
				sites := w.callersOf(fn)
				if len(sites) == 0 {
					c.Undecided(id, "range-literal@"+fname(fn), a.Pos(), "the range constructor has no caller")
					continue
				}
				for _, cs := range sites {
					call, isCall := cs.Call.(*ssa.Call)
					if !isCall {
						continue
					}
					c.see(cs.Fn)
					s2, e2 := s, e
					for i, prm := range fn.Params {
						if i < len(call.Common().Args) {
							ao := w.Origin(call.Common().Args[i])
							s2 = strings.ReplaceAll(s2, "param("+prm.Name()+")", ao)
							e2 = strings.ReplaceAll(e2, "param("+prm.Name()+")", ao)
						}
					}
					x, ok1 := strings.CutSuffix(s2, "[const(0)]")
					okLit := ok1 && e2 == x+"[(len("+x+") - const(1))]" && strings.Contains(x, ".Get)()")
					c.Check(okLit, id, "range-literal@"+fname(cs.Fn), call.Pos(), "Start ← "+s2+", End ← "+e2, "assigned range is not [first, last] of the discovered vBuckets: Start ← "+s2+", End ← "+e2)
					var st *ssa.Store
					for _, r := range *call.Referrers() {
						if x, isSt := r.(*ssa.Store); isSt && x.Val == ssa.Value(call) && fieldOfAddr(x.Addr) != nil {
							st = x
						}
					}
					if st == nil {
						c.Fail(id, "range-install@"+fname(cs.Fn), call.Pos(), "the derived range is not stored into the stream's range field")
						continue
					}
					skipped := false
					allInstrs(cs.Fn, func(in ssa.Instruction) {
						if _, isRet := in.(*ssa.Return); isRet && existsEntryPathAvoiding(cs.Fn, in, func(x ssa.Instruction) bool { return x == ssa.Instruction(st) }) {
							skipped = true
						}
					})
					c.Check(!skipped, id, "range-install@"+fname(cs.Fn), st.Pos(), "every path through the function installs the freshly derived range", "a path through "+fname(cs.Fn)+" returns without installing the freshly derived range (a stale range stays in effect)")
					rangeBeforeStreams(c, id, cs.Fn, st)
				}
				continue
			}
			// Start ← X[0], End ← X[len(X)-1] with X = VBucketDiscovery.Get()
			x, ok1 := strings.CutSuffix(s, "[const(0)]")
			okEnd := e == x+"[(len("+x+") - const(1))]"
			okSrc := strings.Contains(x, ".Get)()")
			if !okSrc && ok1 {
				// a helper of the stream installs the range from the list it is handed (`s.assignRange(vbIDs)`): the
				// list is judged at the helper's call sites — every one of them hands over what the discovery returned
				for _, prm := range fn.Params {
					if x != "param("+prm.Name()+")" {
						continue
					}
					sites := w.callersOf(fn)
					okSrc = len(sites) > 0 && len(w.usesAsValue(fn)) == 0
					for _, cs := range sites {
						if a := argOfParam(cs.Call.Common(), fn, prm); a == nil || !strings.HasSuffix(w.Origin(a), ".Get)()") {
							okSrc = false
						}
					}
				}
			}
			construct := "range-literal@" + fname(fn)
			// the range is re-derived on every open: each return of the function is reached only through the store of
			// this literal into the range field (a range kept from an earlier assignment would make the member ignore
			// acknowledgements of vBuckets it now owns and accept those it no longer owns)
			var st *ssa.Store
			for _, r := range *a.Referrers() {
				if x, isSt := r.(*ssa.Store); isSt && x.Val == ssa.Value(a) && fieldOfAddr(x.Addr) != nil {
					st = x
				}
			}
			if st == nil {
				c.Fail(id, "range-install@"+fname(fn), a.Pos(), "the derived range is not stored into the stream's range field")
			} else {
				skipped := false
				allInstrs(fn, func(in ssa.Instruction) {
					if _, isRet := in.(*ssa.Return); isRet && existsEntryPathAvoiding(fn, in, func(x ssa.Instruction) bool { return x == ssa.Instruction(st) }) {
						skipped = true
					}
				})
				c.Check(!skipped, id, "range-install@"+fname(fn), st.Pos(), "every path through the function installs the freshly derived range", "a path through "+fname(fn)+" returns without installing the freshly derived range (a stale range stays in effect)")
				rangeBeforeStreams(c, id, fn, st)
			}
			if ok1 && okEnd && okSrc {
				c.OK(id, construct, a.Pos(), "Start ← %s, End ← %s", s, e)
			} else {
				c.Fail(id, construct, a.Pos(), "assigned range is not [first, last] of the discovered vBuckets: Start ← %s, End ← %s", s, e)
			}
		}
	}
	if n == 0 {
		c.Undecided(id, "range-literal", 0, "no VbIDRange literal found")
	}
	// the writer tests the field at call time
	rangeReadSeen := map[*ssa.Function]bool{}
	for _, pw0 := range w.positionWriterFuncs() {
		pw := pw0
		if core := w.pwCore[pw0]; core != nil { // a mode of a split writer: the test is in the shared part
			pw = core
		}
		if rangeReadSeen[pw] {
			continue
		}
		rangeReadSeen[pw] = true
		found := false
		allInstrs(pw, func(instr ssa.Instruction) {
			cc := callOf(instr)
			if cc != nil && cc.StaticCallee() == in {
				found = true
				ro := w.Origin(cc.Args[0])
				ao := w.Origin(cc.Args[1])
				okR := strings.HasPrefix(ro, "recv.")
				okA := false
				if in := w.writerInputs(pw); in.vb != nil && ao == in.vb.Term() {
					okA = true
				}
				if okR && okA {
					c.OK(id, "range-read@"+fname(pw), instr.Pos(), "range test In(%s) on %s (field read at call time)", ao, ro)
				} else {
					c.Fail(id, "range-read@"+fname(pw), instr.Pos(), "range test uses receiver %s / argument %s; expected the stream's range field and the vbID parameter", ro, ao)
				}
			}
		})
		if !found {
			c.Fail(id, "range-read@"+fname(pw), pw.Pos(), "position writer performs no range test")
		}
	}
}

func c04r3(c *Ctx, id string) {
	w := c.W
	fns := append([]*ssa.Function{}, w.positionWriterFuncs()...)
	coreSeen := map[*ssa.Function]bool{}
	for _, pw := range w.positionWriterFuncs() {
		if core := w.pwCore[pw]; core != nil && !coreSeen[core] {
			coreSeen[core] = true
			fns = append(fns, core)
		}
	}
	for _, pw := range fns {
		vb := w.writerInputs(pw).vb
		if vb == nil {
			c.Undecided(id, fname(pw), pw.Pos(), "no vbID parameter")
			continue
		}
		for _, f := range withAnon(pw) {
			allInstrs(f, func(in ssa.Instruction) {
				cc := callOf(in)
				m, recv := csmapMethod(cc)
				if m == "" || len(cc.Args) < 2 {
					return
				}
				c.CallSites++
				k := w.Origin(cc.Args[1])
				construct := m + ":" + w.Origin(recv) + "@" + fname(pw)
				if m == "Range" || m == "Count" || m == "ToMap" {
					c.Fail(id, construct, in.Pos(), "position writer performs a whole-map operation %s", m)
					return
				}
				if k == vb.Term() {
					c.OK(id, construct, in.Pos(), "key ← %s", k)
				} else {
					c.Fail(id, construct, in.Pos(), "map operation keyed by %s instead of the vbID parameter", k)
				}
			})
		}
	}
	c.Floor(id, 3)
}

// returnsAlloc: a is what fn returns (on some return).
func returnsAlloc(fn *ssa.Function, a *ssa.Alloc) bool {
	ok := false
	allInstrs(fn, func(in ssa.Instruction) {
		if r, isR := in.(*ssa.Return); isR && in.Parent() == fn && len(r.Results) == 1 && asAlloc(r.Results[0]) == a {
			ok = true
		}
	})
	return ok
}

// rangeBeforeStreams: the new range is in force before the first stream of the new assignment is requested — the
// store of the range dominates every call in the function that (through static calls, closures and goroutines) reaches
// a stream request. Installed only afterwards, the guard still holds the previous assignment while events of the new
// one arrive and acknowledgements of vBuckets handed away are still accepted.
func rangeBeforeStreams(c *Ctx, id string, fn *ssa.Function, st ssa.Instruction) {
	rangeBeforeStreamsAt(c, id, fn, st, 0)
}

func rangeBeforeStreamsAt(c *Ctx, id string, fn *ssa.Function, st ssa.Instruction, lift int) {
	memo := map[*ssa.Function]bool{}
	var opens func(f *ssa.Function, depth int) bool
	opens = func(f *ssa.Function, depth int) bool {
		if f == nil || f.Blocks == nil || depth > 5 {
			return false
		}
		if v, ok := memo[f]; ok {
			return v
		}
		memo[f] = false
		found := false
		allInstrs(f, func(in ssa.Instruction) {
			ci, ok := in.(ssa.CallInstruction)
			if !ok || found {
				return
			}
			cc := ci.Common()
			if cc.IsInvoke() && cc.Method.Name() == "OpenStream" {
				found = true
				return
			}
			if sf := cc.StaticCallee(); sf != nil && c.W.inModule(sf) && opens(sf, depth+1) {
				found = true
			}
			for _, a := range cc.Args {
				if mc, isMC := a.(*ssa.MakeClosure); isMC {
					if cf, isF := mc.Fn.(*ssa.Function); isF && opens(cf, depth+1) {
						found = true
					}
				}
			}
		})
		for _, af := range f.AnonFuncs {
			if !found && opens(af, depth+1) {
				found = true
			}
		}
		memo[f] = found
		return found
	}
	n := 0
	var late []string
	allInstrs(fn, func(in ssa.Instruction) {
		ci, ok := in.(ssa.CallInstruction)
		if !ok {
			return
		}
		sf := ci.Common().StaticCallee()
		if sf == nil || !c.W.inModule(sf) || !opens(sf, 0) {
			return
		}
		n++
		if !dominatesInstr(st, in) {
			late = append(late, calleeName(ci.Common())+" @"+c.W.pos(in.Pos()))
		}
	})
	sort.Strings(late)
	if n == 0 {
		// the range is installed by a helper: judged where the helper is called
		sites := c.W.callersOf(fn)
		if lift >= 2 || len(sites) == 0 {
			c.Undecided(id, "range-before-streams@"+fname(fn), st.Pos(), "no call that opens streams found in the function that installs the range, nor in its callers")
			return
		}
		for _, cs := range sites {
			rangeBeforeStreamsAt(c, id, cs.Fn, cs.Call, lift+1)
		}
		return
	}
	c.Check(len(late) == 0, id, "range-before-streams@"+fname(fn), st.Pos(), fmt.Sprintf("the range is installed before each of the %d calls that request streams", n),
		"streams are requested before the new range is in force (the guard still holds the previous assignment meanwhile): "+strings.Join(late, "; "))
}
