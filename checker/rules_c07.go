package main

import (
	"fmt"
	"go/types"
	"sort"
	"strings"

	"golang.org/x/tools/go/ssa"
)

func init() {
	register(&Property{
		ID: "C07",
		Explanation: "Decides the gate that keeps not-yet-persisted events from the consumer: (R1) every stream-observer handler except End and OSOSnapshot calls canForward(own seqNo, isControl) before any other effect, canForward waits (waitRollbackMitigation) iff mitigation is enabled and never consults the catch-up filter for control events, and the wait loop's only exit is checkPersistSeqNo=true; " +
			"(R2) checkPersistSeqNo ⇔ seq ≤ persistSeqNo ∨ closed; (R3) SetPersistSeqNo leaves max(old,new), ignores 0, and is the only writer of the threshold; " +
			"(R4) getMinSeqNo = 0 if every copy is absent, 0 if two present copies differ in vbUUID, else the minimum seqNo of the present copies — exhaustively for 0..4 copies over all orderings, vbUUID partitions and absent patterns; " +
			"(R5) in the observe callback every state change and the dispatch are dominated by ¬closed ∧ same generation ∧ err==nil, IsOutdated ⇔ ¬absent ∧ (vbUUID≠ ∨ seqNo≠), the dispatched pair is (vbID, getMinSeqNo(vbID)) and is routed to the observer stored under that vbID; " +
			"(R6) closing releases without delivering: Close sets closed, the listener is called iff ¬closed; (R8) a cluster-map change discards every earlier report: reconfigure = generation++ ≺ reset ≺ markAbsentInstances ≺ go startObserve(new generation) on every path, and reset installs a fresh table of all-zero entries unconditionally. " +
			"Not decided: wake-up latency of the polling loop, correctness of OBSERVE_SEQNO, cluster-map bookkeeping beyond these checks.",
		Assumptions: []string{"OBSERVE_SEQNO reports what each copy persisted", "one goroutine per vBucket stream calls the handlers"},
		Rules: []RuleDef{
			{ID: "C07.R24", Text: "the gate is in force unless it was configured off: defaulting sets no field that was configured and derives the mitigation switch from nothing else (same rule as C17.R1)", Run: c17r1},
			{ID: "C07.R1", Text: "gate first: each handler except End/OSOSnapshot calls canForward(own seqNo) before any other effect; canForward waits ⇔ ¬Disabled, result = isControl ∨ ¬needCatchup, needCatchup untouched for control events; the wait loop exits only on checkPersistSeqNo=true", Run: c07r1},
			{ID: "C07.R2", Text: "checkPersistSeqNo ⇔ seq ≤ persistSeqNo ∨ closed", Run: c07r2},
			{ID: "C07.R3", Text: "SetPersistSeqNo: threshold' = max(old, new) for new ≠ 0, unchanged for 0; no other writer of the threshold", Run: c07r3},
			{ID: "C07.R4", Text: "getMinSeqNo: 0 if all copies absent; 0 if two present copies differ in vbUUID; else min seqNo of the present copies (0..4 copies, exhaustive)", Run: c07r4},
			{ID: "C07.R5", Text: "observe callback: replica-table stores and dispatch dominated by ¬closed ∧ generation unchanged ∧ err==nil; IsOutdated ⇔ ¬absent ∧ (vbUUID≠ ∨ seqNo≠); dispatch (vbID, getMinSeqNo(vbID)) routed to observers[vbID].SetPersistSeqNo", Run: c07r5},
			{ID: "C07.R7", Text: "cluster-map generations: a snapshot is newer ⇔ (epoch, rev) is lexicographically greater; configWatch installs it and reconfigures ⇔ no snapshot yet ∨ newer, only when the snapshot could be read", Run: c07r7},
			{ID: "C07.R8", Text: "a new cluster map starts from an empty report table: reconfigure bumps the generation, then resets, then marks unassigned copies absent, then starts the observe round of the new generation; reset replaces the whole table by fresh all-zero entries for every vBucket and re-arms the first-round counter on every path", Run: c07r8},
			{ID: "C07.R9", Text: "every vBucket and every copy is observed: every loop over a concurrent map runs to completion: the Range callback returns true on every path (frozen exception: markAbsentInstances stops at the error it returns)", Run: rangeComplete("couchbase.rollbackMitigation)")},
			{ID: "C07.R10", Text: "a copy is left out of the minimum ⇔ the cluster map does not assign that very copy: markAbsentInstances marks copy i absent ⇔ its own lookup yields a negative index or 'invalid replica' (1..3 copies, exhaustive); any other lookup error stops and is reported", Run: absentMarks},
			{ID: "C07.R11", Text: "no lost wake-up on the way to the observer: dispatchPersistSeqNo forwards every report to observers[vbID].SetPersistSeqNo under no condition but 'the stream has that observer', and keeps no state of its own", Run: dispatchUnconditional},
			{ID: "C07.R12", Text: "the gate waits ⇔ a threshold will come: Open starts the mitigation component ⇔ ¬Disabled ∧ ¬IsEphemeral() and otherwise switches the very configuration flag the gate reads; IsEphemeral ⇔ bucketType = \"ephemeral\"", Run: gateSourceAgrees},
			{ID: "C07.R13", Text: "the observe callback, exhaustively: the round is always signalled exactly once and first; a closed mitigation or stale generation changes nothing; ambiguous-timeout / temporary-failure / busy change nothing and are survived, any other error stops the client; an outdated record is updated on both fields, then the minimum is taken, then (vbID, min) is dispatched; the branch id for the next observe is refreshed ⇔ the copy reported another one", Run: observeCallbackExact},
			{ID: "C07.R14", Text: "the plumbing around the callback: Start = first configuration (or die), reconfigure, watch loop calling configWatch; Stop raises unconditionally the flag the loop and callback read; the observe loop starts with a fresh, loaded branch-id map and a ticker; loadVbUUIDMap runs one loader per vBucket and dies on error; loadVbUUID returns the failover-log error or records entry 0; SetAbsent raises what IsAbsent returns; the first configuration's wait error is returned", Run: mitigationLifecycle},
			{ID: "C07.R15", Text: "reset, for 0..2 replicas × 0..2 vBuckets: replicas+1 records per vBucket, round counter = vBuckets × (replicas+1)", Run: resetCounts},
			{ID: "C07.R16", Text: "one observe round hands out exactly one completion per (vBucket, copy): Done for an absent copy or a closed/stale round, otherwise one observe of that copy index under the recorded branch id (0..3 copies, exhaustive)", Run: observeRoundAccounting},
			{ID: "C07.R17", Text: "the observe loop is ended ⇔ it runs: Stop and reconfigure stop the timer, send the close request and await the acknowledgement exactly under observeTimer≠nil; reconfigure dies on an unreadable cluster map; the first configuration is recorded under err==nil", Run: mitigationStopHandshake},
			{ID: "C07.R18", Text: "the mitigation is switched off only for a bucket that really is ephemeral (same rule as C18.R7)", Run: bucketPredicates},
			{ID: "C07.R19", Text: "a copy leaves the minimum only because the cluster map does not list it: the absent mark is written only by the record's setter, which is called only from the cluster-map lookup (no error path, no pruning of the active copy)", Run: absentMarkWriters},
			{ID: "C07.R20", Text: "once the threshold covers a waiting event that event is delivered: no lossy wake-up (same rule as C03.R16) and the observer that holds the threshold survives a re-open (same rule as C03.R15)", Run: func(c *Ctx, id string) { lossySignals(c, id); observerMapWriters(c, id) }},
			{ID: "C07.R21", Text: "every persisted-sequence report reaches the observer it is for: no layer between the mitigation and the dispatcher that is not a proven pass-through (same rule as C20.R20)", Run: noNewLayers},
			{ID: "C07.R22", Text: "the only wait in front of an event is the persistence wait: the gate receives from no channel and takes no lock (same rule as C20.R23)", Run: gateWaitsOnlyForPersistence},
			{ID: "C07.R23", Text: "the persisted sequence number the threshold is computed from is the one the node reported: the observe callback hands on the result fields untouched, its error deciding (same rule as C20.R3)", Run: c20r3},
			{ID: "C07.R25", Text: "a closed generation reports nothing into the observers of the next one: Close stops the mitigation itself, synchronously — not in a goroutine that may still run after the next Open (same rule as C13.R2)", Run: c13r2},
			{ID: "C07.R6", Text: "close releases without delivering: observer.Close sets closed; listener called ⇔ ¬closed", Run: c07r6},
		},
	})
}

func c07r1(c *Ctx, id string) {
	w := c.W
	oi := observerInfo(c, id)
	exempt := map[string]string{"End": "carries no sequence number; ends the stream", "OSOSnapshot": "carries no sequence number and the listener ignores it"}
	for _, name := range sortedKeys(oi.handlers) {
		h := oi.handlers[name]
		c.see(h)
		if why, ok := exempt[name]; ok {
			c.OKTrivial(id, "handler:"+name, h.Pos(), "not gated (allowance: %s)", why)
			continue
		}
		g := gateCall(oi, h)
		if g == nil {
			c.Fail(id, "handler:"+name, h.Pos(), "handler never calls canForward: events bypass rollback mitigation")
			continue
		}
		ev := h.Params[1]
		arg := w.Origin(g.Common().Args[1])
		wantArg := "param(" + ev.Name() + ").SeqNo"
		if name == "SnapshotMarker" {
			wantArg = "param(" + ev.Name() + ").StartSeqNo"
		}
		// every other call and every store to the receiver must be dominated by the gate's true branch
		var early []string
		allInstrs(h, func(in ssa.Instruction) {
			if in == ssa.Instruction(g) {
				return
			}
			isEffect := false
			if cc := callOf(in); cc != nil {
				n := calleeName(cc)
				if !strings.HasPrefix(n, "time.Unix") {
					isEffect = true
				}
			}
			if st, ok := in.(*ssa.Store); ok {
				if f := fieldOfAddr(st.Addr); f != nil {
					if _, isAlloc := st.Addr.(*ssa.FieldAddr).X.(*ssa.Alloc); !isAlloc {
						isEffect = true
					}
				}
			}
			if !isEffect {
				return
			}
			if !guardedBy(in.Block(), true, func(v ssa.Value) bool { return v == ssa.Value(g) }) {
				early = append(early, w.pos(in.Pos()))
			}
		})
		switch {
		case arg != wantArg:
			c.Fail(id, "handler:"+name, g.Pos(), "canForward(%s), expected the event's own position %s", arg, wantArg)
		case len(early) > 0:
			c.Fail(id, "handler:"+name, g.Pos(), "effects not dominated by canForward=true at %s", strings.Join(early, ", "))
		default:
			c.OK(id, "handler:"+name, g.Pos(), "canForward(%s) dominates every effect of the handler", arg)
		}
	}
	gateOAE(c, id, oi, "all")
	gateArgsRule(c, id, oi)
	chk := oi.persist
	if chk == nil && oi.waitFn != nil {
		// the test is written out in the polling loop: "left only when the test holds" is part of the exhaustive
		// evaluation of that loop (C07.R2 form: returns without sleeping ⇔ seq ≤ persistSeqNo ∨ closed)
		persistTestOAE(c, id, oi)
		c.Floor(id, 12)
		return
	}
	c.need(chk != nil, id, "the persistence test: a (uint64) bool observer method polled in a loop under the gate (checkPersistSeqNo)")
	// the wait loop: every edge leaving the loop that polls checkPersistSeqNo is the true edge of that test
	var wait *ssa.Function
	for _, fn := range w.ModFuncs {
		cyc := cycleBlocks(fn)
		allInstrs(fn, func(in ssa.Instruction) {
			if cc := callOf(in); cc != nil && cc.StaticCallee() == chk && cyc[in.Block()] {
				wait = fn
			}
		})
	}
	c.need(wait != nil, id, "a loop polling checkPersistSeqNo")
	c.see(wait)
	cyc := cycleBlocks(wait)
	okExit, exits := true, 0
	for b := range cyc {
		for k, s := range b.Succs {
			if cyc[s] {
				continue
			}
			exits++
			ifi, isIf := b.Instrs[len(b.Instrs)-1].(*ssa.If)
			ok := false
			if isIf {
				v, pol := stripNot(ifi.Cond, k == 0)
				if call, isCall := v.(*ssa.Call); isCall && pol && call.Common().StaticCallee() == chk {
					arg := w.Origin(call.Common().Args[1])
					ok = strings.HasPrefix(arg, "param(")
				}
			}
			if !ok {
				okExit = false
			}
		}
	}
	c.Check(okExit && exits > 0, id, "wait-exit@"+fname(wait), wait.Pos(), "the wait loop is left only when checkPersistSeqNo(seqNo)=true", "the wait loop has an exit that is not the true edge of checkPersistSeqNo(seqNo)")
	c.Floor(id, 12)
}

// persistTestOAE: the persistence test in its in-line form — the polling function returns without sleeping ⇔
// seq ≤ persistSeqNo ∨ closed, and otherwise sleeps (the run is stopped at the first sleep: nothing changes the
// threshold inside one abstract run).
func persistTestOAE(c *Ctx, id string, oi *obsInfo) {
	fn := oi.waitFn
	recv, p := fn.Params[0].Name(), fn.Params[1].Name()
	h := &Harness{Fn: fn, Groups: []Group{{Atoms: []string{p, recv + "." + oi.fPersist}, Unsigned: true}}, Bools: []string{recv + "." + oi.fClosed}, Quiet: quietLog,
		StopAfter: func(e Effect) bool { return e.Name == "time.Sleep" }}
	c.oae(id, "wait-test@"+fname(fn), fn.Pos(), h, func(st *State, out *Outcome) string {
		if out.Panicked {
			return "panics"
		}
		want := st.Le(p, recv+"."+oi.fPersist) || st.B(recv+"."+oi.fClosed)
		slept := len(out.Effects("time.Sleep")) > 0
		if want && slept {
			return "keeps waiting although the event is covered (or the observer closed)"
		}
		if !want && !slept {
			return "releases an event that is neither covered by the threshold nor released by Close"
		}
		return ""
	}, "the wait is left (without sleeping) ⇔ seq ≤ persistSeqNo ∨ closed")
}

func c07r2(c *Ctx, id string) {
	oi := observerInfo(c, id)
	fn := oi.persist
	if fn == nil && oi.waitFn != nil {
		persistTestOAE(c, id, oi)
		return
	}
	c.need(fn != nil, id, "the persistence test: a (uint64) bool observer method polled in a loop under the gate (checkPersistSeqNo)")
	recv, p := fn.Params[0].Name(), fn.Params[1].Name()
	h := &Harness{Fn: fn, Groups: []Group{{Atoms: []string{p, recv + "." + oi.fPersist}, Unsigned: true}}, Bools: []string{recv + "." + oi.fClosed}}
	c.oae(id, fname(fn), fn.Pos(), h, func(st *State, out *Outcome) string {
		if out.Panicked {
			return "panics"
		}
		b, ok := out.Ret[0].(avBool)
		want := st.Le(p, recv+"."+oi.fPersist) || st.B(recv+"."+oi.fClosed)
		if !ok || b.b != want {
			return fmt.Sprintf("returns %s, expected %v", avString(out.Ret[0]), want)
		}
		return ""
	}, "seq ≤ persistSeqNo ∨ closed")
}

func c07r3(c *Ctx, id string) {
	w := c.W
	oi := observerInfo(c, id)
	fn := w.Method("couchbase", oi.typ.Obj().Name(), "SetPersistSeqNo")
	c.need(fn != nil, id, "observer.SetPersistSeqNo")
	recv, p := fn.Params[0].Name(), fn.Params[1].Name()
	old := recv + "." + oi.fPersist
	h := &Harness{Fn: fn, Groups: []Group{{Atoms: []string{p, old, "#0"}, Unsigned: true}}, Quiet: quietLog}
	c.oae(id, fname(fn), fn.Pos(), h, func(st *State, out *Outcome) string {
		if out.Panicked {
			return "panics"
		}
		f := out.Final(old)
		after := old
		if f != nil {
			after = avString(f)
		}
		want := old
		if !st.Eq(p, "#0") && st.Lt(old, p) {
			want = p
		}
		// compare by rank (equal values are interchangeable)
		if st.Rank(after) != st.Rank(want) {
			return "threshold becomes " + after + ", expected max(old,new) with 0 ignored = " + want
		}
		if _, isAtom := st.rank[after]; !isAtom {
			return "threshold becomes a value that is neither the old nor the new one: " + after
		}
		return ""
	}, "threshold' = (new ≠ 0 ∧ new > old) ? new : old")
	f := w.Field("couchbase", oi.typ.Obj().Name(), oi.fPersist)
	c.need(f != nil, id, "observer.persistSeqNo")
	for _, fs := range w.fieldStores(f) {
		if _, isAlloc := fs.Store.Addr.(*ssa.FieldAddr).X.(*ssa.Alloc); isAlloc {
			continue
		}
		c.Check(fs.Fn == fn, id, "threshold-writer@"+fname(fs.Fn), fs.Store.Pos(), "written only by SetPersistSeqNo", "threshold written outside SetPersistSeqNo")
	}
}

func c07r4(c *Ctx, id string) {
	w := c.W
	fn := w.Method("couchbase", "rollbackMitigation", "getMinSeqNo")
	c.need(fn != nil, id, "couchbase.rollbackMitigation.getMinSeqNo")
	rt := replicaStateType(w)
	c.need(rt != nil, id, "the per-copy report record: the one struct type of package couchbase, other than the stream observer, with a gocbcore.VbUUID and a gocbcore.SeqNo field (vbUUIDAndSeqNo)")
	maxN := 4
	if c.Tier == "thorough" {
		maxN = 5
	}
	for n := 0; n <= maxN; n++ {
		var seqs, uuids, bools []string
		for i := 0; i < n; i++ {
			seqs = append(seqs, fmt.Sprintf("rep%d.seqNo", i))
			uuids = append(uuids, fmt.Sprintf("rep%d.vbUUID", i))
			bools = append(bools, fmt.Sprintf("rep%d.absent", i))
		}
		nn := n
		h := &Harness{Fn: fn, Bools: bools, Quiet: quietLog, MaxSteps: 5000,
			Groups: []Group{{Atoms: seqs, Unsigned: true}, {Atoms: uuids, EqOnly: true}},
			Oracle: func(st *State, name string, args []AV, res *types.Tuple) ([]AV, bool) {
				if strings.HasSuffix(name, ".Load") {
					var cells []*cell
					for i := 0; i < nn; i++ {
						pc := &cell{typ: types.NewPointer(rt), val: avPtr{&cell{typ: rt, sym: fmt.Sprintf("rep%d", i)}}, have: true}
						cells = append(cells, pc)
					}
					return []AV{avSlice{cells: cells}, avBool{true}}, true
				}
				return nil, false
			}}
		if n == 0 {
			h.Groups = nil
		}
		c.oae(id, fmt.Sprintf("%s[len=%d]", fname(fn), n), fn.Pos(), h, func(st *State, out *Outcome) string {
			if out.Panicked {
				return "panics"
			}
			var present []int
			for i := 0; i < nn; i++ {
				if !st.B(bools[i]) {
					present = append(present, i)
				}
			}
			got := avString(out.Ret[0])
			if len(present) == 0 {
				if got != "0" {
					return "all copies absent but result is " + got
				}
				return ""
			}
			for _, i := range present[1:] {
				if !st.Eq(uuids[i], uuids[present[0]]) {
					if got != "0" {
						return "present copies disagree on the vbUUID but result is " + got + " (events would be released while the branch is uncertain)"
					}
					return ""
				}
			}
			min := present[0]
			for _, i := range present {
				if st.Lt(seqs[i], seqs[min]) {
					min = i
				}
			}
			if _, isAtom := st.rank[got]; !isAtom || st.Rank(got) != st.Rank(seqs[min]) {
				return "result " + got + " is not the minimum persisted seqNo of the present copies (" + seqs[min] + ")"
			}
			ok := false
			for _, i := range present {
				if got == seqs[i] {
					ok = true
				}
			}
			if !ok {
				return "result " + got + " is taken from an absent copy"
			}
			return ""
		}, "0 if all absent; 0 on vbUUID disagreement among present copies; else min seqNo of present copies")
	}
}

func c07r5(c *Ctx, id string) {
	w := c.W
	obs := w.Method("couchbase", "rollbackMitigation", "observe")
	c.need(obs != nil && len(obs.AnonFuncs) == 1, id, "rollbackMitigation.observe with one callback closure")
	cb := obs.AnonFuncs[0]
	c.see(cb)
	var errP *ssa.Parameter
	for _, p := range cb.Params {
		if types.IsInterface(p.Type()) && types.Implements(p.Type(), errorIface()) {
			errP = p
		}
	}
	c.need(errP != nil, id, "error parameter of the observe callback")
	rsName := "vbUUIDAndSeqNo"
	if rt := replicaStateType(w); rt != nil {
		rsName = rt.Obj().Name()
	}
	// the mitigation's own closed switch: the flag its Stop raises
	rmClosed := flagSetBy(w, w.Method("couchbase", "rollbackMitigation", "Stop"))
	if rmClosed == "" {
		rmClosed = "closed"
	}
	// the report may be applied in the callback itself or in a helper the callback calls: a condition then holds
	// for an instruction if it guards the instruction in its own function or guards the helper's call in the callback
	site := map[*ssa.Function]ssa.CallInstruction{}
	units := []*ssa.Function{cb}
	for f := range w.syncCallees(cb, 1, false) {
		if f == cb || f.Pkg != obs.Pkg {
			continue
		}
		if cs := callsIn(cb, f); len(cs) == 1 {
			site[f] = cs[0]
			units = append(units, f)
		}
	}
	sort.Slice(units, func(i, j int) bool { return fname(units[i]) < fname(units[j]) })
	blocksOf := func(in ssa.Instruction) []*ssa.BasicBlock {
		bs := []*ssa.BasicBlock{in.Block()}
		if s := site[in.Parent()]; s != nil {
			bs = append(bs, s.Block())
		}
		return bs
	}
	subst := func(in ssa.Instruction, o string) string {
		s := site[in.Parent()]
		if s == nil {
			return o
		}
		for _, p := range in.Parent().Params {
			o = strings.ReplaceAll(o, "param("+p.Name()+")", "\x00"+w.Origin(argOfParam(s.Common(), in.Parent(), p))+"\x00")
		}
		return strings.ReplaceAll(o, "\x00", "")
	}
	check := func(in ssa.Instruction, what string) {
		gClosed, gGen, gErr := false, false, false
		for _, b := range blocksOf(in) {
			gClosed = gClosed || guardedByDeep(b, false, func(v ssa.Value) bool { f, _ := flagRead(v); return f != nil && f.Name() == rmClosed })
			genCmp := func(o, op string) bool { // the live generation against the one this observe was started under
				pre := "(recv.activeGroupID " + op + " "
				return strings.HasPrefix(o, pre) && strings.HasSuffix(o, ")") && isVParamOf(strings.TrimSuffix(strings.TrimPrefix(o, pre), ")"), obs)
			}
			genNe := func(v ssa.Value) bool { return genCmp(w.Origin(v), "!=") }
			genEq := func(v ssa.Value) bool { return genCmp(w.Origin(v), "==") }
			gGen = gGen || guardedByDeep(b, false, genNe) || guardedByDeep(b, true, genEq)
			gErr = gErr || errGuard(b, true, func(v ssa.Value) bool { return v == ssa.Value(errP) })
		}
		c.CallSites++
		if gClosed && gGen && gErr {
			c.OK(id, what+"@"+fname(cb), in.Pos(), "dominated by ¬closed ∧ generation unchanged ∧ err==nil")
		} else {
			c.Fail(id, what+"@"+fname(cb), in.Pos(), "%s is not dominated by all of ¬closed (%v), same generation (%v), err==nil (%v): a stale or failed report would change the threshold", what, gClosed, gGen, gErr)
		}
	}
	n := 0
	var dispatch *ssa.Call
	// a write of the report table: a direct store to record.seqNo / record.vbUUID, or a call of a setter of the record
	// type whose body is exactly such a store of its parameter
	want := map[string]string{"seqNo": "param(result).PersistSeqNo", "vbUUID": "param(result).VbUUID"}
	recName := func(t types.Type) string { return recvTypeName(t) }
	setterField := func(f *ssa.Function) string {
		if f == nil || f.Signature.Recv() == nil || recName(f.Signature.Recv().Type()) != rsName || len(f.Params) != 2 {
			return ""
		}
		field, nSt := "", 0
		allInstrs(f, func(in ssa.Instruction) {
			if st, ok := in.(*ssa.Store); ok {
				nSt++
				if fv := fieldOfAddr(st.Addr); fv != nil && st.Val == ssa.Value(f.Params[1]) {
					field = fv.Name()
				}
			}
		})
		if nSt != 1 {
			return ""
		}
		return field
	}
	seenField := map[string]bool{}
	for _, u := range units {
		allInstrs(u, func(in ssa.Instruction) {
			if st, ok := in.(*ssa.Store); ok {
				if fa, isFA := st.Addr.(*ssa.FieldAddr); isFA && recName(fa.X.Type()) == rsName {
					if fv := fieldOfAddr(st.Addr); fv != nil && want[fv.Name()] != "" {
						n++
						seenField[fv.Name()] = true
						check(in, "report."+fv.Name())
						o := subst(in, w.Origin(st.Val))
						c.Check(o == want[fv.Name()], id, "report."+fv.Name()+"-arg@"+fname(cb), in.Pos(), fv.Name()+" ← "+o, "the report table records "+fv.Name()+" ← "+o+", expected "+want[fv.Name()])
					}
				}
				return
			}
			cc := callOf(in)
			if cc == nil {
				return
			}
			switch {
			case setterField(cc.StaticCallee()) != "" && want[setterField(cc.StaticCallee())] != "":
				fld := setterField(cc.StaticCallee())
				n++
				seenField[fld] = true
				check(in, "report."+fld)
				o := subst(in, w.Origin(cc.Args[1]))
				c.Check(o == want[fld], id, "report."+fld+"-arg@"+fname(cb), in.Pos(), fld+" ← "+o, "the report table records "+fld+" ← "+o+", expected "+want[fld])
			case !cc.IsInvoke() && strings.HasSuffix(w.Origin(cc.Value), ".persistSeqNoDispatcher"):
				n++
				check(in, "dispatch")
				dispatch, _ = in.(*ssa.Call)
			}
		})
	}
	if !seenField["seqNo"] || !seenField["vbUUID"] {
		n = 0
	}
	if n < 3 || dispatch == nil {
		c.Undecided(id, "callback-shape", cb.Pos(), "expected the two report-table writes (seqNo, vbUUID) and the dispatch in the observe callback (found %d)", n)
	} else {
		// the replica updated is replicas[replica] of the observed vBucket, and the setters precede the dispatch
		a := asAlloc(dispatch.Common().Args[0])
		if a == nil {
			c.Fail(id, "dispatch-arg", dispatch.Pos(), "dispatched value is not a PersistSeqNo literal")
		} else {
			tab, _ := allocTable(a)
			vb, sq := subst(dispatch, w.Origin(tab["VbID"])), subst(dispatch, w.Origin(tab["SeqNo"]))
			ok := false
			for _, v := range vparams(obs) {
				if isUint16(v.Type()) && vb == v.Term() {
					ok = sq == "call((*couchbase.rollbackMitigation).getMinSeqNo)(recv, "+vb+")"
				}
			}
			c.Check(ok, id, "dispatch-arg", dispatch.Pos(), "dispatches (VbID ← "+vb+", SeqNo ← "+sq+")", "dispatches (VbID ← "+vb+", SeqNo ← "+sq+"), expected (vbID, getMinSeqNo(vbID))")
			// getMinSeqNo is evaluated after the replica table was updated
			var gm *ssa.Call
			if call, ok := tab["SeqNo"].(*ssa.Call); ok {
				gm = call
			}
			okOrder := gm != nil
			nW := 0
			allInstrs(dispatch.Parent(), func(in ssa.Instruction) {
				isWrite := false
				if st, isSt := in.(*ssa.Store); isSt {
					if fa, isFA := st.Addr.(*ssa.FieldAddr); isFA && recName(fa.X.Type()) == rsName && want[fieldOfAddr(st.Addr).Name()] != "" {
						isWrite = true
					}
				} else if cc := callOf(in); cc != nil && want[setterField(cc.StaticCallee())] != "" {
					isWrite = true
				}
				if isWrite {
					nW++
					if gm == nil || !dominatesInstr(in, gm) {
						okOrder = false
					}
				}
			})
			okOrder = okOrder && nW >= 2
			c.Check(okOrder, id, "dispatch-order", dispatch.Pos(), "the minimum is computed after both replica fields were updated", "the minimum is computed before the replica table is updated")
		}
	}
	// IsOutdated
	io := w.Method("couchbase", rsName, "IsOutdated")
	c.need(io != nil, id, "vbUUIDAndSeqNo.IsOutdated")
	rv, lp := io.Params[0].Name(), io.Params[1].Name()
	h := &Harness{Fn: io, Bools: []string{rv + ".absent"},
		Groups: []Group{{Atoms: []string{rv + ".vbUUID", lp + ".VbUUID"}, EqOnly: true}, {Atoms: []string{rv + ".seqNo", lp + ".PersistSeqNo"}, EqOnly: true}}}
	c.oae(id, fname(io), io.Pos(), h, func(st *State, out *Outcome) string {
		if out.Panicked {
			return "panics"
		}
		b, ok := out.Ret[0].(avBool)
		want := !st.B(rv+".absent") && (!st.Eq(rv+".vbUUID", lp+".VbUUID") || !st.Eq(rv+".seqNo", lp+".PersistSeqNo"))
		if !ok || b.b != want {
			return fmt.Sprintf("returns %s, expected %v", avString(out.Ret[0]), want)
		}
		return ""
	}, "¬absent ∧ (vbUUID ≠ ∨ seqNo ≠)")
	// routing in the stream
	n = 0
	for _, fn := range w.ModFuncs {
		allInstrs(fn, func(in ssa.Instruction) {
			cc := callOf(in)
			if cc == nil || !isInvokeOf(cc, "Observer", "SetPersistSeqNo") {
				return
			}
			n++
			c.see(fn)
			ro := w.Origin(cc.Value)
			ao := w.Origin(cc.Args[0])
			var p *ssa.Parameter
			for _, q := range fn.Params {
				if recvTypeName(q.Type()) == "PersistSeqNo" {
					p = q
				}
			}
			ok := p != nil && ro == "call((*wrapper.ConcurrentSwissMap[K, V]).Load)(recv.observers, param("+p.Name()+").VbID)#0" && ao == "param("+p.Name()+").SeqNo"
			c.Check(ok, id, "route@"+fname(fn), in.Pos(), "observers[p.VbID].SetPersistSeqNo(p.SeqNo)", "threshold routed as "+ro+".SetPersistSeqNo("+ao+")")
		})
	}
	if n == 0 {
		c.Undecided(id, "route", 0, "no SetPersistSeqNo invoke found")
	}
}

func c07r6(c *Ctx, id string) {
	w := c.W
	oi := observerInfo(c, id)
	c03DeliverOAE(c, id, oi)
	cl := w.Method("couchbase", oi.typ.Obj().Name(), "Close")
	c.need(cl != nil, id, "observer.Close")
	f := w.Field("couchbase", oi.typ.Obj().Name(), oi.fClosed)
	c.need(f != nil, id, "observer.closed")
	ok := false
	allInstrs(cl, func(in ssa.Instruction) {
		if fl, _, val := flagWrite(in); fl == f && w.Origin(val) == "const(true)" && len(guardsOf(in.Block())) == 0 {
			ok = true
		}
	})
	c.Check(ok, id, "close-sets-closed", cl.Pos(), "Close sets closed=true unconditionally", "observer.Close does not set closed=true on every path")
	for _, fs := range w.fieldStores(f) {
		if _, isAlloc := fs.Store.Addr.(*ssa.FieldAddr).X.(*ssa.Alloc); isAlloc {
			continue
		}
		c.Check(fs.Fn == cl, id, "closed-writer@"+fname(fs.Fn), fs.Store.Pos(), "written only by Close", "observer.closed written outside Close ("+w.Origin(fs.Store.Val)+")")
	}
}

// gateOAE evaluates canForward exhaustively (shared by C07.R1, C08.R5, C03.R2, C13.R7). The persistence wait
// may be a method of its own or a loop inside the gate; in both cases it is recognised by the persistence
// test (checkPersistSeqNo) it polls.
func gateOAE(c *Ctx, id string, oi *obsInfo, aspect string) {
	for _, g := range oi.gates {
		gateOAEOf(c, id, oi, aspect, g)
	}
}

func gateOAEOf(c *Ctx, id string, oi *obsInfo, aspect string, gate *ssa.Function) {
	w := c.W
	recv := gate.Params[0].Name()
	seqP, ctlP := gate.Params[1].Name(), ""
	fixedCtl, split := oi.gateCtl[gate], len(gate.Params) < 3
	if !split {
		ctlP = gate.Params[2].Name()
	}
	isCtl := func(st *State) bool {
		if split {
			return fixedCtl
		}
		return st.B(ctlP)
	}
	dis := recv + ".config.RollbackMitigation.Disabled"
	chk, need := oi.persist, oi.need
	c.need((chk != nil || oi.waitFn != nil) && need != nil, id, "the persistence test polled under the gate and the catch-up filter the gate consults (checkPersistSeqNo / needCatchup)")
	// the function that polls the persistence test in a loop
	var wait *ssa.Function
	if chk == nil {
		wait = oi.waitFn
		chk = wait // its call is the wait itself
	} else {
		for _, fn := range w.ModFuncs {
			cyc := cycleBlocks(fn)
			allInstrs(fn, func(in ssa.Instruction) {
				if cc := callOf(in); cc != nil && cc.StaticCallee() == chk && cyc[in.Block()] {
					wait = fn
				}
			})
		}
	}
	c.need(wait != nil, id, "a loop polling checkPersistSeqNo (the rollback-mitigation wait)")
	noinl := map[string]bool{fname(need): true, fname(chk): true}
	if wait != gate {
		noinl[fname(wait)] = true
	}
	waitName := fname(wait)
	if wait == gate {
		waitName = fname(chk)
	}
	// the observer's own boolean switches are declared atoms, so a gate that reads them stays decidable and is judged
	// by the aspect's specification in every combination
	var extra []string
	if st, ok := oi.typ.Underlying().(*types.Struct); ok {
		for i := 0; i < st.NumFields(); i++ {
			if isBool(st.Field(i).Type()) {
				extra = append(extra, recv+"."+st.Field(i).Name())
			}
		}
	}
	closedAtom := recv + "." + oi.fClosed
	gateBools := []string{dis, "need"}
	if !split {
		gateBools = append(gateBools, ctlP)
	}
	h := &Harness{Fn: gate, Bools: append(gateBools, extra...), Groups: []Group{{Atoms: []string{seqP}, Unsigned: true}},
		NoInline: noinl, Quiet: []string{"time.Sleep"},
		Valid: func(st *State) bool {
			// the filter aspect (what reaches the consumer) is about a stream that is open
			return aspect != "filter" || !st.B(closedAtom)
		},
		Oracle: func(st *State, name string, args []AV, res *types.Tuple) ([]AV, bool) {
			switch name {
			case fname(need):
				return []AV{avBool{st.B("need")}}, true
			case fname(chk):
				return []AV{avBool{true}}, true // persisted: the loop is left at once
			}
			return nil, false
		}}
	c.oae(id, "gate@"+fname(gate), gate.Pos(), h, func(st *State, out *Outcome) string {
		if out.Panicked {
			return "panics"
		}
		nw, nn := 0, 0
		firstWait, firstNeed := -1, -1
		for i, e := range out.Trace {
			if e.Name == waitName {
				nw++
				if firstWait < 0 {
					firstWait = i
				}
				if len(e.Args) != 2 || avString(e.Args[1]) != seqP {
					return "waits for something else than the event's sequence number: " + e.String()
				}
			}
			if e.Name == fname(need) {
				nn++
				firstNeed = i
				if len(e.Args) != 2 || avString(e.Args[1]) != seqP {
					return "catch-up filter consulted with something else than the event's sequence number: " + e.String()
				}
			}
		}
		if aspect != "filter" {
			if st.B(dis) != (nw == 0) || nw > 1 {
				return fmt.Sprintf("persistence wait entered %d times with Disabled=%v", nw, st.B(dis))
			}
			if nw == 1 && nn == 1 && firstNeed < firstWait {
				return "catch-up filter consulted before the persistence wait"
			}
		}
		if aspect == "wait" {
			return ""
		}
		if isCtl(st) && nn > 0 {
			return "catch-up state consulted (and possibly consumed) for a control event"
		}
		if !isCtl(st) && nn != 1 {
			return fmt.Sprintf("catch-up filter consulted %d times for a data event", nn)
		}
		b, ok := out.Ret[0].(avBool)
		want := isCtl(st) || !st.B("need")
		if !ok || b.b != want {
			return fmt.Sprintf("returns %s, expected isControl ∨ ¬needCatchup = %v", avString(out.Ret[0]), want)
		}
		return ""
	}, map[string]string{"all": "wait(seq) ⇔ ¬Disabled, before the filter; needCatchup(seq) consulted ⇔ ¬isControl; result = isControl ∨ ¬needCatchup",
		"wait":   "wait(seq) ⇔ ¬Disabled, in every state of the observer's switches, before the filter",
		"filter": "on an open stream: needCatchup(seq) consulted ⇔ ¬isControl; result = isControl ∨ ¬needCatchup"}[aspect])
}

// gateArgsRule: which events are "control" for the gate — exactly the two that carry no document and (re)define the
// snapshot (SnapshotMarker, SeqNoAdvanced) pass isControl=true; every other gated handler passes false. A data
// event passed as control escapes the catch-up filter; a marker passed as data is dropped during catch-up and leaves
// a stale snapshot behind.
func gateArgsRule(c *Ctx, id string, oi *obsInfo) {
	w := c.W
	control := map[string]bool{"SnapshotMarker": true, "SeqNoAdvanced": true}
	n := 0
	for _, name := range sortedKeys(oi.handlers) {
		h := oi.handlers[name]
		g := gateCall(oi, h)
		if g == nil {
			continue
		}
		n++
		got := oi.gateCtlOrigin(w, g)
		want := "const(false)"
		if control[name] {
			want = "const(true)"
		}
		c.Check(got == want, id, "control-flag:"+name, g.Pos(), "canForward(…, isControl="+got+")", name+" passes isControl="+got+" to the gate, expected "+want+" (control ⇔ snapshot marker / seqno-advanced)")
	}
	if n < 11 {
		c.Undecided(id, "control-flag:floor", 0, "only %d gated handlers", n)
	}
}

func c07r7(c *Ctx, id string) {
	w := c.W
	fn := w.Method("couchbase", "rollbackMitigation", "isConfigSnapshotNewerThan")
	c.need(fn != nil, id, "rollbackMitigation.isConfigSnapshotNewerThan")
	// the revision reader: the module function (method or not) the comparison calls that yields two integers
	var get *ssa.Function
	allInstrs(fn, func(in ssa.Instruction) {
		if cc := callOf(in); cc != nil {
			if f := cc.StaticCallee(); f != nil && w.inModule(f) && f.Signature.Results().Len() == 2 {
				get = f
			}
		}
	})
	c.need(get != nil, id, "the (epoch, revision) reader called by isConfigSnapshotNewerThan (getRevEpochAndID)")
	recv, np := fn.Params[0].Name(), fn.Params[1].Name()
	h := &Harness{Fn: fn, NoInline: map[string]bool{fname(get): true},
		Groups: []Group{{Atoms: []string{"oldEpoch", "newEpoch"}}, {Atoms: []string{"oldRev", "newRev"}}},
		Oracle: func(st *State, name string, args []AV, res *types.Tuple) ([]AV, bool) {
			if name == fname(get) && len(args) >= 1 {
				switch avString(args[len(args)-1]) {
				case "&" + recv + ".configSnapshot":
					return []AV{avInt{atom: "oldEpoch"}, avInt{atom: "oldRev"}}, true
				case "&" + np:
					return []AV{avInt{atom: "newEpoch"}, avInt{atom: "newRev"}}, true
				}
				return []AV{avOpaque{"revision of an unexpected snapshot " + avString(args[len(args)-1])}, avOpaque{"rev"}}, true
			}
			return nil, false
		}}
	c.oae(id, fname(fn), fn.Pos(), h, func(st *State, out *Outcome) string {
		if out.Panicked {
			return "panics"
		}
		b, ok := out.Ret[0].(avBool)
		want := st.Lt("oldEpoch", "newEpoch") || (st.Eq("oldEpoch", "newEpoch") && st.Lt("oldRev", "newRev"))
		if !ok || b.b != want {
			return fmt.Sprintf("returns %s, expected %v", avString(out.Ret[0]), want)
		}
		return ""
	}, "newer ⇔ newEpoch > oldEpoch ∨ (newEpoch = oldEpoch ∧ newRev > oldRev)")
	// configWatch
	cw := w.Method("couchbase", "rollbackMitigation", "configWatch")
	rc := w.Method("couchbase", "rollbackMitigation", "reconfigure")
	c.need(cw != nil && rc != nil, id, "rollbackMitigation.configWatch / reconfigure")
	hc := &Harness{Fn: cw, Bools: []string{"readErr==nil", recv + ".configSnapshot==nil", "newer"},
		NoInline: map[string]bool{fname(fn): true, fname(rc): true},
		Oracle: func(st *State, name string, args []AV, res *types.Tuple) ([]AV, bool) {
			switch {
			case strings.HasSuffix(name, ".GetDcpAgentConfigSnapshot"):
				e := AV(avIface{sym: "readErr"})
				if st.B("readErr==nil") {
					e = avIface{isNil: true}
				}
				return []AV{avPtr{&cell{typ: types.Typ[types.Int], sym: "snap"}}, e}, true
			case name == fname(fn):
				return []AV{avBool{st.B("newer")}}, true
			}
			return nil, false
		}}
	r := cw.Params[0].Name()
	hc.Bools[1] = r + ".configSnapshot==nil"
	c.oae(id, fname(cw), cw.Pos(), hc, func(st *State, out *Outcome) string {
		nr := 0
		for _, e := range out.Trace {
			if e.Name == fname(rc) {
				nr++
			}
		}
		want := st.B("readErr==nil") && (st.B(r+".configSnapshot==nil") || st.B("newer"))
		if want != (nr == 1) || nr > 1 {
			return fmt.Sprintf("reconfigure called %d times, expected %v", nr, want)
		}
		inst := out.Final(r + ".configSnapshot")
		if want && (inst == nil || avString(inst) != "&snap") {
			return "the new snapshot is not installed before reconfiguring"
		}
		if !want && inst != nil {
			return "a snapshot is installed although it is not newer / could not be read"
		}
		return ""
	}, "install + reconfigure ⇔ read ok ∧ (no snapshot yet ∨ newer)")
}

// replicaStateType: the per-copy report record of the rollback mitigation, found by shape.
func replicaStateType(w *World) *types.Named {
	p := w.Pkgs["couchbase"]
	if p == nil {
		return nil
	}
	var found []*types.Named
	sc := p.Types.Scope()
	for _, n := range sc.Names() {
		tn, ok := sc.Lookup(n).(*types.TypeName)
		if !ok {
			continue
		}
		nt, ok := tn.Type().(*types.Named)
		if !ok {
			continue
		}
		st, ok := nt.Underlying().(*types.Struct)
		if !ok {
			continue
		}
		hasU, hasS := false, false
		for i := 0; i < st.NumFields(); i++ {
			switch shortType(st.Field(i).Type()) {
			case "gocbcore.VbUUID":
				hasU = true
			case "gocbcore.SeqNo":
				hasS = true
			}
		}
		isObs := false
		for _, o := range w.observerImpls() {
			if o == nt {
				isObs = true
			}
			// a part of the observer embedded by value (its mutable state grouped into a struct) is the observer
			if ost, isSt := o.Underlying().(*types.Struct); isSt {
				for i := 0; i < ost.NumFields(); i++ {
					if embeddedPart(ost.Field(i)) && types.Identical(ost.Field(i).Type(), nt) {
						isObs = true
					}
				}
			}
		}
		if hasU && hasS && !isObs {
			found = append(found, nt)
		}
	}
	if len(found) == 1 {
		return found[0]
	}
	return nil
}

// c07r8: reports recorded under an older cluster map say nothing about the copies the new map lists (a replica slot may
// have been unassigned, or re-homed to a node that lags). The threshold is only safe if the table the minimum is taken
// over starts empty for every generation.
func c07r8(c *Ctx, id string) {
	w := c.W
	rc := w.Method("couchbase", "rollbackMitigation", "reconfigure")
	rs := w.Method("couchbase", "rollbackMitigation", "reset")
	ma := w.Method("couchbase", "rollbackMitigation", "markAbsentInstances")
	so := w.Method("couchbase", "rollbackMitigation", "startObserve")
	c.need(rc != nil && rs != nil && ma != nil && so != nil, id, "rollbackMitigation.reconfigure / reset / markAbsentInstances / startObserve")
	c.see(rc)
	c.see(rs)
	gen := w.Field("couchbase", "rollbackMitigation", "activeGroupID")
	tab := w.Field("couchbase", "rollbackMitigation", "persistedSeqNos")
	c.need(gen != nil && tab != nil, id, "rollbackMitigation.activeGroupID / persistedSeqNos")
	seqs, complete := pathEvents(rc, func(in ssa.Instruction) (string, *ssa.Function) {
		if st, ok := in.(*ssa.Store); ok && fieldOfAddr(st.Addr) == gen {
			return "gen++", nil
		}
		if g, ok := in.(*ssa.Go); ok && g.Common().StaticCallee() == so {
			if strings.HasSuffix(w.Origin(g.Common().Args[len(g.Common().Args)-1]), "."+gen.Name()) || strings.Contains(w.Origin(g.Common().Args[len(g.Common().Args)-1]), gen.Name()) {
				return "go-observe(gen)", nil
			}
			return "go-observe(?)", nil
		}
		if cc := callOf(in); cc != nil {
			switch cc.StaticCallee() {
			case rs:
				return "reset", nil
			case ma:
				return "mark-absent", nil
			}
		}
		return "", nil
	}, 0)
	ok := complete && len(seqs) > 0
	for _, s := range seqs {
		if strings.HasSuffix(s, "!panic") {
			continue
		}
		if s != "gen++ reset mark-absent go-observe(gen)" {
			ok = false
		}
	}
	c.Check(ok, id, "reconfigure-order", rc.Pos(), fmt.Sprintf("every path: generation++ ≺ reset ≺ mark-absent ≺ go startObserve(generation) %v", seqs), fmt.Sprintf("a path through reconfigure does not start the new generation from an empty table: %v", seqs))
	// reset: unconditional fresh table
	seqs, complete = pathEvents(rs, func(in ssa.Instruction) (string, *ssa.Function) {
		if st, ok := in.(*ssa.Store); ok && fieldOfAddr(st.Addr) == tab {
			if freshMapIn(st.Val, rs) {
				return "table←fresh", nil
			}
			return "table←" + w.Origin(st.Val), nil
		}
		if cc := callOf(in); cc != nil {
			if k, m := atomicMethod(cc.StaticCallee()); k != "" && (m == "Swap" || m == "Store") {
				return "count←", nil
			}
			if m, _ := csmapMethod(cc); m == "Store" {
				return "entry", nil
			}
		}
		return "", nil
	}, 0)
	ok = complete && len(seqs) > 0
	for _, s := range seqs {
		if strings.HasSuffix(s, "!panic") {
			continue
		}
		fs := strings.Fields(s)
		if len(fs) < 2 || fs[0] != "table←fresh" || fs[len(fs)-1] != "count←" {
			ok = false
			continue
		}
		for _, e := range fs[1 : len(fs)-1] {
			if e != "entry" {
				ok = false
			}
		}
	}
	c.Check(ok, id, "reset-unconditional", rs.Pos(), fmt.Sprintf("every non-panicking path installs a fresh table, fills it and re-arms the counter %v", seqs), fmt.Sprintf("reset keeps (part of) the previous generation's reports on some path: %v", seqs))
	// entries are fresh all-zero records
	rec := replicaStateType(w) // the record type of the report table, by role (element type of the table's slices)
	nRec, badRec := 0, 0
	if rec != nil {
		allInstrs(rs, func(in ssa.Instruction) {
			st, isSt := in.(*ssa.Store)
			if !isSt {
				return
			}
			if p, isP := st.Val.Type().(*types.Pointer); !isP || !types.Identical(p.Elem(), rec) {
				return
			}
			nRec++
			a := asAlloc(st.Val)
			if a == nil {
				badRec++
				return
			}
			if t, okT := allocTable(a); !okT || len(t) != 0 {
				badRec++
			}
		})
	}
	c.Check(nRec >= 1 && badRec == 0, id, "reset-entries", rs.Pos(), "every copy's record is a fresh all-zero entry (not absent, no report)", fmt.Sprintf("%d of %d records stored by reset are not fresh all-zero entries", badRec, nRec))
}
