package main

// astx.go — typed-syntax helpers: origin terms, mapping tables (P4/P5 of DESIGN.md).

import (
	"fmt"
	"go/ast"
	"go/constant"
	"go/token"
	"go/types"
	"sort"
	"strings"
)

// FnSyntax bundles a function's syntax with its type information and a table of
// single-assignment locals, so identifiers can be replaced by their defining expression.
type FnSyntax struct {
	W    *World
	Info *types.Info
	Body *ast.BlockStmt
	Type *ast.FuncType
	Recv *ast.FieldList
	Name string
	defs map[types.Object][]defSite
}

type defSite struct {
	rhs ast.Expr // defining expression (nil when not a plain single-value definition)
	idx int      // result index when rhs is a multi-value call / comma-ok; -1 otherwise
	op  token.Token
}

func (w *World) Syntax(decl *ast.FuncDecl) *FnSyntax {
	if decl == nil || decl.Body == nil {
		return nil
	}
	fs := &FnSyntax{W: w, Info: w.Info(decl.Pos()), Body: decl.Body, Type: decl.Type, Recv: decl.Recv, Name: decl.Name.Name}
	fs.index()
	return fs
}

func (w *World) SyntaxLit(lit *ast.FuncLit, outer *FnSyntax) *FnSyntax {
	fs := &FnSyntax{W: w, Info: w.Info(lit.Pos()), Body: lit.Body, Type: lit.Type, Name: "funclit"}
	if outer != nil {
		fs.defs = outer.defs // closure sees the enclosing definitions (outer.index covered the literal's body too)
	} else {
		fs.index()
	}
	return fs
}

func (fs *FnSyntax) index() {
	fs.defs = map[types.Object][]defSite{}
	add := func(id *ast.Ident, d defSite) {
		if id == nil || id.Name == "_" {
			return
		}
		o := fs.Info.Defs[id]
		if o == nil {
			o = fs.Info.Uses[id]
		}
		if o == nil {
			return
		}
		fs.defs[o] = append(fs.defs[o], d)
	}
	ast.Inspect(fs.Body, func(n ast.Node) bool {
		switch s := n.(type) {
		case *ast.AssignStmt:
			if len(s.Lhs) == len(s.Rhs) {
				for i, l := range s.Lhs {
					if id, ok := l.(*ast.Ident); ok {
						d := defSite{rhs: s.Rhs[i], idx: -1, op: s.Tok}
						if s.Tok != token.DEFINE && s.Tok != token.ASSIGN {
							d.rhs = nil // compound assignment
						}
						add(id, d)
					}
				}
			} else if len(s.Rhs) == 1 {
				for i, l := range s.Lhs {
					if id, ok := l.(*ast.Ident); ok {
						add(id, defSite{rhs: s.Rhs[0], idx: i, op: s.Tok})
					}
				}
			}
		case *ast.IncDecStmt:
			if id, ok := s.X.(*ast.Ident); ok {
				add(id, defSite{})
			}
		case *ast.ValueSpec:
			for i, id := range s.Names {
				switch {
				case len(s.Values) == len(s.Names):
					add(id, defSite{rhs: s.Values[i], idx: -1, op: token.DEFINE})
				case len(s.Values) == 1:
					add(id, defSite{rhs: s.Values[0], idx: i, op: token.DEFINE})
				default:
					add(id, defSite{rhs: nil, idx: -1, op: token.VAR}) // zero value
				}
			}
		case *ast.RangeStmt:
			if id, ok := s.Key.(*ast.Ident); ok {
				add(id, defSite{})
			}
			if id, ok := s.Value.(*ast.Ident); ok {
				add(id, defSite{})
			}
		case *ast.UnaryExpr:
			if s.Op == token.AND {
				if id, ok := s.X.(*ast.Ident); ok {
					// address taken: keep the definition but mark as multi-def only if it is later stored through;
					// we stay conservative for non-struct values only.
					if o := fs.Info.Uses[id]; o != nil {
						if _, isStruct := o.Type().Underlying().(*types.Struct); !isStruct {
							if _, isNamed := o.Type().(*types.Named); !isNamed {
								add(id, defSite{})
							}
						}
					}
				}
			}
		}
		return true
	})
}

// single returns the unique defining expression of a local (nil if not single-assignment).
func (fs *FnSyntax) single(o types.Object) (ast.Expr, int, bool) {
	ds := fs.defs[o]
	if len(ds) != 1 || ds[0].rhs == nil {
		return nil, 0, false
	}
	return ds[0].rhs, ds[0].idx, true
}

// unconv strips parentheses and type conversions.
func (fs *FnSyntax) unconv(e ast.Expr) ast.Expr {
	for {
		switch x := e.(type) {
		case *ast.ParenExpr:
			e = x.X
			continue
		case *ast.CallExpr:
			if len(x.Args) == 1 {
				if tv, ok := fs.Info.Types[x.Fun]; ok && tv.IsType() {
					e = x.Args[0]
					continue
				}
			}
		}
		return e
	}
}

// Origin renders the origin term of an expression: conversions stripped, single-assignment locals
// replaced by their definition (depth-bounded), selectors and calls printed structurally.
func (fs *FnSyntax) Origin(e ast.Expr) string { return fs.origin(e, 0) }

func (fs *FnSyntax) origin(e ast.Expr, depth int) string {
	if e == nil {
		return "<nil>"
	}
	e = fs.unconv(e)
	if tv, ok := fs.Info.Types[e]; ok && tv.Value != nil {
		return "const(" + constStr(tv.Value) + ")"
	}
	switch x := e.(type) {
	case *ast.Ident:
		o := fs.Info.Uses[x]
		if o == nil {
			o = fs.Info.Defs[x]
		}
		if v, ok := o.(*types.Var); ok && !v.IsField() && v.Pkg() != nil && v.Parent() != v.Pkg().Scope() && depth < 6 {
			if rhs, idx, ok := fs.single(v); ok {
				s := fs.origin(rhs, depth+1)
				if idx >= 0 {
					s += fmt.Sprintf("#%d", idx)
				}
				return s
			}
		}
		if o != nil && o.Pkg() != nil && o.Parent() == o.Pkg().Scope() {
			return o.Pkg().Name() + "." + o.Name()
		}
		return x.Name
	case *ast.SelectorExpr:
		if id, ok := x.X.(*ast.Ident); ok {
			if _, isPkg := fs.Info.Uses[id].(*types.PkgName); isPkg {
				return id.Name + "." + x.Sel.Name
			}
		}
		return fs.origin(x.X, depth) + "." + x.Sel.Name
	case *ast.CallExpr:
		var args []string
		for _, a := range x.Args {
			args = append(args, fs.origin(a, depth))
		}
		return fs.origin(x.Fun, depth) + "(" + strings.Join(args, ", ") + ")"
	case *ast.IndexExpr:
		return fs.origin(x.X, depth) + "[" + fs.origin(x.Index, depth) + "]"
	case *ast.StarExpr:
		return "*" + fs.origin(x.X, depth)
	case *ast.UnaryExpr:
		return x.Op.String() + fs.origin(x.X, depth)
	case *ast.BinaryExpr:
		return "(" + fs.origin(x.X, depth) + " " + x.Op.String() + " " + fs.origin(x.Y, depth) + ")"
	case *ast.CompositeLit:
		t := ""
		if tv, ok := fs.Info.Types[x]; ok {
			t = shortType(tv.Type)
		}
		var parts []string
		for _, el := range x.Elts {
			if kv, ok := el.(*ast.KeyValueExpr); ok {
				parts = append(parts, exprPlain(kv.Key)+":"+fs.origin(kv.Value, depth))
			} else {
				parts = append(parts, fs.origin(el, depth))
			}
		}
		return t + "{" + strings.Join(parts, ", ") + "}"
	case *ast.FuncLit:
		return "funclit"
	case *ast.BasicLit:
		return "const(" + x.Value + ")"
	case *ast.TypeAssertExpr:
		return fs.origin(x.X, depth) + ".(type)"
	case *ast.SliceExpr:
		return fs.origin(x.X, depth) + "[" + fs.origin(x.Low, depth) + ":" + fs.origin(x.High, depth) + "]"
	case *ast.KeyValueExpr:
		return exprPlain(x.Key) + ":" + fs.origin(x.Value, depth)
	}
	return fmt.Sprintf("<%T>", e)
}

func constStr(v constant.Value) string {
	if v.Kind() == constant.String {
		return fmt.Sprintf("%q", constant.StringVal(v))
	}
	return v.ExactString()
}

func exprPlain(e ast.Expr) string {
	switch x := e.(type) {
	case *ast.Ident:
		return x.Name
	case *ast.SelectorExpr:
		return exprPlain(x.X) + "." + x.Sel.Name
	case *ast.BasicLit:
		return x.Value
	}
	return fmt.Sprintf("<%T>", e)
}

func shortType(t types.Type) string {
	if t == nil {
		return "<nil>"
	}
	return types.TypeString(types.Unalias(t), func(p *types.Package) string { return p.Name() })
}

// LitTable returns the field → value-expression table of a struct composite literal.
func (fs *FnSyntax) LitTable(lit *ast.CompositeLit) map[string]ast.Expr {
	out := map[string]ast.Expr{}
	tv, ok := fs.Info.Types[lit]
	if !ok {
		return out
	}
	t := tv.Type
	if p, ok := t.Underlying().(*types.Pointer); ok {
		t = p.Elem()
	}
	st, ok := t.Underlying().(*types.Struct)
	if !ok {
		return out
	}
	for i, el := range lit.Elts {
		if kv, ok := el.(*ast.KeyValueExpr); ok {
			if id, ok := kv.Key.(*ast.Ident); ok {
				out[id.Name] = kv.Value
			}
		} else if i < st.NumFields() {
			out[st.Field(i).Name()] = el
		}
	}
	return out
}

// LitsOf finds composite literals of the named struct type (value or &T{}) below node.
func (fs *FnSyntax) LitsOf(node ast.Node, named *types.Named) []*ast.CompositeLit {
	var out []*ast.CompositeLit
	ast.Inspect(node, func(n ast.Node) bool {
		if cl, ok := n.(*ast.CompositeLit); ok {
			if tv, ok := fs.Info.Types[cl]; ok {
				t := tv.Type
				if p, ok := t.(*types.Pointer); ok {
					t = p.Elem()
				}
				if types.Identical(types.Unalias(t), named) {
					out = append(out, cl)
				}
			}
		}
		return true
	})
	return out
}

// ArgTable pairs the arguments of a call with the callee's parameter names.
func (fs *FnSyntax) ArgTable(call *ast.CallExpr) map[string]ast.Expr {
	out := map[string]ast.Expr{}
	tv, ok := fs.Info.Types[call.Fun]
	if !ok {
		return out
	}
	sig, ok := tv.Type.Underlying().(*types.Signature)
	if !ok {
		return out
	}
	ps := sig.Params()
	for i, a := range call.Args {
		if i < ps.Len() {
			name := ps.At(i).Name()
			if name == "" || name == "_" {
				name = fmt.Sprintf("#%d", i)
			}
			out[name] = a
		}
	}
	return out
}

// CalleeObj resolves the called function/method object of a call expression (nil for func values).
func (fs *FnSyntax) CalleeObj(call *ast.CallExpr) *types.Func {
	var id *ast.Ident
	switch f := ast.Unparen(call.Fun).(type) {
	case *ast.Ident:
		id = f
	case *ast.SelectorExpr:
		id = f.Sel
	case *ast.IndexExpr: // generic instantiation f[T](...)
		switch g := f.X.(type) {
		case *ast.Ident:
			id = g
		case *ast.SelectorExpr:
			id = g.Sel
		}
	}
	if id == nil {
		return nil
	}
	if o, ok := fs.Info.Uses[id].(*types.Func); ok {
		return o
	}
	return nil
}

// Calls finds the call expressions below node whose callee satisfies pred.
func (fs *FnSyntax) Calls(node ast.Node, pred func(*types.Func) bool) []*ast.CallExpr {
	var out []*ast.CallExpr
	ast.Inspect(node, func(n ast.Node) bool {
		if ce, ok := n.(*ast.CallExpr); ok {
			if o := fs.CalleeObj(ce); o != nil && pred(o) {
				out = append(out, ce)
			}
		}
		return true
	})
	return out
}

// isFuncNamed: package path suffix + optional receiver type name + name.
func isFunc(o *types.Func, pkgSuffix, recv, name string) bool {
	if o == nil || o.Name() != name || o.Pkg() == nil {
		return false
	}
	if !strings.HasSuffix(o.Pkg().Path(), pkgSuffix) {
		return false
	}
	sig := o.Type().(*types.Signature)
	if recv == "" {
		return sig.Recv() == nil
	}
	if sig.Recv() == nil {
		return false
	}
	return recvTypeName(sig.Recv().Type()) == recv
}

func recvTypeName(t types.Type) string {
	if p, ok := t.(*types.Pointer); ok {
		t = p.Elem()
	}
	switch n := types.Unalias(t).(type) {
	case *types.Named:
		return n.Obj().Name()
	}
	return ""
}

func sortedKeys[M ~map[string]V, V any](m M) []string {
	var ks []string
	for k := range m {
		ks = append(ks, k)
	}
	sort.Strings(ks)
	return ks
}

// tableStr renders a mapping table for witnesses.
func (fs *FnSyntax) tableStr(t map[string]ast.Expr) string {
	var parts []string
	for _, k := range sortedKeys(t) {
		parts = append(parts, k+"←"+fs.Origin(t[k]))
	}
	return strings.Join(parts, ", ")
}
