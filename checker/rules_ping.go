package main

import (
	"fmt"
	"go/constant"
	"go/token"
	"go/types"
	"os"
	"sort"
	"strings"

	"golang.org/x/tools/go/ssa"
)

// An endpoint picker: a function of the module the Ping callback calls with gocbcore's ping result to get the
// address of a service's node that answered.
type endpointPicker struct {
	fn       *ssa.Function
	unit     []*ssa.Function // fn and the same-package helpers it delegates to
	svc      int64           // the service asked about when it is fixed in the picker
	svcParam int             // or the index of the parameter that names it (-1: fixed)
	why      string          // "" when the service could be resolved
}

func isGocbNamed(t types.Type, name string) bool {
	if p, ok := t.Underlying().(*types.Pointer); ok {
		t = p.Elem()
	}
	n, ok := types.Unalias(t).(*types.Named)
	return ok && n.Obj().Name() == name && n.Obj().Pkg() != nil && strings.Contains(n.Obj().Pkg().Path(), "gocbcore")
}

func pingCallback(w *World) *ssa.Function {
	for _, s := range asyncSites(w) {
		if s.Op == "Ping" && s.Callback != nil {
			return s.Callback
		}
	}
	return nil
}

func endpointPickers(w *World, cb *ssa.Function) []*endpointPicker {
	seen := map[*ssa.Function]bool{}
	var out []*endpointPicker
	// the callback, and the same-package helpers it evaluates the result in (`err = evaluatePingResult(&r, result, err)`)
	scan := withAnon(cb)
	for g := range w.syncCallees(cb, 2, false) {
		if g != cb && g.Blocks != nil && pkgPathOf(g) == pkgPathOf(cb) && g.Parent() == nil {
			takes := false
			for _, q := range g.Params {
				if isGocbNamed(q.Type(), "PingResult") {
					takes = true
				}
			}
			if takes && !(g.Signature.Results().Len() == 1 && isStringType(g.Signature.Results().At(0).Type())) {
				scan = append(scan, g)
			}
		}
	}
	sort.Slice(scan, func(i, j int) bool { return fname(scan[i]) < fname(scan[j]) })
	for _, f := range scan {
		allInstrs(f, func(in ssa.Instruction) {
			cc := callOf(in)
			if cc == nil {
				return
			}
			p := cc.StaticCallee()
			if p == nil || seen[p] || !w.inModule(p) || len(p.Blocks) == 0 || p.Signature.Results().Len() != 1 {
				return
			}
			if b, ok := p.Signature.Results().At(0).Type().Underlying().(*types.Basic); !ok || b.Kind() != types.String {
				return
			}
			takes := false
			for _, q := range p.Params {
				if isGocbNamed(q.Type(), "PingResult") {
					takes = true
				}
			}
			if !takes {
				return
			}
			seen[p] = true
			ep := &endpointPicker{fn: p, svcParam: -1, unit: []*ssa.Function{p}}
			for g := range w.syncCallees(p, 2, false) {
				if g != p && pkgPathOf(g) == pkgPathOf(p) && len(g.Blocks) > 0 {
					ep.unit = append(ep.unit, g)
				}
			}
			sort.Slice(ep.unit[1:], func(i, j int) bool { return fname(ep.unit[1+i]) < fname(ep.unit[1+j]) })
			var keys []ssa.Value
			for _, g := range ep.unit {
				allInstrs(g, func(x ssa.Instruction) {
					if lk, ok := x.(*ssa.Lookup); ok {
						if m, isMap := lk.X.Type().Underlying().(*types.Map); isMap && isGocbNamed(m.Key(), "ServiceType") {
							keys = append(keys, lk.Index)
						}
					}
				})
			}
			switch {
			case len(keys) != 1:
				ep.why = fmt.Sprintf("%d lookups by service type (expected one)", len(keys))
			default:
				switch k := unwrap(keys[0]).(type) {
				case *ssa.Const:
					if k.Value != nil && k.Value.Kind() == constant.Int {
						ep.svc, _ = constant.Int64Val(k.Value)
					} else {
						ep.why = "service key is not an integer constant"
					}
				case *ssa.Parameter:
					ep.why = "the service key is a parameter of a helper, not of the picker"
					// a lookup helper of the unit (`valueOr(result.Services, serviceType, nil)`): what it is handed for the key
					key := ssa.Value(k)
					for hop := 0; hop < 2; hop++ {
						kp, isP := key.(*ssa.Parameter)
						if !isP || kp.Parent() == p {
							break
						}
						var arg ssa.Value
						nSites := 0
						for _, g := range ep.unit {
							for _, ci := range callsIn(g, kp.Parent()) {
								nSites++
								arg = argOfParam(ci.Common(), kp.Parent(), kp)
							}
						}
						if nSites != 1 || arg == nil {
							break
						}
						key = unwrap(arg)
					}
					switch kk := key.(type) {
					case *ssa.Const:
						if kk.Value != nil && kk.Value.Kind() == constant.Int {
							ep.svc, _ = constant.Int64Val(kk.Value)
							ep.why = ""
						}
					case *ssa.Parameter:
						for i, q := range p.Params {
							if q == kk {
								ep.svcParam, ep.why = i, ""
							}
						}
					}
				default:
					ep.why = "service key is neither a constant nor a parameter: " + w.Origin(keys[0])
				}
			}
			out = append(out, ep)
		})
	}
	sort.Slice(out, func(i, j int) bool { return fname(out[i].fn) < fname(out[j].fn) })
	return out
}

func gocbConst(w *World, name string) (int64, bool) {
	for _, p := range w.Prog.AllPackages() {
		if p.Pkg.Path() == "github.com/couchbase/gocbcore/v10" {
			if c, ok := p.Pkg.Scope().Lookup(name).(*types.Const); ok {
				return constant.Int64Val(c.Val())
			}
		}
	}
	return 0, false
}

// endpointsAreHealthy (C19/C20): what the Ping callback counts as "the service answered". Every endpoint picker hands
// out the address of an entry of the asked service only after it has seen that entry's Error to be nil and its
// State to be PingStateOK; everything else it returns is the empty string.
func endpointsAreHealthy(c *Ctx, id string) {
	w := c.W
	cb := pingCallback(w)
	c.need(cb != nil, id, "the Ping call site with a callback literal")
	okState, has := gocbConst(w, "PingStateOK")
	c.need(has, id, "gocbcore.PingStateOK")
	ps := endpointPickers(w, cb)
	for _, p := range ps {
		c.see(p.fn)
		if p.why != "" {
			c.Undecided(id, "service@"+fname(p.fn), p.fn.Pos(), "%s", p.why)
			continue
		}
		c.OK(id, "service@"+fname(p.fn), p.fn.Pos(), "looks the entries up under one service type")
		inUnit := map[*ssa.Function]bool{}
		for _, g := range p.unit {
			inUnit[g] = true
		}
		for _, g := range p.unit {
			c.see(g)
			k := 0
			allInstrs(g, func(in ssa.Instruction) {
				r, ok := in.(*ssa.Return)
				if !ok || len(r.Results) != 1 {
					return
				}
				if b, isB := r.Results[0].Type().Underlying().(*types.Basic); !isB || b.Kind() != types.String {
					return
				}
				k++
				c.CallSites++
				construct := fmt.Sprintf("return#%d@%s", k, fname(g))
				for _, v := range phiLeaves(r.Results[0]) {
					v = unwrap(v)
					if cst, isC := v.(*ssa.Const); isC {
						if cst.Value != nil && constant.StringVal(cst.Value) == "" {
							continue
						}
						c.Fail(id, construct, in.Pos(), "hands out the fixed address %s", w.Origin(v))
						return
					}
					if call, isCall := v.(*ssa.Call); isCall && inUnit[call.Common().StaticCallee()] {
						continue // delegated: judged at the helper's own returns
					}
					base := endpointBase(v)
					if base == nil {
						c.Fail(id, construct, in.Pos(), "returns %s, which is not the Endpoint of a ping entry", w.Origin(v))
						return
					}
					errNil, stateOK := false, false
					if selectedByHealthPredicate(w, base, in.Block(), okState) {
						errNil, stateOK = true, true
					}
					for _, gd := range guardsOf(in.Block()) {
						cv, pol := stripNot(gd.Cond, gd.Branch)
						if eq, isCmp := isNilCompare(cv, func(x ssa.Value) bool { return fieldLoadOn(x, base, "Error") }); isCmp && eq == pol {
							errNil = true
						}
						if bo, isB := cv.(*ssa.BinOp); isB && (bo.Op == token.EQL || bo.Op == token.NEQ) && (bo.Op == token.EQL) == pol {
							x, y := bo.X, bo.Y
							if _, xc := x.(*ssa.Const); xc {
								x, y = y, x
							}
							if yc, isC := y.(*ssa.Const); isC && yc.Value != nil && yc.Value.Kind() == constant.Int && fieldLoadOn(x, base, "State") {
								if n, _ := constant.Int64Val(yc.Value); n == okState {
									stateOK = true
								}
							}
						}
					}
					if !errNil || !stateOK {
						c.Fail(id, construct, in.Pos(), "hands out an entry's endpoint without having seen Error == nil (%v) and State == PingStateOK (%v): a node that refused or timed out would count as an answer", errNil, stateOK)
						return
					}
				}
				c.OK(id, construct, in.Pos(), "\"\" or the endpoint of an entry seen with Error == nil ∧ State == PingStateOK")
			})
		}
	}
	c.Floor(id, 2*len(ps))
	c.need(len(ps) >= 1, id, "endpoint pickers called by the Ping callback")
}

// endpointBase: v is the load of the Endpoint field of a gocbcore ping entry; the entry's address.
func endpointBase(v ssa.Value) ssa.Value {
	switch x := v.(type) {
	case *ssa.UnOp:
		if fa, ok := x.X.(*ssa.FieldAddr); ok && x.Op == token.MUL && isGocbNamed(fa.X.Type(), "EndpointPingResult") && fieldOfAddr(fa).Name() == "Endpoint" {
			return fa.X
		}
	case *ssa.Field:
		if isGocbNamed(x.X.Type(), "EndpointPingResult") && x.X.Type().Underlying().(*types.Struct).Field(x.Field).Name() == "Endpoint" {
			return x.X
		}
	}
	return nil
}

// fieldLoadOn: v reads the named field of the entry at base.
func fieldLoadOn(v, base ssa.Value, field string) bool {
	switch x := unwrap(v).(type) {
	case *ssa.UnOp:
		if fa, ok := x.X.(*ssa.FieldAddr); ok && x.Op == token.MUL && sameEntry(fa.X, base) {
			return fieldOfAddr(fa).Name() == field
		}
	case *ssa.Field:
		if st, ok := x.X.Type().Underlying().(*types.Struct); ok && sameEntry(x.X, base) {
			return st.Field(x.Field).Name() == field
		}
	}
	return false
}

// sameEntry: the same entry value, or the same element of the same slice.
func sameEntry(a, b ssa.Value) bool {
	if a == b {
		return true
	}
	ia, okA := a.(*ssa.IndexAddr)
	ib, okB := b.(*ssa.IndexAddr)
	return okA && okB && ia.X == ib.X && ia.Index == ib.Index
}

// streamGettersArePure (C01/C05/C16): reading the stream's state changes nothing. The getters of the Stream interface
// (Get…, Is…) — which the checkpoint's Save, the metric collector and the state endpoints all call — store to no
// field, update no map and call no mutator of the position maps or of an atomic, themselves or through the module
// functions they call. A getter that hands the dirty set out and starts a new one makes every reader a consumer of
// the marks: a scrape between Load and the first save then swallows the marks of the start positions.
func streamGettersArePure(c *Ctx, id string) {
	w := c.W
	ifc := w.NamedType("stream", "Stream")
	streamT := w.NamedType("stream", "stream")
	c.need(ifc != nil && streamT != nil, id, "stream.Stream / stream.stream")
	it, ok := ifc.Underlying().(*types.Interface)
	c.need(ok, id, "stream.Stream is an interface")
	n := 0
	for i := 0; i < it.NumMethods(); i++ {
		name := it.Method(i).Name()
		if !(strings.HasPrefix(name, "Get") || strings.HasPrefix(name, "Is")) {
			continue
		}
		g := w.Method("stream", "stream", name)
		if g == nil {
			c.Undecided(id, "getter:"+name, 0, "no implementation of Stream.%s on the stream", name)
			continue
		}
		n++
		unit := map[*ssa.Function]bool{g: true}
		for f := range w.syncCallees(g, 3, true) {
			if w.inModule(f) {
				unit[f] = true
			}
		}
		var bad []string
		for _, f := range sortedFns(unit) {
			c.see(f)
			for _, ff := range withAnon(f) {
				allInstrs(ff, func(in ssa.Instruction) {
					switch x := in.(type) {
					case *ssa.Store:
						if rootAlloc(x.Addr) == nil {
							bad = append(bad, "store to "+w.Origin(x.Addr)+" @"+w.pos(in.Pos()))
						}
					case *ssa.MapUpdate:
						if _, fresh := resolveCell(x.Map).(*ssa.MakeMap); !fresh {
							bad = append(bad, "map update @"+w.pos(in.Pos()))
						}
					case *ssa.Send:
						bad = append(bad, "send @"+w.pos(in.Pos()))
					case ssa.CallInstruction:
						cc := x.Common()
						if m, _ := csmapMethod(cc); csmapMutators[m] {
							bad = append(bad, "ConcurrentSwissMap."+m+" @"+w.pos(in.Pos()))
						}
						cn := calleeName(cc)
						if strings.HasPrefix(cn, "(*sync/atomic.") && !strings.HasSuffix(cn, ").Load") {
							bad = append(bad, cn+" @"+w.pos(in.Pos()))
						}
					}
				})
			}
		}
		c.Check(len(bad) == 0, id, "getter:"+name, g.Pos(), "stream."+name+" and what it calls only read", "stream."+name+" changes state when it is read: "+strings.Join(bad, ", "))
	}
	c.Floor(id, 4)
	c.need(n >= 4, id, "the getters of stream.Stream")
}

func sortedFns(m map[*ssa.Function]bool) []*ssa.Function {
	var out []*ssa.Function
	for f := range m {
		out = append(out, f)
	}
	sort.Slice(out, func(i, j int) bool { return fname(out[i]) < fname(out[j]) })
	return out
}

// latestStartMarked (C01/C05): a group that starts at "latest" has settled nothing, and its start position exists only
// in memory until it is saved — a restart before that save samples "latest" again, past events that were delivered
// and not acknowledged. So Load marks the start position of every vBucket that has one (current seqNo ≠ 0) for the
// next save and raises the save flag; evaluated whole over (current seqNo = 0?, fail-over log error?): mark and flag
// ⇔ seqNo ≠ 0, the position stored once under the same key, a fail-over log error stops the start.
func latestStartMarked(c *Ctx, id string) {
	w := c.W
	n := 0
	for _, ld := range w.implsOf("stream", "Checkpoint", "Load") {
		for _, ls := range findLoadSites(c, id, ld) {
			if !ls.latest || ls.keyP == nil {
				continue
			}
			n++
			cl := ls.closure
			c.see(cl)
			vb := ls.keyP.Name()
			// the flag is the captured bool the function returns third
			flagName := ""
			for _, fv := range cl.FreeVars {
				if pt, ok := fv.Type().(*types.Pointer); ok && isBool(pt.Elem()) {
					flagName = fv.Name()
				}
			}
			if flagName == "" {
				c.Undecided(id, "latest-start@"+fname(cl), cl.Pos(), "no captured save flag in the latest-start callback")
				continue
			}
			h := &Harness{Fn: cl, Groups: []Group{{Atoms: []string{"cur", "#0"}, Unsigned: true}, {Atoms: []string{vb}, Unsigned: true}}, Bools: []string{"logErr==nil"}, Quiet: quietLog,
				Oracle: func(st *State, name string, args []AV, res *types.Tuple) ([]AV, bool) {
					switch {
					case strings.HasSuffix(name, ".Load") && len(args) == 2:
						if avString(args[1]) != vb {
							return []AV{avOpaque{"seqNo of another vBucket"}, avBool{true}}, true
						}
						return []AV{avInt{atom: "cur"}, avBool{true}}, true
					case strings.HasSuffix(name, ".GetFailOverLogs"):
						if st.B("logErr==nil") {
							el := &cell{typ: res.At(0).Type().Underlying().(*types.Slice).Elem(), sym: "log0"}
							return []AV{avSlice{cells: []*cell{el}}, avIface{isNil: true}}, true
						}
						return []AV{avSlice{isNil: true}, avIface{sym: "logErr"}}, true
					case strings.HasSuffix(name, ".InitializeLatestSeqNo"):
						return []AV{avInt{atom: "bound"}}, true
					}
					return nil, false
				}}
			c.oae(id, "latest-start@"+fname(cl), cl.Pos(), h, func(st *State, out *Outcome) string {
				if !st.B("logErr==nil") {
					if !out.Panicked {
						return "the start goes on without the fail-over log of the vBucket"
					}
					return ""
				}
				if out.Panicked {
					return "panics although every answer arrived"
				}
				marks, stores := 0, 0
				for _, e := range out.Trace {
					if !strings.HasSuffix(e.Name, ".Store") || len(e.Args) != 3 {
						continue
					}
					if avString(e.Args[1]) != vb {
						return "stored under another key: " + e.String()
					}
					if b, isB := e.Args[2].(avBool); isB {
						if !b.b {
							return "the start position is marked clean: " + e.String()
						}
						marks++
					} else {
						stores++
					}
				}
				nz := !st.Eq("cur", "#0")
				flag, _ := out.Final(flagName).(avBool)
				raised := out.Final(flagName) != nil && flag.b
				want := 0
				if nz {
					want = 1
				}
				if marks != want || raised != nz {
					return fmt.Sprintf("start position %s: marked for saving %d times, save flag raised: %v (expected %d, %v) — the start position would not be saved, and a restart before the first acknowledged save starts at a later latest", map[bool]string{true: "≠ 0", false: "= 0"}[nz], marks, raised, want, nz)
				}
				if stores != 1 {
					return fmt.Sprintf("the start position is stored %d times", stores)
				}
				if b, ok := out.Ret[0].(avBool); !ok || !b.b {
					return "the callback stops the iteration before every vBucket has its start position"
				}
				return ""
			}, "mark(vbID) ∧ save flag ⇔ current seqNo ≠ 0; offsets.Store(vbID, start) once; fail-over log error ⇒ panic")
		}
	}
	c.Floor(id, 1)
	c.need(n >= 1, id, "the latest-start callback of Checkpoint.Load")
}

// electorCallbacksExact (C10): every notice of the lease reaches the election handler. The three callbacks the
// Kubernetes elector hands to client-go are evaluated whole: OnStartedLeading → OnBecomeLeader once, OnStoppedLeading →
// OnResignLeader once, OnNewLeader → OnBecomeFollower(the identity parsed from the notice) once ⇔ the holder is not
// this member — under no other condition and with no memory of earlier notices (a leader restarted in place has the
// same name and address, an empty follower table and a new join time: its followers must register again).
func electorCallbacksExact(c *Ctx, id string) {
	w := c.W
	run := w.Method("kubernetes", "leaderElector", "Run")
	c.need(run != nil, id, "kubernetes.leaderElector.Run")
	c.see(run)
	cbs := map[string]*ssa.Function{}
	for _, f := range withAnon(run) {
		allInstrs(f, func(in ssa.Instruction) {
			st, ok := in.(*ssa.Store)
			if !ok {
				return
			}
			fa, isFA := st.Addr.(*ssa.FieldAddr)
			if !isFA || recvTypeName(fa.X.Type()) != "LeaderCallbacks" {
				return
			}
			if cl := closureOf(st.Val); cl != nil {
				cbs[fieldOfAddr(fa).Name()] = cl
			}
		})
	}
	want := map[string]string{"OnStartedLeading": "OnBecomeLeader", "OnStoppedLeading": "OnResignLeader", "OnNewLeader": "OnBecomeFollower"}
	for _, field := range sortedKeys(want) {
		method := want[field]
		cb := cbs[field]
		if cb == nil {
			c.Undecided(id, "callback:"+field, run.Pos(), "no function literal stored into LeaderCallbacks.%s", field)
			continue
		}
		c.see(cb)
		h := &Harness{Fn: cb, Bools: []string{"isMe"}, Quiet: quietLog,
			NoInline: map[string]bool{"(*models.Identity).Equal": true, "models.NewIdentityFromStr": true},
			Oracle: func(st *State, name string, args []AV, res *types.Tuple) ([]AV, bool) {
				switch {
				case strings.HasSuffix(name, "models.NewIdentityFromStr"):
					return []AV{ptrResult(res, 0, "noticed")}, true
				case strings.HasSuffix(name, "Identity).Equal") && len(args) == 2:
					a, b := avString(args[0]), avString(args[1])
					if strings.HasSuffix(a, ".myIdentity") && strings.Contains(b, "noticed") {
						return []AV{avBool{st.B("isMe")}}, true
					}
					return nil, false
				case strings.HasSuffix(name, ".AddLabel"), strings.HasSuffix(name, ".RemoveLabel"):
					return nil, true
				}
				return nil, false
			}}
		c.oae(id, "callback:"+field, cb.Pos(), h, func(st *State, out *Outcome) string {
			if out.Panicked {
				return "panics"
			}
			var calls []Effect
			for _, e := range out.Trace {
				if strings.HasSuffix(e.Name, ".handler."+method) || strings.HasSuffix(e.Name, "Handler."+method) {
					calls = append(calls, e)
				}
				for _, other := range want {
					if other != method && (strings.HasSuffix(e.Name, ".handler."+other) || strings.HasSuffix(e.Name, "Handler."+other)) {
						return "announces " + other + " from " + field
					}
				}
			}
			wantN := 1
			if field == "OnNewLeader" && st.B("isMe") {
				wantN = 0
			}
			if len(calls) != wantN {
				return fmt.Sprintf("%s is announced %d times (expected %d): %s", method, len(calls), wantN, out.TraceString())
			}
			if field == "OnNewLeader" && wantN == 1 {
				if len(calls[0].Args) < 1 || !strings.Contains(avString(calls[0].Args[len(calls[0].Args)-1]), "noticed") {
					return "the follower is pointed at something other than the identity in the notice: " + calls[0].String()
				}
			}
			return ""
		}, field+" → "+method+" once"+map[bool]string{true: " ⇔ the holder is not this member", false: ""}[field == "OnNewLeader"])
	}
	c.Floor(id, 3)
}

// indexCasChain (C10): two members that rewrite the membership index at the same time must not both succeed — the
// loser would number the group from a list the winner has just replaced. The chain that makes the index update a
// compare-and-swap is followed link by link: the monitor round hands updateIndex the Cas of the very index document it
// read in that round; updateIndex hands the address of that value on to the document update of the index key; the
// document update copies a given Cas into the options of the mutation it sends (under no other condition than its
// being given).
func indexCasChain(c *Ctx, id string) {
	w := c.W
	isCasPtr := func(t types.Type) bool {
		p, ok := t.Underlying().(*types.Pointer)
		return ok && isGocbNamed(p.Elem(), "Cas") && !isPtr(p.Elem())
	}
	// (c) every module function that takes an optional Cas applies it
	var takers []*ssa.Function
	for _, fn := range w.ModFuncs {
		if fn.Parent() != nil {
			continue
		}
		for _, p := range fn.Params {
			if isCasPtr(p.Type()) {
				takers = append(takers, fn)
			}
		}
	}
	for _, fn := range takers {
		c.see(fn)
		var p *ssa.Parameter
		for _, q := range fn.Params {
			if isCasPtr(q.Type()) {
				p = q
			}
		}
		applied := false
		var opt *ssa.Alloc
		var at token.Pos
		allInstrs(fn, func(in ssa.Instruction) {
			st, ok := in.(*ssa.Store)
			if !ok {
				return
			}
			fa, isFA := st.Addr.(*ssa.FieldAddr)
			if !isFA || fieldOfAddr(fa) == nil || fieldOfAddr(fa).Name() != "Cas" {
				return
			}
			ld, isLd := unwrap(st.Val).(*ssa.UnOp)
			if !isLd || ld.Op != token.MUL || unwrap(ld.X) != ssa.Value(p) {
				return
			}
			at = st.Pos()
			gs := guardsOf(in.Block())
			okGuard := len(gs) == 1
			for _, g := range gs {
				v, pol := stripNot(g.Cond, g.Branch)
				eq, isCmp := isNilCompare(v, func(x ssa.Value) bool { return unwrap(x) == ssa.Value(p) })
				if !isCmp || eq == pol {
					okGuard = false
				}
			}
			if okGuard {
				applied = true
				opt = rootAlloc(fa.X)
			}
		})
		sent := false
		if opt != nil {
			allInstrs(fn, func(in ssa.Instruction) {
				cc := callOf(in)
				if cc == nil || !strings.Contains(calleeName(cc), "Agent).") {
					return
				}
				for _, a := range cc.Args {
					if ld, ok := unwrap(a).(*ssa.UnOp); ok && ld.Op == token.MUL && ld.X == ssa.Value(opt) {
						sent = true
					}
				}
			})
		}
		c.Check(applied && sent, id, "cas-applied@"+fname(fn), at, "a given Cas is copied into the options of the mutation that is sent, under the test that it was given and nothing else",
			fmt.Sprintf("%s takes a Cas and does not apply it (copied under `cas != nil` only: %v; those options sent: %v): the update it performs is unconditional", fname(fn), applied, sent))
	}
	if len(takers) == 0 {
		c.Undecided(id, "cas-applied", 0, "no module function takes an optional gocbcore.Cas")
	}
	// (b) the index update hands its Cas on, for the index key
	upd := w.Method("couchbase", "cbMembership", "updateIndex")
	mon := w.Method("couchbase", "cbMembership", "monitor")
	c.need(upd != nil && mon != nil, id, "cbMembership.updateIndex / monitor")
	c.see(upd)
	var casP *ssa.Parameter
	for _, q := range upd.Params {
		if isGocbNamed(q.Type(), "Cas") && !isPtr(q.Type()) {
			casP = q
		}
	}
	nUpd := 0
	var writtenKeys []string
	allInstrs(upd, func(in ssa.Instruction) {
		cc := callOf(in)
		if cc == nil || cc.StaticCallee() == nil {
			return
		}
		isTaker := false
		for _, t := range takers {
			if cc.StaticCallee() == t {
				isTaker = true
			}
		}
		if !isTaker {
			return
		}
		nUpd++
		var casArg ssa.Value
		for _, a := range cc.Args {
			if isCasPtr(a.Type()) {
				casArg = a
			}
		}
		ok := false
		if al, isAl := unwrap(casArg).(*ssa.Alloc); isAl && casP != nil {
			// &cas of the parameter: the cell holds the parameter and nothing else is ever stored into it
			nSt := 0
			ok = true
			for _, r := range *al.Referrers() {
				if st, isSt := r.(*ssa.Store); isSt && st.Addr == ssa.Value(al) {
					nSt++
					if unwrap(st.Val) != ssa.Value(casP) {
						ok = false
					}
				}
			}
			ok = ok && nSt == 1
		}
		key := w.Origin(argByName(cc, "id"))
		writtenKeys = append(writtenKeys, key)
		c.Check(ok && strings.HasPrefix(key, "recv."), id, "cas-handed-on@"+fname(upd), in.Pos(), "the index key is updated under the Cas the caller read",
			"the index update writes "+key+" with Cas "+w.Origin(casArg)+" — expected the index key under the caller's Cas")
	})
	if nUpd == 0 {
		c.Undecided(id, "cas-handed-on@"+fname(upd), upd.Pos(), "no document update taking a Cas in the index update")
	}
	// (a) the Cas is that of the index document read in the same round
	c.see(mon)
	for _, ci := range callsIn(mon, upd) {
		var a ssa.Value
		for i, q := range upd.Params {
			if q == casP && i < len(ci.Common().Args) {
				a = ci.Common().Args[i]
			}
		}
		o := w.Origin(a)
		// … of the document the update writes: the key of the read is the key of the write
		ok := strings.HasPrefix(o, "call(couchbase.Get)(") && strings.HasSuffix(o, "#0.Cas") && len(writtenKeys) == 1 && strings.HasSuffix(o, ", "+writtenKeys[0]+")#0.Cas")
		c.Check(ok, id, "cas-source@"+fname(mon), ci.Pos(), "the Cas is the one of the index document this round read", "the index is rewritten under "+o+" — expected the Cas of the index document read at the start of the round")
	}
	c.Floor(id, 3)
}

func isPtr(t types.Type) bool {
	_, ok := t.Underlying().(*types.Pointer)
	return ok
}

// stopMatchesStart (C13): a background loop that runs while a flag is up is stopped by whoever lowers the flag — under
// the same configuration as the one it was started under. For every `go` loop whose continuation tests a bool field:
// each place that raises the flag (the starter) does so under a set of configuration tests; some place that lowers it
// (the stop the close path calls) must do so under no configuration test the raise is not under. A stop that returns
// early for the very configuration the start runs in leaves the loop running behind Close.
func stopMatchesStart(c *Ctx, id string) {
	w := c.W
	cfgGuards := func(in ssa.Instruction) map[string]bool {
		out := map[string]bool{}
		for _, g := range guardsOf(in.Block()) {
			v, pol := stripNot(g.Cond, g.Branch)
			if o := freeConfigCond(w, v); o != "" {
				// normalise `a != b` under false to `a == b` under true
				if strings.Contains(o, " != ") && !pol {
					o, pol = strings.Replace(o, " != ", " == ", 1), true
				} else if strings.Contains(o, " != ") && pol {
					o, pol = strings.Replace(o, " != ", " == ", 1), false
				}
				out[fmt.Sprintf("%v:%s", pol, o)] = true
			}
		}
		return out
	}
	flags := map[*types.Var]*goLoop{}
	for _, gl := range goLoops(w) {
		if !gl.HasLoop || gl.Body == nil {
			continue
		}
		cyc := cycleBlocks(gl.Body)
		allInstrs(gl.Body, func(in ssa.Instruction) {
			if ifi, ok := in.(*ssa.If); ok && cyc[in.Block()] {
				v, _ := stripNot(ifi.Cond, true)
				if f, _ := flagRead(v); f != nil {
					flags[f] = gl
				}
			}
		})
	}
	n := 0
	var fs []*types.Var
	for f := range flags {
		fs = append(fs, f)
	}
	sort.Slice(fs, func(i, j int) bool { return fs[i].Pos() < fs[j].Pos() })
	for _, f := range fs {
		gl := flags[f]
		type site struct {
			in ssa.Instruction
			gs map[string]bool
		}
		var raises, lowers []site
		for _, fn := range w.ModFuncs {
			allInstrs(fn, func(in ssa.Instruction) {
				if ff, _, val := flagWrite(in); ff == f && !deadBlock(in.Block()) {
					switch w.Origin(val) {
					case "const(true)":
						raises = append(raises, site{in, cfgGuards(in)})
					case "const(false)":
						if rootAlloc(flagAddr(in)) == nil { // (not the zero value of a literal being built)
							lowers = append(lowers, site{in, cfgGuards(in)})
						}
					}
				}
			})
		}
		if len(raises) == 0 {
			continue // judged by the rules on running flags (C13.R4)
		}
		n++
		c.see(gl.Body)
		construct := "stop-matches-start:" + recvTypeNameOfField(f) + "." + f.Name()
		bad := ""
		for _, r := range raises {
			matched := false
			for _, l := range lowers {
				sub := true
				for g := range l.gs {
					if !r.gs[g] {
						sub = false
					}
				}
				if sub {
					matched = true
				}
			}
			if !matched {
				var gs []string
				for _, l := range lowers {
					gs = append(gs, fmt.Sprintf("%v @%s", sortedKeys(l.gs), w.pos(l.in.Pos())))
				}
				bad = fmt.Sprintf("raised under %v @%s, lowered only under %v", sortedKeys(r.gs), w.pos(r.in.Pos()), gs)
			}
		}
		c.Check(bad == "", id, construct, gl.Go.Pos(), "every raise of the loop's flag has a lowering under no further configuration test", "the flag the background loop runs on is "+bad+": for that configuration the loop is never stopped")
	}
	c.Floor(id, 3)
	c.need(n >= 3, id, "background loops running on a flag")
}

func flagAddr(in ssa.Instruction) ssa.Value {
	_, a, _ := flagWrite(in)
	return a
}

func recvTypeNameOfField(f *types.Var) string {
	if curWorld == nil {
		return ""
	}
	for _, p := range curWorld.Pkgs {
		if p.Types != f.Pkg() {
			continue
		}
		sc := p.Types.Scope()
		for _, n := range sc.Names() {
			if tn, ok := sc.Lookup(n).(*types.TypeName); ok {
				if st, ok := tn.Type().Underlying().(*types.Struct); ok {
					for i := 0; i < st.NumFields(); i++ {
						if st.Field(i) == f {
							return n
						}
					}
				}
			}
		}
	}
	return ""
}

// selectedByHealthPredicate: the entry is S[i] where i = slices.IndexFunc(S, pred), the block is reached only for a found
// index (i >= 0, i != -1, i > -1), and pred can be true only for an entry whose Error is nil and whose State is
// PingStateOK (every way its result can be true is under both tests, the last of which may be the result itself).
func selectedByHealthPredicate(w *World, base ssa.Value, b *ssa.BasicBlock, okState int64) bool {
	ia, ok := base.(*ssa.IndexAddr)
	if !ok {
		return false
	}
	call, ok := unwrap(ia.Index).(*ssa.Call)
	if !ok {
		return false
	}
	sf := call.Common().StaticCallee()
	if sf == nil || pkgPathOf(sf) != "slices" || len(call.Common().Args) != 2 || unwrap(call.Common().Args[0]) != unwrap(ia.X) {
		return false
	}
	nm := sf.Name()
	if o := sf.Origin(); o != nil {
		nm = o.Name()
	}
	if nm != "IndexFunc" {
		return false
	}
	found := false
	for _, g := range guardsOf(b) {
		v, pol := stripNot(g.Cond, g.Branch)
		bo, isB := v.(*ssa.BinOp)
		if !isB {
			continue
		}
		x, y, op := bo.X, bo.Y, bo.Op
		if unwrap(x) != ssa.Value(call) {
			continue
		}
		k, isC := y.(*ssa.Const)
		if !isC || k.Value == nil || k.Value.Kind() != constant.Int {
			continue
		}
		n, _ := constant.Int64Val(k.Value)
		switch {
		case op == token.GEQ && n == 0 && pol, op == token.GTR && n == -1 && pol, op == token.NEQ && n == -1 && pol,
			op == token.LSS && n == 0 && !pol, op == token.EQL && n == -1 && !pol, op == token.LEQ && n == -1 && !pol:
			found = true
		}
	}
	if !found {
		return false
	}
	pred := closureOf(call.Common().Args[1])
	if pred == nil || len(pred.Params) != 1 || len(pred.Blocks) == 0 {
		return false
	}
	entry := ssa.Value(pred.Params[0])
	isErrNil := func(v ssa.Value, pol bool) bool {
		eq, isCmp := isNilCompare(v, func(x ssa.Value) bool { return fieldReadOf(x, entry, "Error") })
		return isCmp && eq == pol
	}
	isStateOK := func(v ssa.Value, pol bool) bool {
		bo, isB := v.(*ssa.BinOp)
		if !isB || (bo.Op != token.EQL && bo.Op != token.NEQ) || (bo.Op == token.EQL) != pol {
			return false
		}
		x, y := bo.X, bo.Y
		if _, xc := x.(*ssa.Const); xc {
			x, y = y, x
		}
		k, isC := y.(*ssa.Const)
		if !isC || k.Value == nil || k.Value.Kind() != constant.Int || !fieldReadOf(x, entry, "State") {
			return false
		}
		n, _ := constant.Int64Val(k.Value)
		return n == okState
	}
	okAll := true
	nRet := 0
	allInstrs(pred, func(in ssa.Instruction) {
		r, isR := in.(*ssa.Return)
		if !isR || in.Parent() != pred || len(r.Results) != 1 {
			return
		}
		nRet++
		// the ways the result can be true: a leaf that is not the constant false, under the guards of the block it comes from
		check := func(leaf ssa.Value, from *ssa.BasicBlock) {
			if k, isC := leaf.(*ssa.Const); isC && k.Value != nil && k.Value.Kind() == constant.Bool && !constant.BoolVal(k.Value) {
				return
			}
			e, s := false, false
			for _, g := range guardsOf(from) {
				v, pol := stripNot(g.Cond, g.Branch)
				e = e || isErrNil(v, pol)
				s = s || isStateOK(v, pol)
			}
			if _, isC := leaf.(*ssa.Const); !isC {
				v, pol := stripNot(leaf, true)
				e = e || isErrNil(v, pol)
				s = s || isStateOK(v, pol)
			}
			if !e || !s {
				okAll = false
			}
		}
		if phi, isPhi := r.Results[0].(*ssa.Phi); isPhi {
			for i, edge := range phi.Edges {
				check(edge, phi.Block().Preds[i])
			}
		} else {
			check(r.Results[0], in.Block())
		}
	})
	return okAll && nRet > 0
}

// fieldReadOf: v reads the named field of the struct value or struct pointer e (a parameter, or the cell it was spilled to).
func fieldReadOf(v, e ssa.Value, field string) bool {
	switch x := unwrap(v).(type) {
	case *ssa.Field:
		st, ok := x.X.Type().Underlying().(*types.Struct)
		return ok && st.Field(x.Field).Name() == field && (x.X == e || singleStoreOf(x.X) == e)
	case *ssa.UnOp:
		if fa, ok := x.X.(*ssa.FieldAddr); ok && x.Op == token.MUL && fieldOfAddr(fa).Name() == field {
			if fa.X == e {
				return true
			}
			if al, isAl := fa.X.(*ssa.Alloc); isAl {
				if sv, one := singleStore(al); one && unwrap(sv) == e {
					return true
				}
				// a by-value parameter spilled to a cell: one store of the parameter
				n, okp := 0, false
				for _, r := range *al.Referrers() {
					if st, isSt := r.(*ssa.Store); isSt && st.Addr == ssa.Value(al) {
						n++
						okp = unwrap(st.Val) == e
					}
				}
				return n == 1 && okp
			}
		}
	}
	return false
}

// observerCallbacksBound (C12/C16/C03): what an observer reports reaches the stream: every function handed to the observer
// constructor — the listener and the end listener — is a method value of the stream (or a closure that does nothing but
// forward its argument to one), not a closure with a mind of its own: a once-only end listener swallows the second end
// of a re-opened vBucket (the observer is reused across the re-open), a filtering listener drops events.
func observerCallbacksBound(c *Ctx, id string) {
	w := c.W
	oi := observerInfo(c, id)
	n := 0
	for _, fn := range w.ModFuncs {
		if fn.Parent() != nil {
			continue
		}
		for _, al := range allocsOf(fn, oi.typ) {
			tab, _ := allocTable(al)
			for _, fname0 := range sortedKeys(tab) {
				v := tab[fname0]
				if _, isSig := v.Type().Underlying().(*types.Signature); !isSig {
					continue
				}
				for _, ta := range w.traceToCallers(fn, v, 0) {
					n++
					arg, cs := ta.Val, ta.Site
					c.see(cs.Fn)
					construct := "observer-callback:" + fname0 + "@" + fname(cs.Fn)
					if arg == nil {
						c.Undecided(id, construct, cs.Call.Pos(), "cannot resolve what is handed in for the observer's %s", fname0)
						continue
					}
					m := w.boundMethodOf(arg)
					if m == nil {
						cl := closureOf(arg)
						if cl == nil {
							cl = closureOf(resolveCell(arg)) // (kept in a local the Range callback captured)
						}
						m = w.loggedForwarder(cl) // a closure that logs and forwards
					}
					if m == nil {
						c.Fail(id, construct, cs.Call.Pos(), "the observer's %s is %s — not a method of the stream handed over as it is: what it drops, delays or remembers is invisible to the rules that evaluate the stream's own listener", fname0, w.Origin(arg))
						continue
					}
					c.OK(id, construct, cs.Call.Pos(), "%s ← %s", fname0, fname(m))
				}
			}
		}
	}
	c.Floor(id, 2)
	c.need(n >= 2, id, "the functions handed to the observer constructor")
}

// wrappersWaitOnlyForTheirOp (C20): a wrapper of an asynchronous gocbcore operation returns by its deadline only if
// nothing else can hold it up: in the function that issues the operation (and what it calls inside the module, two
// levels) every wait is either the operation record's own (its Wait / Resolve) or on a channel the wrapper made
// itself for this call's result. A slot taken from a shared limiter, a lock or a shared queue in front of the
// operation is waited for without any deadline — and when the wrapper is re-entered on a path of its own (the rollback
// branch of the stream request fetches the fail-over log) the slots run out exactly when every caller needs a second one.
func wrappersWaitOnlyForTheirOp(c *Ctx, id string) {
	w := c.W
	seen := map[*ssa.Function]bool{}
	n := 0
	for _, s := range asyncSites(w) {
		fn := rootFn(s.Fn)
		if seen[fn] {
			continue
		}
		seen[fn] = true
		n++
		c.see(fn)
		var ownChan func(ch ssa.Value, at *ssa.Function, depth int) bool
		ownChan = func(ch ssa.Value, at *ssa.Function, depth int) bool { // made by the very function (wrapper or nested wrapper) that waits on it
			v := resolveCell(ch)
			if mk, ok := v.(*ssa.MakeChan); ok {
				return rootFn(mk.Parent()) == rootFn(at)
			}
			// … or handed to a helper that does the waiting for it (`awaitResult(opm, op, err, resCh, errCh)`): every caller
			// hands in a channel of its own
			if p, ok := v.(*ssa.Parameter); ok && depth < 2 {
				g := p.Parent()
				sites := w.callersOf(g)
				if len(sites) == 0 {
					return false
				}
				for _, cs := range sites {
					a := argOfParam(cs.Call.Common(), g, p)
					if a == nil || !ownChan(a, cs.Fn, depth+1) {
						return false
					}
				}
				return true
			}
			return false
		}
		ops := w.blockingOps(fn, func(in ssa.Instruction) bool {
			if p := in.Parent(); p != nil {
				r := rootFn(p)
				if r.Signature.Recv() != nil && strings.Contains(strings.ToLower(recvTypeName(r.Signature.Recv().Type())), "asyncop") {
					return true // the operation record's own wait
				}
			}
			switch x := in.(type) {
			case *ssa.Send:
				return ownChan(x.Chan, in.Parent(), 0)
			case *ssa.UnOp:
				return x.Op.String() == "<-" && ownChan(x.X, in.Parent(), 0)
			case ssa.CallInstruction:
				// a fan-out the wrapper joins itself (one request per node): its own WaitGroup
				if strings.HasSuffix(calleeName(x.Common()), "WaitGroup).Wait") && len(x.Common().Args) == 1 {
					if al := rootAlloc(x.Common().Args[0]); al != nil && rootFn(al.Parent()) == rootFn(in.Parent()) {
						return true
					}
				}
			}
			return false
		})
		c.Check(len(ops) == 0, id, "wrapper-waits@"+fname(fn), fn.Pos(), "waits for its operation and its own result channel only", fname(fn)+" can also wait for "+strings.Join(ops, ", ")+" — a wait no deadline bounds, in front of or around the operation")
	}
	c.Floor(id, 8)
	c.need(n >= 8, id, "wrappers of asynchronous operations")
}

// errorsAsFresh (C20/C15): a classification is of the error at hand. The target of errors.As holds what the last
// successful call found — also one for another error, in an earlier iteration or an earlier call; so wherever the
// module reads such a target, the read is reached only through the true result of an errors.As on that target. A
// target hoisted out of a loop and read without consulting the result classifies a time-out as the "not found" of the
// vBucket before it.
func errorsAsFresh(c *Ctx, id string) {
	w := c.W
	n := 0
	var bad []string
	for _, fn := range w.ModFuncs {
		targets := map[ssa.Value][]*ssa.Call{}
		allInstrs(fn, func(in ssa.Instruction) {
			call, ok := in.(*ssa.Call)
			if !ok || calleeName(call.Common()) != "errors.As" || len(call.Common().Args) != 2 {
				return
			}
			t := unwrap(call.Common().Args[1]) // MakeInterface is unwrapped: the address of the target
			targets[t] = append(targets[t], call)
		})
		for t, calls := range targets {
			n += len(calls)
			refs := t.Referrers()
			if refs == nil {
				continue
			}
			for _, r := range *refs {
				ld, isLd := r.(*ssa.UnOp)
				if !isLd || ld.Op != token.MUL {
					continue
				}
				ok := false
				for _, call := range calls {
					if guardedBy(ld.Block(), true, func(v ssa.Value) bool { return v == ssa.Value(call) }) {
						ok = true
					}
				}
				if !ok {
					bad = append(bad, fmt.Sprintf("%s reads the errors.As target %s @%s without being under a true result of errors.As on it", fname(fn), w.Origin(t), w.pos(ld.Pos())))
				}
			}
		}
	}
	sort.Strings(bad)
	c.Check(len(bad) == 0, id, "errors-as-fresh", 0, fmt.Sprintf("%d errors.As calls: every read of a target is under the true result of an errors.As on it", n), strings.Join(dedupStrings(bad), "; ")+" — a stale classification (of an earlier error) decides what happens to this one")
	c.need(n >= 1, id, "errors.As calls in the module")
}

// loggedForwarder: cl is a closure that, besides writing log lines, does exactly one thing: it calls one method of a
// captured receiver once, unconditionally, outside any loop, with its own parameters in order — the method it forwards to.
func (w *World) loggedForwarder(cl *ssa.Function) *ssa.Function {
	if cl == nil || cl.Parent() == nil || len(cl.Blocks) == 0 || len(cl.AnonFuncs) != 0 {
		return nil
	}
	var target *ssa.Function
	ok := true
	cyc := cycleBlocks(cl)
	allInstrs(cl, func(in ssa.Instruction) {
		switch x := in.(type) {
		case *ssa.Store, *ssa.Send, *ssa.MapUpdate, *ssa.Go, *ssa.Defer, *ssa.Select, *ssa.Panic:
			if st, isSt := x.(*ssa.Store); isSt && rootAlloc(st.Addr) != nil {
				return // (a local: the variadic slice of a log call)
			}
			ok = false
		case *ssa.Call:
			cc := x.Common()
			name := calleeName(cc)
			if strings.Contains(name, "logger.") || strings.HasPrefix(name, "fmt.") {
				return
			}
			callee := cc.StaticCallee()
			if callee == nil || !w.inModule(callee) || callee.Signature.Recv() == nil || target != nil || len(cc.Args) != 1+len(cl.Params) || len(guardsOf(in.Block())) != 0 || cyc[in.Block()] {
				ok = false
				return
			}
			for i, p := range cl.Params {
				if a := unwrap(cc.Args[1+i]); a != ssa.Value(p) && singleStoreOf(a) != ssa.Value(p) { // (a by-value struct parameter is read through the cell it was spilled to)
					ok = false
				}
			}
			if !strings.HasPrefix(w.Origin(cc.Args[0]), "recv") {
				ok = false
			}
			target = callee
		}
	})
	if !ok {
		if os.Getenv("DV_DEBUG") != "" {
			fmt.Fprintln(os.Stderr, "loggedForwarder rejects", fname(cl))
		}
		return nil
	}
	return target
}

// observersFreshPerOpen (C06): the snapshot a data event is tested against is the one announced on its own stream. Every
// observer put into the stream's observer map is the result of the observer constructor, called right there — no
// observer (with the snapshot, branch id and catch-up state of an earlier stream) is carried over a Close.
func observersFreshPerOpen(c *Ctx, id string) {
	w := c.W
	oi := observerInfo(c, id)
	var ctors []*ssa.Function
	for _, fn := range w.ModFuncs {
		if fn.Parent() == nil && len(allocsOf(fn, oi.typ)) > 0 {
			ctors = append(ctors, fn)
		}
	}
	n := 0
	for _, fn := range w.ModFuncs {
		allInstrs(fn, func(in ssa.Instruction) {
			cc := callOf(in)
			m, recv := csmapMethod(cc)
			if m == "" || !csmapMutators[m] || !strings.Contains(recv.Type().String(), "Observer]") || isWrapperMethod(rootFn(fn)) {
				return
			}
			n++
			c.see(fn)
			construct := "observer-map:" + m + "@" + fname(fn)
			if m != "Store" || len(cc.Args) != 3 {
				c.Fail(id, construct, in.Pos(), "the observer map is changed with %s", m)
				return
			}
			v := unwrap(cc.Args[2])
			ok := false
			// the constructor itself, or a same-package helper that returns the constructor's result
			for depth := 0; depth < 3 && !ok; depth++ {
				call, isCall := v.(*ssa.Call)
				if !isCall || call.Common().StaticCallee() == nil {
					break
				}
				g := call.Common().StaticCallee()
				for _, k := range ctors {
					if g == k {
						ok = true
					}
				}
				if ok {
					break
				}
				// an exported constructor that delegates, or a helper of the stream: follow its single return
				var ret ssa.Value
				nRet := 0
				if g.Blocks != nil && w.inModule(g) {
					allInstrs(g, func(x ssa.Instruction) {
						if r, isR := x.(*ssa.Return); isR && x.Parent() == g && len(r.Results) == 1 {
							nRet++
							ret = unwrap(r.Results[0])
						}
					})
				}
				if nRet != 1 {
					break
				}
				if al := asAlloc(ret); al != nil && recvTypeName(al.Type()) == oi.typ.Obj().Name() {
					ok = true
					break
				}
				v = ret
			}
			c.Check(ok, id, construct, in.Pos(), "every observer stored is built by the observer constructor at that place", "the observer map receives "+w.Origin(cc.Args[2])+" — not a freshly constructed observer: snapshot, branch id and catch-up state of an earlier stream would be carried into this one")
		})
	}
	c.Floor(id, 1)
	c.need(n >= 1, id, "stores into the stream's observer map")
}

func isStringType(t types.Type) bool {
	b, ok := t.Underlying().(*types.Basic)
	return ok && b.Kind() == types.String
}
