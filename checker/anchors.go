package main

// anchors.go — semantic discovery of the repository's roles (who is the position writer, which
// types are document events, which functions are stream-observer handlers, …).

import (
	"go/constant"
	"go/types"
	"sort"
	"strings"

	"golang.org/x/tools/go/ssa"
)

// isCSMapOf: t is *wrapper.ConcurrentSwissMap[K,V] with V satisfying pred.
func isCSMapOf(t types.Type, pred func(v types.Type) bool) bool {
	if p, ok := t.Underlying().(*types.Pointer); ok {
		t = p.Elem()
	}
	n, ok := types.Unalias(t).(*types.Named)
	if !ok || n.Obj().Name() != "ConcurrentSwissMap" || n.Obj().Pkg() == nil || !strings.HasSuffix(n.Obj().Pkg().Path(), "/wrapper") {
		return false
	}
	ta := n.TypeArgs()
	if ta == nil || ta.Len() != 2 {
		return false
	}
	return pred(ta.At(1))
}

func (w *World) isOffsetPtr(t types.Type) bool {
	p, ok := t.Underlying().(*types.Pointer)
	if !ok {
		return false
	}
	off := w.NamedType("models", "Offset")
	return off != nil && types.Identical(types.Unalias(p.Elem()), off)
}

func (w *World) isOffsetMap(t types.Type) bool { return isCSMapOf(t, w.isOffsetPtr) }

func isBool(t types.Type) bool {
	b, ok := t.Underlying().(*types.Basic)
	return ok && b.Kind() == types.Bool
}

func (w *World) isDirtyMap(t types.Type) bool { return isCSMapOf(t, isBool) }

// freshMap: v is the result of wrapper.CreateConcurrentSwissMap called in the same function.
func freshMap(v ssa.Value) bool {
	c, ok := unwrap(v).(*ssa.Call)
	if !ok {
		return false
	}
	if isStaticCall(c.Common(), "/wrapper", "", "CreateConcurrentSwissMap") {
		return true
	}
	// a constructor helper of the module whose single block returns such a call (`newVbMap[X]()`)
	if g := c.Common().StaticCallee(); g != nil && len(g.Blocks) == 1 && strings.HasPrefix(pkgPathOf(g), modPath) {
		for _, in := range g.Blocks[0].Instrs {
			if r, isR := in.(*ssa.Return); isR && len(r.Results) == 1 {
				if c2, isC := unwrap(r.Results[0]).(*ssa.Call); isC && isStaticCall(c2.Common(), "/wrapper", "", "CreateConcurrentSwissMap") {
					return true
				}
			}
		}
	}
	return false
}

// gocbEventKinds are the three document event kinds of gocbcore.
var docKinds = []string{"DcpMutation", "DcpDeletion", "DcpExpiration"}

// embeddedGocbEvent returns the name of the gocbcore event type a models wrapper struct embeds by pointer ("" if none).
func embeddedGocbEvent(t types.Type) string {
	n, ok := types.Unalias(t).(*types.Named)
	if !ok {
		return ""
	}
	st, ok := n.Underlying().(*types.Struct)
	if !ok {
		return ""
	}
	for i := 0; i < st.NumFields(); i++ {
		f := st.Field(i)
		if !f.Embedded() {
			continue
		}
		if p, ok := f.Type().(*types.Pointer); ok {
			if en, ok := types.Unalias(p.Elem()).(*types.Named); ok && en.Obj().Pkg() != nil && strings.Contains(en.Obj().Pkg().Path(), "gocbcore") {
				return en.Obj().Name()
			}
		}
	}
	return ""
}

func isDocKind(k string) bool {
	for _, d := range docKinds {
		if d == k {
			return true
		}
	}
	return false
}

// docEventWrapper: t is a models wrapper type of a document event.
func isDocEventWrapper(t types.Type) bool { return isDocKind(embeddedGocbEvent(t)) }

// positionWriters: functions that mutate an offset map which is not a map created in the same function.
type mapMutation struct {
	Fn     *ssa.Function
	Call   ssa.CallInstruction
	Method string
	Recv   ssa.Value
}

func (w *World) offsetMapMutations() []mapMutation {
	var out []mapMutation
	for _, fn := range w.ModFuncs {
		if isWrapperMethod(rootFn(fn)) {
			continue // the wrapper's own methods
		}
		allInstrs(fn, func(in ssa.Instruction) {
			ci, ok := in.(ssa.CallInstruction)
			if !ok {
				return
			}
			m, recv := csmapMethod(ci.Common())
			if m == "" || !csmapMutators[m] || !w.isOffsetMap(recv.Type()) {
				return
			}
			out = append(out, mapMutation{fn, ci, m, recv})
		})
	}
	return out
}

// positionWriterCores: the functions holding a mutation of a non-fresh offset map.
func (w *World) positionWriterCores() []*ssa.Function {
	seen := map[*ssa.Function]bool{}
	var out []*ssa.Function
	for _, m := range w.offsetMapMutations() {
		if freshMapIn(m.Recv, m.Fn) {
			continue
		}
		if !seen[m.Fn] {
			seen[m.Fn] = true
			out = append(out, m.Fn)
		}
	}
	return out
}

// positionWriterFuncs: the position writers as the rest of the module sees them. Normally that is the function that
// holds the store (it takes the dirty flag). When that function takes no flag and is called only by methods of its own
// type that hand it their own (vbID, offset) — `setOffset` / `setDirtyOffset` over a shared `storeOffset` — the writer
// is split by mode: each of those methods is a writer whose dirty flag is a constant, true for the one that marks.
func (w *World) positionWriterFuncs() []*ssa.Function {
	if w.pwCache != nil {
		return w.pwCache
	}
	w.pwMode = map[*ssa.Function]bool{}
	w.pwCore = map[*ssa.Function]*ssa.Function{}
	var out []*ssa.Function
	for _, core := range w.positionWriterCores() {
		in := w.writerInputsRaw(core)
		if in.dirty != nil || in.vb == nil || in.off == nil || core.Signature.Recv() == nil {
			out = append(out, core)
			continue
		}
		var modes []*ssa.Function
		ok := true
		sites := w.callersOf(core)
		for _, cs := range sites {
			e := rootFn(cs.Fn)
			ein := w.writerInputsRaw(e)
			if cs.Fn != e || e.Signature.Recv() == nil || recvTypeName(e.Signature.Recv().Type()) != recvTypeName(core.Signature.Recv().Type()) || ein.vb == nil || ein.off == nil || ein.dirty != nil {
				ok = false
				break
			}
			if w.Origin(argOfVParam(cs.Call.Common(), core, *in.vb)) != ein.vb.Term() || w.Origin(argOfVParam(cs.Call.Common(), core, *in.off)) != ein.off.Term() {
				ok = false
				break
			}
			dup := false
			for _, m := range modes {
				if m == e {
					dup = true
				}
			}
			if dup {
				ok = false // one call of the core per mode
				break
			}
			modes = append(modes, e)
		}
		if !ok || len(modes) < 2 {
			out = append(out, core)
			continue
		}
		for _, e := range modes {
			marks := false
			for _, f := range withAnon(e) {
				allInstrs(f, func(x ssa.Instruction) {
					if cc := callOf(x); cc != nil {
						if m, recv := csmapMethod(cc); m != "" && csmapMutators[m] && !w.isOffsetMap(recv.Type()) {
							marks = true
						}
					}
					if fw, _, val := flagWrite(x); fw != nil && w.Origin(val) == "const(true)" {
						marks = true
					}
				})
			}
			w.pwMode[e] = marks
			w.pwCore[e] = core
			out = append(out, e)
		}
	}
	sort.Slice(out, func(i, j int) bool { return fname(out[i]) < fname(out[j]) })
	w.pwCache = out
	return out
}

// writerModeConst: for a writer that is one mode of a split writer, the dirty flag it stands for, as a constant.
func (w *World) writerModeConst(pw *ssa.Function) (ssa.Value, bool) {
	w.positionWriterFuncs()
	m, ok := w.pwMode[pw]
	if !ok {
		return nil, false
	}
	return ssa.NewConst(constant.MakeBool(m), types.Typ[types.Bool]), true
}

// freshMapIn: receiver value resolves (through single-store cells and closure bindings) to a map created
// by CreateConcurrentSwissMap in the enclosing source function.
var depthFresh int

func freshMapIn(v ssa.Value, fn *ssa.Function) bool {
	for i := 0; i < 8; i++ {
		v = unwrap(v)
		if freshMap(v) {
			return true
		}
		switch x := v.(type) {
		case *ssa.FreeVar:
			b, ok := bindingOf(x)
			if !ok {
				return false
			}
			v = b
			continue
		case *ssa.UnOp:
			switch a := x.X.(type) {
			case *ssa.FieldAddr:
				// a field of a carrier: an unexported struct of the module whose field is only ever set where the carrier is
				// built, from a map that is fresh there (`&restorer{offsets: offsets}` handed to Range as a method value)
				f := fieldOfAddr(a)
				if f == nil || f.Exported() || curWorld == nil || depthFresh > 2 {
					return false
				}
				stores := curWorld.fieldStores(f)
				if len(stores) == 0 {
					return false
				}
				depthFresh++
				defer func() { depthFresh-- }()
				for _, st := range stores {
					if rootAlloc(st.Store.Addr) == nil || !freshMapIn(st.Store.Val, st.Fn) {
						return false
					}
				}
				return true
			case *ssa.Alloc:
				s, ok := singleStore(a)
				if !ok {
					return false
				}
				v = s
				continue
			case *ssa.FreeVar:
				b, ok := bindingOf(a)
				if !ok {
					return false
				}
				if al, ok := b.(*ssa.Alloc); ok {
					s, ok := singleStore(al)
					if !ok {
						return false
					}
					v = s
					continue
				}
				return false
			}
		}
		return false
	}
	return false
}

// callersOf lists the call instructions (call/go/defer) in the module whose static callee is target.
type callSite struct {
	Fn   *ssa.Function
	Call ssa.CallInstruction
}

func (w *World) callersOf(target *ssa.Function) []callSite {
	var out []callSite
	for _, fn := range w.ModFuncs {
		allInstrs(fn, func(in ssa.Instruction) {
			if ci, ok := in.(ssa.CallInstruction); ok {
				if ci.Common().StaticCallee() == target {
					out = append(out, callSite{fn, ci})
				}
			}
		})
	}
	return out
}

// usesAsValue lists the places where target is used as a function value (method value, closure, argument).
func (w *World) usesAsValue(target *ssa.Function) []ssa.Instruction {
	var out []ssa.Instruction
	for _, fn := range w.ModFuncs {
		allInstrs(fn, func(in ssa.Instruction) {
			for _, op := range in.Operands(nil) {
				if *op == nil {
					continue
				}
				if f, ok := (*op).(*ssa.Function); ok && f == target {
					if ci, isCall := in.(ssa.CallInstruction); isCall && ci.Common().Value == f {
						continue
					}
					out = append(out, in)
				}
				// bound method closures: target$bound
				if mc, ok := (*op).(*ssa.MakeClosure); ok {
					if bf, ok := mc.Fn.(*ssa.Function); ok && strings.HasSuffix(bf.Name(), "$bound") && bf.Object() == target.Object() && target.Object() != nil {
						out = append(out, in)
					}
				}
			}
		})
	}
	return out
}

// streamObserverHandlers: the methods of the module type that is passed to gocbcore as StreamObserver
// (today couchbase.observer), restricted to the method set of gocbcore.StreamObserver.
func (w *World) streamObserverIface() *types.Interface {
	for _, p := range w.Pkgs {
		for _, imp := range p.Types.Imports() {
			if strings.HasSuffix(imp.Path(), "gocbcore/v10") {
				if o := imp.Scope().Lookup("StreamObserver"); o != nil {
					if it, ok := o.Type().Underlying().(*types.Interface); ok {
						return it
					}
				}
			}
		}
	}
	return nil
}

// observerImpls returns the concrete module types whose pointer implements gocbcore.StreamObserver.
func (w *World) observerImpls() []*types.Named {
	it := w.streamObserverIface()
	if it == nil {
		return nil
	}
	var out []*types.Named
	for _, rel := range sortedKeys(w.Pkgs) {
		p := w.Pkgs[rel]
		sc := p.Types.Scope()
		for _, name := range sc.Names() {
			tn, ok := sc.Lookup(name).(*types.TypeName)
			if !ok || tn.IsAlias() {
				continue
			}
			n, ok := tn.Type().(*types.Named)
			if !ok {
				continue
			}
			if _, isStruct := n.Underlying().(*types.Struct); !isStruct {
				continue
			}
			if types.Implements(types.NewPointer(n), it) {
				out = append(out, n)
			}
		}
	}
	return out
}

// handlers maps StreamObserver method name → implementation for the given type.
func (w *World) handlers(n *types.Named) map[string]*ssa.Function {
	out := map[string]*ssa.Function{}
	it := w.streamObserverIface()
	if it == nil {
		return out
	}
	for i := 0; i < it.NumMethods(); i++ {
		m := it.Method(i)
		sel := w.Prog.MethodSets.MethodSet(types.NewPointer(n)).Lookup(m.Pkg(), m.Name())
		if sel == nil {
			continue
		}
		if f := w.Prog.MethodValue(sel); f != nil && f.Blocks != nil {
			out[m.Name()] = f
		}
	}
	return out
}

// implementations of a module interface method: all module concrete types implementing iface.
func (w *World) implsOf(ifaceRel, ifaceName, method string) []*ssa.Function {
	in := w.NamedType(ifaceRel, ifaceName)
	if in == nil {
		return nil
	}
	it, ok := in.Underlying().(*types.Interface)
	if !ok {
		return nil
	}
	var out []*ssa.Function
	for _, rel := range sortedKeys(w.Pkgs) {
		sc := w.Pkgs[rel].Types.Scope()
		for _, name := range sc.Names() {
			tn, ok := sc.Lookup(name).(*types.TypeName)
			if !ok || tn.IsAlias() {
				continue
			}
			n, ok := tn.Type().(*types.Named)
			if !ok || n.TypeParams() != nil {
				continue
			}
			if _, isIface := n.Underlying().(*types.Interface); isIface {
				continue
			}
			for _, t := range []types.Type{types.NewPointer(n), n} {
				if types.Implements(t, it) {
					if sel := w.Prog.MethodSets.MethodSet(t).Lookup(n.Obj().Pkg(), method); sel != nil {
						f := w.Prog.MethodValue(sel)
						if f != nil && f.Synthetic != "" {
							// a value-receiver method seen through the pointer method set: the declared method
							if obj, isFn := sel.Obj().(*types.Func); isFn && len(sel.Index()) == 1 {
								if d := w.Prog.FuncValue(obj); d != nil && d.Blocks != nil && d.Synthetic == "" {
									f = d
								}
							}
						}
						if f != nil && f.Blocks != nil && f.Synthetic == "" {
							// a proven pass-through of a layer type is not an implementation of its own: C20.R19 judges it (the
							// read-only metadata wrapper is a layer the rules know and inspect themselves)
							if n.Obj().Name() != "readMetadata" && w.isExactPassThrough(f, ifaceName) {
								continue
							}
							out = append(out, f)
						}
					}
					break
				}
			}
		}
	}
	return out
}

// isWrapperMethod: fn is (an instantiation of) a method of wrapper.ConcurrentSwissMap.
func isWrapperMethod(fn *ssa.Function) bool {
	if o := fn.Origin(); o != nil {
		fn = o
	}
	obj, ok := fn.Object().(*types.Func)
	if !ok || obj.Pkg() == nil || !strings.HasSuffix(obj.Pkg().Path(), "/wrapper") {
		return false
	}
	sig := obj.Type().(*types.Signature)
	return sig.Recv() != nil && recvTypeName(sig.Recv().Type()) == "ConcurrentSwissMap"
}

// discoveryMetricField: the field of the vBucket discovery that holds its metric record (found by its type).
func (w *World) discoveryMetricField() string {
	if dt := w.NamedType("stream", "vBucketDiscovery"); dt != nil {
		if st, ok := dt.Underlying().(*types.Struct); ok {
			for i := 0; i < st.NumFields(); i++ {
				if strings.HasSuffix(st.Field(i).Type().String(), "VBucketDiscoveryMetric") {
					return st.Field(i).Name()
				}
			}
		}
	}
	return "vBucketDiscoveryMetric"
}

// serialCloseField: the field of the stream that holds the state of the serial (pre-5.5) close — found by its role: a
// pointer to a struct of the stream package that carries the token channel. Falls back to the name known today.
func (w *World) serialCloseField() (name string, data *types.Named) {
	if dt := w.NamedType("stream", "stream"); dt != nil {
		if st, ok := dt.Underlying().(*types.Struct); ok {
			for i := 0; i < st.NumFields(); i++ {
				p, ok := st.Field(i).Type().(*types.Pointer)
				if !ok {
					continue
				}
				n, ok := p.Elem().(*types.Named)
				if !ok || n.Obj().Pkg() == nil || n.Obj().Pkg() != dt.Obj().Pkg() {
					continue
				}
				ds, ok := n.Underlying().(*types.Struct)
				if !ok {
					continue
				}
				hasChan, hasBool := false, false
				for j := 0; j < ds.NumFields(); j++ {
					switch u := ds.Field(j).Type().Underlying().(type) {
					case *types.Chan:
						hasChan = true
					case *types.Basic:
						hasBool = hasBool || u.Kind() == types.Bool
					}
				}
				if hasChan && hasBool && ds.NumFields() <= 3 {
					return st.Field(i).Name(), n
				}
			}
		}
	}
	return "streamEndNotSupportedData", w.NamedType("stream", "streamEndNotSupportedData")
}

// funcTableOf: v is an element of a package-level slice of the module that is assigned once, by its package initialiser,
// from a literal of functions or capture-free function literals — the functions of that table, in order.
func (w *World) funcTableOf(v ssa.Value) []*ssa.Function {
	var g *ssa.Global
	x := unwrap(v)
	for i := 0; i < 6 && g == nil; i++ {
		switch y := x.(type) {
		case *ssa.UnOp:
			if gg, ok := y.X.(*ssa.Global); ok {
				g = gg
			} else {
				x = y.X
			}
		case *ssa.IndexAddr:
			x = y.X
		case *ssa.Index:
			x = y.X
		case *ssa.Extract: // range over the slice: next(range(table))
			x = y.Tuple
		case *ssa.Next:
			x = y.Iter
		case *ssa.Range:
			x = y.X
		default:
			return nil
		}
	}
	if g == nil || g.Pkg == nil || !strings.HasPrefix(g.Pkg.Pkg.Path(), modPath) {
		return nil
	}
	if _, isSlice := g.Type().(*types.Pointer).Elem().Underlying().(*types.Slice); !isSlice {
		return nil
	}
	var stores []*ssa.Store
	for _, fn := range w.ModFuncs {
		allInstrs(fn, func(in ssa.Instruction) {
			if st, ok := in.(*ssa.Store); ok && st.Addr == ssa.Value(g) {
				stores = append(stores, st)
			}
		})
	}
	if len(stores) != 1 || stores[0].Parent().Name() != "init" {
		return nil
	}
	sl, ok := stores[0].Val.(*ssa.Slice)
	if !ok {
		return nil
	}
	arr, ok := sl.X.(*ssa.Alloc)
	if !ok {
		return nil
	}
	at, ok := arr.Type().(*types.Pointer).Elem().Underlying().(*types.Array)
	if !ok {
		return nil
	}
	out := make([]*ssa.Function, int(at.Len()))
	for _, r := range *arr.Referrers() {
		ia, ok := r.(*ssa.IndexAddr)
		if !ok {
			continue
		}
		idx, ok := ia.Index.(*ssa.Const)
		if !ok {
			return nil
		}
		for _, r2 := range *ia.Referrers() {
			if st, ok := r2.(*ssa.Store); ok && st.Addr == ssa.Value(ia) {
				val := st.Val
				if ct, isCT := val.(*ssa.ChangeType); isCT { // a named function type
					val = ct.X
				}
				switch e := val.(type) {
				case *ssa.Function:
					out[int(idx.Int64())] = e
				case *ssa.MakeClosure:
					if f, isF := e.Fn.(*ssa.Function); isF && len(e.Bindings) == 0 {
						out[int(idx.Int64())] = f
					}
				}
			}
		}
	}
	for _, f := range out {
		if f == nil {
			return nil
		}
	}
	return out
}

// pwInputs: the formal inputs of a position writer by type — the vBucket id (uint16), the offset (*models.Offset), the
// dirty flag (bool) — whether they are parameters or fields of a parameter bundle.
type pwInputs struct{ vb, off, dirty *vparam }

func (w *World) writerInputs(pw *ssa.Function) pwInputs { return w.writerInputsRaw(pw) }

func (w *World) writerInputsRaw(pw *ssa.Function) pwInputs {
	var r pwInputs
	for _, v := range vparams(pw) {
		v := v
		switch {
		case w.isOffsetPtr(v.Type()):
			r.off = &v
		case isUint16(v.Type()):
			r.vb = &v
		case isBool(v.Type()):
			r.dirty = &v
		}
	}
	return r
}

// writerArgs: what a call of the position writer hands in for (vbID, offset, dirty).
func (w *World) writerArgs(cc *ssa.CallCommon, pw *ssa.Function) (vb, off, dirty ssa.Value) {
	in := w.writerInputs(pw)
	if in.vb != nil {
		vb = argOfVParam(cc, pw, *in.vb)
	}
	if in.off != nil {
		off = argOfVParam(cc, pw, *in.off)
	}
	if in.dirty != nil {
		dirty = argOfVParam(cc, pw, *in.dirty)
	} else if k, isMode := w.writerModeConst(pw); isMode {
		dirty = k // one mode of a split writer: the flag is what the mode stands for
	}
	return
}

// traceToCallers: v, a value in fn, is one of fn's formal inputs (a parameter or a field of a parameter bundle): what
// the callers hand in for it — followed upwards while that is again a formal input of the caller (an exported
// constructor that packs its parameters into a bundle for an unexported one). Empty when v is not a formal input.
type tracedArg struct {
	Val  ssa.Value
	Site callSite
}

func (w *World) traceToCallers(fn *ssa.Function, v ssa.Value, depth int) []tracedArg {
	o := w.Origin(v)
	var out []tracedArg
	for _, vp := range vparams(fn) {
		if vp.Term() != o {
			continue
		}
		for _, cs := range w.callersOf(fn) {
			a := argOfVParam(cs.Call.Common(), fn, vp)
			if a == nil {
				out = append(out, tracedArg{nil, cs})
				continue
			}
			if depth < 3 {
				if sub := w.traceToCallers(rootFn(cs.Fn), a, depth+1); len(sub) > 0 {
					out = append(out, sub...)
					continue
				}
			}
			out = append(out, tracedArg{a, cs})
		}
		return out
	}
	return nil
}
