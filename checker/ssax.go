package main

// ssax.go — SSA/CFG helpers: call-site resolution, dominance guards, path queries (P2/P3).

import (
	"fmt"
	"go/token"
	"go/types"
	"sort"
	"strings"

	"golang.org/x/tools/go/ssa"
)

// allInstrs iterates over the instructions of fn.
func allInstrs(fn *ssa.Function, f func(ssa.Instruction)) {
	for _, b := range fn.Blocks {
		for _, in := range b.Instrs {
			f(in)
		}
	}
}

// withAnon returns fn and every anonymous function nested in it.
func withAnon(fn *ssa.Function) []*ssa.Function {
	out := []*ssa.Function{fn}
	for _, a := range fn.AnonFuncs {
		out = append(out, withAnon(a)...)
	}
	return out
}

// callCommon of an instruction, nil when it is not a call/go/defer.
func callOf(in ssa.Instruction) *ssa.CallCommon {
	if ci, ok := in.(ssa.CallInstruction); ok {
		return ci.Common()
	}
	return nil
}

// calleeName describes the callee of a call for diagnostics and coarse matching.
func calleeName(cc *ssa.CallCommon) string {
	if cc.IsInvoke() {
		return "invoke " + shortType(cc.Value.Type()) + "." + cc.Method.Name()
	}
	if f := cc.StaticCallee(); f != nil {
		return fname(f)
	}
	return "dynamic " + cc.Value.Name()
}

// isInvokeOf: interface method call on an interface type named ifaceName (any package) — method name.
func isInvokeOf(cc *ssa.CallCommon, ifaceName, method string) bool {
	if cc == nil || !cc.IsInvoke() || cc.Method.Name() != method {
		return false
	}
	if ifaceName == "" || recvTypeName(cc.Value.Type()) == ifaceName {
		return true
	}
	// a narrower module-local view of the named interface (an unexported interface listing some of its methods,
	// holding the very same value) is the same call
	vt, ok := cc.Value.Type().(*types.Named)
	if !ok || vt.Obj().Pkg() == nil || !strings.HasPrefix(vt.Obj().Pkg().Path(), modPath) {
		return false
	}
	vi, ok := vt.Underlying().(*types.Interface)
	if !ok || vi.NumMethods() == 0 {
		return false
	}
	for _, nt := range moduleIfaces[ifaceName] {
		if types.Implements(nt, vi) {
			return true
		}
	}
	return false
}

// isStaticCall: static callee identified by package-path suffix, receiver type name and name.
// Generic instantiations are matched through their origin.
func isStaticCall(cc *ssa.CallCommon, pkgSuffix, recv, name string) bool {
	if cc == nil || cc.IsInvoke() {
		return false
	}
	f := cc.StaticCallee()
	if f == nil {
		return false
	}
	return isSSAFunc(f, pkgSuffix, recv, name)
}

func isSSAFunc(f *ssa.Function, pkgSuffix, recv, name string) bool {
	if f == nil {
		return false
	}
	if o := f.Origin(); o != nil {
		f = o
	}
	obj, ok := f.Object().(*types.Func)
	if !ok {
		return false
	}
	return isFunc(obj, pkgSuffix, recv, name)
}

// csmapMethod returns the method name when the call is a method of wrapper.ConcurrentSwissMap
// (any instantiation), and the receiver value.
func csmapMethod(cc *ssa.CallCommon) (string, ssa.Value) {
	if cc == nil || cc.IsInvoke() {
		return "", nil
	}
	f := cc.StaticCallee()
	if f == nil {
		return "", nil
	}
	if o := f.Origin(); o != nil {
		f = o
	}
	obj, ok := f.Object().(*types.Func)
	if !ok || obj.Pkg() == nil || !strings.HasSuffix(obj.Pkg().Path(), "/wrapper") {
		return "", nil
	}
	sig := obj.Type().(*types.Signature)
	if sig.Recv() == nil || recvTypeName(sig.Recv().Type()) != "ConcurrentSwissMap" {
		return "", nil
	}
	if len(cc.Args) == 0 {
		return "", nil
	}
	return obj.Name(), cc.Args[0]
}

var csmapMutators = map[string]bool{"Store": true, "StoreIf": true, "Delete": true, "UnmarshalJSON": true}

// instrBefore reports whether a precedes b inside one block.
func instrBefore(a, b ssa.Instruction) bool {
	if a.Block() != b.Block() {
		return false
	}
	for _, in := range a.Block().Instrs {
		if in == a {
			return true
		}
		if in == b {
			return false
		}
	}
	return false
}

// dominatesInstr: every path from the function entry to b executes a first.
func dominatesInstr(a, b ssa.Instruction) bool {
	if a.Block() == b.Block() {
		return instrBefore(a, b)
	}
	return a.Block().Dominates(b.Block())
}

// Guard is a branch decision that holds whenever a block executes.
type Guard struct {
	If     *ssa.If
	Cond   ssa.Value
	Branch bool // true: the then-edge was taken
}

// guardsOf returns the branch decisions that dominate block b (outermost first):
// an If in a dominator D whose successor S on one edge dominates b, where S is entered only through D.
func guardsOf(b *ssa.BasicBlock) []Guard {
	var out []Guard
	ld := liveDomOf(b.Parent())
	for d := ld.idom[b]; d != nil; d = ld.idom[d] {
		if len(d.Instrs) == 0 {
			continue
		}
		ifi, ok := d.Instrs[len(d.Instrs)-1].(*ssa.If)
		if !ok {
			continue
		}
		for k, s := range d.Succs {
			if len(d.Succs) == 2 && d.Succs[0] == d.Succs[1] {
				continue
			}
			if ld.livePreds(s) == 1 && (s == b || ld.dominates(s, b)) {
				out = append([]Guard{{If: ifi, Cond: ifi.Cond, Branch: k == 0}}, out...)
			}
		}
	}
	return out
}

// liveDom: dominators over the control-flow graph without the edges that leave a block containing a call that never
// returns (`if err != nil { fatal(err) }; rest` — rest is entered only when err == nil although it is a join in the
// graph the compiler front end builds). Without such calls it coincides with the ordinary dominator tree.
type liveDom struct {
	idom map[*ssa.BasicBlock]*ssa.BasicBlock
	dead map[*ssa.BasicBlock]bool
}

var liveDomCache = map[*ssa.Function]*liveDom{}

func (ld *liveDom) livePreds(b *ssa.BasicBlock) int {
	n := 0
	for _, p := range b.Preds {
		if !ld.dead[p] {
			n++
		}
	}
	return n
}

func (ld *liveDom) dominates(a, b *ssa.BasicBlock) bool {
	for x := b; x != nil; x = ld.idom[x] {
		if x == a {
			return true
		}
	}
	return false
}

func liveDomOf(fn *ssa.Function) *liveDom {
	if ld, ok := liveDomCache[fn]; ok {
		return ld
	}
	ld := &liveDom{idom: map[*ssa.BasicBlock]*ssa.BasicBlock{}, dead: map[*ssa.BasicBlock]bool{}}
	liveDomCache[fn] = ld
	anyDead := false
	for _, b := range fn.Blocks {
		if deadEnd(b) {
			ld.dead[b] = true
			anyDead = true
		}
	}
	if !anyDead {
		for _, b := range fn.Blocks {
			ld.idom[b] = b.Idom()
		}
		return ld
	}
	// reverse postorder over live edges
	var order []*ssa.BasicBlock
	seen := map[*ssa.BasicBlock]bool{}
	var dfs func(b *ssa.BasicBlock)
	dfs = func(b *ssa.BasicBlock) {
		seen[b] = true
		if !ld.dead[b] {
			for _, s := range b.Succs {
				if !seen[s] {
					dfs(s)
				}
			}
		}
		order = append(order, b)
	}
	if len(fn.Blocks) == 0 {
		return ld
	}
	dfs(fn.Blocks[0])
	if fn.Recover != nil && !seen[fn.Recover] {
		dfs(fn.Recover)
	}
	for i, j := 0, len(order)-1; i < j; i, j = i+1, j-1 {
		order[i], order[j] = order[j], order[i]
	}
	num := map[*ssa.BasicBlock]int{}
	for i, b := range order {
		num[b] = i
	}
	entry := fn.Blocks[0]
	idom := map[*ssa.BasicBlock]*ssa.BasicBlock{entry: entry}
	intersect := func(a, b *ssa.BasicBlock) *ssa.BasicBlock {
		for a != b {
			for num[a] > num[b] {
				a = idom[a]
			}
			for num[b] > num[a] {
				b = idom[b]
			}
		}
		return a
	}
	for changed := true; changed; {
		changed = false
		for _, b := range order {
			if b == entry {
				continue
			}
			var nd *ssa.BasicBlock
			for _, p := range b.Preds {
				if ld.dead[p] || idom[p] == nil {
					continue
				}
				if _, ok := num[p]; !ok {
					continue
				}
				if nd == nil {
					nd = p
				} else {
					nd = intersect(p, nd)
				}
			}
			if nd != nil && idom[b] != nd {
				idom[b] = nd
				changed = true
			}
		}
	}
	for b, d := range idom {
		if b != entry {
			ld.idom[b] = d
		}
	}
	// blocks unreachable over live edges keep the ordinary dominator
	for _, b := range fn.Blocks {
		if _, ok := ld.idom[b]; !ok && b != entry {
			ld.idom[b] = b.Idom()
		}
	}
	return ld
}

// stripNot removes leading `!` unary ops, flipping the polarity.
func stripNot(v ssa.Value, pol bool) (ssa.Value, bool) {
	for {
		u, ok := v.(*ssa.UnOp)
		if !ok || u.Op != token.NOT {
			return v, pol
		}
		v = u.X
		pol = !pol
	}
}

// stripNotThroughPredicates: as stripNot, and a call of a predicate method of the module (`s.healthCheckEnabled()` for
// `!s.config.HealthCheck.Disabled`) is replaced by what it returns (a value of the callee: its origin is in the callee's
// terms).
func stripNotThroughPredicates(v ssa.Value, pol bool) (ssa.Value, bool) {
	for depth := 0; depth < 6; depth++ {
		v, pol = stripNot(v, pol)
		call, isCall := v.(*ssa.Call)
		if !isCall {
			return v, pol
		}
		r := predicateBody(call)
		if r == nil {
			return v, pol
		}
		v = r
	}
	return v, pol
}

// predicateBody: the call is a plain call of a module function whose single block only loads, selects fields, negates
// and compares (no call but an atomic Load, no store, no branch) and returns one boolean: that returned value.
func predicateBody(call *ssa.Call) ssa.Value {
	cc := call.Common()
	f := cc.StaticCallee()
	if f == nil || cc.IsInvoke() || len(f.Blocks) != 1 || len(f.FreeVars) > 0 || f.Pkg == nil || !strings.HasPrefix(f.Pkg.Pkg.Path(), modPath) {
		return nil
	}
	res := f.Signature.Results()
	if res.Len() != 1 {
		return nil
	}
	if bt, ok := res.At(0).Type().Underlying().(*types.Basic); !ok || bt.Kind() != types.Bool {
		return nil
	}
	var ret *ssa.Return
	for _, in := range f.Blocks[0].Instrs {
		switch x := in.(type) {
		case *ssa.FieldAddr, *ssa.Field, *ssa.DebugRef, *ssa.ChangeType, *ssa.Convert:
		case *ssa.UnOp:
			if x.Op != token.MUL && x.Op != token.NOT {
				return nil
			}
		case *ssa.BinOp:
			switch x.Op {
			case token.EQL, token.NEQ, token.LSS, token.LEQ, token.GTR, token.GEQ:
			default:
				return nil
			}
		case *ssa.Call:
			n := calleeName(x.Common())
			if !(strings.Contains(n, "sync/atomic.") && strings.HasSuffix(n, ".Load")) {
				return nil
			}
		case *ssa.Return:
			ret = x
		default:
			return nil
		}
	}
	if ret == nil || len(ret.Results) != 1 {
		return nil
	}
	return ret.Results[0]
}

// guardedBy reports whether block b executes only when pred(cond) holds with the given polarity:
// pred is applied to the (negation-stripped) condition value.
func guardedBy(b *ssa.BasicBlock, polarity bool, pred func(ssa.Value) bool) bool {
	for _, g := range guardsOf(b) {
		v, pol := stripNot(g.Cond, g.Branch)
		if pol == polarity && pred(v) {
			return true
		}
	}
	return false
}

// isNilCheckOf: v is `x != nil` (eq=false) or `x == nil` (eq=true) where match(x).
func isNilCompare(v ssa.Value, match func(ssa.Value) bool) (isEq bool, ok bool) {
	b, isb := v.(*ssa.BinOp)
	if !isb || (b.Op != token.EQL && b.Op != token.NEQ) {
		return false, false
	}
	x, y := b.X, b.Y
	if isNilConst(x) {
		x, y = y, x
	}
	if !isNilConst(y) || !match(x) {
		return false, false
	}
	return b.Op == token.EQL, true
}

func isNilConst(v ssa.Value) bool {
	c, ok := v.(*ssa.Const)
	return ok && c.Value == nil
}

// errNilOn: block b executes only when match(err) is known nil (wantNil) / non-nil.
func errGuard(b *ssa.BasicBlock, wantNil bool, match func(ssa.Value) bool) bool {
	for _, g := range guardsOf(b) {
		v, pol := stripNot(g.Cond, g.Branch)
		if eq, ok := isNilCompare(v, match); ok {
			// cond is (x == nil) if eq; holds iff pol
			isNil := eq == pol
			if isNil == wantNil {
				return true
			}
		}
	}
	return false
}

// successorsAfter enumerates instruction-level successors.
type ipos struct {
	b *ssa.BasicBlock
	i int
}

// existsPathAvoiding: is there an execution path starting right after `from` that reaches a
// function exit (Return; Panic too when panicCounts) without executing an instruction for which
// hit() is true?
func existsPathAvoiding(from ssa.Instruction, hit func(ssa.Instruction) bool, panicCounts bool) bool {
	b := from.Block()
	idx := -1
	for i, in := range b.Instrs {
		if in == from {
			idx = i
		}
	}
	seen := map[*ssa.BasicBlock]bool{}
	var walk func(b *ssa.BasicBlock, start int) bool
	walk = func(b *ssa.BasicBlock, start int) bool {
		for i := start; i < len(b.Instrs); i++ {
			in := b.Instrs[i]
			if hit(in) {
				return false
			}
			switch in.(type) {
			case *ssa.Return:
				return true
			case *ssa.Panic:
				return panicCounts
			}
			if callsNoReturn(in) {
				return panicCounts
			}
		}
		for _, s := range b.Succs {
			if seen[s] {
				continue
			}
			seen[s] = true
			if walk(s, 0) {
				return true
			}
		}
		return false
	}
	return walk(b, idx+1)
}

// existsEntryPathAvoiding: is there a path from function entry to `to` that does not execute hit()?
func existsEntryPathAvoiding(fn *ssa.Function, to ssa.Instruction, hit func(ssa.Instruction) bool) bool {
	seen := map[*ssa.BasicBlock]bool{}
	var walk func(b *ssa.BasicBlock) bool
	walk = func(b *ssa.BasicBlock) bool {
		for _, in := range b.Instrs {
			if in == to {
				return true
			}
			if hit(in) {
				return false
			}
		}
		for _, s := range b.Succs {
			if seen[s] {
				continue
			}
			seen[s] = true
			if walk(s) {
				return true
			}
		}
		return false
	}
	if len(fn.Blocks) == 0 {
		return false
	}
	seen[fn.Blocks[0]] = true
	return walk(fn.Blocks[0])
}

// ---------------------------------------------------------------------------------------------
// Event sequences along CFG paths, with inlining of module-local callees.

type eventClassifier func(in ssa.Instruction) (event string, inline *ssa.Function)

// pathEvents enumerates the distinct sequences of classified events along all entry→exit paths of fn.
// Back edges are followed at most once per path; the enumeration is bounded.
func pathEvents(fn *ssa.Function, classify eventClassifier, depth int) (seqs []string, complete bool) {
	const maxPaths = 20000
	set := map[string]bool{}
	n := 0
	complete = true
	var walkFn func(fn *ssa.Function, depth int, prefix []string, k func([]string))
	walkFn = func(fn *ssa.Function, depth int, prefix []string, k func([]string)) {
		if len(fn.Blocks) == 0 {
			k(prefix)
			return
		}
		var walk func(b *ssa.BasicBlock, start int, visits map[*ssa.BasicBlock]int, acc []string)
		walk = func(b *ssa.BasicBlock, start int, visits map[*ssa.BasicBlock]int, acc []string) {
			if n > maxPaths {
				complete = false
				return
			}
			for i := start; i < len(b.Instrs); i++ {
				in := b.Instrs[i]
				ev, inl := classify(in)
				if ev != "" {
					acc = append(append([]string{}, acc...), ev)
				}
				if inl != nil && depth > 0 {
					bb, ii := b, i
					walkFn(inl, depth-1, acc, func(acc2 []string) {
						walk(bb, ii+1, visits, acc2)
					})
					return
				}
				switch in.(type) {
				case *ssa.Return:
					k(acc)
					return
				case *ssa.Panic:
					k(append(append([]string{}, acc...), "!panic"))
					return
				}
				if callsNoReturn(in) {
					k(append(append([]string{}, acc...), "!panic"))
					return
				}
			}
			for _, s := range b.Succs {
				if visits[s] >= 2 {
					continue
				}
				v2 := map[*ssa.BasicBlock]int{}
				for kk, vv := range visits {
					v2[kk] = vv
				}
				v2[s]++
				walk(s, 0, v2, acc)
			}
		}
		walk(fn.Blocks[0], 0, map[*ssa.BasicBlock]int{fn.Blocks[0]: 1}, prefix)
	}
	walkFn(fn, depth, nil, func(acc []string) {
		n++
		set[strings.Join(acc, " ")] = true
	})
	for s := range set {
		seqs = append(seqs, s)
	}
	sort.Strings(seqs)
	return seqs, complete
}

// ---------------------------------------------------------------------------------------------
// Field access

// fieldOfAddr: if v is &x.f (FieldAddr) returns the field object.
func fieldOfAddr(v ssa.Value) *types.Var {
	if fa, ok := v.(*ssa.FieldAddr); ok {
		return structField(fa.X.Type(), fa.Field)
	}
	return nil
}

func structField(t types.Type, idx int) *types.Var {
	if p, ok := t.Underlying().(*types.Pointer); ok {
		t = p.Elem()
	}
	if st, ok := t.Underlying().(*types.Struct); ok && idx < st.NumFields() {
		return st.Field(idx)
	}
	return nil
}

// loadedField: v is a load (*&x.f) or a Field extraction of field f — returns f.
func loadedField(v ssa.Value) *types.Var {
	switch x := v.(type) {
	case *ssa.UnOp:
		if x.Op == token.MUL {
			return fieldOfAddr(x.X)
		}
	case *ssa.Field:
		return structField(x.X.Type(), x.Field)
	}
	return nil
}

// FieldStore is a store instruction into field F.
type FieldStore struct {
	Fn    *ssa.Function
	Store *ssa.Store
	Field *types.Var
}

// fieldStores lists every store to the given field anywhere in the module.
func (w *World) fieldStores(f *types.Var) []FieldStore {
	var out []FieldStore
	for _, fn := range w.ModFuncs {
		allInstrs(fn, func(in ssa.Instruction) {
			if st, ok := in.(*ssa.Store); ok {
				if fieldOfAddr(st.Addr) == f {
					out = append(out, FieldStore{fn, st, f})
				}
			}
		})
	}
	return out
}

// rootFn is the outermost enclosing source function.
func rootFn(fn *ssa.Function) *ssa.Function {
	for fn.Parent() != nil {
		fn = fn.Parent()
	}
	return fn
}

// valueIsFieldLoad: v (through ChangeType/Convert/MakeInterface) is a load of field f.
func derefsTo(v ssa.Value, f *types.Var) bool {
	for {
		switch x := v.(type) {
		case *ssa.ChangeType:
			v = x.X
			continue
		case *ssa.Convert:
			v = x.X
			continue
		case *ssa.MakeInterface:
			v = x.X
			continue
		}
		break
	}
	return loadedField(v) == f
}

// describe a value briefly.
func vstr(v ssa.Value) string {
	if v == nil {
		return "<nil>"
	}
	if f := loadedField(v); f != nil {
		return "load(." + f.Name() + ")"
	}
	switch x := v.(type) {
	case *ssa.Parameter:
		return "param(" + x.Name() + ")"
	case *ssa.Const:
		return "const(" + x.String() + ")"
	case *ssa.FreeVar:
		return "free(" + x.Name() + ")"
	case *ssa.Call:
		return "call(" + calleeName(x.Common()) + ")"
	}
	return fmt.Sprintf("%s:%T", v.Name(), v)
}

// unwrap strips value-preserving wrappers.
func unwrap(v ssa.Value) ssa.Value {
	for {
		switch x := v.(type) {
		case *ssa.ChangeType:
			v = x.X
		case *ssa.Convert:
			v = x.X
		case *ssa.MakeInterface:
			v = x.X
		case *ssa.ChangeInterface:
			v = x.X
		default:
			return v
		}
	}
}

// closureOf resolves a value to the anonymous function it denotes (MakeClosure or function constant).
func closureOf(v ssa.Value) *ssa.Function {
	switch x := unwrap(v).(type) {
	case *ssa.MakeClosure:
		if f, ok := x.Fn.(*ssa.Function); ok {
			// a method value x.m, or func(){ x.m() }, denotes the method
			if strings.HasSuffix(f.Name(), "$bound") {
				if obj, ok := f.Object().(*types.Func); ok {
					if m := f.Prog.FuncValue(obj); m != nil && m.Blocks != nil {
						return m
					}
				}
			}
			if m := forwardedMethod(f); m != nil && m.Blocks != nil {
				return m
			}
			return f
		}
	case *ssa.Function:
		return x
	}
	return nil
}

// moduleCallees returns the module-local functions statically called (not via go/defer) from fn, transitively to depth.
func (w *World) syncCallees(fn *ssa.Function, depth int, includeDefer bool) map[*ssa.Function]bool {
	out := map[*ssa.Function]bool{}
	var rec func(f *ssa.Function, d int)
	rec = func(f *ssa.Function, d int) {
		if out[f] || d < 0 {
			return
		}
		out[f] = true
		allInstrs(f, func(in ssa.Instruction) {
			switch x := in.(type) {
			case *ssa.Call:
				if c := x.Common().StaticCallee(); c != nil && c.Blocks != nil && w.inModule(c) {
					rec(c, d-1)
				}
				// closures passed as arguments to a call run synchronously in the cases this
				// repository uses (Range / StoreIf / sort callbacks); callers decide.
			case *ssa.Defer:
				if includeDefer {
					if c := x.Common().StaticCallee(); c != nil && c.Blocks != nil && w.inModule(c) {
						rec(c, d-1)
					}
				}
			}
		})
	}
	rec(fn, depth)
	return out
}

// ---------------------------------------------------------------------------------------------
// goroutine inventory (P9)

type goLoop struct {
	Starter   *ssa.Function
	Go        *ssa.Go
	Body      *ssa.Function
	HasLoop   bool
	ExitConds []string    // description of what the loop's continuation depends on
	FlagField []*fieldRef // bool fields tested by the loop condition
	Selects   []*ssa.Select
}

type fieldRef struct {
	Owner string
	Name  string
	Load  ssa.Value
}

// inCycle: blocks that lie on a CFG cycle.
func cycleBlocks(fn *ssa.Function) map[*ssa.BasicBlock]bool {
	out := map[*ssa.BasicBlock]bool{}
	for _, b := range fn.Blocks {
		// b reaches itself?
		seen := map[*ssa.BasicBlock]bool{}
		var stack []*ssa.BasicBlock
		stack = append(stack, b.Succs...)
		for len(stack) > 0 {
			x := stack[len(stack)-1]
			stack = stack[:len(stack)-1]
			if x == b {
				out[b] = true
				break
			}
			if seen[x] {
				continue
			}
			seen[x] = true
			stack = append(stack, x.Succs...)
		}
	}
	return out
}

func goLoops(w *World) []*goLoop {
	var out []*goLoop
	for _, fn := range w.ModFuncs {
		allInstrs(fn, func(in ssa.Instruction) {
			g, ok := in.(*ssa.Go)
			if !ok {
				return
			}
			body := g.Common().StaticCallee()
			if body == nil {
				body = closureOf(g.Common().Value)
			}
			gl := &goLoop{Starter: fn, Go: g, Body: body}
			out = append(out, gl)
			if body == nil || body.Blocks == nil {
				return
			}
			cyc := cycleBlocks(body)
			gl.HasLoop = len(cyc) > 0
			for b := range cyc {
				if len(b.Instrs) == 0 {
					continue
				}
				if ifi, ok := b.Instrs[len(b.Instrs)-1].(*ssa.If); ok {
					// an exit edge: a successor outside the cycle
					exits := false
					for _, s := range b.Succs {
						if !cyc[s] {
							exits = true
						}
					}
					if !exits {
						continue
					}
					v, _ := stripNot(ifi.Cond, true)
					gl.ExitConds = append(gl.ExitConds, w.Origin(v))
					if f := loadedField(v); f != nil {
						gl.FlagField = append(gl.FlagField, &fieldRef{Owner: fieldOwner(v), Name: f.Name(), Load: v})
					} else if f, addr := flagRead(v); f != nil {
						gl.FlagField = append(gl.FlagField, &fieldRef{Owner: fieldOwner(addr), Name: f.Name(), Load: v})
					}
				}
				for _, x := range b.Instrs {
					if s, ok := x.(*ssa.Select); ok {
						gl.Selects = append(gl.Selects, s)
						for _, st := range s.States {
							gl.ExitConds = append(gl.ExitConds, "select:"+w.Origin(st.Chan))
						}
					}
				}
			}
		})
	}
	return out
}

// ---------------------------------------------------------------------------------------------
// boolean flags: a plain bool field or a sync/atomic.Bool field, read by a load / x.Load() and written by a
// store / x.Store(v). Rules about flags use these two views so that making a flag atomic changes nothing.

// flagRead: the field read by v when v is `x.f` (bool) or `x.f.Load()` (atomic.Bool), with the address read.
func flagRead(v ssa.Value) (*types.Var, ssa.Value) {
	switch x := v.(type) {
	case *ssa.UnOp:
		if x.Op == token.MUL {
			if f := fieldOfAddr(x.X); f != nil && isBool(f.Type()) {
				return f, x.X
			}
		}
	case *ssa.Call:
		if k, m := atomicMethod(x.Common().StaticCallee()); k == "Bool" && m == "Load" && len(x.Common().Args) == 1 {
			if f := fieldOfAddr(x.Common().Args[0]); f != nil {
				return f, x.Common().Args[0]
			}
		}
	}
	return nil, nil
}

// flagWrite: the field written by in (`x.f = v` or `x.f.Store(v)`), the address and the value.
func flagWrite(in ssa.Instruction) (*types.Var, ssa.Value, ssa.Value) {
	switch x := in.(type) {
	case *ssa.Store:
		if f := fieldOfAddr(x.Addr); f != nil && isBool(f.Type()) {
			return f, x.Addr, x.Val
		}
	case *ssa.Call:
		if k, m := atomicMethod(x.Common().StaticCallee()); k == "Bool" && m == "Store" && len(x.Common().Args) == 2 {
			if f := fieldOfAddr(x.Common().Args[0]); f != nil {
				return f, x.Common().Args[0], x.Common().Args[1]
			}
		}
		// a setter of the flag: a module method whose whole effect is storing its bool parameter into a bool field of
		// its receiver (`s.setMonitorRunning(false)`)
		if g := x.Common().StaticCallee(); g != nil && len(x.Common().Args) == 2 {
			if f := flagSetterField(g); f != nil {
				return f, x.Common().Args[0], x.Common().Args[1]
			}
		}
	}
	return nil, nil, nil
}

var flagSetterCache = map[*ssa.Function]*types.Var{}
var flagSetterKnown = map[*ssa.Function]bool{}

// flagSetterField: g is `func (r *T) set(b bool) { r.f = b }` (or the atomic form): the field f.
func flagSetterField(g *ssa.Function) *types.Var {
	if flagSetterKnown[g] {
		return flagSetterCache[g]
	}
	flagSetterKnown[g] = true
	if g.Blocks == nil || g.Signature.Recv() == nil || len(g.Params) != 2 || !isBool(g.Params[1].Type()) || len(g.Blocks) != 1 || g.Signature.Results().Len() != 0 {
		return nil
	}
	var f *types.Var
	n := 0
	for _, in := range g.Blocks[0].Instrs {
		switch y := in.(type) {
		case *ssa.Store:
			n++
			if fa, ok := y.Addr.(*ssa.FieldAddr); ok && fa.X == ssa.Value(g.Params[0]) && y.Val == ssa.Value(g.Params[1]) && isBool(fieldOfAddr(fa).Type()) {
				f = fieldOfAddr(fa)
			}
		case *ssa.Call:
			n++
			if k, m := atomicMethod(y.Common().StaticCallee()); k == "Bool" && m == "Store" && len(y.Common().Args) == 2 && y.Common().Args[1] == ssa.Value(g.Params[1]) {
				if fa, ok := y.Common().Args[0].(*ssa.FieldAddr); ok && fa.X == ssa.Value(g.Params[0]) {
					f = fieldOfAddr(fa)
				}
			}
		case *ssa.FieldAddr, *ssa.Return, *ssa.DebugRef:
		default:
			n += 2
		}
	}
	if n != 1 {
		f = nil
	}
	flagSetterCache[g] = f
	return f
}

// ---------------------------------------------------------------------------------------------
// functions that never return normally (a `fatal(err, msg)` helper that logs and panics)

var noReturn = map[*ssa.Function]bool{}

func noReturnName(n string) bool {
	return n == "os.Exit" || n == "log.Fatal" || n == "log.Fatalf" || n == "log.Fatalln" || n == "log.Panic" || n == "log.Panicf" || n == "runtime.Goexit"
}

// callsNoReturn: the instruction is a plain call (not go/defer) of a function that never returns normally.
func callsNoReturn(in ssa.Instruction) bool {
	call, ok := in.(*ssa.Call)
	if !ok {
		return false
	}
	cc := call.Common()
	if cc.IsInvoke() {
		return false
	}
	if f := cc.StaticCallee(); f != nil {
		return noReturn[f] || noReturnName(calleeName(cc))
	}
	return false
}

// isPanicLike: execution does not continue past this instruction in the function — a panic, or a call of a helper
// that never returns.
func isPanicLike(in ssa.Instruction) bool {
	if _, ok := in.(*ssa.Panic); ok {
		return true
	}
	return callsNoReturn(in)
}

// deadEnd: control that enters the block never leaves it through its successors.
func deadEnd(b *ssa.BasicBlock) bool {
	for _, in := range b.Instrs {
		if callsNoReturn(in) {
			return true
		}
	}
	return false
}

// computeNoReturn: least fixpoint over the module's functions — a function never returns when no Return instruction is
// reachable from its entry along edges that do not pass a panic or a call of a function that never returns.
func computeNoReturn(fns []*ssa.Function) {
	noReturn = map[*ssa.Function]bool{}
	for changed := true; changed; {
		changed = false
		for _, fn := range fns {
			if noReturn[fn] || len(fn.Blocks) == 0 || fn.Recover != nil {
				continue
			}
			reach := false
			seen := map[*ssa.BasicBlock]bool{}
			var walk func(b *ssa.BasicBlock)
			walk = func(b *ssa.BasicBlock) {
				if seen[b] || reach {
					return
				}
				seen[b] = true
				for _, in := range b.Instrs {
					if callsNoReturn(in) {
						return
					}
					switch in.(type) {
					case *ssa.Return:
						reach = true
						return
					case *ssa.Panic:
						return
					}
				}
				for _, s := range b.Succs {
					walk(s)
				}
			}
			walk(fn.Blocks[0])
			if !reach {
				noReturn[fn] = true
				changed = true
			}
		}
	}
}

// ---------------------------------------------------------------------------------------------
// facts behind predicate methods

type condFact struct {
	V   ssa.Value
	Pol bool
}

// expandFact: what is known when v has truth value pol, looking through negations and through predicate functions of
// the module: a single-block predicate denotes what it returns; `return a || b` known false makes a and b false;
// `return a && b` known true makes a and b true. Values of a callee are in the callee's terms.
func expandFact(v ssa.Value, pol bool, depth int) []condFact {
	v, pol = stripNot(v, pol)
	out := []condFact{{v, pol}}
	call, isCall := v.(*ssa.Call)
	if !isCall || depth == 0 {
		return out
	}
	if r := predicateBody(call); r != nil {
		return append(out, expandFact(r, pol, depth-1)...)
	}
	cc := call.Common()
	f := cc.StaticCallee()
	if f == nil || cc.IsInvoke() || len(f.Blocks) == 0 || len(f.Blocks) > 6 || f.Pkg == nil || !strings.HasPrefix(f.Pkg.Pkg.Path(), modPath) || f.Signature.Results().Len() != 1 {
		return out
	}
	if bt, ok := f.Signature.Results().At(0).Type().Underlying().(*types.Basic); !ok || bt.Kind() != types.Bool {
		return out
	}
	// pure: nothing but loads, selections, comparisons, negations, atomic loads, jumps, ifs, phis and one return
	var ret *ssa.Return
	for _, b := range f.Blocks {
		for _, in := range b.Instrs {
			switch x := in.(type) {
			case *ssa.FieldAddr, *ssa.Field, *ssa.DebugRef, *ssa.ChangeType, *ssa.Convert, *ssa.BinOp, *ssa.If, *ssa.Jump, *ssa.Phi:
			case *ssa.UnOp:
				if x.Op != token.MUL && x.Op != token.NOT {
					return out
				}
			case *ssa.Call:
				n := calleeName(x.Common())
				if !(strings.Contains(n, "sync/atomic.") && strings.HasSuffix(n, ".Load")) {
					return out
				}
			case *ssa.Return:
				if ret != nil {
					return out
				}
				ret = x
			default:
				return out
			}
		}
	}
	if ret == nil || len(ret.Results) != 1 {
		return out
	}
	phi, isPhi := ret.Results[0].(*ssa.Phi)
	if !isPhi {
		return append(out, expandFact(ret.Results[0], pol, depth-1)...)
	}
	// short-circuit form: constant edges carry !pol-absorbing constants (true for ||, false for &&)
	for k, e := range phi.Edges {
		if k >= len(phi.Block().Preds) {
			return out
		}
		pred := phi.Block().Preds[k]
		if cst, isC := e.(*ssa.Const); isC && cst.Value != nil {
			cv := cst.Value.String() == "true"
			if cv == pol {
				return out // this edge alone would give the known result: nothing follows for the others
			}
			// the edge was NOT taken: the branch decision that leads into it went the other way
			ifi, isIf := pred.Instrs[len(pred.Instrs)-1].(*ssa.If)
			if !isIf {
				return out
			}
			taken := pred.Succs[0] == phi.Block()
			out = append(out, expandFact(ifi.Cond, !taken, depth-1)...)
			continue
		}
		out = append(out, expandFact(e, pol, depth-1)...)
	}
	return out
}

// guardedByDeep: as guardedBy, looking through predicate methods of the module.
func guardedByDeep(b *ssa.BasicBlock, polarity bool, pred func(ssa.Value) bool) bool {
	for _, g := range guardsOf(b) {
		for _, f := range expandFact(g.Cond, g.Branch, 3) {
			if f.Pol == polarity && pred(f.V) {
				return true
			}
		}
	}
	return false
}

// ---------------------------------------------------------------------------------------------
// method expressions handed to an iteration helper (`forEachValue(s.observers, couchbase.Observer.Close)`)

// methodThunk: v denotes the method expression I.M of an interface (the compiler's thunk): the interface's short name
// and the method name.
func methodThunk(v ssa.Value) (string, string) {
	f, ok := unwrap(v).(*ssa.Function)
	if !ok {
		if mc, isMC := unwrap(v).(*ssa.MakeClosure); isMC {
			f, ok = mc.Fn.(*ssa.Function)
		}
		if !ok {
			return "", ""
		}
	}
	if f.Synthetic == "" || !strings.HasSuffix(f.Name(), "$thunk") {
		return "", ""
	}
	obj, isFn := f.Object().(*types.Func)
	if !isFn {
		return "", ""
	}
	sig, _ := obj.Type().(*types.Signature)
	if sig == nil || sig.Recv() == nil {
		return "", ""
	}
	if _, isI := sig.Recv().Type().Underlying().(*types.Interface); !isI {
		return "", ""
	}
	return recvTypeName(sig.Recv().Type()), obj.Name()
}

// forEachApplication: the call hands an interface method expression to a module helper that ranges over a map
// wrapper and calls the function it was handed on every value, unconditionally: "Iface.Method" — else "".
func (w *World) forEachApplication(cc *ssa.CallCommon) string {
	g := cc.StaticCallee()
	if g == nil || g.Blocks == nil || !w.inModule(g) || cc.IsInvoke() {
		return ""
	}
	iface, method, pi := "", "", -1
	for i, a := range cc.Args {
		if in, m := methodThunk(a); m != "" {
			iface, method, pi = in, m, i
		}
	}
	if pi < 0 || pi >= len(g.Params) {
		return ""
	}
	fp := g.Params[pi]
	applies := false
	allInstrs(g, func(in ssa.Instruction) {
		c2 := callOf(in)
		if c2 == nil {
			return
		}
		if m, _ := csmapMethod(c2); m != "Range" || len(c2.Args) != 2 {
			return
		}
		cl := closureOf(c2.Args[1])
		if cl == nil {
			return
		}
		// the closure calls the handed function (captured) in its entry block, and always goes on
		for _, x := range cl.Blocks[0].Instrs {
			c3 := callOf(x)
			if c3 == nil || c3.IsInvoke() || c3.StaticCallee() != nil {
				continue
			}
			if _, isB := c3.Value.(*ssa.Builtin); isB {
				continue
			}
			if strings.Contains(w.Origin(c3.Value), "param("+fp.Name()+")") {
				applies = true
			}
		}
	})
	if !applies {
		return ""
	}
	return iface + "." + method
}

// blockReaches: b can reach t through one or more control-flow edges.
func blockReaches(b, t *ssa.BasicBlock) bool {
	seen := map[*ssa.BasicBlock]bool{}
	stack := append([]*ssa.BasicBlock{}, b.Succs...)
	for len(stack) > 0 {
		x := stack[len(stack)-1]
		stack = stack[:len(stack)-1]
		if x == t {
			return true
		}
		if seen[x] {
			continue
		}
		seen[x] = true
		stack = append(stack, x.Succs...)
	}
	return false
}

// lastPos: a position inside the block (of its last instruction that has one).
func lastPos(b *ssa.BasicBlock) token.Pos {
	for i := len(b.Instrs) - 1; i >= 0; i-- {
		if p := b.Instrs[i].Pos(); p.IsValid() {
			return p
		}
	}
	return token.NoPos
}

// rangeCall: the call iterates over every entry of a map wrapper with a callback: a direct `m.Range(cb)`, or a call of
// a module helper that does exactly that for the map and the function it is handed (`forEach(m, fn)`: one Range over
// its map parameter whose callback calls the handed function in its entry block and returns true on every path).
// Returns the ranged map and the user's callback.
func (w *World) rangeCall(cc *ssa.CallCommon) (recv ssa.Value, cb *ssa.Function, ok bool) {
	if cc == nil {
		return nil, nil, false
	}
	if m, r := csmapMethod(cc); m == "Range" && len(cc.Args) == 2 {
		return r, closureOf(cc.Args[1]), true
	}
	g := cc.StaticCallee()
	if g == nil || g.Blocks == nil || !w.inModule(g) || cc.IsInvoke() || len(g.Params) != len(cc.Args) {
		return nil, nil, false
	}
	mi, fi := -1, -1
	for i, p := range g.Params {
		if recvTypeName(p.Type()) == "ConcurrentSwissMap" {
			mi = i
		}
		if _, isSig := p.Type().Underlying().(*types.Signature); isSig {
			fi = i
		}
	}
	if mi < 0 || fi < 0 {
		return nil, nil, false
	}
	nCalls, good := 0, false
	allInstrs(g, func(in ssa.Instruction) {
		c2 := callOf(in)
		if c2 == nil {
			return
		}
		nCalls++
		if m, r := csmapMethod(c2); m != "Range" || len(c2.Args) != 2 || unwrap(r) != ssa.Value(g.Params[mi]) || len(guardsOf(in.Block())) != 0 {
			return
		}
		cl := closureOf(c2.Args[1])
		if cl == nil || len(cl.Blocks) == 0 {
			return
		}
		applies, completes := false, true
		for _, x := range cl.Blocks[0].Instrs {
			c3 := callOf(x)
			if c3 == nil || c3.IsInvoke() || c3.StaticCallee() != nil {
				continue
			}
			if strings.Contains(w.Origin(c3.Value), "param("+g.Params[fi].Name()+")") {
				applies = true
			}
		}
		allInstrs(cl, func(x ssa.Instruction) {
			if r, isR := x.(*ssa.Return); isR && x.Parent() == cl {
				if len(r.Results) != 1 || w.Origin(r.Results[0]) != "const(true)" {
					completes = false
				}
			}
		})
		good = applies && completes
	})
	if nCalls != 1 || !good {
		return nil, nil, false
	}
	return cc.Args[mi], closureOf(cc.Args[fi]), true
}
