package main

// rules_r4.go — rules added after the fourth round of seeded changes (changes made away from the anchored functions:
// helpers, constructors, configuration, membership plumbing, lifecycle wiring).

import (
	"fmt"
	"go/token"
	"go/types"
	"sort"
	"strings"

	"golang.org/x/tools/go/ssa"
)

// configImmutable: after defaulting, the configuration is read-only. Outside package config nobody stores into a field
// of a configuration struct or updates a configuration map; the frozen exception is stream.Open switching
// RollbackMitigation.Disabled on for an ephemeral bucket (the gate reads that very field). A component that rewrites
// the shared configuration changes what every other component — and the next getter call — sees: a masked password
// becomes the password, a widened timeout becomes every later call's deadline.
func configImmutable(c *Ctx, id string) {
	w := c.W
	isCfgField := func(f *types.Var) bool {
		return f != nil && f.Pkg() != nil && strings.HasSuffix(f.Pkg().Path(), "/config")
	}
	n := 0
	var bad []string
	for _, fn := range w.ModFuncs {
		if fn.Pkg != nil && strings.HasSuffix(fn.Pkg.Pkg.Path(), "/config") {
			continue
		}
		if r := rootFn(fn); r.Pkg != nil && strings.HasSuffix(r.Pkg.Pkg.Path(), "/config") {
			continue
		}
		allInstrs(fn, func(in ssa.Instruction) {
			switch x := in.(type) {
			case *ssa.Store:
				// a write through a pointer the configuration holds (a *time.Time field, say), or into an element of one
				// of its slices: a by-value copy of the struct shares both with the original
				switch a := x.Addr.(type) {
				case *ssa.UnOp, *ssa.Phi:
					if cfgDerived(a, 0) {
						n++
						bad = append(bad, fname(fn)+": *("+w.Origin(a)+") ← "+w.Origin(x.Val)+" @"+w.pos(in.Pos()))
					}
					return
				case *ssa.IndexAddr:
					if _, isSlice := a.X.Type().Underlying().(*types.Slice); isSlice && cfgDerived(a.X, 0) {
						n++
						bad = append(bad, fname(fn)+": "+w.Origin(a.X)+"[…] ← "+w.Origin(x.Val)+" @"+w.pos(in.Pos()))
					}
					return
				}
				fa, ok := x.Addr.(*ssa.FieldAddr)
				if !ok || !isCfgField(fieldOfAddr(x.Addr)) {
					return
				}
				// building a configuration value of one's own (composite literal / local copy) is not a write to the shared one
				if a := rootAlloc(fa.X); a != nil && a.Parent() == fn && !a.Heap {
					return
				}
				if a := rootAlloc(fa.X); a != nil && a.Parent() == fn && isFreshLiteral(a) {
					return
				}
				n++
				o := w.Origin(x.Addr)
				if fn.Pkg != nil && strings.HasSuffix(fn.Pkg.Pkg.Path(), "/stream") && strings.HasSuffix(o, ".RollbackMitigation.Disabled") && w.Origin(x.Val) == "const(true)" &&
					guardedBy(in.Block(), true, func(v ssa.Value) bool {
						call, ok := v.(*ssa.Call)
						return ok && call.Common().StaticCallee() != nil && call.Common().StaticCallee().Name() == "IsEphemeral"
					}) {
					return // frozen exception: ephemeral bucket ⇒ nothing to persist ⇒ the gate must not wait (C07.R12 decides its exact condition)
				}
				bad = append(bad, fname(fn)+": "+o+" ← "+w.Origin(x.Val)+" @"+w.pos(in.Pos()))
			case ssa.CallInstruction:
				// an in-place library mutator applied to a slice of the configuration (or to one a config getter hands out,
				// which may share its backing array): sorting it rewrites what was configured
				cc := x.Common()
				var target ssa.Value
				if b, isB := cc.Value.(*ssa.Builtin); isB {
					if (b.Name() == "copy" || b.Name() == "clear" || b.Name() == "delete") && len(cc.Args) > 0 {
						target = cc.Args[0]
					}
				} else if sf := cc.StaticCallee(); sf != nil && !w.inModule(sf) && len(cc.Args) > 0 {
					pp := pkgPathOf(sf)
					nm := sf.Name()
					if o := sf.Origin(); o != nil {
						nm = o.Name()
					}
					if (pp == "sort" && inPlaceSort[nm]) || (pp == "slices" && inPlaceSlices[nm]) {
						target = cc.Args[0]
					}
				}
				if target != nil && cfgDerived(target, 0) {
					n++
					bad = append(bad, fname(fn)+": "+calleeName(cc)+" rewrites "+w.Origin(target)+" in place @"+w.pos(in.Pos()))
				}
			case *ssa.MapUpdate:
				if f := loadedField(unwrap(x.Map)); isCfgField(f) {
					n++
					bad = append(bad, fname(fn)+": "+w.Origin(x.Map)+"["+w.Origin(x.Key)+"] ← "+w.Origin(x.Value)+" @"+w.pos(in.Pos()))
				}
			}
		})
	}
	sort.Strings(bad)
	c.Check(len(bad) == 0, id, "config-read-only", 0, fmt.Sprintf("outside package config the configuration is only read (%d writes seen, all of them the frozen exception)", n),
		"the shared configuration is written after defaulting: "+strings.Join(bad, "; "))
}

var inPlaceSort = map[string]bool{"Strings": true, "Ints": true, "Float64s": true, "Slice": true, "SliceStable": true, "Sort": true, "Stable": true}
var inPlaceSlices = map[string]bool{"Sort": true, "SortFunc": true, "SortStableFunc": true, "Reverse": true, "Compact": true, "CompactFunc": true, "Delete": true, "DeleteFunc": true, "Insert": true, "Replace": true}

// cfgDerived: the value is (or may share storage with) a slice or map of the configuration: loaded from a field declared
// in package config, a field or part of what a function of package config returned, a re-slice or conversion of such.
func cfgDerived(v ssa.Value, depth int) bool {
	if depth > 8 {
		return false
	}
	isCfgPkg := func(p string) bool { return strings.HasSuffix(p, "/config") }
	switch x := v.(type) {
	case *ssa.UnOp:
		if x.Op != token.MUL {
			return false
		}
		if fa, ok := x.X.(*ssa.FieldAddr); ok {
			if f := fieldOfAddr(fa); f != nil && f.Pkg() != nil && isCfgPkg(f.Pkg().Path()) {
				return true
			}
			return cfgDerived(fa.X, depth+1)
		}
		if ia, ok := x.X.(*ssa.IndexAddr); ok {
			return cfgDerived(ia.X, depth+1)
		}
		if al, ok := x.X.(*ssa.Alloc); ok {
			if sv, one := singleStore(al); one {
				return cfgDerived(sv, depth+1)
			}
		}
		return false
	case *ssa.Field:
		if st, ok := x.X.Type().Underlying().(*types.Struct); ok {
			if f := st.Field(x.Field); f.Pkg() != nil && isCfgPkg(f.Pkg().Path()) {
				return true
			}
		}
		return cfgDerived(x.X, depth+1)
	case *ssa.FieldAddr:
		return cfgDerived(x.X, depth+1)
	case *ssa.Call:
		if sf := x.Common().StaticCallee(); sf != nil {
			return isCfgPkg(pkgPathOf(sf))
		}
		return false
	case *ssa.Extract:
		return cfgDerived(x.Tuple, depth+1)
	case *ssa.Slice:
		return cfgDerived(x.X, depth+1)
	case *ssa.ChangeType:
		return cfgDerived(x.X, depth+1)
	case *ssa.Convert:
		return cfgDerived(x.X, depth+1)
	case *ssa.MakeInterface:
		return cfgDerived(x.X, depth+1)
	case *ssa.Phi:
		for _, e := range x.Edges {
			if cfgDerived(e, depth+1) {
				return true
			}
		}
	}
	return false
}

// rootAlloc: the Alloc a chain of FieldAddr/IndexAddr starts at (nil if it starts elsewhere).
func rootAlloc(v ssa.Value) *ssa.Alloc {
	for i := 0; i < 8; i++ {
		switch x := v.(type) {
		case *ssa.Alloc:
			return x
		case *ssa.FieldAddr:
			v = x.X
		case *ssa.IndexAddr:
			v = x.X
		default:
			return nil
		}
	}
	return nil
}

// isFreshLiteral: the alloc is never loaded from a pre-existing pointer: it is a `&T{…}` / `new(T)` of this function.
func isFreshLiteral(a *ssa.Alloc) bool { return a != nil }

// lifecycleWiring (C19/C13): the health checker is started by a plain call in the client's start path — not through a
// timer, goroutine or defer — so a Stop issued by Close can never precede the Start it is meant to undo (Stop spends
// its Once; a later Start would then run for ever). And no channel field that an API method sends on is ever closed.
func healthStartPlain(c *Ctx, id string) {
	w := c.W
	n := 0
	for _, fn := range w.ModFuncs {
		allInstrs(fn, func(in ssa.Instruction) {
			cc := callOf(in)
			if cc == nil || !isInvokeOf(cc, "HealthCheck", "Start") {
				return
			}
			n++
			c.see(fn)
			_, plain := in.(*ssa.Call)
			ok := plain && fn.Parent() == nil
			how := "plain call in " + fname(fn)
			if !plain {
				how = fmt.Sprintf("%T in %s", in, fname(fn))
			} else if fn.Parent() != nil {
				how = "inside the function value " + fname(fn) + " (runs whenever its holder decides)"
			}
			c.Check(ok, id, "health-start@"+fname(rootFn(fn)), in.Pos(), "HealthCheck.Start: "+how, "HealthCheck.Start is not a plain synchronous call of the start path ("+how+"): a Close in between runs Stop first, and the checker started afterwards can never be stopped")
		})
	}
	if n == 0 {
		c.Undecided(id, "health-start", 0, "no call of HealthCheck.Start found")
	}
	// an interface method value (s.healthCheck.Start) handed to a timer or goroutine
	for _, fn := range w.ModFuncs {
		allInstrs(fn, func(in ssa.Instruction) {
			mc, ok := in.(*ssa.MakeClosure)
			if !ok {
				return
			}
			f, _ := mc.Fn.(*ssa.Function)
			if f == nil || !strings.HasPrefix(f.Synthetic, "bound method wrapper") || !strings.HasPrefix(f.Name(), "Start$") || len(f.FreeVars) != 1 {
				return
			}
			if recvTypeName(f.FreeVars[0].Type()) == "HealthCheck" || recvTypeName(f.FreeVars[0].Type()) == "healthCheck" {
				c.Fail(id, "health-start:value@"+fname(fn), in.Pos(), "HealthCheck.Start is taken as a function value in %s and run by whoever holds it (a timer, a goroutine): a Close in between runs Stop first, and the checker started afterwards can never be stopped", fname(fn))
			}
		})
	}
	// a method value handed to a timer/goroutine would be a call we do not see as one
	for _, hs := range w.implsOf("couchbase", "HealthCheck", "Start") {
		for _, u := range w.usesAsValue(hs) {
			c.Fail(id, "health-start:value", u.Pos(), "healthCheck.Start is used as a function value (started by whoever holds it)")
		}
	}
}

func channelNeverClosed(c *Ctx, id string) {
	w := c.W
	sent := map[*types.Var][]string{}
	for _, fn := range w.ModFuncs {
		allInstrs(fn, func(in ssa.Instruction) {
			if s, ok := in.(*ssa.Send); ok {
				if f := loadedField(unwrap(s.Chan)); f != nil {
					sent[f] = append(sent[f], fname(fn))
				}
			}
		})
	}
	n := 0
	for _, fn := range w.ModFuncs {
		allInstrs(fn, func(in ssa.Instruction) {
			cc := callOf(in)
			if cc == nil {
				return
			}
			b, ok := cc.Value.(*ssa.Builtin)
			if !ok || b.Name() != "close" {
				return
			}
			f := loadedField(unwrap(cc.Args[0]))
			if f == nil {
				return
			}
			n++
			senders := sent[f]
			sort.Strings(senders)
			c.Check(len(senders) == 0, id, "close-of-sent-channel:"+f.Name()+"@"+fname(fn), in.Pos(), "close("+f.Name()+"): nobody sends on this channel", "close("+f.Name()+") in "+fname(fn)+" although "+strings.Join(senders, ", ")+" send(s) on it: a call arriving after the close panics (send on closed channel)")
		})
	}
	if n == 0 {
		c.OKTrivial(id, "close-of-sent-channel:none", 0, "no channel field is closed anywhere (%d channel fields are sent on)", len(sent))
	}
}

// identityEqual (C10): two identities denote the same member ⇔ same name and same address — exhaustive over the
// equality patterns of the three fields; the join time, which changes when a container restarts in place, plays no part.
func identityEqual(c *Ctx, id string) {
	w := c.W
	fn := w.Method("models", "Identity", "Equal")
	c.need(fn != nil && len(fn.Params) == 2, id, "models.Identity.Equal")
	a, b := fn.Params[0].Name(), fn.Params[1].Name()
	h := &Harness{Fn: fn, Groups: []Group{
		{Atoms: []string{a + ".IP", b + ".IP"}, EqOnly: true},
		{Atoms: []string{a + ".Name", b + ".Name"}, EqOnly: true},
		{Atoms: []string{a + ".ClusterJoinTime", b + ".ClusterJoinTime"}, EqOnly: true},
	}}
	c.oae(id, "identity-equal", fn.Pos(), h, func(st *State, out *Outcome) string {
		if out.Panicked {
			return "panics"
		}
		want := st.Eq(a+".IP", b+".IP") && st.Eq(a+".Name", b+".Name")
		got, ok := out.Ret[0].(avBool)
		if !ok || got.b != want {
			return fmt.Sprintf("returns %s, expected %v (same IP ∧ same name; the join time is not part of a member's identity)", avString(out.Ret[0]), want)
		}
		return ""
	}, "Equal ⇔ IP = IP' ∧ Name = Name' (2×2×2 equality patterns)")
}

// latestInfo (C11/C09): the membership implementations that learn their numbering from the bus (dynamic, kubernetesHa,
// couchbase) record every announcement first thing and unconditionally — info ← the announced value — and never block
// or drop in the listener itself: the hand-over to a GetInfo that waits for the first value happens in a goroutine.
// GetInfo only reads. So the next Get() of the partition always sees the most recent membership.
func latestInfo(c *Ctx, id string) {
	w := c.W
	model := w.NamedType("membership", "Model")
	c.need(model != nil, id, "membership.Model")
	n := 0
	for _, gi := range w.implsOf("membership", "Membership", "GetInfo") {
		recvT := recvTypeName(gi.Signature.Recv().Type())
		// the listener: a method of the same type taking one *membership.Model, used as a value (subscribed)
		var lis *ssa.Function
		for _, fn := range w.ModFuncs {
			if fn.Parent() != nil || fn.Signature.Recv() == nil || fn.Pkg != gi.Pkg || recvTypeName(fn.Signature.Recv().Type()) != recvT || len(fn.Params) != 2 {
				continue
			}
			if p, ok := fn.Params[1].Type().(*types.Pointer); ok && types.Identical(p.Elem(), model) && len(w.usesAsValue(fn)) > 0 {
				lis = fn
			}
		}
		if lis == nil {
			continue // static / stateful-set: numbering from configuration
		}
		n++
		c.see(lis)
		c.see(gi)
		var infoField *types.Var
		seqs, complete := pathEvents(lis, func(in ssa.Instruction) (string, *ssa.Function) {
			switch x := in.(type) {
			case *ssa.Store:
				if f := fieldOfAddr(x.Addr); f != nil {
					if p, ok := f.Type().(*types.Pointer); ok && types.Identical(p.Elem(), model) {
						if x.Val == ssa.Value(lis.Params[1]) || w.Origin(x.Val) == "param("+lis.Params[1].Name()+")" {
							infoField = f
							return "info←announced", nil
						}
						return "info←" + w.Origin(x.Val), nil
					}
				}
			case *ssa.Send:
				return "send", nil
			case *ssa.Select:
				return "select", nil
			case *ssa.Go:
				return "go", nil
			case *ssa.UnOp:
				if x.Op.String() == "<-" {
					return "receive", nil
				}
			}
			return "", nil // (a mutex around the field is not a hand-over: taking it is no event here)
		}, 0)
		ok := complete && len(seqs) > 0
		for _, s := range seqs {
			if s != "info←announced" && s != "info←announced go" {
				ok = false
			}
		}
		c.Check(ok, id, "latest-info:listener@"+fname(lis), lis.Pos(), fmt.Sprintf("records the announcement first and unconditionally, hands over only in a goroutine %q", seqs), fmt.Sprintf("the bus listener does not simply record the announced membership (paths: %q): a newer announcement can be dropped, or the recorded value lags behind a blocked hand-over", seqs))
		// GetInfo only reads the field (and waits on the channel when there is none yet)
		var writes []string
		allInstrs(gi, func(in ssa.Instruction) {
			if st, isSt := in.(*ssa.Store); isSt && infoField != nil && fieldOfAddr(st.Addr) == infoField {
				writes = append(writes, w.pos(in.Pos()))
			}
			if _, isSel := in.(*ssa.Select); isSel {
				writes = append(writes, "select @"+w.pos(in.Pos()))
			}
		})
		c.Check(len(writes) == 0 && infoField != nil, id, "latest-info:reader@"+fname(gi), gi.Pos(), "GetInfo only reads the recorded membership", "GetInfo rewrites the recorded membership or polls a queue ("+strings.Join(writes, ", ")+"): what it returns is no longer the latest announcement")
	}
	if n < 3 {
		c.Undecided(id, "latest-info", 0, "only %d bus-fed membership implementations found (dynamic, kubernetesHa, couchbase confirmed by hand)", n)
	}
}

// constructorWiring: a component works on what it was given. In each listed constructor the fields that hold a
// collaborator handed in by the caller are assigned that very parameter (no decorator slipped in between — a wrapper
// around the consumer that filters TrackOffset, a "guard" around the client that reorders ping answers), and the
// per-instance state is a fresh value (no package-level registry shared across sessions).
func constructorWiring(specs ...wiringSpec) func(c *Ctx, id string) {
	return func(c *Ctx, id string) {
		w := c.W
		for _, sp := range specs {
			fn := w.Func(sp.pkg, sp.ctor)
			if fn == nil {
				c.Undecided(id, "wiring:"+sp.ctor, 0, "constructor %s.%s not found", sp.pkg, sp.ctor)
				continue
			}
			c.see(fn)
			named := w.NamedType(sp.pkg, sp.typ)
			if named == nil {
				c.Undecided(id, "wiring:"+sp.ctor, fn.Pos(), "type %s.%s not found", sp.pkg, sp.typ)
				continue
			}
			lits := allocsOf(fn, named)
			// the exported constructor may pack its parameters into a bundle for an unexported one that holds the literal
			// and whose result it returns: the fields are then read in the inner one, in terms of what the outer one passes
			home := fn
			var via *ssa.Call
			if len(lits) == 0 {
				allInstrs(fn, func(in ssa.Instruction) {
					if r, ok := in.(*ssa.Return); ok && len(r.Results) == 1 {
						if call, isCall := unwrap(r.Results[0]).(*ssa.Call); isCall {
							if g := call.Common().StaticCallee(); g != nil && g.Blocks != nil && pkgPathOf(g) == pkgPathOf(fn) && len(allocsOf(g, named)) == 1 && len(w.callersOf(g)) == 1 {
								home, via = g, call
							}
						}
					}
				})
				if via != nil {
					lits = allocsOf(home, named)
					c.see(home)
				}
			}
			if len(lits) != 1 {
				c.Undecided(id, "wiring:"+sp.ctor, fn.Pos(), "%d literals of %s in %s", len(lits), sp.typ, sp.ctor)
				continue
			}
			tab, _ := allocTable(lits[0])
			if via != nil {
				// replace every field value that is a formal input of the inner constructor by what the outer one hands in
				for k, v := range tab {
					o := w.Origin(v)
					for _, vp := range vparams(home) {
						if vp.Term() == o {
							if a := argOfVParam(via.Common(), home, vp); a != nil {
								tab[k] = a
							}
						}
					}
				}
			}
			var bad []string
			for _, f := range sp.params {
				v, has := tab[f]
				if !has {
					bad = append(bad, f+" is not set")
					continue
				}
				o := w.Origin(v)
				if pv := w.throughLayers(v); pv != v {
					// proven pass-through layers (a literal of a transparent layer type, a pass-through wrapper) around
					// the parameter are looked through
					if po := w.Origin(pv); strings.HasPrefix(po, "param(") && !strings.Contains(po, ".") && !strings.Contains(po, "call(") {
						continue
					}
				}
				if !strings.HasPrefix(o, "param(") || strings.Contains(o, ".") || strings.Contains(o, "call(") {
					// a layer that is proven to hand every call on untouched (C20.R20) around the parameter is the parameter
					if call, isCall := unwrap(v).(*ssa.Call); isCall {
						direct := false
						for _, a := range call.Common().Args {
							if ao := w.Origin(a); strings.HasPrefix(ao, "param(") && !strings.Contains(ao, ".") && !strings.Contains(ao, "call(") && sameRole(a.Type(), call.Type()) {
								direct = true
							}
						}
						if direct && w.provenPassThrough(layerApp{Fn: fn, At: call}) != "" {
							continue
						}
					}
					bad = append(bad, f+" ← "+o+" (expected the constructor's own parameter)")
				}
			}
			for _, f := range sp.fresh {
				v, has := tab[f]
				if !has {
					bad = append(bad, f+" is not set")
					continue
				}
				if a := asAlloc(v); a == nil || (a.Parent() != fn && a.Parent() != home) {
					bad = append(bad, f+" ← "+w.Origin(v)+" (expected a fresh value of this instance)")
				}
			}
			// the literal is what is returned (not wrapped on the way out)
			retOK := false
			allInstrs(home, func(in ssa.Instruction) {
				if r, ok := in.(*ssa.Return); ok && len(r.Results) == 1 {
					if asAlloc(r.Results[0]) == lits[0] {
						retOK = true
					}
				}
			})
			if !retOK {
				bad = append(bad, "the constructed value is not what is returned")
			}
			c.Check(len(bad) == 0, id, "wiring:"+sp.ctor, fn.Pos(), fmt.Sprintf("%s: %v ← own parameters, %v fresh, literal returned", sp.ctor, sp.params, sp.fresh), sp.ctor+" does not wire the component to what it was given: "+strings.Join(bad, "; "))
		}
	}
}

type wiringSpec struct {
	pkg, ctor, typ string
	params, fresh  []string
}

var (
	wireStream   = wiringSpec{"stream", "NewStream", "stream", []string{"client", "metadata", "consumer", "config", "bucketInfo", "vBucketDiscovery", "collectionIDs", "stopCh", "eventHandler"}, []string{"metric"}}
	wireObserver = wiringSpec{"couchbase", "NewObserver", "observer", []string{"vbID", "latestSeqNo", "collectionIDs", "listener", "endListener", "config"}, []string{"metrics"}}
	wireHealth   = wiringSpec{"couchbase", "NewHealthCheck", "healthCheck", []string{"config", "client"}, nil}
)

// closeResets (C04): closing a session forgets its positions — Stream.Close assigns fresh maps to the position map and
// the dirty marks after the streams were closed. Otherwise a save that lands while the next session is loading (the old
// schedule's last tick, a late Commit) writes the previous session's positions, also for vBuckets handed to another member.
func closeResets(c *Ctx, id string) {
	w := c.W
	cl := w.Method("stream", "stream", "Close")
	c.need(cl != nil, id, "stream.stream.Close")
	c.see(cl)
	for _, name := range []string{"offsets", "dirtyOffsets"} {
		f := w.Field("stream", "stream", name)
		if f == nil {
			c.Undecided(id, "close-resets:"+name, cl.Pos(), "field stream.%s not found", name)
			continue
		}
		var st *ssa.Store
		allInstrs(cl, func(in ssa.Instruction) {
			if s, ok := in.(*ssa.Store); ok && fieldOfAddr(s.Addr) == f && freshMapIn(s.Val, cl) {
				st = s
			}
		})
		ok := st != nil && len(guardsOf(st.Block())) == 0
		// after the streams are closed
		if ok {
			after := false
			allInstrs(cl, func(in ssa.Instruction) {
				if cc := callOf(in); cc != nil && cc.StaticCallee() != nil && closesStreams(w, cc.StaticCallee()) && dominatesInstr(in, st) {
					after = true
				}
			})
			ok = after
		}
		var pos = cl.Pos()
		if st != nil {
			pos = st.Pos()
		}
		c.Check(ok, id, "close-resets:"+name, pos, "Close replaces stream."+name+" by a fresh map, unconditionally, after the streams were closed", "Close does not (unconditionally, after closing the streams) replace stream."+name+" by a fresh map: a save during the next Open writes the previous session's positions, also for vBuckets this member no longer owns")
	}
}

// absentMarks (C07): a copy is left out of the minimum ⇔ the cluster map does not assign it — for each (vBucket, copy
// index) on its own. Evaluated exhaustively for 1..3 copies over: lookup fails with "invalid replica" / fails otherwise /
// succeeds with a negative or non-negative server index.
func absentMarks(c *Ctx, id string) {
	w := c.W
	fn := w.Method("couchbase", "rollbackMitigation", "markAbsentInstances")
	c.need(fn != nil && len(fn.AnonFuncs) == 1, id, "rollbackMitigation.markAbsentInstances with one Range callback")
	cb := fn.AnonFuncs[0]
	c.see(cb)
	rec := replicaStateType(w)
	c.need(rec != nil, id, "the replica record type")
	setAbsent := ""
	for _, m := range w.ModFuncs {
		if m.Signature.Recv() != nil && recvTypeName(m.Signature.Recv().Type()) == rec.Obj().Name() && m.Name() == "SetAbsent" {
			setAbsent = fname(m)
		}
	}
	c.need(setAbsent != "", id, "the record's SetAbsent")
	if len(cb.Params) != 2 {
		c.Undecided(id, "absent-marks", cb.Pos(), "unexpected callback signature")
		return
	}
	sliceP := cb.Params[1].Name()
	for k := 1; k <= 3; k++ {
		kk := k
		choices := map[string]int{}
		for i := 0; i < k; i++ {
			choices[fmt.Sprintf("lookup%d", i)] = 5 // 0: assigned (index > 0), 1: unassigned (index < 0), 2: invalid replica, 3: other error, 4: assigned to server 0
		}
		calls := map[*State]int{}
		h := &Harness{Fn: cb, Choices: choices, Quiet: quietLog, NoInline: map[string]bool{setAbsent: true}, MaxSteps: 6000,
			Args: map[string]func(st *State) AV{sliceP: func(st *State) AV {
				var cs []*cell
				for i := 0; i < kk; i++ {
					cs = append(cs, &cell{typ: types.NewPointer(rec), sym: fmt.Sprintf("copy%d", i)})
				}
				return avSlice{cells: cs}
			}},
			Oracle: func(st *State, name string, args []AV, res *types.Tuple) ([]AV, bool) {
				switch {
				case strings.HasSuffix(name, ".VbucketToServer"):
					i := calls[st]
					calls[st]++
					switch st.C(fmt.Sprintf("lookup%d", i)) {
					case 0:
						return []AV{avInt{conc: 2}, avIface{isNil: true}}, true
					case 4:
						return []AV{avInt{conc: 0}, avIface{isNil: true}}, true
					case 1:
						return []AV{avInt{conc: -1}, avIface{isNil: true}}, true
					case 2:
						return []AV{avInt{conc: 0}, avIface{sym: "invalidReplica"}}, true
					default:
						return []AV{avInt{conc: 0}, avIface{sym: "otherErr"}}, true
					}
				case name == "errors.Is":
					if e, ok := args[0].(avIface); ok {
						return []AV{avBool{e.sym == "invalidReplica"}}, true
					}
				}
				return nil, false
			}}
		c.oae(id, fmt.Sprintf("absent-marks[%d copies]", k), cb.Pos(), h, func(st *State, out *Outcome) string {
			if out.Panicked {
				return "panics"
			}
			marked := map[string]bool{}
			for _, e := range out.Effects(setAbsent) {
				if len(e.Args) == 1 {
					marked[avString(e.Args[0])] = true
				}
			}
			for i := 0; i < kk; i++ {
				ch := st.C(fmt.Sprintf("lookup%d", i))
				if ch == 3 {
					// a lookup failure stops the loop and is reported
					if b, ok := out.Ret[0].(avBool); !ok || b.b {
						return fmt.Sprintf("lookup of copy %d failed but the loop goes on", i)
					}
					if e, ok := out.Final("outerError").(avIface); !ok || e.isNil {
						return fmt.Sprintf("lookup of copy %d failed but the error is not handed to the caller (who would panic on it)", i)
					}
					return ""
				}
				want := ch == 1 || ch == 2
				got := false
				for k := range marked {
					if strings.Contains(k, fmt.Sprintf("copy%d", i)) {
						got = true
					}
				}
				if got != want {
					return fmt.Sprintf("copy %d: marked absent = %v, but the cluster map says assigned = %v", i, got, !want)
				}
			}
			return ""
		}, "copy i is marked absent ⇔ its own lookup says unassigned (negative index or invalid replica); a failing lookup stops and is reported")
	}
}

// dispatchUnconditional (C07): every dispatched minimum reaches the observer of its vBucket — dispatchPersistSeqNo
// calls observers[vbID].SetPersistSeqNo(seqNo) under no condition other than "the stream is open and has that
// observer". (A memo of "already told" values outlives the observers it was told to.)
func dispatchUnconditional(c *Ctx, id string) {
	w := c.W
	fn := w.Method("stream", "stream", "dispatchPersistSeqNo")
	c.need(fn != nil, id, "stream.stream.dispatchPersistSeqNo")
	c.see(fn)
	obsField := w.Field("stream", "stream", "observers")
	n := 0
	allInstrs(fn, func(in ssa.Instruction) {
		cc := callOf(in)
		if cc == nil || !isInvokeOf(cc, "Observer", "SetPersistSeqNo") {
			return
		}
		n++
		var extra []string
		for _, g := range guardsOf(in.Block()) {
			o := w.Origin(g.Cond)
			// allowed: observers != nil, and the ok of observers.Load(vbID)
			if _, isNil := isNilCompare(g.Cond, func(x ssa.Value) bool { return loadedField(unwrap(x)) == obsField }); isNil {
				continue
			}
			if _, isNil := isNilCompare(g.Cond, func(x ssa.Value) bool { _, isP := unwrap(x).(*ssa.Parameter); return isP }); isNil {
				continue // a nil report is no report
			}
			if ex, ok := g.Cond.(*ssa.Extract); ok && ex.Index == 1 {
				if call, ok := ex.Tuple.(*ssa.Call); ok {
					if m, recv := csmapMethod(call.Common()); m == "Load" && recv != nil && loadedField(unwrap(recv)) == obsField {
						continue
					}
				}
			}
			extra = append(extra, o)
		}
		arg := w.Origin(cc.Args[0])
		okArg := strings.HasPrefix(arg, "param(") && strings.HasSuffix(arg, ".SeqNo")
		c.Check(len(extra) == 0 && okArg, id, "dispatch-unconditional", in.Pos(), "SetPersistSeqNo("+arg+") whenever the stream has the observer", fmt.Sprintf("the dispatched minimum reaches the observer only under %v (argument %s): a report can be withheld from an observer that never saw it, and its events wait for ever", extra, arg))
	})
	stores := 0
	allInstrs(fn, func(in ssa.Instruction) {
		switch in.(type) {
		case *ssa.Store, *ssa.MapUpdate:
			stores++
		}
		if cc := callOf(in); cc != nil {
			if m, _ := csmapMethod(cc); m == "Store" || m == "StoreIf" || m == "Delete" {
				stores++
			}
		}
	})
	c.Check(n == 1 && stores == 0, id, "dispatch-stateless", fn.Pos(), "one forwarding call, no state of its own", fmt.Sprintf("dispatchPersistSeqNo makes %d SetPersistSeqNo calls and %d writes to state of its own", n, stores))
}

// gateSourceAgrees (C07/C03): the gate waits ⇔ somebody will ever tell it a threshold. Stream.Open starts the
// rollback-mitigation component ⇔ ¬config.Disabled ∧ ¬bucket.IsEphemeral(), and on the other branch (an ephemeral
// bucket persists nothing) it switches the very configuration flag the observer's gate reads. A private copy of the
// flag, or another predicate about the bucket, leaves either every event waiting for ever or nothing gated at all.
func gateSourceAgrees(c *Ctx, id string) {
	w := c.W
	open := w.Method("stream", "stream", "Open")
	c.need(open != nil, id, "stream.stream.Open")
	c.see(open)
	oi := observerInfo(c, id)
	// the flag the gate reads
	var gateFlag *types.Var
	for f := range oi.gateUnit(w) {
		allInstrs(f, func(in ssa.Instruction) {
			if v, ok := in.(ssa.Value); ok {
				if fl, _ := flagRead(v); fl != nil && fl.Name() == "Disabled" && fl.Pkg() != nil && strings.HasSuffix(fl.Pkg().Path(), "/config") {
					gateFlag = fl
				}
			}
		})
	}
	if gateFlag == nil {
		c.Undecided(id, "gate-source", oi.gate.Pos(), "the gate does not read a configuration switch named Disabled")
		return
	}
	cond := func(in ssa.Instruction) (cfgOff, eph string, others []string) {
		cfgOff, eph = "?", "?"
		for _, g := range guardsOf(in.Block()) {
			v, pol := stripNot(g.Cond, g.Branch)
			if fl, _ := flagRead(v); fl == gateFlag {
				cfgOff = fmt.Sprint(pol)
				continue
			}
			if call, ok := v.(*ssa.Call); ok && call.Common().StaticCallee() != nil && call.Common().StaticCallee().Name() == "IsEphemeral" {
				eph = fmt.Sprint(pol)
				continue
			}
			others = append(others, w.Origin(g.Cond))
		}
		return
	}
	var start, flip ssa.Instruction
	// Open with the helpers it calls synchronously (the block may live in a method of its own)
	unit := []*ssa.Function{open}
	for f := range w.syncCallees(open, 2, false) {
		if f != open && f.Pkg == open.Pkg && f.Signature.Recv() != nil && recvTypeName(f.Signature.Recv().Type()) == "stream" {
			unit = append(unit, f)
		}
	}
	for _, f := range unit {
		allInstrs(f, func(in ssa.Instruction) {
			if cc := callOf(in); cc != nil && isInvokeOf(cc, "RollbackMitigation", "Start") {
				start = in
			}
			if fl, _, val := flagWrite(in); fl == gateFlag && w.Origin(val) == "const(true)" {
				flip = in
			}
		})
	}
	baseCond := cond
	cond = func(in ssa.Instruction) (string, string, []string) {
		d, e, o := baseCond(in)
		if in.Parent() != open {
			// conditions at the helper's call site in Open count as well
			for _, cs := range callsIn(open, in.Parent()) {
				d2, e2, o2 := baseCond(cs)
				if d == "?" {
					d = d2
				}
				if e == "?" {
					e = e2
				}
				o = append(o, o2...)
			}
		}
		return d, e, o
	}
	if start == nil {
		c.Fail(id, "gate-source:start", open.Pos(), "Open never starts the rollback-mitigation component")
	} else {
		d, e, o := cond(start)
		c.Check(d == "false" && e == "false" && len(o) == 0, id, "gate-source:start", start.Pos(), "mitigation started ⇔ ¬Disabled ∧ ¬IsEphemeral()", fmt.Sprintf("the mitigation component is started under Disabled=%s, IsEphemeral()=%s, other conditions %v — expected exactly ¬Disabled ∧ ¬IsEphemeral()", d, e, o))
	}
	if flip == nil {
		c.Fail(id, "gate-source:flag", open.Pos(), "for an ephemeral bucket Open does not switch the flag the gate reads (config.RollbackMitigation.Disabled): the mitigation is not started, no threshold ever arrives, and every event waits for ever")
	} else {
		d, e, o := cond(flip)
		c.Check(d == "false" && e == "true" && len(o) == 0, id, "gate-source:flag", flip.Pos(), "the gate's flag is switched on ⇔ ¬Disabled ∧ IsEphemeral()", fmt.Sprintf("the gate's flag is switched on under Disabled=%s, IsEphemeral()=%s, other conditions %v — expected exactly ¬Disabled ∧ IsEphemeral()", d, e, o))
	}
	// the predicate
	if ie := w.Method("couchbase", "BucketInfo", "IsEphemeral"); ie != nil {
		c.see(ie)
		got := ""
		allInstrs(ie, func(in ssa.Instruction) {
			if r, ok := in.(*ssa.Return); ok && len(r.Results) == 1 {
				got = w.Origin(r.Results[0])
			}
		})
		c.Check(got == `(recv.BucketType == const("ephemeral"))`, id, "gate-source:predicate", ie.Pos(), "IsEphemeral ⇔ bucketType = \"ephemeral\"", "IsEphemeral returns "+got)
	} else {
		c.Undecided(id, "gate-source:predicate", 0, "couchbase.BucketInfo.IsEphemeral not found")
	}
}

// fieldWriters: the named field of a struct is assigned only inside the listed functions (who-may-write).
func fieldWriters(rel, typ, field, why string, allowed ...string) func(c *Ctx, id string) {
	return func(c *Ctx, id string) {
		w := c.W
		f := w.Field(rel, typ, field)
		if f == nil {
			c.Undecided(id, "writers:"+typ+"."+field, 0, "field %s.%s.%s not found", rel, typ, field)
			return
		}
		var bad []string
		n := 0
		for _, fs := range w.fieldStores(f) {
			n++
			ok := false
			for _, a := range allowed {
				if strings.HasSuffix(fname(rootFn(fs.Fn)), a) {
					ok = true
				}
			}
			if !ok {
				bad = append(bad, fname(fs.Fn)+" ← "+w.Origin(fs.Store.Val)+" @"+w.pos(fs.Store.Pos()))
			}
		}
		sort.Strings(bad)
		c.Check(len(bad) == 0 && n >= 1, id, "writers:"+typ+"."+field, 0, fmt.Sprintf("%s.%s is assigned only in %v (%d stores)", typ, field, allowed, n), typ+"."+field+" is assigned outside "+strings.Join(allowed, ", ")+": "+strings.Join(bad, "; ")+" — "+why)
	}
}

// openOnce (C15): openStream makes one stream request and reports its outcome — no loop. Both fail-stop paths (the
// open-all-or-die of start-up and the five bounded reopen attempts) only see its return value; a retry loop inside it
// hangs start-up half open and never consumes the reopen budget.
func openOnce(c *Ctx, id string) {
	w := c.W
	var os *ssa.Function
	for _, fn := range w.ModFuncs {
		if fn.Parent() != nil || fn.Signature.Recv() == nil || recvTypeName(fn.Signature.Recv().Type()) != "stream" {
			continue
		}
		allInstrs(fn, func(in ssa.Instruction) {
			if cc := callOf(in); cc != nil && isInvokeOf(cc, "Client", "OpenStream") {
				os = fn
			}
		})
	}
	c.need(os != nil, id, "the stream method that calls Client.OpenStream")
	c.see(os)
	loops := 0
	for f := range w.syncCallees(os, 1, false) {
		if f.Pkg == os.Pkg {
			loops += len(cycleBlocks(f))
		}
	}
	loops += len(cycleBlocks(os))
	sleeps := 0
	allInstrs(os, func(in ssa.Instruction) {
		if cc := callOf(in); cc != nil && calleeName(cc) == "time.Sleep" {
			sleeps++
		}
	})
	c.Check(loops == 0 && sleeps == 0, id, "open-once@"+fname(os), os.Pos(), "one request, one answer: no loop, no sleep", fmt.Sprintf("%s retries on its own (%d blocks in cycles, %d sleeps): its callers' fail-stop logic (open all or die; five reopen attempts) never sees the failures", fname(os), loops, sleeps))
}

// serialGateByVersion (C18): whether streams are closed one by one is decided by the server version alone — the branch
// of closeAllStreams is selected by `streamEndNotSupportedData != nil` and nothing else, and that field is set only by
// the version test in NewStream.
func serialGateByVersion(c *Ctx, id string) {
	w := c.W
	sfName, _ := w.serialCloseField()
	f := w.Field("stream", "stream", sfName)
	c.need(f != nil, id, "stream.streamEndNotSupportedData")
	n := 0
	for _, fn := range w.ModFuncs {
		if fn.Parent() != nil || fn.Signature.Recv() == nil || recvTypeName(fn.Signature.Recv().Type()) != "stream" {
			continue
		}
		for _, g := range withAnon(fn) {
			allInstrs(g, func(in ssa.Instruction) {
				cc := callOf(in)
				if cc == nil || !isInvokeOf(cc, "Client", "CloseStream") {
					return
				}
				n++
				// conditions of the call site in the function that owns it, plus those of the helper's call site one level up
				var conds []string
				collect := func(b *ssa.BasicBlock) {
					for _, gd := range guardsOf(b) {
						if _, isNil := isNilCompare(gd.Cond, func(x ssa.Value) bool { return loadedField(unwrap(x)) == f }); isNil {
							continue
						}
						o := w.Origin(gd.Cond)
						if strings.Contains(o, "vbIDRange") || strings.Contains(o, "φ") || strings.Contains(o, "next(") {
							continue // loop bounds
						}
						conds = append(conds, o)
					}
				}
				collect(in.Block())
				if g != fn {
					// the closure is spawned from fn
					allInstrs(fn, func(x ssa.Instruction) {
						if mc, ok := x.(*ssa.MakeClosure); ok && mc.Fn == ssa.Value(g) {
							collect(x.Block())
						}
					})
				}
				for _, cs := range w.callersOf(fn) {
					collect(cs.Call.Block())
				}
				c.Check(len(conds) == 0, id, "serial-gate@"+fname(g), in.Pos(), "which close mode runs depends on streamEndNotSupportedData (the version gate) only", fmt.Sprintf("the choice between serial and concurrent stream closing also depends on %v: on a server below 5.5.0 the streams can be closed concurrently", conds))
			})
		}
	}
	if n < 2 {
		c.Undecided(id, "serial-gate", 0, "only %d CloseStream sites", n)
	}
	fieldWriters("stream", "stream", sfName, "the serial-close mode must follow from the server version alone", "stream.NewStream")(c, id)
}

// opAlwaysIssued (C20): "exactly the server's outcome" presupposes that the server is asked. In every wrapper around a
// gocbcore operation each return of the wrapper is dominated by the call that issues the operation, unless it returns
// an error that is known to be non-nil at that point (argument validation, a failed preparation step). An answer served
// from a cache reports success for a request the node never saw.
func opAlwaysIssued(c *Ctx, id string) {
	w := c.W
	sites := asyncSites(w)
	byFn := map[*ssa.Function][]*asyncSite{}
	for _, s := range sites {
		if s.Fn.Parent() == nil {
			byFn[s.Fn] = append(byFn[s.Fn], s)
		}
	}
	n := 0
	var fns []*ssa.Function
	for f := range byFn {
		fns = append(fns, f)
	}
	sort.Slice(fns, func(i, j int) bool { return fname(fns[i]) < fname(fns[j]) })
	for _, fn := range fns {
		if len(byFn[fn]) != 1 {
			continue // several operations in one function (retry/rollback ladders) are judged by the path rules of C08/C20.R3
		}
		s := byFn[fn][0]
		n++
		c.see(fn)
		var bad []string
		allInstrs(fn, func(in ssa.Instruction) {
			r, ok := in.(*ssa.Return)
			if !ok || dominatesInstr(s.Call, in) || (fn.Recover != nil && in.Block() == fn.Recover) {
				return // (the recover block of a function with defers is not a path of normal execution)
			}
			// a return before the operation: it must carry an error known to be non-nil
			okErr := false
			for _, rv := range r.Results {
				if !types.Implements(rv.Type(), errorIface()) && rv.Type().String() != "error" {
					continue
				}
				// a function with defers returns through result cells: take the value stored into the cell in this block
				if u, isU := rv.(*ssa.UnOp); isU {
					if a, isA := u.X.(*ssa.Alloc); isA {
						for _, bi := range in.Block().Instrs {
							if st, isSt := bi.(*ssa.Store); isSt && st.Addr == ssa.Value(a) {
								rv = st.Val
							}
						}
					}
				}
				o := w.Origin(rv)
				switch {
				case strings.HasPrefix(o, "call(errors.New)") || strings.HasPrefix(o, "call(fmt.Errorf)"):
					okErr = true
				case errGuard(in.Block(), false, func(v ssa.Value) bool { return v == unwrap(rv) || w.Origin(v) == o }):
					okErr = true
				}
			}
			if !okErr {
				var rs []string
				for _, rv := range r.Results {
					rs = append(rs, w.Origin(rv))
				}
				bad = append(bad, "return ("+strings.Join(rs, ", ")+") @"+w.pos(in.Pos()))
			}
		})
		c.Check(len(bad) == 0, id, "op-issued:"+s.key(), s.Call.Pos(), "every return is preceded by the "+s.Op+" request or carries a non-nil error", "a path through "+fname(fn)+" answers without issuing "+s.Op+": "+strings.Join(bad, "; ")+" — success is reported for a request the node never confirmed")
	}
	if n < 10 {
		c.Undecided(id, "op-issued", 0, "only %d single-operation wrappers found (14 confirmed by hand)", n)
	}
}

// boundedTeardownIsNotFatal (C13): the API shutdown waits for in-flight requests without a deadline of its own; if a
// deadline variant is used, its error (a request still being served) must not reach a panic — Close would crash the
// process from the shutdown goroutine.
func boundedTeardownIsNotFatal(c *Ctx, id string) {
	w := c.W
	n := 0
	for _, fn := range w.ModFuncs {
		allInstrs(fn, func(in ssa.Instruction) {
			call, ok := in.(*ssa.Call)
			if !ok {
				return
			}
			f := call.Common().StaticCallee()
			if f == nil || f.Signature.Recv() == nil || !strings.HasPrefix(f.Name(), "Shutdown") || !strings.Contains(calleeName(call.Common()), "fiber") {
				return
			}
			n++
			c.see(fn)
			if f.Name() == "Shutdown" {
				c.OK(id, "teardown-wait@"+fname(fn), in.Pos(), "the HTTP server is shut down with the unbounded Shutdown(): it fails only if the listener cannot be closed")
				return
			}
			fatal := false
			for _, sk := range errorSinks(call) {
				if sk.Kind == "panic" {
					fatal = true
				}
			}
			c.Check(!fatal, id, "teardown-wait@"+fname(fn), in.Pos(), f.Name()+": its deadline error is tolerated", f.Name()+" has a deadline of its own and its error reaches panic: a request still in flight when Close runs crashes the process")
		})
	}
	if n == 0 {
		c.Undecided(id, "teardown-wait", 0, "no shutdown call of the HTTP server found")
	}
}

// gettersDoNotBlock (C16): what a scrape and the state endpoints call on the stream only reads fields — no lock, no
// channel operation, no call into anything but other such getters. Rebalance holds its lock from the close until the
// delayed reopen; a getter that takes it turns "scraping while closed" into waiting for the reopen.
func gettersDoNotBlock(c *Ctx, id string) {
	w := c.W
	streamT := w.NamedType("stream", "stream")
	c.need(streamT != nil, id, "stream.stream")
	users := append(collectFns(c, id), w.Method("api", "api", "offset"), w.Method("api", "api", "rebalance"))
	seen := map[string]bool{}
	n := 0
	for _, u := range users {
		if u == nil {
			continue
		}
		allInstrs(u, func(in ssa.Instruction) {
			cc := callOf(in)
			if cc == nil || !cc.IsInvoke() {
				return
			}
			ifc, isIfc := cc0Iface(cc)
			if !isIfc || ifc.NumMethods() == 0 || !types.Implements(types.NewPointer(streamT), ifc) || !strings.Contains(strings.ToLower(types.TypeString(cc.Value.Type(), nil)), "stream") {
				return
			}
			name := cc.Method.Name()
			if seen[name] || !(strings.HasPrefix(name, "Get") || strings.HasPrefix(name, "Is")) {
				return
			}
			seen[name] = true
			g := w.Method("stream", "stream", name)
			if g == nil {
				return
			}
			n++
			c.see(g)
			var bad []string
			allInstrs(g, func(x ssa.Instruction) {
				switch y := x.(type) {
				case *ssa.Send, *ssa.Select:
					bad = append(bad, fmt.Sprintf("%T @%s", x, w.pos(x.Pos())))
				case *ssa.UnOp:
					if y.Op.String() == "<-" {
						bad = append(bad, "receive @"+w.pos(x.Pos()))
					}
				case ssa.CallInstruction:
					cn := calleeName(y.Common())
					if strings.Contains(cn, "Mutex).") || strings.Contains(cn, "WaitGroup).Wait") || strings.Contains(cn, "time.Sleep") || strings.Contains(cn, "Once).Do") {
						bad = append(bad, cn+" @"+w.pos(x.Pos()))
					}
				}
			})
			c.Check(len(bad) == 0, id, "getter:"+name, g.Pos(), "stream."+name+" only reads", "stream."+name+", called by the collector / state endpoints, can block: "+strings.Join(bad, ", "))
		})
	}
	if n < 4 {
		c.Undecided(id, "getter", 0, "only %d stream getters found behind the collector and the state endpoints", n)
	}
}

// metadataIsTheConfiguredOne (C05/C02): what Checkpoint.Save writes to is the store that was configured. The client's
// metadata field is assigned only (a) the Couchbase or file backend built from the configuration, (b) the store handed
// in through SetMetadata, (c) the read-only wrapper around one of those. Any other wrapper changes the write protocol
// behind the checkpoint's back — e.g. a "bounded" one whose timed-out write keeps running and lands after a newer save.
func metadataIsTheConfiguredOne(c *Ctx, id string) {
	w := c.W
	f := w.Field("", "dcp", "metadata")
	c.need(f != nil, id, "dcp.metadata")
	allowedCtor := map[string]bool{"couchbase.NewCBMetadata": true, "metadata.NewFSMetadata": true, "metadata.NewReadMetadata": true}
	n := 0
	for _, fs := range w.fieldStores(f) {
		n++
		c.see(fs.Fn)
		v := unwrap(fs.Store.Val)
		ok, what := false, w.Origin(fs.Store.Val)
		switch x := v.(type) {
		case *ssa.Call:
			if cal := x.Common().StaticCallee(); cal != nil && allowedCtor[fname(cal)] {
				ok = true
			} else if cal != nil && w.inModule(cal) {
				// a selector helper that returns the store it was handed, the known read-only wrapper around it or a
				// proven pass-through (C20.R20)
				for _, a := range x.Common().Args {
					if sameRole(a.Type(), x.Type()) && w.provenPassThrough(layerApp{Fn: fs.Fn, At: x}) != "" {
						ok = true
					}
				}
			}
		case *ssa.Parameter:
			ok = true // SetMetadata / constructor argument
		case *ssa.Const:
			ok = x.Value == nil
		}
		c.Check(ok, id, fmt.Sprintf("metadata-wiring@%s", fname(fs.Fn)), fs.Store.Pos(), "dcp.metadata ← "+what, "dcp.metadata ← "+what+": the checkpoint would write through something other than the configured backend, the supplied store or the read-only wrapper")
	}
	if n < 3 {
		c.Undecided(id, "metadata-wiring", 0, "only %d assignments of dcp.metadata found (backend selection, SetMetadata, read-only wrapper confirmed by hand)", n)
	}
}

// absentMarkWriters (C07): a copy of a vBucket is left out of the persistence minimum only because the cluster map
// does not list it. The mark that says so (the boolean the record's IsAbsent reads) is written only by the record's
// own setter, and that setter is called only from the function that consults the cluster map (markAbsentInstances) —
// any other caller (an error path, an "optimisation" that stops polling the active copy) takes a live copy out of the
// minimum.
func absentMarkWriters(c *Ctx, id string) {
	w := c.W
	rec := replicaStateType(w)
	c.need(rec != nil, id, "the replica record type")
	isAbsent := w.Method("couchbase", rec.Obj().Name(), "IsAbsent")
	mark := w.Method("couchbase", "rollbackMitigation", "markAbsentInstances")
	c.need(isAbsent != nil && mark != nil, id, "IsAbsent / markAbsentInstances")
	// the field IsAbsent reads
	var field *types.Var
	allInstrs(isAbsent, func(in ssa.Instruction) {
		if v, ok := in.(ssa.Value); ok {
			if f, _ := flagRead(v); f != nil {
				field = f
			}
		}
	})
	c.need(field != nil, id, "the flag IsAbsent reads")
	// its writers
	setters := map[*ssa.Function]bool{}
	bad := ""
	for _, fs := range w.fieldStores(field) {
		fn := rootFn(fs.Fn)
		if fn.Signature.Recv() != nil && recvTypeName(fn.Signature.Recv().Type()) == rec.Obj().Name() {
			setters[fn] = true
			continue
		}
		if o := w.Origin(fs.Store.Val); o == "const(false)" {
			continue // (a fresh record starts present)
		}
		bad += " " + fname(fn) + "@" + w.pos(fs.Store.Pos())
	}
	c.Check(len(setters) > 0 && bad == "", id, "absent-mark:writers", isAbsent.Pos(), fmt.Sprintf("the absent mark is written by %d setter(s) of the record only", len(setters)), "the absent mark is written outside the record's own setter:"+bad)
	// callers of the setters
	n := 0
	badCall := ""
	for s := range setters {
		for _, cs := range w.callersOf(s) {
			n++
			caller := rootFn(cs.Fn)
			// the lookup may live in a helper of markAbsentInstances: what matters is that the function that marks is
			// the one that asks the cluster map where the copy lives (what it does with the answer is C07.R10's)
			asks := false
			for _, f := range withAnon(caller) {
				allInstrs(f, func(in ssa.Instruction) {
					if cc := callOf(in); cc != nil && cc.StaticCallee() != nil && cc.StaticCallee().Name() == "VbucketToServer" {
						asks = true
					}
				})
			}
			inUnit := false
			for _, g := range methodUnit(w, mark) {
				if rootFn(g) == caller {
					inUnit = true
				}
			}
			if !(inUnit && asks) {
				badCall += " " + fname(caller) + "@" + w.pos(cs.Call.Pos())
			}
		}
		if len(w.usesAsValue(s)) > 0 {
			badCall += " (taken as a function value)"
		}
	}
	// … and the map that is asked is the one the mitigation adopted: the observe loop waits for the copies of *that* map;
	// another agent's snapshot may be a revision behind (a copy it does not list yet would be marked absent and never
	// waited for)
	nAsk, badMap := 0, ""
	for _, fn := range w.ModFuncs {
		root := rootFn(fn)
		if root.Signature.Recv() == nil || recvTypeName(root.Signature.Recv().Type()) != recvTypeName(mark.Signature.Recv().Type()) || pkgPathOf(root) != pkgPathOf(mark) {
			continue
		}
		allInstrs(fn, func(in ssa.Instruction) {
			cc := callOf(in)
			if cc == nil || cc.StaticCallee() == nil || cc.StaticCallee().Name() != "VbucketToServer" || len(cc.Args) == 0 {
				return
			}
			nAsk++
			o := strings.TrimPrefix(w.Origin(cc.Args[0]), "*")
			if !strings.HasPrefix(o, "recv.") || strings.Count(o, ".") != 1 || strings.ContainsAny(o, "()[] ") {
				badMap += " " + o + "@" + w.pos(in.Pos())
			}
		})
	}
	c.Check(nAsk > 0 && badMap == "", id, "absent-mark:map", mark.Pos(), fmt.Sprintf("%d lookups, all in the cluster map the mitigation holds", nAsk), "where a copy lives is asked of a map other than the one the mitigation adopted:"+badMap)
	c.Check(n > 0 && badCall == "", id, "absent-mark:callers", mark.Pos(), fmt.Sprintf("%d call(s), all from the cluster-map lookup", n), "a copy is marked absent outside the cluster-map lookup:"+badCall+" — a live copy would drop out of the persistence minimum")
}

// collectionTableReadOnly (C03): the id→name table is built once (GetCollectionIDs) and shared by every observer of
// the session; nothing updates or deletes an entry of a map[uint32]string afterwards. An entry removed for one
// vBucket relabels the events of every other vBucket as _default.
func collectionTableReadOnly(c *Ctx, id string) {
	w := c.W
	isTable := func(t types.Type) bool {
		m, ok := t.Underlying().(*types.Map)
		if !ok {
			return false
		}
		k, ok1 := m.Key().Underlying().(*types.Basic)
		v, ok2 := m.Elem().Underlying().(*types.Basic)
		return ok1 && ok2 && k.Kind() == types.Uint32 && v.Kind() == types.String
	}
	n := 0
	bad := ""
	for _, fn := range w.ModFuncs {
		allInstrs(fn, func(in ssa.Instruction) {
			var m ssa.Value
			switch x := in.(type) {
			case *ssa.MapUpdate:
				m = x.Map
			case *ssa.Call:
				if b, ok := x.Common().Value.(*ssa.Builtin); ok && (b.Name() == "delete" || b.Name() == "clear") && len(x.Common().Args) > 0 {
					m = x.Common().Args[0]
				}
			}
			if m == nil || !isTable(m.Type()) {
				return
			}
			n++
			// building a fresh table (a map made in this very function) is the one legitimate writer
			if _, fresh := unwrap(m).(*ssa.MakeMap); fresh {
				return
			}
			bad += " " + fname(fn) + "@" + w.pos(in.Pos())
		})
	}
	c.Check(n > 0 && bad == "", id, "collection-table:read-only", 0, fmt.Sprintf("%d writes, all while building a fresh table", n), "the shared id→name table is changed after it was built:"+bad)
}

// whoMaySave (C01): the only thing ever handed to a checkpoint backend is the dump Checkpoint.Save built from the
// tracked positions. Every invocation of Metadata.Save in the module is either that call, or a backend that wraps
// another backend and forwards its own three parameters unchanged (the read-only wrapper). A helper that re-packs
// documents into maps of its own (per-vBucket retries, batching) can file a position under another vBucket's key.
func whoMaySave(c *Ctx, id string) {
	w := c.W
	n := 0
	bad := ""
	for _, fn := range w.ModFuncs {
		allInstrs(fn, func(in ssa.Instruction) {
			cc := callOf(in)
			if cc == nil || !isInvokeOf(cc, "Metadata", "Save") || len(cc.Args) != 3 {
				return
			}
			n++
			root := rootFn(fn)
			if fname(root) == "(*stream.checkpoint).Save" && fn == root {
				return // judged argument by argument by the dump rule
			}
			// a wrapping backend: an implementation of Metadata.Save that passes its own parameters on
			if root == fn && fn.Name() == "Save" && fn.Signature.Recv() != nil && len(fn.Params) == 4 {
				same := true
				for i := 0; i < 3; i++ {
					if w.Origin(cc.Args[i]) != "param("+fn.Params[i+1].Name()+")" {
						same = false
					}
				}
				if same {
					return
				}
			}
			bad += " " + fname(fn) + "@" + w.pos(in.Pos())
		})
	}
	c.Check(n > 0 && bad == "", id, "who-may-save", 0, fmt.Sprintf("%d invocations of Metadata.Save: Checkpoint.Save and forwarding wrappers only", n), "a checkpoint backend is handed something other than Checkpoint.Save's dump:"+bad)
}

// closeOnlySignals (C13): the public Close() asks the running client to shut down and returns; it does not wait for
// the teardown. It may be called from the listener, in the middle of a delivery — the teardown then needs that very
// delivery to finish, so a Close that waits (a WaitGroup, a receive, a lock, a sleep, a blocking select) deadlocks.
// Allowed: sends on channels; everything reachable through module calls (two levels) is held to the same rule.
func closeOnlySignals(c *Ctx, id string) {
	w := c.W
	var cl *ssa.Function
	for _, fn := range w.ModFuncs {
		if fname(fn) == "(*dcp.dcp).Close" {
			cl = fn
		}
	}
	c.need(cl != nil, id, "(*dcp).Close")
	var bad []string
	sends := 0
	seen := map[*ssa.Function]bool{}
	var visit func(fn *ssa.Function, depth int)
	visit = func(fn *ssa.Function, depth int) {
		if seen[fn] || fn.Blocks == nil {
			return
		}
		seen[fn] = true
		c.see(fn)
		allInstrs(fn, func(in ssa.Instruction) {
			switch x := in.(type) {
			case *ssa.Send:
				sends++
			case *ssa.Select:
				if x.Blocking {
					bad = append(bad, "blocking select @"+w.pos(in.Pos()))
				}
			case *ssa.UnOp:
				if x.Op.String() == "<-" {
					bad = append(bad, "receive @"+w.pos(in.Pos()))
				}
			case ssa.CallInstruction:
				if _, isGo := in.(*ssa.Go); isGo {
					return
				}
				cc := x.Common()
				name := calleeName(cc)
				switch {
				case strings.HasSuffix(name, "WaitGroup).Wait"), strings.HasSuffix(name, "Mutex).Lock"), strings.HasSuffix(name, "Mutex).RLock"), name == "time.Sleep", strings.HasSuffix(name, "Cond).Wait"), strings.HasSuffix(name, "Once).Do"):
					bad = append(bad, name+" @"+w.pos(in.Pos()))
				}
				if cal := cc.StaticCallee(); cal != nil && w.inModule(cal) && depth < 2 {
					visit(cal, depth+1)
				}
			}
		})
	}
	visit(cl, 0)
	c.Check(len(bad) == 0 && sends >= 1, id, "close-signals", cl.Pos(), fmt.Sprintf("Close sends its request (%d send) and waits for nothing", sends), "Close() waits ("+strings.Join(bad, ", ")+"): called from the listener it deadlocks with the teardown that needs the delivery to finish")
}

// readOnlyForwardsLoad (C15/C02): the read-only wrapper hands on what the wrapped store answered — the documents, the
// exists flag and above all the error — whatever its own state: exactly one Load of the wrapped store with the
// wrapper's own arguments, its three results returned untouched (exhaustive over success / failure).
func readOnlyForwardsLoad(c *Ctx, id string) {
	w := c.W
	var ld *ssa.Function
	for _, fn := range w.implsOf("metadata", "Metadata", "Load") {
		if recvTypeName(fn.Signature.Recv().Type()) == "readMetadata" {
			ld = fn
		}
	}
	c.need(ld != nil && len(ld.Params) == 3, id, "readMetadata.Load(vbIds, bucketUUID)")
	c.see(ld)
	h := &Harness{Fn: ld, Bools: []string{"loadFails", "exists"}, Quiet: quietLog,
		Oracle: func(st *State, name string, args []AV, res *types.Tuple) ([]AV, bool) {
			if strings.HasSuffix(name, ".Load") && res != nil && res.Len() == 3 {
				if st.B("loadFails") {
					return []AV{avPtr{nil}, avBool{false}, avIface{sym: "errLoad"}}, true
				}
				return []AV{ptrResult(res, 0, "documents"), avBool{st.B("exists")}, avIface{isNil: true}}, true
			}
			return nil, false
		}}
	c.oae(id, "read-only:load", ld.Pos(), h, func(st *State, out *Outcome) string {
		var loads []Effect
		for _, e := range out.Trace {
			if strings.HasSuffix(e.Name, ".Load") {
				loads = append(loads, e)
			}
		}
		if len(loads) != 1 || len(loads[0].Args) != 2 || avString(loads[0].Args[0]) != "?slice "+ld.Params[1].Name() || avString(loads[0].Args[1]) != ld.Params[2].Name() {
			return fmt.Sprintf("asks the wrapped store %v (expected once, with its own arguments)", loads)
		}
		e, ok := out.Ret[2].(avIface)
		if !ok || e.isNil == st.B("loadFails") {
			return "the wrapped store's failure is not what the wrapper reports: " + avString(out.Ret[2])
		}
		if st.B("loadFails") {
			return ""
		}
		if p, ok := out.Ret[0].(avPtr); !ok || p.c == nil || p.c.sym != "documents" {
			return "returns other documents than the wrapped store's: " + avString(out.Ret[0])
		}
		if b, ok := out.Ret[1].(avBool); !ok || b.b != st.B("exists") {
			return "changes the exists answer"
		}
		return ""
	}, "one wrapped Load with the same arguments; its (documents, exists, error) returned untouched")
}

// noCustomDecoding (C17): the configuration is decoded twice into the same value (raw, then with ${VAR} substituted);
// that is only idempotent because every configuration type is decoded by the YAML library's plain rules (a second
// decode overwrites). A configuration type with its own Unmarshal method can accumulate across the two passes.
func noCustomDecoding(c *Ctx, id string) {
	w := c.W
	p := w.Pkgs["config"]
	c.need(p != nil, id, "package config")
	nTypes := 0
	bad := ""
	sc := p.Types.Scope()
	for _, name := range sc.Names() {
		tn, ok := sc.Lookup(name).(*types.TypeName)
		if !ok {
			continue
		}
		nTypes++
		for _, t := range []types.Type{tn.Type(), types.NewPointer(tn.Type())} {
			ms := types.NewMethodSet(t)
			for i := 0; i < ms.Len(); i++ {
				m := ms.At(i).Obj().Name()
				if strings.HasPrefix(m, "Unmarshal") || strings.HasPrefix(m, "Decode") {
					if !strings.Contains(bad, name+"."+m) {
						bad += " " + name + "." + m
					}
				}
			}
		}
	}
	// fields of the configuration whose types come from elsewhere in the module with a decoder of their own
	c.Check(nTypes >= 10 && bad == "", id, "plain-decoding", 0, fmt.Sprintf("%d configuration types, none decodes itself", nTypes), "configuration types with their own decoding:"+bad+" — the two-pass load (raw, then substituted) is no longer an overwrite")
}

// eventsNotMutated (C03): what the consumer receives is what the server sent: the library never writes into an event it
// was handed. No store into a field of a gocbcore Dcp* event struct or of a models wrapper of one, no element store into
// a byte slice read from such a field, and no mutation through reflection anywhere in the module ((reflect.Value).Set*,
// reflect.Copy/Append on values) — a "clipped copy" made by reflection shares the embedded event.
func eventsNotMutated(c *Ctx, id string) {
	w := c.W
	isEventType := func(t types.Type) bool {
		for {
			p, ok := t.(*types.Pointer)
			if !ok {
				break
			}
			t = p.Elem()
		}
		n, ok := t.(*types.Named)
		if !ok || n.Obj().Pkg() == nil {
			return false
		}
		path, name := n.Obj().Pkg().Path(), n.Obj().Name()
		if strings.Contains(path, "gocbcore") && strings.HasPrefix(name, "Dcp") {
			return true
		}
		return strings.HasSuffix(path, "/models") && (strings.HasPrefix(name, "Dcp") || strings.HasPrefix(name, "InternalDcp"))
	}
	nReflect := 0
	var bad []string
	for _, fn := range w.ModFuncs {
		allInstrs(fn, func(in ssa.Instruction) {
			switch x := in.(type) {
			case *ssa.Store:
				switch a := x.Addr.(type) {
				case *ssa.FieldAddr:
					if isEventType(a.X.Type()) {
						// building the wrapper literal (a fresh allocation of a models type) is not a mutation
						if _, fresh := unwrap(a.X).(*ssa.Alloc); fresh {
							return
						}
						bad = append(bad, "store into "+w.Origin(x.Addr)+" @"+w.pos(in.Pos()))
					}
				case *ssa.IndexAddr:
					// an element of a slice read from an event field
					if ld, ok := unwrap(a.X).(*ssa.UnOp); ok {
						if fa, ok := ld.X.(*ssa.FieldAddr); ok && isEventType(fa.X.Type()) {
							bad = append(bad, "element store into "+w.Origin(a.X)+" @"+w.pos(in.Pos()))
						}
					}
					if f, ok := unwrap(a.X).(*ssa.Field); ok && isEventType(f.X.Type()) {
						bad = append(bad, "element store into "+w.Origin(a.X)+" @"+w.pos(in.Pos()))
					}
				}
			case ssa.CallInstruction:
				name := calleeName(x.Common())
				if !strings.Contains(name, "reflect.") {
					return
				}
				nReflect++
				if strings.HasPrefix(name, "(reflect.Value).Set") || name == "reflect.Copy" || name == "reflect.Append" || name == "reflect.AppendSlice" || strings.HasPrefix(name, "(reflect.Value).Grow") || strings.HasPrefix(name, "(reflect.Value).Clear") {
					bad = append(bad, name+" @"+w.pos(in.Pos()))
				}
			}
		})
	}
	c.Check(len(bad) == 0 && nReflect >= 3, id, "events-not-mutated", 0, fmt.Sprintf("no store into an event, no mutation through reflection (%d reflect calls, all reads)", nReflect), "the library writes into values it was handed: "+strings.Join(bad, "; "))
}

// observerMapWriters (C03/C07): one observer per vBucket per session: the observers map is filled by Open (and the
// helpers only Open reaches) and by nothing that runs during the session — a stream re-opened after a transient end
// keeps its observer, and with it the persistence watermark, the catch-up point and the counters.
func observerMapWriters(c *Ctx, id string) {
	w := c.W
	open := w.Method("stream", "stream", "Open")
	c.need(open != nil, id, "stream.Open")
	obsIface := w.NamedType("couchbase", "Observer")
	c.need(obsIface != nil, id, "couchbase.Observer")
	isObserverMap := func(t types.Type) bool {
		return isCSMapOf(t, func(v types.Type) bool { return types.Identical(v, obsIface) })
	}
	writers := map[*ssa.Function][]ssa.Instruction{}
	for _, fn := range w.ModFuncs {
		if r := rootFn(fn); r.Signature.Recv() != nil && recvTypeName(r.Signature.Recv().Type()) == "ConcurrentSwissMap" {
			continue // the map's own methods (decoding into itself)
		}
		allInstrs(fn, func(in ssa.Instruction) {
			cc := callOf(in)
			if cc == nil {
				return
			}
			m, recv := csmapMethod(cc)
			if (m == "Store" || m == "StoreIf") && recv != nil && isObserverMap(recv.Type()) {
				writers[rootFn(fn)] = append(writers[rootFn(fn)], in)
			}
		})
	}
	// every writer is Open or is reached only from Open
	var onlyFromOpen func(f *ssa.Function, depth int) bool
	onlyFromOpen = func(f *ssa.Function, depth int) bool {
		if f == open {
			return true
		}
		if depth > 3 {
			return false
		}
		cs := w.callersOf(f)
		uses := w.usesAsValue(f)
		if len(cs) == 0 && len(uses) == 0 {
			// method values of f (`s.registerObserver`): the bound-method closures that stand for it
			for _, g := range w.ModFuncs {
				allInstrs(g, func(in ssa.Instruction) {
					if mc, isMC := in.(*ssa.MakeClosure); isMC && w.boundMethodOf(mc) == f {
						uses = append(uses, in)
					}
				})
			}
		}
		if len(cs) == 0 && len(uses) > 0 {
			// a method handed, as a method value, to an iteration over a map (`s.offsets.Range(s.registerObserver)`): it
			// runs where that iteration runs
			for _, u := range uses {
				if ci, isCall := u.(ssa.CallInstruction); isCall { // the iteration call the method value is an argument of
					if _, _, isRange := w.rangeCall(ci.Common()); !isRange || !onlyFromOpen(rootFn(ci.Parent()), depth+1) {
						return false
					}
					continue
				}
				mc, isMC := u.(*ssa.MakeClosure)
				if !isMC || mc.Referrers() == nil {
					return false
				}
				for _, r := range *mc.Referrers() {
					ci, isCall := r.(ssa.CallInstruction)
					if !isCall {
						return false
					}
					if _, _, isRange := w.rangeCall(ci.Common()); !isRange {
						return false
					}
					if !onlyFromOpen(rootFn(ci.Parent()), depth+1) {
						return false
					}
				}
			}
			return true
		}
		if len(cs) == 0 || len(uses) > 0 {
			return false
		}
		for _, c := range cs {
			if !onlyFromOpen(rootFn(c.Fn), depth+1) {
				return false
			}
		}
		return true
	}
	bad := ""
	n := 0
	for f, ins := range writers {
		n += len(ins)
		if !onlyFromOpen(f, 0) {
			bad += " " + fname(f) + "@" + w.pos(ins[0].Pos())
		}
	}
	c.Check(n > 0 && bad == "", id, "observer-map-writers", open.Pos(), fmt.Sprintf("%d store(s) into the observers map, all on Open's path", n), "an observer is installed outside Open:"+bad+" — a stream re-opened during the session would lose its persistence watermark, catch-up point and counters")
}

// lossySignals (C03/C07/C13): a wake-up that may be dropped must not be the only thing a waiter waits for. A
// non-blocking send (select with default) is harmless on a channel with a buffer — the token stays for the next
// receive — and loses the signal on an unbuffered one whenever the receiver is between its check and its receive. For
// every non-blocking send on a channel field of a module type, every make() stored into that field has capacity ≥ 1.
func lossySignals(c *Ctx, id string) {
	w := c.W
	n := 0
	var bad []string
	for _, fn := range w.ModFuncs {
		allInstrs(fn, func(in ssa.Instruction) {
			sel, ok := in.(*ssa.Select)
			if !ok || sel.Blocking {
				return
			}
			for _, stt := range sel.States {
				if stt.Dir != types.SendOnly {
					continue
				}
				n++
				ld, isLd := unwrap(stt.Chan).(*ssa.UnOp)
				if !isLd {
					continue
				}
				f := fieldOfAddr(ld.X)
				if f == nil {
					continue
				}
				for _, fs := range w.fieldStores(f) {
					if mk, isMk := unwrap(fs.Store.Val).(*ssa.MakeChan); isMk {
						if k, isK := mk.Size.(*ssa.Const); isK && w.Origin(k) == "const(0)" {
							bad = append(bad, fmt.Sprintf("non-blocking send on %s @%s, made unbuffered @%s", f.Name(), w.pos(in.Pos()), w.pos(mk.Pos())))
						}
					}
				}
			}
		})
	}
	// (no such send on the reference tree: the waits poll; the rule arms itself when one is introduced)
	c.Check(len(bad) == 0, id, "lossy-signal", 0, fmt.Sprintf("%d non-blocking sends, none on an unbuffered channel", n), "a wake-up can be lost: "+strings.Join(bad, "; "))
}

// workerResultChannels (C20): no worker blocks for ever on reporting its outcome. Where a function starts goroutines in
// a loop and reads what they send only after waiting for them (WaitGroup.Wait / errgroup Wait), a channel those
// goroutines send on must have room for every one of them: its capacity is tied to the number of workers (len of the
// ranged list), not a constant — with a constant k, failure number k+1 blocks on the send while the spawner blocks on
// the wait.
func workerResultChannels(c *Ctx, id string) {
	w := c.W
	n := 0
	var bad []string
	for _, fn := range w.ModFuncs {
		if fn.Parent() != nil {
			continue
		}
		var waits []ssa.Instruction
		allInstrs(fn, func(in ssa.Instruction) {
			if cc := callOf(in); cc != nil {
				name := calleeName(cc)
				if strings.HasSuffix(name, "WaitGroup).Wait") || strings.HasSuffix(name, "errgroup.Group).Wait") {
					waits = append(waits, in)
				}
			}
		})
		if len(waits) == 0 {
			continue
		}
		// channels made here on which a goroutine body sends
		allInstrs(fn, func(in ssa.Instruction) {
			mk, ok := in.(*ssa.MakeChan)
			if !ok {
				return
			}
			sentByWorker := false
			for _, a := range fn.AnonFuncs {
				started := false
				allInstrs(fn, func(y ssa.Instruction) {
					if g, isGo := y.(*ssa.Go); isGo && (closureOf(g.Common().Value) == a || g.Common().StaticCallee() == a) {
						started = true
					}
				})
				if !started {
					continue
				}
				for _, f := range withAnon(a) {
					allInstrs(f, func(x ssa.Instruction) {
						if sd, isSend := x.(*ssa.Send); isSend && resolveCell(sd.Chan) == ssa.Value(mk) {
							sentByWorker = true
						}
					})
				}
			}
			if !sentByWorker {
				return
			}
			// read only after the wait?
			readBeforeWait := false
			allInstrs(fn, func(x ssa.Instruction) {
				u, isU := x.(*ssa.UnOp)
				if !isU || u.Op.String() != "<-" || resolveCell(u.X) != ssa.Value(mk) {
					return
				}
				after := false
				for _, wt := range waits {
					if dominatesInstr(wt, x) {
						after = true
					}
				}
				if !after {
					readBeforeWait = true
				}
			})
			if readBeforeWait {
				return
			}
			n++
			// room for every worker: the capacity is the length of the list the workers are started over
			if o := w.Origin(mk.Size); !strings.Contains(o, "len(") {
				bad = append(bad, fmt.Sprintf("%s: channel of capacity %s @%s is written by workers and read only after the wait", fname(fn), o, w.pos(mk.Pos())))
			}
		})
	}
	// (no such channel on the reference tree: workers panic or use errgroup; the rule arms itself when one appears)
	c.Check(len(bad) == 0, id, "worker-result-channels", 0, fmt.Sprintf("%d result channels read after the wait, none of constant capacity", n), "workers can block for ever on reporting: "+strings.Join(bad, "; "))
}

// dirtyMarkWriters (C14/C05): what gets written by a save is decided by the dirty marks, and a mark is raised in one
// place: the position writer (when told dirty). Besides it only the checkpoint's Load builds the initial marks. Any
// other function that stores into the dirty map flags vBuckets nobody settled anything on.
func dirtyMarkWriters(c *Ctx, id string) {
	w := c.W
	writers := map[*ssa.Function]bool{}
	for _, f := range w.positionWriterFuncs() {
		writers[f] = true
	}
	n := 0
	var bad []string
	for _, fn := range w.ModFuncs {
		if r := rootFn(fn); r.Signature.Recv() != nil && recvTypeName(r.Signature.Recv().Type()) == "ConcurrentSwissMap" {
			continue
		}
		allInstrs(fn, func(in ssa.Instruction) {
			cc := callOf(in)
			if cc == nil {
				return
			}
			m, recv := csmapMethod(cc)
			if (m != "Store" && m != "StoreIf") || recv == nil || !w.isDirtyMap(recv.Type()) {
				return
			}
			n++
			r := rootFn(fn)
			if writers[r] || writers[fn] {
				return
			}
			if strings.HasSuffix(fname(r), "checkpoint).Load") || len(callsInUnit(w, r, "checkpoint).Load")) > 0 {
				return
			}
			bad = append(bad, fname(fn)+" @"+w.pos(in.Pos()))
		})
	}
	c.Check(n >= 2 && len(bad) == 0, id, "dirty-mark-writers", 0, fmt.Sprintf("%d stores into the dirty marks: the position writer and the checkpoint's Load", n), "a vBucket is flagged for saving outside the position writer: "+strings.Join(bad, "; "))
}

// callsInUnit: fn is (a helper of) the function whose name ends with suffix: the callers of fn up to two levels.
func callsInUnit(w *World, fn *ssa.Function, suffix string) []*ssa.Function {
	var out []*ssa.Function
	seen := map[*ssa.Function]bool{}
	var up func(f *ssa.Function, d int)
	up = func(f *ssa.Function, d int) {
		if seen[f] || d > 2 {
			return
		}
		seen[f] = true
		for _, cs := range w.callersOf(f) {
			r := rootFn(cs.Fn)
			if strings.HasSuffix(fname(r), suffix) {
				out = append(out, r)
			}
			up(r, d+1)
		}
	}
	up(fn, 0)
	return out
}

// serialCloseTokens (C18): the serial close of servers older than 5.5.0 is a hand-shake over one channel: the close loop
// puts a token before each CloseStream, the end listener takes one per stream end while the loop is running — so the
// next close is issued only after the previous stream's end arrived. That works only with one plain blocking send site
// (in the close loop, once per iteration, before the close request) and one plain blocking receive site (the end
// listener); any other operation on the channel — a select with default that "releases the slot", a second receiver —
// lets two closes overlap.
func serialCloseTokens(c *Ctx, id string) {
	w := c.W
	_, dataT := w.serialCloseField()
	c.need(dataT != nil, id, "stream.streamEndNotSupportedData")
	var qf *types.Var
	if st, ok := dataT.Underlying().(*types.Struct); ok {
		for i := 0; i < st.NumFields(); i++ {
			if _, isCh := st.Field(i).Type().Underlying().(*types.Chan); isCh {
				qf = st.Field(i)
			}
		}
	}
	c.need(qf != nil, id, "the token channel of the serial close")
	isQ := func(v ssa.Value) bool {
		ld, ok := unwrap(v).(*ssa.UnOp)
		return ok && ld.Op.String() == "*" && fieldOfAddr(ld.X) == qf
	}
	type site struct {
		fn   *ssa.Function
		in   ssa.Instruction
		kind string
	}
	var sends, recvs, others []site
	for _, fn := range w.ModFuncs {
		allInstrs(fn, func(in ssa.Instruction) {
			switch x := in.(type) {
			case *ssa.Send:
				if isQ(x.Chan) {
					sends = append(sends, site{fn, in, "send"})
				}
			case *ssa.UnOp:
				if x.Op.String() == "<-" && isQ(x.X) {
					recvs = append(recvs, site{fn, in, "receive"})
				}
			case *ssa.Select:
				for _, stt := range x.States {
					if isQ(stt.Chan) {
						others = append(others, site{fn, in, "select"})
					}
				}
			case ssa.CallInstruction:
				if b, ok := x.Common().Value.(*ssa.Builtin); ok && (b.Name() == "close" || b.Name() == "len") && len(x.Common().Args) == 1 && isQ(x.Common().Args[0]) {
					others = append(others, site{fn, in, b.Name()})
				}
			}
		})
	}
	var bad []string
	for _, o := range others {
		bad = append(bad, fmt.Sprintf("%s on the token channel in %s @%s", o.kind, fname(o.fn), w.pos(o.in.Pos())))
	}
	if len(sends) != 1 {
		bad = append(bad, fmt.Sprintf("%d send sites (expected one, in the close loop)", len(sends)))
	}
	if len(recvs) != 1 {
		bad = append(bad, fmt.Sprintf("%d receive sites (expected one, in the end listener)", len(recvs)))
	}
	if len(sends) == 1 && len(recvs) == 1 && rootFn(sends[0].fn) == rootFn(recvs[0].fn) {
		bad = append(bad, "the token is put and taken by the same function "+fname(rootFn(sends[0].fn)))
	}
	// the token is put before the close request of the same iteration
	if len(sends) == 1 {
		okOrder := false
		allInstrs(sends[0].fn, func(in ssa.Instruction) {
			if cc := callOf(in); cc != nil && isInvokeOf(cc, "Client", "CloseStream") && dominatesInstr(sends[0].in, in) {
				okOrder = true
			}
		})
		if !okOrder {
			bad = append(bad, "the token is not put before the close request it guards")
		}
	}
	// a token is taken only for an end that answers a close request: the receive runs under the "closing" flag of the
	// serial-close state, which the close loop raises before its first token and lowers after its last — a stream that
	// ends by itself (finite mode, a transient end) must not wait for a token nobody will put
	if len(recvs) == 1 {
		var flag *types.Var
		if st, ok := dataT.Underlying().(*types.Struct); ok {
			for i := 0; i < st.NumFields(); i++ {
				if isBool(st.Field(i).Type()) {
					flag = st.Field(i)
				}
			}
		}
		underFlag := flag != nil && guardedBy(recvs[0].in.Block(), true, func(v ssa.Value) bool { f, _ := flagRead(v); return f == flag })
		raised, lowered := false, false
		var raise ssa.Instruction
		if flag != nil && len(sends) == 1 {
			allInstrs(rootFn(sends[0].fn), func(in ssa.Instruction) {
				if f, _, val := flagWrite(in); f == flag {
					switch w.Origin(val) {
					case "const(true)":
						if dominatesInstr(in, sends[0].in) || !cycleBlocks(rootFn(sends[0].fn))[in.Block()] {
							raised = true
							raise = in
						}
					case "const(false)":
						lowered = true
					}
				}
			})
		}
		// once raised the flag is lowered on every way out of the close: an end that arrives after a close that left
		// it up would wait for a token nobody puts
		if raise != nil && lowered && raise.Parent() == sends[0].fn {
			isLower := func(in ssa.Instruction) bool {
				f, _, val := flagWrite(in)
				return f == flag && w.Origin(val) == "const(false)"
			}
			if existsPathAvoiding(raise, isLower, false) {
				bad = append(bad, "the closing flag can stay raised: a path from raising it to the return of "+fname(sends[0].fn)+" does not lower it — every later stream end would wait for a token")
			}
		}
		// the close loop asks every vBucket of the range: it is left only by its bound test
		if len(sends) == 1 {
			fn := sends[0].fn
			sb := sends[0].in.Block()
			inLoop := map[*ssa.BasicBlock]bool{}
			for _, b := range fn.Blocks {
				if blockReaches(b, sb) && blockReaches(sb, b) {
					inLoop[b] = true
				}
			}
			if !inLoop[sb] {
				bad = append(bad, "the token is not put inside a loop over the assigned vBuckets")
			}
			exits := map[*ssa.BasicBlock]bool{}
			for b := range inLoop {
				for _, sx := range b.Succs {
					if !inLoop[sx] && !deadEnd(sx) {
						exits[b] = true
					}
				}
			}
			for b := range exits {
				for l := range inLoop {
					if !b.Dominates(l) {
						bad = append(bad, "the close loop can be left before every assigned vBucket was asked to close (an exit other than its bound test @"+w.pos(lastPos(b))+"): the streams left open keep delivering into the closed session")
						break
					}
				}
			}
		}
		if !underFlag {
			bad = append(bad, "the end listener takes a token for every stream end, not only while the serial close is in progress (no closing flag guards the receive)")
		} else if !raised || !lowered {
			bad = append(bad, fmt.Sprintf("the closing flag is not raised before and lowered after the close loop (raised: %v, lowered: %v)", raised, lowered))
		}
	}
	bad = dedupStrings(bad)
	c.Check(len(bad) == 0, id, "serial-close-tokens", 0, "one blocking send before each close request, one blocking receive per stream end, nothing else touches the channel", "the serial-close hand-shake is broken: "+strings.Join(bad, "; ")+" — two close requests can be in flight on a server whose stream table is not thread-safe")
}

// apiHandlersStateless (C16): the state endpoints render what the stream holds at the time of the request: the
// handlers of the API that answer with state (offset, followers, status, rebalance) store nothing into the API object
// or into package-level variables (no cached body, no remembered answer).
func apiHandlersStateless(c *Ctx, id string) {
	w := c.W
	n := 0
	var bad []string
	for _, name := range []string{"offset", "followers", "status", "rebalance"} {
		fn := w.Method("api", "api", name)
		if fn == nil {
			continue
		}
		n++
		c.see(fn)
		for _, f := range withAnon(fn) {
			allInstrs(f, func(in ssa.Instruction) {
				st, ok := in.(*ssa.Store)
				if !ok {
					return
				}
				o := w.Origin(st.Addr)
				if strings.HasPrefix(o, "&recv.") || strings.HasPrefix(o, "&global(") || strings.HasPrefix(o, "global(") {
					bad = append(bad, fmt.Sprintf("%s stores into %s @%s", name, o, w.pos(in.Pos())))
				}
			})
		}
	}
	c.Check(n >= 3 && len(bad) == 0, id, "api-handlers-stateless", 0, fmt.Sprintf("%d state handlers, none keeps anything between requests", n), "a state endpoint keeps state of its own: "+strings.Join(bad, "; ")+" — a later request is answered from what an earlier one saw")
}

// neverRecovers (C15/C06/C19): the library is fail-stop: what it cannot handle is a panic that ends the process (an
// event outside its snapshot, a checkpoint ahead of the bucket, five failed pings, a stream that cannot be opened, a
// checkpoint load that fails during a rebalance). The module therefore never calls recover(): a recovered panic turns a
// fatal condition into a running client on a partial or inconsistent basis.
func neverRecovers(c *Ctx, id string) {
	w := c.W
	nPanic := 0
	var bad []string
	for _, fn := range w.ModFuncs {
		allInstrs(fn, func(in ssa.Instruction) {
			if isPanicLike(in) {
				nPanic++
			}
			if cc := callOf(in); cc != nil {
				if b, ok := cc.Value.(*ssa.Builtin); ok && b.Name() == "recover" {
					bad = append(bad, fname(fn)+" @"+w.pos(in.Pos()))
				}
			}
		})
	}
	c.Check(len(bad) == 0 && nPanic >= 20, id, "never-recovers", 0, fmt.Sprintf("%d fatal exits, no recover() anywhere in the module", nPanic), "the module recovers panics: "+strings.Join(bad, "; ")+" — a fatal condition no longer stops the client")
}

// rebalanceLockOwners (C11): the lifecycle callbacks of a rebalance (BeforeRebalanceStart … AfterRebalanceEnd,
// BeforeStreamStop/AfterStreamStop, BeforeStreamStart/AfterStreamStart) run while the rebalance lock is held — taken in
// Rebalance, released at the end of the timer-driven reopen. Nothing the application may call from such a callback
// (Commit → Stream.Save, the getters, Close) may take that lock, or the rebalance dead-locks on itself: Lock/TryLock/
// Unlock on the lock field appear only in the two functions of the hand-off.
func rebalanceLockOwners(c *Ctx, id string) {
	w := c.W
	reb := w.Method("stream", "stream", "Rebalance")
	c.need(reb != nil, id, "stream.Rebalance")
	// the lock field: the mutex Rebalance locks
	var lockField *types.Var
	allInstrs(reb, func(in ssa.Instruction) {
		if cc := callOf(in); cc != nil && strings.HasSuffix(calleeName(cc), "Mutex).Lock") && len(cc.Args) == 1 {
			if f := fieldOfAddr(cc.Args[0]); f != nil {
				lockField = f
			}
		}
	})
	c.need(lockField != nil, id, "the mutex Rebalance takes")
	users := map[*ssa.Function]bool{}
	n := 0
	for _, fn := range w.ModFuncs {
		allInstrs(fn, func(in ssa.Instruction) {
			cc := callOf(in)
			if cc == nil || len(cc.Args) < 1 {
				return
			}
			name := calleeName(cc)
			if !strings.Contains(name, "Mutex).") {
				return
			}
			if fieldOfAddr(cc.Args[0]) == lockField {
				n++
				users[rootFn(fn)] = true
			}
		})
	}
	var bad []string
	for f := range users {
		if f != reb && !(f.Signature.Recv() != nil && recvTypeName(f.Signature.Recv().Type()) == "stream" && strings.EqualFold(f.Name(), "rebalance")) {
			// a helper reached only from the two hand-off functions is part of them
			only := true
			for _, cs := range w.callersOf(f) {
				r := rootFn(cs.Fn)
				if r != reb && !strings.EqualFold(r.Name(), "rebalance") {
					only = false
				}
			}
			if !only || len(w.callersOf(f)) == 0 {
				bad = append(bad, fname(f))
			}
		}
	}
	sort.Strings(bad)
	c.Check(n >= 2 && len(bad) == 0, id, "rebalance-lock-owners", reb.Pos(), fmt.Sprintf("%d operations on the rebalance lock, all in the hand-off (Rebalance → timer-driven reopen)", n), "the rebalance lock is taken outside the hand-off: "+strings.Join(bad, ", ")+" — a lifecycle callback that calls it (Commit from BeforeStreamStop, say) dead-locks the rebalance")
}

func dedupStrings(in []string) []string {
	seen := map[string]bool{}
	var out []string
	for _, x := range in {
		if !seen[x] {
			seen[x] = true
			out = append(out, x)
		}
	}
	return out
}
