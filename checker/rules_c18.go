package main

import (
	"fmt"
	"go/token"
	"go/types"
	"sort"
	"strings"

	"golang.org/x/tools/go/ssa"
)

func init() {
	register(&Property{
		ID: "C18",
		Explanation: "Decides that version gating rests on a strict total order, for ALL integer field values: (R1) over the 81 relation vectors of (Major, Minor, Patch, Build) pairs, Higher is the lexicographic >, Equal is component-wise =, Lower is the lexicographic < — so exactly one holds, and antisymmetry/transitivity follow from being the lexicographic order; " +
			"(R2) the gates are threshold tests on that order: useExpiryOpcode ⇔ Higher∨Equal(6.5.0.0), useChangeStreams ⇔ IsMagma ∧ (Higher∨Equal(7.2.0.0)), serial close ⇔ Lower(5.5.0.0), with the three constants holding exactly those tuples — hence monotone; " +
			"(R3) the parser fills Major/Minor from the first two dot-separated parts, Patch from the part before the first '-' of the third, Build from the part after it, each under exactly the length conditions that say the part exists, and every Atoi error except the build's is returned. " +
			"NOT decided: behaviour on arbitrary malformed strings.",
		Assumptions: []string{"strconv.Atoi and strings.Split semantics"},
		Rules: []RuleDef{
			{ID: "C18.R11", Text: "below 5.5.0 the serial close asks exactly the assigned vBuckets: the ownership test and the close loop agree with the assigned chunk — In ⇔ Start ≤ vbID ≤ End, streams closed for Start..End inclusive (same rule as C09.R4)", Run: func(c *Ctx, id string) { c04r2(c, id); closeAllRange(c, id) }},
			{ID: "C18.R12", Text: "a version stays the tuple its string denotes: version fields are stored only where a version is built (the parser, literals, package initialisers) — never through a pointer to a version held elsewhere; nothing in the parser narrows an integer and every numeric field of the version is as wide as int", Run: versionImmutable},
			{ID: "C18.R1", Text: "Higher = lexicographic >, Equal = component-wise =, Lower = lexicographic < on (Major, Minor, Patch, Build) — 81 relation vectors, exhaustive for all ints", Run: c18r1},
			{ID: "C18.R2", Text: "gates: expiry opcode ⇔ ≥ 6.5.0.0; change streams ⇔ magma ∧ ≥ 7.2.0.0; serial close ⇔ < 5.5.0.0; constants are those tuples", Run: c18r2},
			{ID: "C18.R3", Text: "parser table: Major ← Atoi(dot[0]), Minor ← Atoi(dot[1]), Patch ← Atoi(dash(dot[2])[0]), Build ← Atoi(dash(dash(dot[2])[1])[0]); each under exactly its existence conditions; errors returned except the build's", Run: c18r3},
			{ID: "C18.R5", Text: "the serial-close gate is a function of the server version alone: the close mode is selected by streamEndNotSupportedData≠nil only, and that field is set only by NewStream's version test", Run: serialGateByVersion},
			{ID: "C18.R6", Text: "the gate selects the right mode: the one-by-one close loop runs in the branch where the version gate is set, the concurrent close where it is not", Run: closeModePolarity},
			{ID: "C18.R7", Text: "the change-stream gate reads the server's storage backend: IsMagma ⇔ the field decoded from \"storageBackend\" equals \"magma\"; IsEphemeral ⇔ the field decoded from \"bucketType\" equals \"ephemeral\" (exhaustive)", Run: bucketPredicates},
			{ID: "C18.R8", Text: "below 5.5.0 streams are closed one at a time: the token channel of the serial close has one plain blocking send (in the close loop, before the close request) and one plain blocking receive (in the end listener) and is touched by nothing else", Run: serialCloseTokens},
			{ID: "C18.R9", Text: "the gate constants are what their declarations say for the whole run: apart from the logger and the tracer no package-level variable of the module is written after the package initialiser (no init() that re-points them, no store through them)", Run: globalsFrozen},
			{ID: "C18.R10", Text: "below 5.5.0 every close request is answered: the observer forwards the end of its stream to the end listener ⇔ the end switch is not thrown — also for a closed observer, whose end is the token the serial close waits for (same rule as C12.R4)", Run: c12r4},
			{ID: "C18.R4", Text: "the version the gates are evaluated on is the parser's result for the string the server reported: every non-nil version GetVersion returns is nodeVersionFromString(/pools implementationVersion) under that call's err == nil (no invented fallback version), and newDcp's gates use GetVersion's result", Run: c18r4},
		},
	})
}

var verFields = []string{"Major", "Minor", "Patch", "Build"}

func c18r1(c *Ctx, id string) {
	w := c.W
	lex := func(st *State, a, b string) int { // sign of lexicographic compare
		for _, f := range verFields {
			if st.Lt(a+"."+f, b+"."+f) {
				return -1
			}
			if st.Lt(b+"."+f, a+"."+f) {
				return 1
			}
		}
		return 0
	}
	for _, m := range []struct {
		name string
		want func(int) bool
		text string
	}{
		{"Higher", func(s int) bool { return s > 0 }, "lexicographic >"},
		{"Equal", func(s int) bool { return s == 0 }, "component-wise ="},
		{"Lower", func(s int) bool { return s < 0 }, "lexicographic <"},
	} {
		fn := w.Method("couchbase", "Version", m.name)
		if fn == nil {
			c.Undecided(id, m.name, 0, "Version.%s not found", m.name)
			continue
		}
		v, ov := fn.Params[0].Name(), fn.Params[1].Name()
		var groups []Group
		for _, f := range verFields {
			groups = append(groups, Group{Atoms: []string{v + "." + f, ov + "." + f}})
		}
		mm := m
		h := &Harness{Fn: fn, Groups: groups}
		c.oae(id, fname(fn), fn.Pos(), h, func(st *State, out *Outcome) string {
			if out.Panicked {
				return "panics"
			}
			b, ok := out.Ret[0].(avBool)
			want := mm.want(lex(st, v, ov))
			if !ok || b.b != want {
				return fmt.Sprintf("%s returns %s, expected %v", mm.name, avString(out.Ret[0]), want)
			}
			return ""
		}, m.name+" = "+m.text+" on (Major, Minor, Patch, Build)")
	}
}

// versionConst reads the tuple a package-level *Version variable is initialised with.
func versionConst(w *World, name string) ([4]string, bool) {
	var out [4]string
	sp := w.SSA["couchbase"]
	if sp == nil {
		return out, false
	}
	init := sp.Func("init")
	g, _ := sp.Members[name].(*ssa.Global)
	if init == nil || g == nil {
		return out, false
	}
	found := false
	allInstrs(init, func(in ssa.Instruction) {
		st, ok := in.(*ssa.Store)
		if !ok || st.Addr != ssa.Value(g) {
			return
		}
		if a := asAlloc(st.Val); a != nil {
			tab, _ := allocTable(a)
			for i, f := range verFields {
				out[i] = w.Origin(tab[f])
			}
			found = true
		}
	})
	return out, found
}

func c18r2(c *Ctx, id string) {
	w := c.W
	for name, want := range map[string][4]string{"SrvVer550": {"const(5)", "const(5)", "const(0)", "const(0)"}, "SrvVer650": {"const(6)", "const(5)", "const(0)", "const(0)"}, "SrvVer720": {"const(7)", "const(2)", "const(0)", "const(0)"}} {
		got, ok := versionConst(w, name)
		// unset fields of a literal are zero
		for i := range got {
			if got[i] == "<nil>" {
				got[i] = "const(0)"
			}
		}
		c.Check(ok && got == want, id, "const:"+name, 0, fmt.Sprint(name, " = ", got), fmt.Sprint(name, " = ", got, ", expected ", want))
	}
	// newDcp gates
	var nd *ssa.Function
	for _, fn := range w.ModFuncs {
		if fname(fn) == "dcp.newDcp" {
			nd = fn
		}
	}
	c.need(nd != nil, id, "dcp.newDcp")
	bools := []string{"H650", "E650", "H720", "E720", "magma"}
	h := &Harness{Fn: nd, Bools: bools, Quiet: append([]string{"dcp.printConfiguration"}, quietLog...),
		NoInline:  map[string]bool{"dcp.printConfiguration": true},
		StopAfter: func(e Effect) bool { return strings.HasSuffix(e.Name, ".DcpConnect") },
		Oracle: func(st *State, name string, args []AV, res *types.Tuple) ([]AV, bool) {
			verArg := func() string {
				if len(args) == 2 {
					return avString(args[1])
				}
				return ""
			}
			switch {
			case strings.HasSuffix(name, "Version).Higher"), strings.HasSuffix(name, "Version).Equal"):
				k := "H"
				if strings.HasSuffix(name, "Equal") {
					k = "E"
				}
				switch {
				case strings.Contains(verArg(), "SrvVer650"):
					return []AV{avBool{st.B(k + "650")}}, true
				case strings.Contains(verArg(), "SrvVer720"):
					return []AV{avBool{st.B(k + "720")}}, true
				}
				return []AV{avOpaque{"comparison with an unexpected version " + verArg()}}, true
			case strings.HasSuffix(name, "BucketInfo).IsMagma"):
				return []AV{avBool{st.B("magma")}}, true
			}
			// every other fallible step succeeds (the gates are evaluated on the success path)
			if res != nil && res.Len() > 0 && types.Identical(res.At(res.Len()-1).Type(), types.Universe.Lookup("error").Type()) {
				var out []AV
				for i := 0; i < res.Len()-1; i++ {
					t := res.At(i).Type()
					if _, isPtr := t.Underlying().(*types.Pointer); isPtr {
						out = append(out, avPtr{&cell{typ: t.Underlying().(*types.Pointer).Elem(), sym: fmt.Sprintf("r%d:%s", i, name)}})
					} else if types.IsInterface(t) {
						out = append(out, avIface{sym: fmt.Sprintf("r%d:%s", i, name)})
					} else {
						out = append(out, avOpaque{"result of " + name})
					}
				}
				return append(out, avIface{isNil: true}), true
			}
			return nil, false
		},
		Valid: func(st *State) bool { // Higher and Equal are mutually exclusive (R1)
			return !(st.B("H650") && st.B("E650")) && !(st.B("H720") && st.B("E720"))
		},
	}
	c.oae(id, "gates@"+fname(nd), nd.Pos(), h, func(st *State, out *Outcome) string {
		if !out.Stopped {
			return "DcpConnect is not reached on the success path"
		}
		e := out.Trace[len(out.Trace)-1]
		if len(e.Args) != 2 {
			return "unexpected DcpConnect arguments"
		}
		exp, okE := e.Args[0].(avBool)
		chg, okC := e.Args[1].(avBool)
		if !okE || !okC {
			return "gate values not determined: " + e.String()
		}
		wantE := st.B("H650") || st.B("E650")
		wantC := st.B("magma") && (st.B("H720") || st.B("E720"))
		if exp.b != wantE {
			return fmt.Sprintf("useExpiryOpcode=%v, expected ≥6.5.0 = %v", exp.b, wantE)
		}
		if chg.b != wantC {
			return fmt.Sprintf("useChangeStreams=%v, expected magma ∧ ≥7.2.0 = %v", chg.b, wantC)
		}
		return ""
	}, "DcpConnect(useExpiryOpcode = v≥6.5.0, useChangeStreams = magma ∧ v≥7.2.0)")
	// NewStream: serial close ⇔ Lower(5.5.0)
	ns := w.Func("stream", "NewStream")
	c.need(ns != nil, id, "stream.NewStream")
	c.see(ns)
	sfName, _ := w.serialCloseField()
	f := w.Field("stream", "stream", sfName)
	n := 0
	allInstrs(ns, func(in ssa.Instruction) {
		st, ok := in.(*ssa.Store)
		if !ok || fieldOfAddr(st.Addr) != f {
			return
		}
		if fa, ok := st.Addr.(*ssa.FieldAddr); ok {
			if _, isLit := fa.X.(*ssa.Alloc); isLit && len(guardsOf(in.Block())) == 0 {
				return
			}
		}
		n++
		gs := guardsOf(in.Block())
		ok = len(gs) == 1 && gs[0].Branch
		if ok {
			call, isCall := gs[0].Cond.(*ssa.Call)
			ok = isCall && isStaticCall(call.Common(), "/couchbase", "Version", "Lower") && strings.Contains(w.Origin(call.Common().Args[1]), "SrvVer550") && w.Origin(call.Common().Args[0]) == "param("+versionParam(ns)+")"
		}
		c.Check(ok, id, "gate:serial-close", in.Pos(), "serial stream closing ⇔ version.Lower(5.5.0)", "the serial-close mode is not selected by version.Lower(SrvVer550) alone (field-wise tests are not monotone in the version order)")
	})
	if n != 1 {
		c.Undecided(id, "gate:serial-close", ns.Pos(), "%d assignments of the serial-close data (expected 1)", n)
	}
}

func versionParam(fn *ssa.Function) string {
	for _, p := range fn.Params {
		if recvTypeName(p.Type()) == "Version" {
			return p.Name()
		}
	}
	return ""
}

func c18r3(c *Ctx, id string) {
	w := c.W
	fn := w.Func("couchbase", "nodeVersionFromString")
	c.need(fn != nil, id, "couchbase.nodeVersionFromString")
	c.see(fn)
	p := "param(" + fn.Params[0].Name() + ")"
	dot := "call(strings.Split)(" + p + ", const(\".\"))"
	dash := "call(strings.Split)(" + dot + "[const(2)], const(\"-\"))"
	dash2 := "call(strings.Split)(" + dash + "[const(1)], const(\"-\"))"
	want := map[string]string{
		"Major": "call(strconv.Atoi)(" + dot + "[const(0)])#0",
		"Minor": "call(strconv.Atoi)(" + dot + "[const(1)])#0",
		"Patch": "call(strconv.Atoi)(" + dash + "[const(0)])#0",
		"Build": "call(strconv.Atoi)(" + dash2 + "[const(0)])#0",
	}
	// existence conditions (non-error guards) of each store
	wantConds := map[string][]string{
		"Major": {"false:(len(" + dot + ") == const(0))"},
		"Minor": {"false:(len(" + dot + ") == const(0))", "false:(len(" + dot + ") == const(1))"},
		"Patch": {"false:(len(" + dot + ") == const(0))", "false:(len(" + dot + ") == const(1))", "false:(len(" + dot + ") == const(2))"},
		"Build": {"false:(len(" + dot + ") == const(0))", "false:(len(" + dot + ") == const(1))", "false:(len(" + dot + ") == const(2))", "false:(len(" + dash + ") == const(1))"},
	}
	seen := map[string]bool{}
	allInstrs(fn, func(in ssa.Instruction) {
		st, ok := in.(*ssa.Store)
		if !ok {
			return
		}
		f := fieldOfAddr(st.Addr)
		if f == nil || recvTypeName(st.Addr.(*ssa.FieldAddr).X.Type()) != "Version" {
			return
		}
		seen[f.Name()] = true
		got := w.Origin(st.Val)
		c.Check(got == want[f.Name()], id, "field:"+f.Name(), in.Pos(), f.Name()+" ← "+got, f.Name()+" ← "+got+", expected "+want[f.Name()])
		var conds []string
		for _, g := range guardsOf(in.Block()) {
			v, pol := stripNot(g.Cond, g.Branch)
			o := w.Origin(v)
			if strings.HasSuffix(o, "#1 != const(nil))") || strings.HasSuffix(o, "#1 == const(nil))") {
				continue
			}
			conds = append(conds, fmt.Sprintf("%v:%s", pol, o))
		}
		c.Check(strings.Join(conds, " ∧ ") == strings.Join(wantConds[f.Name()], " ∧ "), id, "exists:"+f.Name(), in.Pos(), f.Name()+" parsed exactly when its part exists", f.Name()+" is parsed under ["+strings.Join(conds, " ∧ ")+"], expected ["+strings.Join(wantConds[f.Name()], " ∧ ")+"]")
	})
	for _, f := range verFields {
		if !seen[f] {
			c.Fail(id, "field:"+f, fn.Pos(), "%s is never parsed", f)
		}
	}
	// Atoi errors: returned for Major/Minor/Patch, tolerated for Build
	allInstrs(fn, func(in ssa.Instruction) {
		call, ok := in.(*ssa.Call)
		if !ok || !isStaticCall(call.Common(), "strconv", "", "Atoi") {
			return
		}
		arg := w.Origin(call.Common().Args[0])
		which := ""
		for k, v := range want {
			if v == "call(strconv.Atoi)("+arg+")#0" {
				which = k
			}
		}
		if which == "" || which == "Build" {
			return
		}
		// the error branch returns a non-nil error: some return carrying an error sits where this Atoi's error is
		// known to be non-nil, and no success return does
		ers := errResults(call)
		okErr, swallowed := false, false
		if len(ers) > 0 {
			e := ers[0]
			allInstrs(fn, func(in2 ssa.Instruction) {
				ret, isRet := in2.(*ssa.Return)
				if !isRet || len(ret.Results) != 2 || deadBlock(in2.Block()) {
					return
				}
				if errGuard(in2.Block(), false, func(v ssa.Value) bool { return v == e }) {
					if isNilConst(ret.Results[1]) {
						swallowed = true
					} else {
						okErr = true
					}
				}
			})
		}
		okErr = okErr && !swallowed
		c.Check(okErr, id, "error:"+which, in.Pos(), "a non-numeric "+which+" is an error", "a non-numeric "+which+" is silently accepted")
	})
}

func c18r4(c *Ctx, id string) {
	w := c.W
	impls := w.implsOf("couchbase", "HTTPClient", "GetVersion")
	c.need(len(impls) > 0, id, "an implementation of couchbase.HTTPClient.GetVersion")
	parser := w.Func("couchbase", "nodeVersionFromString")
	c.need(parser != nil, id, "couchbase.nodeVersionFromString")
	for _, fn := range impls {
		c.see(fn)
		// an exported method that only hands the call to an unexported one of the same type (threading a context) and
		// returns that one's results as they are: the unexported one is what is judged
		for d := 0; d < 2; d++ {
			if g := delegateOf(fn); g != nil {
				fn = g
				c.see(fn)
			}
		}
		n := 0
		allInstrs(fn, func(in ssa.Instruction) {
			r, ok := in.(*ssa.Return)
			if !ok || len(r.Results) != 2 {
				return
			}
			// named/defer-spilled results: look at the stores feeding the returned cell in this block
			val := r.Results[0]
			if ld, ok := val.(*ssa.UnOp); ok && ld.Op == token.MUL {
				if st := singleStoreIn(in.Block(), ld.X); st != nil {
					val = st
				} else {
					return // the join block of spilled returns; each predecessor is judged at its own stores
				}
			}
			n++
			o := w.Origin(val)
			construct := fmt.Sprintf("return#%d@%s", n, fname(fn))
			if o == "const(nil)" {
				c.OK(id, construct, in.Pos(), "no version (error path)")
				return
			}
			call, _ := unwrap(val).(*ssa.Extract)
			okSrc := false
			var pc *ssa.Call
			if call != nil && call.Index == 0 {
				if cl, ok := call.Tuple.(*ssa.Call); ok && cl.Common().StaticCallee() == parser {
					pc = cl
					okSrc = strings.HasSuffix(w.Origin(cl.Common().Args[0]), ".ImplementationVersion")
				}
			}
			okErr := pc != nil && errGuard(in.Block(), true, func(v ssa.Value) bool {
				ex, ok := v.(*ssa.Extract)
				return ok && ex.Index == 1 && ex.Tuple == ssa.Value(pc)
			})
			// `return parser(s)`: the parser's own (version, error) pair is handed on as it is — the caller's test of
			// that very error is the success test
			if pc != nil && !okErr {
				ev := r.Results[1]
				if ld, ok := ev.(*ssa.UnOp); ok && ld.Op == token.MUL {
					if st := singleStoreIn(in.Block(), ld.X); st != nil {
						ev = st // (defer-spilled result cell)
					}
				}
				if ex, ok := unwrap(ev).(*ssa.Extract); ok && ex.Index == 1 && ex.Tuple == ssa.Value(pc) {
					okErr = true
				}
			}
			c.Check(okSrc && okErr, id, construct, in.Pos(), "returns the parser's result for the reported implementationVersion, under the parser's err == nil",
				fmt.Sprintf("returns the version %s: not the parse of the server's implementationVersion under its success test (from the parser on that string: %v, under err == nil: %v) — the feature gates would be evaluated on an invented version", o, okSrc, okErr))
		})
		if n == 0 {
			c.Undecided(id, "returns@"+fname(fn), fn.Pos(), "no return of GetVersion could be resolved")
		}
	}
	// newDcp evaluates the gates on that result
	nd := w.Func("", "newDcp")
	if nd == nil {
		c.Undecided(id, "gate-input", 0, "dcp.newDcp not found")
		return
	}
	c.see(nd)
	n := 0
	var unit []*ssa.Function
	for f := range w.syncCallees(nd, 1, false) {
		if f.Pkg == nd.Pkg {
			unit = append(unit, f)
		}
	}
	sort.Slice(unit, func(i, j int) bool { return fname(unit[i]) < fname(unit[j]) })
	each := func(visit func(ssa.Instruction)) {
		for _, f := range unit {
			allInstrs(f, visit)
		}
	}
	each(func(in ssa.Instruction) {
		cc := callOf(in)
		if cc == nil || cc.StaticCallee() == nil || cc.StaticCallee().Signature.Recv() == nil {
			return
		}
		name := cc.StaticCallee().Name()
		if recvTypeName(cc.StaticCallee().Signature.Recv().Type()) != "Version" || (name != "Higher" && name != "Equal" && name != "Lower") {
			return
		}
		n++
		o := w.Origin(cc.Args[0])
		if p, isP := unwrap(cc.Args[0]).(*ssa.Parameter); isP {
			// gates moved into a helper: judged at the helper's call sites
			all := true
			cs := w.callersOf(in.Parent())
			for _, s := range cs {
				if !strings.HasSuffix(w.Origin(argOfParam(s.Call.Common(), in.Parent(), p)), ".GetVersion)()#0") {
					all = false
				}
			}
			if all && len(cs) > 0 {
				o = "….GetVersion)()#0"
			}
		}
		c.Check(strings.HasSuffix(o, ".GetVersion)()#0"), id, fmt.Sprintf("gate-input#%d", n), in.Pos(), "compared version is GetVersion()'s result", "a gate compares "+o+" instead of the server version obtained from GetVersion")
	})
	if n < 2 {
		c.Undecided(id, "gate-input", nd.Pos(), "only %d version comparisons found in newDcp and its helpers (4 on the reference tree)", n)
	}
}

// singleStoreIn: the value stored to addr by the last store in block b (nil if none).
func singleStoreIn(b *ssa.BasicBlock, addr ssa.Value) ssa.Value {
	var v ssa.Value
	for _, in := range b.Instrs {
		if st, ok := in.(*ssa.Store); ok && st.Addr == addr {
			v = st.Val
		}
	}
	return v
}

// delegateOf: fn's whole body is `return r.g(…)`: one call of a method on its own receiver, the only return handing on
// that call's results in order, nothing else but building the arguments. The method g.
func delegateOf(fn *ssa.Function) *ssa.Function {
	if fn.Signature.Recv() == nil || len(fn.Blocks) != 1 {
		return nil
	}
	var call *ssa.Call
	var ret *ssa.Return
	for _, in := range fn.Blocks[0].Instrs {
		switch x := in.(type) {
		case *ssa.Call:
			g := x.Common().StaticCallee()
			if g != nil && g.Signature.Recv() != nil && len(x.Common().Args) > 0 && x.Common().Args[0] == ssa.Value(fn.Params[0]) && g.Blocks != nil {
				if call != nil {
					return nil
				}
				call = x
			} else if g == nil || !strings.HasPrefix(pkgPathOf(g), "context") {
				return nil
			}
		case *ssa.Return:
			ret = x
		case *ssa.Extract, *ssa.DebugRef:
		default:
			return nil
		}
	}
	if call == nil || ret == nil {
		return nil
	}
	for i, r := range ret.Results {
		if len(ret.Results) == 1 {
			if r != ssa.Value(call) {
				return nil
			}
		} else if ex, ok := r.(*ssa.Extract); !ok || ex.Tuple != ssa.Value(call) || ex.Index != i {
			return nil
		}
	}
	return call.Common().StaticCallee()
}
