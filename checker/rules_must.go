package main

// rules_must.go — "must happen" clauses: the other rules decide that every position move is legitimate; these decide
// that the legitimate moves are actually made (an acknowledgement that moves nothing leaves the tracked position, the
// checkpoint and the lag behind for ever; a system event that is not absorbed does the same for idle vBuckets).

import (
	"fmt"
	"go/types"
	"strings"

	"golang.org/x/tools/go/ssa"
)

// ackMoves: in every forwarder (the function that builds the ListenerContext) the value stored into
// ListenerContext.Ack is a closure (or bound method) on every path of which the position writer is called exactly
// once, with dirty=true; ListenerContext.Commit is the checkpoint's Save.
func ackMoves(c *Ctx, id string) {
	w := c.W
	pws := w.positionWriterFuncs()
	c.need(len(pws) > 0, id, "position writer")
	isPW := map[*ssa.Function]bool{}
	for _, f := range pws {
		isPW[f] = true
	}
	lc := w.NamedType("models", "ListenerContext")
	c.need(lc != nil, id, "models.ListenerContext")
	n := 0
	for _, fw := range forwarders(w) {
		c.see(fw)
		for _, a := range allocsOf(fw, lc) {
			n++
			tab, _ := allocTable(a)
			ack := closureOf(tab["Ack"])
			if ack == nil {
				ack = w.boundMethodOf(tab["Ack"])
			}
			if ack == nil {
				c.Fail(id, "ack-moves@"+fname(fw), a.Pos(), "ListenerContext.Ack ← %s: not a function of the module (acknowledging would not move the position)", w.Origin(tab["Ack"]))
				continue
			}
			c.see(ack)
			seqs, complete := pathEvents(ack, func(in ssa.Instruction) (string, *ssa.Function) {
				cc := callOf(in)
				if cc == nil {
					return "", nil
				}
				if f := cc.StaticCallee(); f != nil {
					if isPW[f] {
						d := "?"
						if _, _, da := w.writerArgs(cc, f); da != nil {
							d = w.Origin(da)
						}
						if _, isGo := in.(*ssa.Go); isGo {
							return "go-move(" + d + ")", nil
						}
						if _, isDefer := in.(*ssa.Defer); isDefer {
							return "defer-move(" + d + ")", nil
						}
						return "move(" + d + ")", nil
					}
					if w.inModule(f) && f.Pkg == ack.Pkg {
						return "", f // look into helpers of the same package
					}
				}
				return "", nil
			}, 2)
			ok := complete && len(seqs) > 0
			for _, s := range seqs {
				if s != "move(const(true))" {
					ok = false
				}
			}
			c.Check(ok, id, "ack-moves@"+fname(fw), a.Pos(), "on every path of the Ack closure the position writer is called exactly once with dirty=true", fmt.Sprintf("the function stored into ListenerContext.Ack does not move the position exactly once with dirty=true on every path (paths: %q): acknowledged work is never tracked, saved or reported", seqs))
			// Commit saves
			cm := w.Origin(tab["Commit"])
			okC := false
			if m := w.boundMethodOf(tab["Commit"]); m != nil && m.Name() == "Save" {
				okC = true
			} else if f := closureOf(tab["Commit"]); f != nil {
				allInstrs(f, func(in ssa.Instruction) {
					if cc := callOf(in); cc != nil && (isInvokeOf(cc, "Checkpoint", "Save") || (cc.StaticCallee() != nil && cc.StaticCallee().Name() == "Save")) {
						okC = true
					}
				})
			} else if strings.HasSuffix(cm, ".Save") || strings.Contains(cm, "Save)") {
				okC = true
			}
			c.Check(okC, id, "commit-saves@"+fname(fw), a.Pos(), "ListenerContext.Commit ← "+cm, "ListenerContext.Commit ← "+cm+": an explicit commit does not reach Checkpoint.Save")
		}
	}
	if n == 0 {
		c.Undecided(id, "ack-moves", 0, "no ListenerContext literal found")
	}
}

// absorbMoves: the events the library settles itself are settled. In the listener, every type-switch arm of a
// non-document wrapper calls the position writer exactly once with dirty=true; in the forwarder, the reserved-key branch
// calls it exactly once (dirty=false is decided by C14.R3).
func absorbMoves(c *Ctx, id string) {
	w := c.W
	oi := observerInfo(c, id)
	pws := w.positionWriterFuncs()
	isPW := map[*ssa.Function]bool{}
	for _, f := range pws {
		isPW[f] = true
	}
	// the non-document wrapper types the observer emits
	var kinds []types.Type
	seen := map[string]bool{}
	la := w.NamedType("models", "ListenerArgs")
	for _, name := range sortedKeys(oi.handlers) {
		for _, a := range allocsOf(oi.handlers[name], la) {
			tab, _ := allocTable(a)
			if mi, ok := tab["Event"].(*ssa.MakeInterface); ok {
				t := mi.X.Type()
				if embeddedGocbEvent(t) != "" && !isDocEventWrapper(t) && !seen[embeddedGocbEvent(t)] {
					seen[embeddedGocbEvent(t)] = true
					kinds = append(kinds, t)
				}
			}
		}
	}
	lts := listenerTargets(c, id, oi)
	c.need(len(lts) > 0, id, "function bound to the observer's listener")
	for _, lt := range lts {
		c.see(lt)
		arms := map[string]int{}
		bad := map[string]string{}
		allInstrs(lt, func(in ssa.Instruction) {
			cc := callOf(in)
			if cc == nil || !isPW[cc.StaticCallee()] {
				return
			}
			d := ""
			if _, _, da := w.writerArgs(cc, cc.StaticCallee()); da != nil {
				d = w.Origin(da)
			}
			for _, g := range guardsOf(in.Block()) {
				if ex, ok := g.Cond.(*ssa.Extract); ok && g.Branch {
					if ta, ok := ex.Tuple.(*ssa.TypeAssert); ok && embeddedGocbEvent(ta.AssertedType) != "" && !isDocEventWrapper(ta.AssertedType) {
						k := embeddedGocbEvent(ta.AssertedType) // by embedded event kind: wrapper names may be aliases
						arms[k]++
						if d != "const(true)" {
							bad[k] = "dirty=" + d
						}
						if _, isCall := in.(*ssa.Call); !isCall {
							bad[k] = "not a plain call"
						}
					}
				}
			}
		})
		for _, t := range kinds {
			k := embeddedGocbEvent(t)
			short := k
			c.Check(arms[k] == 1 && bad[k] == "", id, "absorb-moves:"+short+"@"+fname(lt), lt.Pos(), short+" advances the position once, marked for saving", fmt.Sprintf("the listener arm of %s calls the position writer %d times (%s): a vBucket that only sees such events never moves, is never saved and its lag never closes", short, arms[k], bad[k]))
		}
		if len(kinds) < 5 {
			c.Undecided(id, "absorb-moves", lt.Pos(), "only %d non-document event kinds emitted by the observer (7 confirmed by hand)", len(kinds))
		}
	}
	// reserved-key branch of the forwarder
	for _, fw := range forwarders(w) {
		n := 0
		allInstrs(fw, func(in ssa.Instruction) {
			cc := callOf(in)
			if cc == nil || !isPW[cc.StaticCallee()] {
				return
			}
			if guardedBy(in.Block(), true, func(v ssa.Value) bool {
				call, ok := v.(*ssa.Call)
				return ok && isStaticCall(call.Common(), "/helpers", "", "IsMetadata")
			}) {
				n++
			}
		})
		c.Check(n == 1, id, "absorb-moves:reserved-key@"+fname(fw), fw.Pos(), "a reserved-key event advances the position once", fmt.Sprintf("the reserved-key branch of the forwarder calls the position writer %d times: library-internal documents would pin the vBucket's position", n))
	}
}
