package main

import (
	"fmt"
	"go/types"
	"sort"
	"strings"

	"golang.org/x/tools/go/ssa"
)

// eventBytesUntouched: the byte slices of an event (key, value, extended attributes) are the server's bytes, and the
// library hands them to the consumer without a copy. Nothing in the library may therefore write into a byte slice it
// did not make itself: no element store into, no append onto a re-slice of, and no copy/clear into a []byte that was
// read out of an event (a field of a gocbcore/models struct, reflect.Value.Bytes) or was
// returned by a function that hands such a slice on. A filter written in place ("printable := key[:0]") for a log line
// compacts the key the consumer is about to receive.
func eventBytesUntouched(c *Ctx, id string) {
	w := c.W
	isBytes := func(t types.Type) bool {
		s, ok := t.Underlying().(*types.Slice)
		if !ok {
			return false
		}
		b, ok := s.Elem().Underlying().(*types.Basic)
		return ok && b.Kind() == types.Uint8
	}
	retShared := map[*ssa.Function]int{} // 0 unknown, 1 in progress/no, 2 yes
	paramBusy := map[*ssa.Parameter]bool{}
	var shared func(v ssa.Value, depth int) bool
	shared = func(v ssa.Value, depth int) bool {
		if depth > 10 || v == nil {
			return false
		}
		switch x := v.(type) {
		case *ssa.Parameter:
			// a buffer handed in belongs to whoever made it: judged by what the module's callers pass (a helper that
			// fills a buffer its caller allocated writes into nothing shared); callers that cannot be enumerated
			// (function values, interface dispatch, no caller in the module) say nothing
			if !isBytes(x.Type()) {
				return false
			}
			fn := x.Parent()
			if paramBusy[x] || fn == nil {
				return false
			}
			paramBusy[x] = true
			defer delete(paramBusy, x)
			for _, cs := range w.callersOf(fn) {
				for k, sp := range fn.Params {
					if sp == x && k < len(cs.Call.Common().Args) && shared(cs.Call.Common().Args[k], depth+1) {
						return true
					}
				}
			}
			return false
		case *ssa.Slice:
			return shared(x.X, depth+1)
		case *ssa.Phi:
			for _, e := range x.Edges {
				if shared(e, depth+1) {
					return true
				}
			}
			return false
		case *ssa.ChangeType:
			return shared(x.X, depth+1)
		case *ssa.Extract:
			if call, ok := x.Tuple.(*ssa.Call); ok {
				return sharedCall(w, call, x.Index, retShared, shared, depth)
			}
			return false
		case *ssa.Call:
			if b, ok := x.Common().Value.(*ssa.Builtin); ok && b.Name() == "append" && len(x.Common().Args) > 0 {
				return shared(x.Common().Args[0], depth+1)
			}
			return sharedCall(w, x, 0, retShared, shared, depth)
		case *ssa.Field:
			return isBytes(x.Type()) && eventStruct(x.X.Type())
		case *ssa.UnOp:
			if fa, ok := x.X.(*ssa.FieldAddr); ok && isBytes(x.Type()) {
				return eventStruct(fa.X.Type())
			}
			if al, ok := x.X.(*ssa.Alloc); ok {
				if sv, one := singleStore(al); one {
					return shared(sv, depth+1)
				}
			}
			return false
		}
		return false
	}
	roots, sites := 0, 0
	var bad []string
	for _, fn := range w.ModFuncs {
		allInstrs(fn, func(in ssa.Instruction) {
			switch x := in.(type) {
			case *ssa.Store:
				ia, ok := x.Addr.(*ssa.IndexAddr)
				if !ok || !isBytes(ia.X.Type()) {
					return
				}
				sites++
				if shared(ia.X, 0) {
					bad = append(bad, fmt.Sprintf("%s: element store into %s @%s", fname(fn), w.Origin(ia.X), w.pos(in.Pos())))
				}
			case *ssa.Call:
				cc := x.Common()
				if b, ok := cc.Value.(*ssa.Builtin); ok && len(cc.Args) > 0 && isBytes(cc.Args[0].Type()) {
					switch b.Name() {
					case "append":
						// appending to a re-slice writes into the original's storage whenever it has room
						sl := reslice(cc.Args[0], 0)
						if sl == nil {
							return
						}
						sites++
						if shared(sl.X, 0) {
							bad = append(bad, fmt.Sprintf("%s: append onto a re-slice of %s @%s", fname(fn), w.Origin(sl.X), w.pos(in.Pos())))
						}
					case "copy", "clear":
						sites++
						if shared(cc.Args[0], 0) {
							bad = append(bad, fmt.Sprintf("%s: %s into %s @%s", fname(fn), b.Name(), w.Origin(cc.Args[0]), w.pos(in.Pos())))
						}
					}
					return
				}
				if sf := cc.StaticCallee(); sf != nil && sf.Name() == "Bytes" && pkgPathOf(sf) == "reflect" {
					roots++
				}
			case *ssa.UnOp:
				if fa, ok := x.X.(*ssa.FieldAddr); ok && isBytes(x.Type()) && eventStruct(fa.X.Type()) {
					roots++
				}
			case *ssa.Field:
				if isBytes(x.Type()) && eventStruct(x.X.Type()) {
					roots++
				}
			}
		})
	}
	sort.Strings(bad)
	c.Check(len(bad) == 0, id, "event-bytes-read-only", 0,
		fmt.Sprintf("no write into a byte slice the library did not make itself (%d places where event bytes are read, %d byte-slice writes inspected)", roots, sites),
		"a byte slice that is not the function's own is written in place — the consumer receives the event's key/value through the same storage: "+strings.Join(bad, "; "))
	c.Check(roots >= 1, id, "event-bytes-readers", 0, fmt.Sprintf("%d places read the bytes of an event", roots), "no place found where the library reads the bytes of an event: the rule would pass vacuously")
}

// reslice: the Slice operation an append chain starts from (x[:0], x[:n]), through φ and earlier appends.
func reslice(v ssa.Value, depth int) *ssa.Slice {
	if depth > 8 {
		return nil
	}
	switch x := v.(type) {
	case *ssa.Slice:
		return x
	case *ssa.Phi:
		for _, e := range x.Edges {
			if s := reslice(e, depth+1); s != nil {
				return s
			}
		}
	case *ssa.Call:
		if b, ok := x.Common().Value.(*ssa.Builtin); ok && b.Name() == "append" && len(x.Common().Args) > 0 {
			return reslice(x.Common().Args[0], depth+1)
		}
	}
	return nil
}

// eventStruct: a struct (or pointer to one) declared by gocbcore or by the module's models package.
func eventStruct(t types.Type) bool {
	if p, ok := t.Underlying().(*types.Pointer); ok {
		t = p.Elem()
	}
	n, ok := t.(*types.Named)
	if !ok || n.Obj().Pkg() == nil {
		return false
	}
	pp := n.Obj().Pkg().Path()
	return strings.Contains(pp, "gocbcore") || strings.HasSuffix(pp, "/models")
}

func sharedCall(w *World, call *ssa.Call, idx int, memo map[*ssa.Function]int, shared func(ssa.Value, int) bool, depth int) bool {
	sf := call.Common().StaticCallee()
	if sf == nil {
		return false
	}
	if sf.Name() == "Bytes" && pkgPathOf(sf) == "reflect" {
		return true
	}
	if !w.inModule(sf) || sf.Blocks == nil {
		return false
	}
	switch memo[sf] {
	case 1:
		return false
	case 2:
		return true
	}
	memo[sf] = 1 // in progress: a recursive hand-over adds nothing
	defer func() {
		if memo[sf] == 1 {
			memo[sf] = 0 // the answer may depend on the caller's argument
		}
	}()
	for _, b := range sf.Blocks {
		for _, in := range b.Instrs {
			if r, ok := in.(*ssa.Return); ok && idx < len(r.Results) {
				rv := r.Results[idx]
				// a parameter handed back is the caller's business (judged at the caller's argument)
				if pr := paramRootOf(rv, 0); pr != nil {
					for k, sp := range sf.Params {
						if sp == pr && k < len(call.Common().Args) && shared(call.Common().Args[k], depth+1) {
							return true
						}
					}
					continue
				}
				if shared(rv, depth+1) {
					memo[sf] = 2
					return true
				}
			}
		}
	}
	return false
}

// paramRootOf: the parameter a returned slice is a re-slice of (nil if it is something else).
func paramRootOf(v ssa.Value, depth int) *ssa.Parameter {
	if depth > 6 {
		return nil
	}
	switch x := v.(type) {
	case *ssa.Parameter:
		return x
	case *ssa.Slice:
		return paramRootOf(x.X, depth+1)
	case *ssa.ChangeType:
		return paramRootOf(x.X, depth+1)
	}
	return nil
}

// versionImmutable: a server version is the tuple its string denotes for as long as it is used. The fields of Version
// are stored only where a version is being built — in the parser, or into a value still local to the function that
// makes it (composite literals, the package-level gate constants) — never through a pointer to a version somebody
// else holds (a "series" helper zeroing Patch and Build on its receiver changes the version the gates are asked about).
func versionImmutable(c *Ctx, id string) {
	w := c.W
	parser := w.Func("couchbase", "nodeVersionFromString")
	c.need(parser != nil, id, "couchbase.nodeVersionFromString")
	var vt *types.Struct
	var vnamed types.Type
	if res := parser.Signature.Results(); res.Len() > 0 {
		t := res.At(0).Type()
		if p, ok := t.Underlying().(*types.Pointer); ok {
			t = p.Elem()
		}
		vnamed = t
		vt, _ = t.Underlying().(*types.Struct)
	}
	if vt == nil {
		c.Undecided(id, "version-writers", parser.Pos(), "the parser's result is not a struct (or a pointer to one)")
		return
	}
	n := 0
	var bad []string
	for j := 0; j < vt.NumFields(); j++ {
		for _, fs := range w.fieldStores(vt.Field(j)) {
			n++
			if fs.Fn == parser || fs.Fn.Name() == "init" {
				continue
			}
			if a := rootAlloc(fs.Store.Addr); a != nil && a.Parent() == fs.Fn {
				continue
			}
			bad = append(bad, fname(fs.Fn)+": "+w.Origin(fs.Store.Addr)+" ← "+w.Origin(fs.Store.Val)+" @"+w.pos(fs.Store.Pos()))
		}
	}
	for _, fn := range w.ModFuncs {
		allInstrs(fn, func(in ssa.Instruction) {
			if st, ok := in.(*ssa.Store); ok && types.Identical(st.Val.Type(), vnamed) {
				n++
				if _, isAlloc := st.Addr.(*ssa.Alloc); isAlloc || fn.Name() == "init" {
					return
				}
				if _, isGlobal := st.Addr.(*ssa.Global); isGlobal {
					bad = append(bad, fname(fn)+": package-level version overwritten @"+w.pos(st.Pos()))
					return
				}
				if a := rootAlloc(st.Addr); a != nil && a.Parent() == fn {
					return
				}
				bad = append(bad, fname(fn)+": a version held elsewhere is overwritten whole @"+w.pos(st.Pos()))
			}
		})
	}
	sort.Strings(bad)
	c.Check(len(bad) == 0, id, "version-writers", parser.Pos(), fmt.Sprintf("the %d stores into versions build a value in the parser, in a literal or in a package initialiser", n),
		"a version somebody else holds is modified in place — the tuple the gates compare is no longer the one the server's string denotes: "+strings.Join(bad, "; "))
	c.Check(n >= 4, id, "version-writers-seen", parser.Pos(), fmt.Sprintf("%d stores into version fields seen (the parser's four at least)", n), fmt.Sprintf("only %d stores into version fields found: the parser is expected to fill four", n))

	// the parser keeps what it parsed: no integer conversion in it narrows (a component ≥ 256 wrapping in a uint8
	// field sorts 5.260.0 below 5.5.0), and every numeric field of the version is as wide as int
	sizes := types.SizesFor("gc", "amd64")
	isInt := func(t types.Type) bool {
		b, ok := t.Underlying().(*types.Basic)
		return ok && b.Info()&types.IsInteger != 0
	}
	var narrow []string
	nc := 0
	allInstrs(parser, func(in ssa.Instruction) {
		if cv, ok := in.(*ssa.Convert); ok && isInt(cv.Type()) && isInt(cv.X.Type()) {
			nc++
			if sizes.Sizeof(cv.Type()) < sizes.Sizeof(cv.X.Type()) {
				narrow = append(narrow, fmt.Sprintf("%s → %s @%s", cv.X.Type(), cv.Type(), w.pos(cv.Pos())))
			}
		}
	})
	for j := 0; j < vt.NumFields(); j++ {
		if f := vt.Field(j); isInt(f.Type()) && sizes.Sizeof(f.Type()) < sizes.Sizeof(types.Typ[types.Int]) {
			narrow = append(narrow, fmt.Sprintf("field %s is %s", f.Name(), f.Type()))
		}
	}
	sort.Strings(narrow)
	c.Check(len(narrow) == 0, id, "version-width", parser.Pos(), fmt.Sprintf("no narrowing: %d integer conversions in the parser, every numeric field of the version at least as wide as int", nc),
		"the parsed components do not fit what holds them — a large component wraps and the version sorts below smaller ones: "+strings.Join(narrow, "; "))
}

// onceSubscriptionsAlone: the event bus (asaskevich/EventBus) removes a once-only handler by its position in the live
// handler list while it walks a copy of that list: with two once-only handlers on one topic the second removal hits
// whatever moved into that position — the membership listener subscribed after them — and later announcements no
// longer reach it. At most one once-only subscription per topic exists in the module (today: none).
func onceSubscriptionsAlone(c *Ctx, id string) {
	w := c.W
	byTopic := map[string][]string{}
	n := 0
	for _, fn := range w.ModFuncs {
		allInstrs(fn, func(in ssa.Instruction) {
			ci, ok := in.(ssa.CallInstruction)
			if !ok {
				return
			}
			cc := ci.Common()
			if !cc.IsInvoke() || cc.Method.Pkg() == nil || !strings.Contains(cc.Method.Pkg().Path(), "EventBus") {
				return
			}
			n++
			if strings.HasPrefix(cc.Method.Name(), "SubscribeOnce") && len(cc.Args) > 0 {
				t := w.Origin(cc.Args[0])
				byTopic[t] = append(byTopic[t], fname(fn)+" @"+w.pos(in.Pos()))
			}
		})
	}
	var bad []string
	for t, sites := range byTopic {
		if len(sites) > 1 {
			sort.Strings(sites)
			bad = append(bad, t+": "+strings.Join(sites, ", "))
		}
	}
	sort.Strings(bad)
	c.Check(len(bad) == 0, id, "once-subscriptions", 0, fmt.Sprintf("%d uses of the event bus inspected: no topic has two once-only subscriptions", n),
		"several once-only handlers on one topic — the bus removes the second by a stale position and unsubscribes the handler that follows it (the membership listener): "+strings.Join(bad, "; "))
	c.Check(n >= 8, id, "bus-uses-seen", 0, fmt.Sprintf("%d uses of the event bus seen", n), fmt.Sprintf("only %d uses of the event bus found (8 confirmed by hand)", n))
}
