package main

import (
	"fmt"
	"go/types"
	"strings"

	"golang.org/x/tools/go/ssa"
)

// The leader-assigned membership (kubernetesHa): the leader numbers itself 1 and its followers 2.. in join order and
// tells each follower its number over RPC; the follower's handler announces it. These rules evaluate one round of the
// leader's monitor loop, the role transitions, and the agreement of the RPC client with the RPC handler.

// goBody: the function a method starts with its (only) go statement.
func goBody(fn *ssa.Function) *ssa.Function {
	var out *ssa.Function
	allInstrs(fn, func(in ssa.Instruction) {
		if g, ok := in.(*ssa.Go); ok {
			if f := g.Common().StaticCallee(); f != nil {
				out = f
			}
		}
	})
	return out
}

// leaderMonitorRound (C10): one iteration of the monitor loop for 0..2 registered followers: nothing unless this member
// is the leader; otherwise SetInfo(1, followers+1) once and, for the follower at position i of the join-ordered list,
// Rebalance(i+2, followers+1) on that follower's own client, once each (a follower that deregistered in between is
// skipped).
func leaderMonitorRound(c *Ctx, id string) {
	w := c.W
	sm := w.Method("servicediscovery", "serviceDiscovery", "StartMonitor")
	stop := w.Method("servicediscovery", "serviceDiscovery", "StopMonitor")
	be := w.Method("servicediscovery", "serviceDiscovery", "BeLeader")
	setInfo := w.Method("servicediscovery", "serviceDiscovery", "SetInfo")
	c.need(sm != nil && stop != nil && be != nil && setInfo != nil, id, "serviceDiscovery.StartMonitor / StopMonitor / BeLeader / SetInfo")
	body := goBody(sm)
	c.need(body != nil, id, "the monitor goroutine")
	c.see(body)
	running, leader := "", flagSetBy(w, be)
	allInstrs(stop, func(in ssa.Instruction) {
		if f, _, val := flagWrite(in); f != nil && w.Origin(val) == "const(false)" {
			running = f.Name()
		}
	})
	c.need(running != "" && leader != "", id, "the running flag StopMonitor lowers and the leader flag BeLeader raises")
	recvName := "s"
	if len(body.FreeVars) > 0 {
		recvName = body.FreeVars[0].Name()
	} else if len(body.Params) > 0 {
		recvName = body.Params[0].Name()
	}
	svcT := w.NamedType("servicediscovery", "Service")
	c.need(svcT != nil, id, "servicediscovery.Service")
	for k := 0; k <= c.bound(2, 4); k++ {
		kk := k
		bools := []string{recvName + "." + leader}
		for i := 0; i < k; i++ {
			bools = append(bools, fmt.Sprintf("gone%d", i))
		}
		cells := map[*State][]*cell{}
		svc := func(st *State) []*cell {
			if cells[st] == nil {
				for i := 0; i < kk; i++ {
					cells[st] = append(cells[st], &cell{typ: svcT, sym: fmt.Sprintf("follower%d", i)})
				}
			}
			return cells[st]
		}
		h := &Harness{Fn: body, Bools: bools, Quiet: quietLog, MaxSteps: 30000, Concrete: true,
			NoInline: map[string]bool{fname(setInfo): true},
			Sequence: map[string][]bool{recvName + "." + running: {true, false}},
			Complete: func(st *State, name string, args []AV) (AV, [][]AV, bool) {
				if !strings.HasSuffix(name, ".Range") || len(args) < 2 {
					return nil, nil, false
				}
				var calls [][]AV
				for i, cl := range svc(st) {
					calls = append(calls, []AV{avStr{sym: fmt.Sprintf("follower%d.Name", i)}, avPtr{cl}})
				}
				return args[len(args)-1], calls, true
			},
			Oracle: func(st *State, name string, args []AV, res *types.Tuple) ([]AV, bool) {
				switch {
				case strings.HasSuffix(name, ".Range"):
					return []AV{}, true
				case strings.HasSuffix(name, ".Load") && len(args) >= 2:
					key := avString(args[len(args)-1])
					for i, cl := range svc(st) {
						if key == fmt.Sprintf("follower%d.Name", i) {
							if st.B(fmt.Sprintf("gone%d", i)) {
								return []AV{avPtr{nil}, avBool{false}}, true
							}
							return []AV{avPtr{cl}, avBool{true}}, true
						}
					}
					return []AV{avPtr{nil}, avBool{false}}, true
				case strings.HasSuffix(name, ".Rebalance") && res != nil && res.Len() == 1:
					return []AV{avIface{isNil: true}}, true
				}
				return nil, false
			}}
		c.oae(id, fmt.Sprintf("monitor-round[%d followers]", k), body.Pos(), h, func(st *State, out *Outcome) string {
			if out.Panicked || out.Blocked != "" {
				return "panics or blocks"
			}
			infos := out.Effects(fname(setInfo))
			var rebs []Effect
			for _, e := range out.Trace {
				if strings.HasSuffix(e.Name, ".Client.Rebalance") {
					rebs = append(rebs, e)
				}
			}
			if !st.B(recvName + "." + leader) {
				if len(infos)+len(rebs) != 0 {
					return "a member that is not the leader assigns numbers: " + out.TraceString()
				}
				return ""
			}
			if len(infos) != 1 || avString(infos[0].Args[1]) != "1" || avString(infos[0].Args[2]) != fmt.Sprint(kk+1) {
				return fmt.Sprintf("the leader announces %v for itself (expected SetInfo(1, %d) once)", infos, kk+1)
			}
			want := 0
			for i := 0; i < kk; i++ {
				if !st.B(fmt.Sprintf("gone%d", i)) {
					want++
				}
			}
			if len(rebs) != want {
				return fmt.Sprintf("%d followers are told their number, %d are registered", len(rebs), want)
			}
			for _, e := range rebs {
				var i int
				if _, err := fmt.Sscanf(e.Name, "follower%d.Client.Rebalance", &i); err != nil || i >= kk {
					return "a number is sent through " + e.Name
				}
				if len(e.Args) != 2 || avString(e.Args[0]) != fmt.Sprint(i+2) || avString(e.Args[1]) != fmt.Sprint(kk+1) {
					return fmt.Sprintf("follower at position %d is told %s (expected %d of %d)", i, e.String(), i+2, kk+1)
				}
			}
			return ""
		}, "leader ⇒ SetInfo(1, n+1) and Rebalance(i+2, n+1) to the follower at position i, each once; not leader ⇒ nothing")
	}
}

// leaderHeartbeatRound (C10): one iteration of the heart-beat loop, exhaustive over (leader known?) × (leader ping) ×
// (reconnect) × (re-register) × per-follower ping for 0..2 followers: a silent leader is re-contacted and, when that
// fails too, forgotten (client closed, field cleared) — a leader that answers is left alone; every follower is pinged
// once and removed ⇔ its ping failed.
func leaderHeartbeatRound(c *Ctx, id string) {
	w := c.W
	sh := w.Method("servicediscovery", "serviceDiscovery", "StartHeartbeat")
	stop := w.Method("servicediscovery", "serviceDiscovery", "StopHeartbeat")
	remove := w.Method("servicediscovery", "serviceDiscovery", "Remove")
	svcT := w.NamedType("servicediscovery", "Service")
	c.need(sh != nil && stop != nil && remove != nil && svcT != nil, id, "serviceDiscovery.StartHeartbeat / StopHeartbeat / Remove")
	body := goBody(sh)
	c.need(body != nil, id, "the heart-beat goroutine")
	c.see(body)
	running := ""
	allInstrs(stop, func(in ssa.Instruction) {
		if f, _, val := flagWrite(in); f != nil && w.Origin(val) == "const(false)" {
			running = f.Name()
		}
	})
	c.need(running != "", id, "the running flag StopHeartbeat lowers")
	recvName := "s"
	if len(body.FreeVars) > 0 {
		recvName = body.FreeVars[0].Name()
	} else if len(body.Params) > 0 {
		recvName = body.Params[0].Name()
	}
	leaderSym := recvName + ".leaderService"
	for k := 0; k <= c.bound(2, 4); k++ {
		kk := k
		bools := []string{leaderSym + "==nil", "leaderPingFails", "reconnectFails", "registerFails"}
		for i := 0; i < k; i++ {
			bools = append(bools, fmt.Sprintf("ping%dFails", i))
		}
		cells := map[*State][]*cell{}
		svc := func(st *State) []*cell {
			if cells[st] == nil {
				for i := 0; i < kk; i++ {
					cells[st] = append(cells[st], &cell{typ: svcT, sym: fmt.Sprintf("follower%d", i)})
				}
			}
			return cells[st]
		}
		errIf := func(b bool, sym string) AV {
			if b {
				return avIface{sym: sym}
			}
			return avIface{isNil: true}
		}
		calls := map[*State]map[string]int{}
		h := &Harness{Fn: body, Bools: bools, Quiet: quietLog, MaxSteps: 60000, Concrete: true,
			NoInline: map[string]bool{fname(remove): true},
			// two iterations: the second one must start from scratch (what failed in the first round answers in the second)
			Sequence: map[string][]bool{recvName + "." + running: {true, true, false}},
			Valid: func(st *State) bool {
				// outcomes of calls that are never made do not multiply the states
				if st.B(leaderSym+"==nil") && (st.B("leaderPingFails") || st.B("reconnectFails") || st.B("registerFails")) {
					return false
				}
				if !st.B("leaderPingFails") && (st.B("reconnectFails") || st.B("registerFails")) {
					return false
				}
				return !(st.B("reconnectFails") && st.B("registerFails"))
			},
			Complete: func(st *State, name string, args []AV) (AV, [][]AV, bool) {
				if !strings.HasSuffix(name, ".Range") || len(args) < 2 {
					return nil, nil, false
				}
				var calls [][]AV
				for i, cl := range svc(st) {
					calls = append(calls, []AV{avStr{sym: fmt.Sprintf("follower%d.Name", i)}, avPtr{cl}})
				}
				return args[len(args)-1], calls, true
			},
			Oracle: func(st *State, name string, args []AV, res *types.Tuple) ([]AV, bool) {
				// the declared outcome applies to the first call of each operation (round 1); later calls succeed
				if calls[st] == nil {
					calls[st] = map[string]int{}
				}
				first := calls[st][name] == 0
				calls[st][name]++
				switch {
				case strings.HasSuffix(name, ".Range"):
					return []AV{}, true
				case name == leaderSym+".Client.Ping":
					return []AV{errIf(first && st.B("leaderPingFails"), "errLeaderPing")}, true
				case name == leaderSym+".Client.Reconnect":
					return []AV{errIf(first && st.B("reconnectFails"), "errReconnect")}, true
				case name == leaderSym+".Client.Register":
					return []AV{errIf(first && st.B("registerFails"), "errRegister")}, true
				case strings.HasSuffix(name, ".Client.Close"):
					return []AV{avIface{isNil: true}}, true
				case strings.HasPrefix(name, "follower") && strings.HasSuffix(name, ".Client.Ping"):
					var i int
					fmt.Sscanf(name, "follower%d.", &i)
					return []AV{errIf(first && st.B(fmt.Sprintf("ping%dFails", i)), "errPing")}, true
				}
				return nil, false
			}}
		c.oae(id, fmt.Sprintf("heartbeat-round[%d followers]", k), body.Pos(), h, func(st *State, out *Outcome) string {
			if out.Panicked || out.Blocked != "" {
				return "panics or blocks: " + out.TraceString()
			}
			count := func(n string) int { return len(out.Effects(n)) }
			lp, rc, rg, cl := count(leaderSym+".Client.Ping"), count(leaderSym+".Client.Reconnect"), count(leaderSym+".Client.Register"), count(leaderSym+".Client.Close")
			final := out.Final(leaderSym)
			cleared := false
			if p, ok := final.(avPtr); ok && p.c == nil {
				cleared = true
			}
			// (two rounds: a leader still known after the first round is pinged again in the second and answers)
			switch {
			case st.B(leaderSym + "==nil"):
				if lp+rc+rg+cl != 0 {
					return "calls through a leader that is not known"
				}
			case !st.B("leaderPingFails"):
				if lp != 2 || rc+rg+cl != 0 || final != nil {
					return "a leader that answers its ping is not left alone: " + out.TraceString()
				}
			default:
				wantRg := 0
				if !st.B("reconnectFails") {
					wantRg = 1
				}
				lost := st.B("reconnectFails") || st.B("registerFails")
				wantLp := 2
				if lost {
					wantLp = 1
				}
				if lp != wantLp || rc != 1 || rg != wantRg {
					return fmt.Sprintf("silent leader: %d pings, %d reconnects, %d registrations (expected %d, 1, %d)", lp, rc, rg, wantLp, wantRg)
				}
				if lost != cleared || (lost && cl != 1) || (!lost && cl != 0) {
					return fmt.Sprintf("silent leader, re-contact failed=%v: leader cleared=%v, client closed %d times", lost, cleared, cl)
				}
			}
			// followers
			rem := map[string]int{}
			for _, e := range out.Effects(fname(remove)) {
				rem[avString(e.Args[len(e.Args)-1])]++
			}
			for i := 0; i < kk; i++ {
				if count(fmt.Sprintf("follower%d.Client.Ping", i)) != 2 {
					return fmt.Sprintf("follower %d is pinged %d times in two rounds", i, count(fmt.Sprintf("follower%d.Client.Ping", i)))
				}
				want := 0
				if st.B(fmt.Sprintf("ping%dFails", i)) {
					want = 1
				}
				if rem[fmt.Sprintf("follower%d.Name", i)] != want {
					return fmt.Sprintf("follower %d: ping failed in the first round=%v (answered in the second), removed %d times over the two rounds", i, want == 1, rem[fmt.Sprintf("follower%d.Name", i)])
				}
			}
			if len(out.Effects(fname(remove))) > kk {
				return "something that is not a registered follower is removed"
			}
			return ""
		}, "leader: answers → untouched; silent → Reconnect, then Register; still failing → closed and forgotten. follower i removed ⇔ its ping failed, once (two rounds: the second starts from scratch)")
	}
}

// leaderRoles (C10): what a member does when the election tells it its role, and the small state changes behind it.
func leaderRoles(c *Ctx, id string) {
	w := c.W
	sd := func(n string) *ssa.Function { return w.Method("servicediscovery", "serviceDiscovery", n) }
	le := func(n string) *ssa.Function { return w.Method("stream", "leaderElection", n) }
	be, dont, assign, rmLeader, rmAll, remove := sd("BeLeader"), sd("DontBeLeader"), sd("AssignLeader"), sd("RemoveLeader"), sd("RemoveAll"), sd("Remove")
	obl, orl, obf := le("OnBecomeLeader"), le("OnResignLeader"), le("OnBecomeFollower")
	c.need(be != nil && dont != nil && assign != nil && rmLeader != nil && rmAll != nil && remove != nil && obl != nil && orl != nil && obf != nil, id, "the role callbacks of stream.leaderElection and the serviceDiscovery state changers")
	flag := flagSetBy(w, be)
	c.need(flag != "", id, "the leader flag")
	// the two flag setters
	for _, t := range []struct {
		fn   *ssa.Function
		want bool
	}{{be, true}, {dont, false}} {
		c.see(t.fn)
		want := t.want
		recv := t.fn.Params[0].Name()
		c.oae(id, "role-flag:"+t.fn.Name(), t.fn.Pos(), &Harness{Fn: t.fn, Quiet: quietLog}, func(st *State, out *Outcome) string {
			if b, ok := out.Final(recv + "." + flag).(avBool); !ok || b.b != want {
				return fmt.Sprintf("leaves the leader flag at %s (expected %v)", avString(out.Final(recv+"."+flag)), want)
			}
			return ""
		}, fmt.Sprintf("leader flag ← %v", want))
	}
	// AssignLeader / RemoveLeader
	c.see(assign)
	c.see(rmLeader)
	ar, ap := assign.Params[0].Name(), assign.Params[1].Name()
	c.oae(id, "leader-assign", assign.Pos(), &Harness{Fn: assign, Quiet: quietLog}, func(st *State, out *Outcome) string {
		if p, ok := out.Final(ar + ".leaderService").(avPtr); !ok || p.c == nil || p.c.sym != ap {
			return "does not record the leader it was given: " + avString(out.Final(ar+".leaderService"))
		}
		return ""
	}, "leaderService ← the given service")
	rr := rmLeader.Params[0].Name()
	c.oae(id, "leader-remove", rmLeader.Pos(), &Harness{Fn: rmLeader, Bools: []string{rr + ".leaderService==nil"}, Quiet: quietLog,
		Oracle: func(st *State, name string, args []AV, res *types.Tuple) ([]AV, bool) {
			if strings.HasSuffix(name, ".Client.Close") {
				return []AV{avIface{isNil: true}}, true
			}
			return nil, false
		}}, func(st *State, out *Outcome) string {
		if out.Panicked {
			return "panics"
		}
		closes := len(out.Effects(rr + ".leaderService.Client.Close"))
		if st.B(rr + ".leaderService==nil") {
			if closes != 0 || out.Final(rr+".leaderService") != nil {
				return "touches a leader that is not known"
			}
			return ""
		}
		if p, ok := out.Final(rr + ".leaderService").(avPtr); closes != 1 || !ok || p.c != nil {
			return fmt.Sprintf("known leader: client closed %d times, field left at %s", closes, avString(out.Final(rr+".leaderService")))
		}
		return ""
	}, "known leader ⇒ its client closed once and the field cleared; unknown ⇒ nothing")
	// OnBecomeLeader / OnResignLeader: both steps, once each
	for _, t := range []struct {
		fn    *ssa.Function
		steps []string
	}{{obl, []string{"BeLeader", "RemoveLeader"}}, {orl, []string{"DontBeLeader", "RemoveAll"}}} {
		c.see(t.fn)
		steps := t.steps
		recv := t.fn.Params[0].Name()
		c.oae(id, "role:"+t.fn.Name(), t.fn.Pos(), &Harness{Fn: t.fn, Quiet: quietLog}, func(st *State, out *Outcome) string {
			for _, s := range steps {
				if n := len(out.Effects(recv + ".serviceDiscovery." + s)); n != 1 {
					return fmt.Sprintf("%s is called %d times (expected once)", s, n)
				}
			}
			// nothing else is done to the registry: a follower that registered before this callback ran must survive it
			if all := out.Effects(recv + ".serviceDiscovery."); len(all) != len(steps) {
				return "does more to the follower registry than " + strings.Join(steps, ", ") + ": " + out.TraceString()
			}
			return ""
		}, strings.Join(t.steps, " and ")+", once each")
	}
	// OnBecomeFollower
	c.see(obf)
	recv, leaderP := obf.Params[0].Name(), obf.Params[1].Name()
	h := &Harness{Fn: obf, Bools: []string{"connectFails", "registerFails"}, Quiet: quietLog,
		Valid: func(st *State) bool { return !(st.B("connectFails") && st.B("registerFails")) },
		Oracle: func(st *State, name string, args []AV, res *types.Tuple) ([]AV, bool) {
			switch {
			case strings.HasSuffix(name, "servicediscovery.NewClient"):
				if st.B("connectFails") {
					return []AV{avIface{isNil: true}, avIface{sym: "errConnect"}}, true
				}
				return []AV{avIface{sym: "leaderClient"}, avIface{isNil: true}}, true
			case strings.HasSuffix(name, "servicediscovery.NewService"):
				return []AV{ptrResult(res, 0, "leaderService")}, true
			case name == "leaderClient.Register":
				if st.B("registerFails") {
					return []AV{avIface{sym: "errRegister"}}, true
				}
				return []AV{avIface{isNil: true}}, true
			}
			return nil, false
		}}
	c.oae(id, "role:OnBecomeFollower", obf.Pos(), h, func(st *State, out *Outcome) string {
		idx := func(name string) int {
			for i, e := range out.Trace {
				if e.Name == name {
					return i
				}
			}
			return -1
		}
		sdp := recv + ".serviceDiscovery."
		nc := idx("servicediscovery.NewClient")
		for _, s := range []string{"DontBeLeader", "RemoveAll", "RemoveLeader"} {
			if n := len(out.Effects(sdp + s)); n != 1 || idx(sdp+s) > nc {
				return fmt.Sprintf("%s is called %d times / after connecting to the new leader (expected once, before)", s, n)
			}
		}
		if nc < 0 {
			return "does not connect to the new leader"
		}
		e := out.Trace[nc]
		if len(e.Args) != 3 || avString(e.Args[0]) != "?int "+recv+".config.LeaderElection.RPC.Port" || avString(e.Args[1]) != "&"+recv+".myIdentity" || avString(e.Args[2]) != "&"+leaderP {
			return "connects with " + e.String() + " (expected the configured RPC port, this member's identity, the leader's identity)"
		}
		assigns := out.Effects(sdp + "AssignLeader")
		regs := out.Effects("leaderClient.Register")
		if all := out.Effects(sdp); len(all) != 3+len(assigns) {
			return "does more to the registry than step down, forget followers, forget and record the leader: " + out.TraceString()
		}
		if st.B("connectFails") {
			if len(assigns)+len(regs) != 0 || out.Panicked {
				return "the leader could not be reached, but " + out.TraceString()
			}
			return ""
		}
		ns := idx("servicediscovery.NewService")
		if ns < 0 || len(out.Trace[ns].Args) != 3 || avString(out.Trace[ns].Args[0]) != "leaderClient" || avString(out.Trace[ns].Args[1]) != leaderP+".Name" || avString(out.Trace[ns].Args[2]) != "?int "+leaderP+".ClusterJoinTime" {
			return "the leader's service record is not built from the new client and the leader's name and join time: " + out.TraceString()
		}
		if len(assigns) != 1 || avString(assigns[0].Args[0]) != "&leaderService" || len(regs) != 1 {
			return fmt.Sprintf("leader reached: %d AssignLeader (with %v), %d Register", len(assigns), assigns, len(regs))
		}
		if st.B("registerFails") != out.Panicked {
			return fmt.Sprintf("registration failed=%v, panics=%v", st.B("registerFails"), out.Panicked)
		}
		return ""
	}, "step down, forget followers and old leader; connect(port, me, leader); on success record the leader and register with it (failure fatal); unreachable leader ⇒ nothing recorded")
	// Remove / RemoveAll
	c.see(remove)
	c.see(rmAll)
	rmr, rmn := remove.Params[0].Name(), remove.Params[1].Name()
	svcT := w.NamedType("servicediscovery", "Service")
	c.need(svcT != nil, id, "servicediscovery.Service")
	c.oae(id, "follower-remove", remove.Pos(), &Harness{Fn: remove, Bools: []string{"registered"}, Quiet: quietLog,
		Oracle: func(st *State, name string, args []AV, res *types.Tuple) ([]AV, bool) {
			switch {
			case strings.HasSuffix(name, ".Load"):
				if st.B("registered") {
					return []AV{avPtr{&cell{typ: svcT, sym: "follower"}}, avBool{true}}, true
				}
				return []AV{avPtr{nil}, avBool{false}}, true
			case strings.HasSuffix(name, ".Client.Close"):
				return []AV{avIface{isNil: true}}, true
			}
			return nil, false
		}}, func(st *State, out *Outcome) string {
		if out.Panicked {
			return "panics"
		}
		var dels []Effect
		for _, e := range out.Trace {
			if strings.HasSuffix(e.Name, ".Delete") {
				dels = append(dels, e)
			}
		}
		closes := len(out.Effects("follower.Client.Close"))
		if !st.B("registered") {
			if len(dels)+closes != 0 {
				return "removes something that is not registered"
			}
			return ""
		}
		if len(dels) != 1 || avString(dels[0].Args[len(dels[0].Args)-1]) != rmn || closes != 1 {
			return fmt.Sprintf("registered follower: %d deletions (%v), client closed %d times", len(dels), dels, closes)
		}
		_ = rmr
		return ""
	}, "registered ⇒ client closed and entry deleted under the given name, once; otherwise nothing")
	for k := 0; k <= c.bound(2, 5); k++ {
		kk := k
		h := &Harness{Fn: rmAll, Quiet: quietLog, Concrete: true, NoInline: map[string]bool{fname(remove): true},
			Complete: func(st *State, name string, args []AV) (AV, [][]AV, bool) {
				if !strings.HasSuffix(name, ".Range") || len(args) < 2 {
					return nil, nil, false
				}
				var calls [][]AV
				for i := 0; i < kk; i++ {
					calls = append(calls, []AV{avStr{sym: fmt.Sprintf("name%d", i)}, avPtr{&cell{typ: svcT, sym: fmt.Sprintf("follower%d", i)}}})
				}
				return args[len(args)-1], calls, true
			},
			Oracle: func(st *State, name string, args []AV, res *types.Tuple) ([]AV, bool) {
				if strings.HasSuffix(name, ".Range") {
					return []AV{}, true
				}
				return nil, false
			}}
		c.oae(id, fmt.Sprintf("follower-remove-all[%d]", k), rmAll.Pos(), h, func(st *State, out *Outcome) string {
			rs := out.Effects(fname(remove))
			if len(rs) != kk {
				return fmt.Sprintf("%d removals for %d followers", len(rs), kk)
			}
			seen := map[string]bool{}
			for _, e := range rs {
				seen[avString(e.Args[len(e.Args)-1])] = true
			}
			if len(seen) != kk {
				return "a follower is removed twice and another kept"
			}
			return ""
		}, "Remove(name) once for every registered follower")
	}
}

// rpcAgreement (C10): the RPC client and the RPC handler are two halves of one table. net/rpc dispatches by the string
// "Type.Method" and decodes by type, so a call whose name, payload type or reply type has no counterpart fails only at
// run time. For every Call in the client: the name is a constant "Handler.M", *Handler has a method M(P, *R) error,
// the payload handed over is a P and the reply a *R; the payload carries what the caller was asked to send (the member
// number and group size of Rebalance, this member's identity in Register); and the handler acts on exactly the
// payload's fields (SetInfo(payload.MemberNumber, payload.TotalMembers); Add(NewService(NewClient(port, me,
// payload.Identity), payload.Identity.Name, payload.Identity.ClusterJoinTime)) ⇔ the connection back succeeded).
func rpcAgreement(c *Ctx, id string) {
	w := c.W
	handler := w.NamedType("servicediscovery", "Handler")
	c.need(handler != nil, id, "servicediscovery.Handler")
	ms := types.NewMethodSet(types.NewPointer(handler))
	n := 0
	for _, fn := range w.ModFuncs {
		if pkgOfFn(fn) != handler.Obj().Pkg().Path() {
			continue
		}
		allInstrs(fn, func(in ssa.Instruction) {
			cc := callOf(in)
			if cc == nil || cc.StaticCallee() == nil || fname(cc.StaticCallee()) != "(*net/rpc.Client).Call" || len(cc.Args) != 4 {
				return
			}
			c.see(fn)
			dyn := func(v ssa.Value) types.Type {
				if mi, ok := v.(*ssa.MakeInterface); ok {
					return mi.X.Type()
				}
				return v.Type()
			}
			judge := func(name string, payloadT, replyT types.Type, site ssa.Instruction, inFn *ssa.Function) {
				n++
				construct := "rpc-call:" + strings.TrimSuffix(strings.TrimPrefix(name, "const(\""), "\")")
				if !strings.HasPrefix(name, "const(\"Handler.") {
					c.Fail(id, construct, site.Pos(), "the method name %s is not a constant Handler.<method>", name)
					return
				}
				method := strings.TrimSuffix(strings.TrimPrefix(name, "const(\"Handler."), "\")")
				sel := ms.Lookup(handler.Obj().Pkg(), method)
				if sel == nil {
					c.Fail(id, construct, site.Pos(), "the client calls Handler.%s, which the handler does not have: every such call fails at run time", method)
					return
				}
				sig := sel.Type().(*types.Signature)
				if sig.Params().Len() != 2 || payloadT == nil || replyT == nil || !types.Identical(sig.Params().At(0).Type(), payloadT) || !types.Identical(sig.Params().At(1).Type(), replyT) {
					c.Fail(id, construct, site.Pos(), "Handler.%s takes %s, the client sends (%s, %s)", method, sig.Params(), payloadT, replyT)
					return
				}
				// the client method that makes this call is the one of the same name (Rebalance calls Handler.Rebalance)
				owner := ""
				for _, m := range w.implsOf("servicediscovery", "Client", method) {
					for _, u := range methodUnit(w, m) {
						if u == inFn {
							owner = method
						}
					}
				}
				if owner == "" {
					c.Fail(id, construct, site.Pos(), "Handler.%s is called from %s, not from the client's %s", method, fname(rootFn(inFn)), method)
					return
				}
				c.OK(id, construct, site.Pos(), "Handler.%s%s exists and receives (%s, %s)", method, sig.Params(), payloadT, replyT)
			}
			name := w.Origin(cc.Args[1])
			if strings.HasPrefix(name, "const(") {
				judge(name, dyn(cc.Args[2]), dyn(cc.Args[3]), in, fn)
				return
			}
			// the call sits in a helper (possibly generic: `callWithRetry[R](c, "Handler.M", func() any {…})`) that is
			// handed the method name and a function building the payload: judged at each of the helper's call sites
			root := rootFn(fn)
			if root.TypeParams().Len() > 0 && len(root.TypeArgs()) == 0 {
				return // the uninstantiated body of a generic helper: its instantiations are judged
			}
			nameP, argsP := -1, -1
			for i, p := range root.Params {
				if strings.Contains(name, "param("+p.Name()+")") {
					nameP = i
				}
				if _, isSig := p.Type().Underlying().(*types.Signature); isSig && strings.Contains(w.Origin(cc.Args[2]), "param("+p.Name()+")") {
					argsP = i
				}
			}
			sites := w.callersOf(root)
			if nameP < 0 || len(sites) == 0 {
				judge(name, dyn(cc.Args[2]), dyn(cc.Args[3]), in, fn)
				return
			}
			for _, cs := range sites {
				a := cs.Call.Common().Args
				if nameP >= len(a) {
					continue
				}
				var payloadT types.Type
				if argsP >= 0 && argsP < len(a) {
					if cl := closureOf(a[argsP]); cl != nil {
						allInstrs(cl, func(x ssa.Instruction) {
							if r, isR := x.(*ssa.Return); isR && len(r.Results) == 1 {
								payloadT = dyn(r.Results[0])
							}
						})
					}
				} else {
					payloadT = dyn(cc.Args[2])
				}
				judge(w.Origin(a[nameP]), payloadT, dyn(cc.Args[3]), cs.Call, cs.Fn)
			}
		})
	}
	c.Check(n >= 3, id, "rpc-floor", 0, fmt.Sprintf("%d RPC calls compared with the handler", n), fmt.Sprintf("only %d RPC calls found (3 on the reference tree)", n))
	// what the client puts into the payloads
	cl := func(m string) *ssa.Function { return w.Method("servicediscovery", "client", m) }
	payload := func(fn *ssa.Function, typ string, want map[string]string) {
		if fn == nil {
			c.Undecided(id, "rpc-payload:"+typ, 0, "client method for %s not found", typ)
			return
		}
		got := map[string]string{}
		for _, f := range methodUnit(w, fn) {
			c.see(f)
			allInstrs(f, func(in ssa.Instruction) {
				st, ok := in.(*ssa.Store)
				if !ok {
					return
				}
				fa, ok := st.Addr.(*ssa.FieldAddr)
				if !ok {
					return
				}
				if nt, ok := fa.X.Type().(*types.Pointer).Elem().(*types.Named); ok && nt.Obj().Name() == typ {
					got[nt.Underlying().(*types.Struct).Field(fa.Field).Name()] = w.Origin(st.Val)
				}
			})
		}
		bad := ""
		for k, v := range want {
			if got[k] != v {
				bad += fmt.Sprintf(" %s←%s (expected %s)", k, got[k], v)
			}
		}
		c.Check(bad == "", id, "rpc-payload:"+typ, fn.Pos(), fmt.Sprintf("%s carries %v", typ, want), typ+" payload:"+bad)
	}
	if rb := cl("Rebalance"); rb != nil && len(rb.Params) == 3 {
		payload(rb, "Rebalance", map[string]string{"MemberNumber": "param(" + rb.Params[1].Name() + ")", "TotalMembers": "param(" + rb.Params[2].Name() + ")"})
	} else {
		c.Undecided(id, "rpc-payload:Rebalance", 0, "client.Rebalance(memberNumber, totalMembers) not found")
	}
	payload(cl("Register"), "Register", map[string]string{"Identity": "recv.myIdentity"})
	// what the handler does with them
	hm := func(m string) *ssa.Function { return w.Method("servicediscovery", "Handler", m) }
	if hr := hm("Rebalance"); hr != nil {
		c.see(hr)
		pl := hr.Params[1].Name()
		c.oae(id, "rpc-handler:Rebalance", hr.Pos(), &Harness{Fn: hr, Quiet: quietLog}, func(st *State, out *Outcome) string {
			es := out.Effects(hr.Params[0].Name() + ".serviceDiscovery.SetInfo")
			if len(es) != 1 || len(es[0].Args) != 2 || avString(es[0].Args[0]) != "?int "+pl+".MemberNumber" || avString(es[0].Args[1]) != "?int "+pl+".TotalMembers" {
				return fmt.Sprintf("announces %v (expected SetInfo(payload.MemberNumber, payload.TotalMembers) once)", es)
			}
			if e, ok := out.Ret[0].(avIface); !ok || !e.isNil {
				return "reports an error for a number it accepted"
			}
			return ""
		}, "SetInfo(payload.MemberNumber, payload.TotalMembers) once, nil")
	} else {
		c.Undecided(id, "rpc-handler:Rebalance", 0, "Handler.Rebalance not found")
	}
	if hg := hm("Register"); hg != nil {
		c.see(hg)
		rv, pl := hg.Params[0].Name(), hg.Params[1].Name()
		noInl := map[string]bool{}
		for _, n := range []string{"NewClient", "NewService"} {
			if f := w.Func("servicediscovery", n); f != nil {
				noInl[fname(f)] = true
			}
		}
		h := &Harness{Fn: hg, Bools: []string{"connectFails"}, Quiet: quietLog, NoInline: noInl,
			Oracle: func(st *State, name string, args []AV, res *types.Tuple) ([]AV, bool) {
				switch {
				case strings.HasSuffix(name, ".NewClient"):
					if st.B("connectFails") {
						return []AV{avIface{isNil: true}, avIface{sym: "errConnect"}}, true
					}
					return []AV{avIface{sym: "followerClient"}, avIface{isNil: true}}, true
				case strings.HasSuffix(name, ".NewService"):
					return []AV{ptrResult(res, 0, "followerService")}, true
				}
				return nil, false
			}}
		c.oae(id, "rpc-handler:Register", hg.Pos(), h, func(st *State, out *Outcome) string {
			var nc, ns []Effect
			for _, e := range out.Trace {
				if strings.HasSuffix(e.Name, ".NewClient") {
					nc = append(nc, e)
				}
				if strings.HasSuffix(e.Name, ".NewService") {
					ns = append(ns, e)
				}
			}
			adds := out.Effects(rv + ".serviceDiscovery.Add")
			if len(nc) != 1 || len(nc[0].Args) != 3 || avString(nc[0].Args[0]) != "?int "+rv+".port" || avString(nc[0].Args[1]) != "&"+rv+".myIdentity" || avString(nc[0].Args[2]) != "&"+pl+".Identity" {
				return fmt.Sprintf("connects back with %v (expected the handler's port, this member's identity, the registering member's identity)", nc)
			}
			e, ok := out.Ret[0].(avIface)
			if !ok {
				return "result not determined"
			}
			if st.B("connectFails") {
				if len(adds) != 0 || e.isNil {
					return "the follower could not be reached, yet it is registered or no error is reported"
				}
				return ""
			}
			if len(ns) != 1 || (avString(ns[0].Args[0]) != "followerClient" && avString(w.avThroughLayers(ns[0].Args[0])) != "followerClient") || avString(ns[0].Args[1]) != pl+".Identity.Name" || avString(ns[0].Args[2]) != "?int "+pl+".Identity.ClusterJoinTime" {
				return fmt.Sprintf("the follower's record is built from %v (expected its client, name and join time)", ns)
			}
			if len(adds) != 1 || avString(adds[0].Args[0]) != "&followerService" || !e.isNil {
				return fmt.Sprintf("registers %v, returns %s", adds, avString(e))
			}
			return ""
		}, "connect back (port, me, payload.Identity); success ⇒ Add(NewService(client, name, join time)) once, nil; failure ⇒ not registered, error")
	} else {
		c.Undecided(id, "rpc-handler:Register", 0, "Handler.Register not found")
	}
}

// rpcClientLifecycle (C10): the RPC client is handed out only connected, and closing it is idempotent.
func rpcClientLifecycle(c *Ctx, id string) {
	w := c.W
	nc := w.Func("servicediscovery", "NewClient")
	conn := w.Method("servicediscovery", "client", "connect")
	cls := w.Method("servicediscovery", "client", "Close")
	c.need(nc != nil && conn != nil && cls != nil, id, "servicediscovery.NewClient / client.connect / client.Close")
	c.see(nc)
	c.oae(id, "rpc-client:new", nc.Pos(), &Harness{Fn: nc, Bools: []string{"connectFails"}, Quiet: quietLog, NoInline: map[string]bool{fname(conn): true},
		Oracle: func(st *State, name string, args []AV, res *types.Tuple) ([]AV, bool) {
			if name == fname(conn) {
				if st.B("connectFails") {
					return []AV{avIface{sym: "errConnect"}}, true
				}
				return []AV{avIface{isNil: true}}, true
			}
			return nil, false
		}}, func(st *State, out *Outcome) string {
		if len(out.Effects(fname(conn))) != 1 {
			return "does not connect exactly once"
		}
		cl, ok1 := out.Ret[0].(avIface)
		e, ok2 := out.Ret[1].(avIface)
		if !ok1 || !ok2 {
			return "results not determined"
		}
		if st.B("connectFails") != !e.isNil || st.B("connectFails") != cl.isNil {
			return fmt.Sprintf("connect failed=%v: returns client=%s, error=%s", st.B("connectFails"), avString(cl), avString(e))
		}
		return ""
	}, "(client, nil) ⇔ connected; (nil, err) otherwise")
	// the dial attempt
	var attempt *ssa.Function
	for _, f := range methodUnit(w, conn) {
		allInstrs(f, func(in ssa.Instruction) {
			if cc := callOf(in); cc != nil && cc.StaticCallee() != nil && fname(cc.StaticCallee()) == "net/rpc.Dial" {
				attempt = f
			}
		})
	}
	c.need(attempt != nil, id, "the dial attempt")
	c.see(attempt)
	recv := "c"
	if len(attempt.FreeVars) > 0 {
		recv = attempt.FreeVars[0].Name()
	} else if len(attempt.Params) > 0 {
		recv = attempt.Params[0].Name()
	}
	// the connection field: the one of type *rpc.Client
	connField, flagField := "", ""
	if ct := w.NamedType("servicediscovery", "client"); ct != nil {
		if st, ok := ct.Underlying().(*types.Struct); ok {
			for i := 0; i < st.NumFields(); i++ {
				if strings.HasSuffix(st.Field(i).Type().String(), "net/rpc.Client") {
					connField = st.Field(i).Name()
				}
				if b, isB := st.Field(i).Type().Underlying().(*types.Basic); isB && b.Kind() == types.Bool {
					flagField = st.Field(i).Name()
				}
			}
		}
	}
	c.need(connField != "" && flagField != "", id, "the client's *rpc.Client field and its connected flag")
	c.oae(id, "rpc-client:dial", attempt.Pos(), &Harness{Fn: attempt, Bools: []string{"dialFails"}, Quiet: quietLog,
		Oracle: func(st *State, name string, args []AV, res *types.Tuple) ([]AV, bool) {
			if name == "net/rpc.Dial" {
				if st.B("dialFails") {
					return []AV{avPtr{nil}, avIface{sym: "errDial"}}, true
				}
				return []AV{ptrResult(res, 0, "conn"), avIface{isNil: true}}, true
			}
			return nil, false
		}}, func(st *State, out *Outcome) string {
		e, ok := out.Ret[0].(avIface)
		if !ok || st.B("dialFails") != !e.isNil {
			return "dial failed=" + fmt.Sprint(st.B("dialFails")) + ", attempt returns " + avString(out.Ret[0])
		}
		conn, flag := out.Final(recv+"."+connField), out.Final(recv+"."+flagField)
		if st.B("dialFails") {
			if conn != nil || flag != nil {
				return "a failed dial changes the client's state"
			}
			return ""
		}
		if p, ok := conn.(avPtr); !ok || p.c == nil || p.c.sym != "conn" {
			return "the connection is not kept: " + avString(conn)
		}
		if b, ok := flag.(avBool); !ok || !b.b {
			return "the client is not marked connected"
		}
		return ""
	}, "dial ok ⇒ connection kept, marked connected, nil; failed ⇒ its error, state untouched")
	// Reconnect dials anew whatever the client believes about its connection (the flag says nothing about the socket)
	if rc := w.Method("servicediscovery", "client", "Reconnect"); rc != nil {
		c.see(rc)
		c.oae(id, "rpc-client:reconnect", rc.Pos(), &Harness{Fn: rc, Bools: []string{rc.Params[0].Name() + "." + flagField, "connectFails"}, Quiet: quietLog, NoInline: map[string]bool{fname(conn): true},
			Oracle: func(st *State, name string, args []AV, res *types.Tuple) ([]AV, bool) {
				if name == fname(conn) {
					if st.B("connectFails") {
						return []AV{avIface{sym: "errConnect"}}, true
					}
					return []AV{avIface{isNil: true}}, true
				}
				return nil, false
			}}, func(st *State, out *Outcome) string {
			if n := len(out.Effects(fname(conn))); n != 1 {
				return fmt.Sprintf("connects %d times (connected flag: %v)", n, st.B(rc.Params[0].Name()+"."+flagField))
			}
			if e, ok := out.Ret[0].(avIface); !ok || e.isNil == st.B("connectFails") {
				return "does not return the connect's outcome"
			}
			return ""
		}, "connect once, whatever the connected flag says; its outcome returned")
	} else {
		c.Undecided(id, "rpc-client:reconnect", 0, "client.Reconnect not found")
	}
	c.see(cls)
	cr := cls.Params[0].Name()
	c.oae(id, "rpc-client:close", cls.Pos(), &Harness{Fn: cls, Bools: []string{cr + "." + flagField, "closeFails"}, Quiet: quietLog, InlineAll: false,
		Oracle: func(st *State, name string, args []AV, res *types.Tuple) ([]AV, bool) {
			if name == "(*net/rpc.Client).Close" {
				if st.B("closeFails") {
					return []AV{avIface{sym: "errClose"}}, true
				}
				return []AV{avIface{isNil: true}}, true
			}
			return nil, false
		}}, func(st *State, out *Outcome) string {
		if out.Panicked {
			return "panics"
		}
		n := len(out.Effects("(*net/rpc.Client).Close"))
		e, ok := out.Ret[0].(avIface)
		if !ok {
			return "result not determined"
		}
		if !st.B(cr + "." + flagField) {
			if n != 0 || !e.isNil {
				return "closing a client that is not connected does something"
			}
			return ""
		}
		if n != 1 {
			return fmt.Sprintf("the connection is closed %d times", n)
		}
		if b, ok := out.Final(cr + "." + flagField).(avBool); !ok || b.b {
			return "the client stays marked connected: the next Close closes the connection again"
		}
		if st.B("closeFails") == e.isNil {
			return "the connection's close error is not what Close returns"
		}
		return ""
	}, "connected ⇒ connection closed once, marked disconnected, its error returned; otherwise nothing")
}

// methodUnit: the functions that make up one method: its closures, the methods it hands on as bound method values,
// and its same-package synchronous callees (two levels).
func methodUnit(w *World, fn *ssa.Function) []*ssa.Function {
	seen := map[*ssa.Function]bool{}
	var out []*ssa.Function
	var add func(f *ssa.Function, depth int)
	add = func(f *ssa.Function, depth int) {
		if f == nil || seen[f] || f.Blocks == nil {
			return
		}
		seen[f] = true
		out = append(out, f)
		for _, a := range f.AnonFuncs {
			add(a, depth)
		}
		if depth >= 2 {
			return
		}
		allInstrs(f, func(in ssa.Instruction) {
			if mc, ok := in.(*ssa.MakeClosure); ok {
				if b := w.boundMethodOf(mc); b != nil && b.Pkg == fn.Pkg {
					add(b, depth+1)
				}
			}
			if cc := callOf(in); cc != nil {
				if cal := cc.StaticCallee(); cal != nil && cal.Pkg == fn.Pkg && cal.Pkg != nil {
					add(cal, depth+1)
				}
			}
		})
	}
	add(fn, 0)
	return out
}

// joinTimeResolution (C10): members are numbered in join order, and two members with the same join time are ordered by
// whatever the map iteration gives — differently from round to round. Every join time the library creates is therefore
// the clock's finest reading: each value stored into a field named ClusterJoinTime (identity, instance document,
// service record, the membership's own copy) is time.Now().UnixNano() or a copy of another join time (a parameter, a
// field, the registration's `now`) — never a coarser or derived number.
func joinTimeResolution(c *Ctx, id string) {
	w := c.W
	n, created := 0, 0
	var bad []string
	for _, fn := range w.ModFuncs {
		allInstrs(fn, func(in ssa.Instruction) {
			st, ok := in.(*ssa.Store)
			if !ok {
				return
			}
			f := fieldOfAddr(st.Addr)
			if f == nil || !strings.EqualFold(f.Name(), "clusterJoinTime") {
				return
			}
			n++
			o := w.Origin(st.Val)
			switch {
			case strings.Contains(o, "(time.Time).UnixNano)(call(time.Now)())"):
				created++
			case strings.HasPrefix(o, "param("), strings.HasSuffix(strings.ToLower(o), "clusterjointime"):
				// handed on
			default:
				bad = append(bad, fmt.Sprintf("%s ← %s @%s", f.Name(), o, w.pos(in.Pos())))
			}
		})
	}
	c.Check(len(bad) == 0 && created >= 2 && n >= 4, id, "join-time", 0, fmt.Sprintf("%d join-time stores: %d clock readings in nanoseconds, the rest copies", n, created), "a join time is not the nanosecond clock reading or a copy of one: "+strings.Join(bad, "; ")+" — members that start close together tie and swap numbers from round to round")
}

// publishSynchronous (C09/C10/C11): announcements reach the listeners in the order they were made: every Publish on
// the membership topic is a plain call — never `go bus.Publish(…)` or a deferred one. (The bus delivers to
// transactional listeners one at a time, but two publishing goroutines race for that lock.)
func publishSynchronous(c *Ctx, id string) {
	w := c.W
	n := 0
	var bad []string
	for _, fn := range w.ModFuncs {
		allInstrs(fn, func(in ssa.Instruction) {
			cc := callOf(in)
			if cc == nil || !cc.IsInvoke() || cc.Method.Name() != "Publish" || len(cc.Args) < 1 {
				return
			}
			if !strings.Contains(w.Origin(cc.Args[0]), "membershipChanged") && !strings.Contains(w.Origin(cc.Args[0]), "MembershipChangedBusEventName") {
				return
			}
			n++
			if _, plain := in.(*ssa.Call); !plain {
				bad = append(bad, fmt.Sprintf("%T in %s @%s", in, fname(fn), w.pos(in.Pos())))
			}
			// a plain call inside a function that is itself only started with `go`
			if r := rootFn(fn); fn != r && fn.Parent() != nil {
				for _, u := range w.usesAsValue(fn) {
					if _, isGo := u.(*ssa.Go); isGo {
						bad = append(bad, "published from a goroutine body in "+fname(r)+" @"+w.pos(in.Pos()))
					}
				}
			}
		})
	}
	c.Check(n >= 3 && len(bad) == 0, id, "publish-synchronous", 0, fmt.Sprintf("%d membership publishes, all plain calls", n), "a membership announcement is published asynchronously: "+strings.Join(bad, "; ")+" — two announcements can be applied in reverse order and the older one stays in effect")
}

// leaderStopLeavesRegistry (C13/C10): stopping the election closes the elector and the RPC server and does nothing to
// the follower registry or the leader record — the heart-beat loop may be in the middle of a round over them.
func leaderStopLeavesRegistry(c *Ctx, id string) {
	w := c.W
	stop := w.Method("stream", "leaderElection", "Stop")
	c.need(stop != nil, id, "leaderElection.Stop")
	c.see(stop)
	recv := stop.Params[0].Name()
	c.oae(id, "role:Stop", stop.Pos(), &Harness{Fn: stop, Quiet: quietLog}, func(st *State, out *Outcome) string {
		if es := out.Effects(recv + ".serviceDiscovery."); len(es) != 0 {
			return "Stop changes the registry while its loops may still run: " + out.TraceString()
		}
		return ""
	}, "no call on the service discovery")
}
