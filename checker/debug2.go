package main

import (
	"fmt"
	"os"

	"golang.org/x/tools/go/ssa"
)

func init() {
	for _, a := range os.Args {
		if a == "-goloops" {
			w, err := loadWorld("/repo", nil)
			if err != nil {
				fmt.Println(err)
				os.Exit(2)
			}
			for _, gl := range goLoops(w) {
				fmt.Printf("%s -> %s loop=%v conds=%v @%s\n", fname(gl.Starter), fname(gl.Body), gl.HasLoop, gl.ExitConds, w.pos(gl.Go.Pos()))
			}
			os.Exit(0)
		}
	}
}

var _ ssa.Instruction
