package main

import (
	"fmt"
	"regexp"
	"strings"

	"golang.org/x/tools/go/ssa"
)

func init() {
	register(&Property{
		ID: "C11",
		Explanation: "Decides the PERIPHERY of rebalance convergence — necessary structural conditions: (R1) lifecycle callbacks are bracketed on every path of Rebalance (with Close inlined) and of the timer function (with Open inlined); " +
			"(R2) the debounce arm (balancing ∧ timer≠nil) touches nothing but the timer, and a timer is Reset only after Stop() returned true (resetting a fired AfterFunc timer would run the reopen twice); " +
			"(R3) balancing←true dominates the Close(false), wait() closes the stop channel only when ¬balancing, and in the timer function Open returns before balancing←false; (R4) after rebalanceLock.Lock every path arms exactly one AfterFunc with the reopen function, which defers the Unlock first thing; " +
			"(R5) Open always asks VBucketDiscovery.Get and Checkpoint.Load afresh; the delay is the constant 0 iff membership type is dynamic; (R6) a repeated membership causes no notification (C10.R1); (R7) the bus listener forwards every notification to Stream.Rebalance unconditionally; (R9) because the debounce test reads the balancing state outside the rebalance lock, the listener is subscribed with serialised delivery. " +
			"NOT decided: 'closed once / reopened exactly once per burst on the most recent membership' and the spacing relative to the delay (timer and interleaving behaviour).",
		Assumptions: []string{"time.AfterFunc runs its function once per arming; Timer.Stop reports whether it prevented the run"},
		Rules: []RuleDef{
			{ID: "C11.R1", Text: "callback bracketing: Rebalance ∈ ε | BeforeRebalanceStart (BeforeStreamStop AfterStreamStop)? AfterRebalanceStart; timer function = BeforeRebalanceEnd BeforeStreamStart AfterStreamStart AfterRebalanceEnd", Run: c11r1},
			{ID: "C11.R2", Text: "debounce arm: only timer operations and logging; Timer.Reset only under Timer.Stop()=true, otherwise a new AfterFunc re-entering Rebalance", Run: c11r2},
			{ID: "C11.R3", Text: "never stops the client: balancing←true dominates Close(false); close(stopCh) only under ¬balancing; Open precedes balancing←false in the timer function", Run: c11r3},
			{ID: "C11.R4", Text: "lock hand-off: Lock is followed on every path by exactly one AfterFunc(reopen); the reopen function defers Unlock before anything else", Run: c11r4},
			{ID: "C11.R5", Text: "fresh reopen: Open calls VBucketDiscovery.Get and Checkpoint.Load on every path; AfterFunc delay is const 0 ⇔ membership type == dynamic, else RebalanceDelay", Run: c11r5},
			{ID: "C11.R8", Text: "closed once: the stream close covers every assigned vBucket (same rule as C13.R8)", Run: closeAllRange},
			{ID: "C11.R10", Text: "no event is delivered while the stream is closed: the delivery switch is tested after the rollback-mitigation wait, so an event parked in the gate when the rebalance closes the stream is released without being delivered (same rule as C13.R7)", Run: func(c *Ctx, id string) {
				oi := observerInfo(c, id)
				c03DeliverOAE(c, id, oi)
				gateOAE(c, id, oi, "wait")
			}},
			{ID: "C11.R11", Text: "a rebalance never terminates the client: ends of the streams the rebalance closed are not counted — End forwards ⇔ ¬endClosed, whatever the error (same rule as C12.R4)", Run: c12r4},
			{ID: "C11.R12", Text: "the reopen uses the most recent membership: every bus-fed membership implementation records an announcement first and unconditionally (hand-over to a waiting GetInfo only in a goroutine) and GetInfo only reads", Run: latestInfo},
			{ID: "C11.R13", Text: "the rebalance decision, exhaustively over balancing × timer armed × Stop()'s answer: only the timer is touched ⇔ balancing ∧ timer≠nil (Reset ⇔ Stop()=true, else re-arm); otherwise lock, start callbacks, Close(false) and balancing←true ⇔ ¬balancing, exactly one AfterFunc", Run: rebalanceDecision},
			{ID: "C11.R14", Text: "the first numbering reaches the stream: hand-over to a waiting GetInfo ⇔ first announcement (same rule as C10.R17)", Run: firstInfoHandOver},
			{ID: "C11.R15", Text: "the reopen covers the range of the latest membership and nothing else: one opener per element of the list VBucketDiscovery.Get returned, not per loaded checkpoint (same rule as C15.R3)", Run: c15r3},
			{ID: "C11.R16", Text: "the reopen resumes from the stored checkpoints: Load builds each position from the loaded document's own fields and never replaces or modifies a loaded document (same rule as C02.R2)", Run: c02r2},
			{ID: "C11.R17", Text: "the reopen resumes from what the store holds at that moment, also in read-only mode: the wrapper forwards every Load (same rule as C15.R22)", Run: readOnlyForwardsLoad},
			{ID: "C11.R18", Text: "the latest assignment wins: the follower's handler announces the leader's numbers synchronously, in the order the calls arrive (same rule as C10.R23)", Run: rpcAgreement},
			{ID: "C11.R19", Text: "nothing is delivered while the stream is closed: delivery happens inside the observer's own call chain, under its delivery switch — no queue or dispatcher between observer and consumer (same rule as C03.R1)", Run: c03r1},
			{ID: "C11.R20", Text: "the most recent membership information wins: announcements are applied in the order they were made: every Publish on the membership topic is a plain synchronous call, never go/defer (same rule as C10.R29)", Run: publishSynchronous},
			{ID: "C11.R21", Text: "lifecycle callbacks can call back into the client: the rebalance lock they run under is locked and unlocked only by the two functions of the hand-off (Rebalance and the timer-driven reopen)", Run: rebalanceLockOwners},
			{ID: "C11.R22", Text: "a rebalance never terminates the client through a scrape: uses of the observers map in the collector are dominated by its nil test, which holds for the whole closed window (same rule as C16.R4)", Run: c16r4},
			{ID: "C11.R23", Text: "nothing is saved while the stream is closed for the rebalance (same rule as C04.R17)", Run: noSaveWhileClosed},
			{ID: "C11.R24", Text: "a re-open resumes from the stored checkpoints: openStream requests exactly the position in the map Load filled, read at call time (same rule as C12.R3)", Run: c12r3},
			{ID: "C11.R25", Text: "a rebalance never terminates the client: only the application can ask for the shutdown — the public Close is neither called nor handed out as a function value anywhere in the module", Run: closeIsEntryPointOnly},
			{ID: "C11.R26", Text: "the re-open after a rebalance finishes: openStream waits for nothing but its request (no slot, permit, lock or in-flight table in front of it) and reports success only after the request", Run: openDoesNotWait},
			{ID: "C11.R27", Text: "callbacks are bracketed also with a zero delay: AfterRebalanceStart is announced before the re-open is armed", Run: rebalanceStartBeforeArm},
			{ID: "C11.R28", Text: "a rebalance never terminates the client: the close stops the mitigation exactly when Open started it — both read the same switch at the time they run (same rule as C13.R20)", Run: sessionFlags},
			{ID: "C11.R6", Text: "a repeated membership causes no notification (same rule as C10.R1)", Run: c10r1},
			{ID: "C11.R7", Text: "the bus listener subscribed by the client calls Stream.Rebalance on every path (no notification is dropped while closed or reopening)", Run: c11r7},
			{ID: "C11.R9", Text: "notifications are handled one at a time: the debounce test of Rebalance reads the balancing state before taking the lock, so every listener that reaches Stream.Rebalance is subscribed serialised (SubscribeAsync(…, transactional=true) or synchronous Subscribe)", Run: c11r9},
		},
	})
}

type streamFns struct {
	rebalance, timerFn, open, close, wait *ssa.Function
}

func streamLifecycle(c *Ctx, id string) *streamFns {
	w := c.W
	sf := &streamFns{}
	for _, f := range w.implsOf("stream", "Stream", "Rebalance") {
		sf.rebalance = f
	}
	for _, f := range w.implsOf("stream", "Stream", "Open") {
		sf.open = f
	}
	for _, f := range w.implsOf("stream", "Stream", "Close") {
		sf.close = f
	}
	c.need(sf.rebalance != nil && sf.open != nil && sf.close != nil, id, "Stream.Rebalance/Open/Close implementation")
	// timer function: the bound method armed by AfterFunc in Rebalance that is not Rebalance itself
	allInstrs(sf.rebalance, func(in ssa.Instruction) {
		if cc := callOf(in); cc != nil && isStaticCall(cc, "time", "", "AfterFunc") {
			if m := w.boundMethodOf(cc.Args[1]); m != nil && m != sf.rebalance {
				sf.timerFn = m
			}
		}
	})
	c.need(sf.timerFn != nil, id, "the reopen function armed by time.AfterFunc in Rebalance")
	// wait: the function started with `go` in Open that contains close(stopCh)
	allInstrs(sf.open, func(in ssa.Instruction) {
		if g, ok := in.(*ssa.Go); ok {
			if f := g.Common().StaticCallee(); f != nil {
				sf.wait = f
			}
		}
	})
	c.need(sf.wait != nil, id, "the wait goroutine started by Open")
	return sf
}

func handlerEvents(sf *streamFns, inline ...*ssa.Function) eventClassifier {
	return func(in ssa.Instruction) (string, *ssa.Function) {
		cc := callOf(in)
		if cc == nil {
			return "", nil
		}
		if cc.IsInvoke() && isInvokeOf(cc, "EventHandler", cc.Method.Name()) {
			return cc.Method.Name(), nil
		}
		if _, ok := in.(*ssa.Call); ok {
			for _, f := range inline {
				if cc.StaticCallee() == f {
					return "", f
				}
			}
		}
		return "", nil
	}
}

func c11r1(c *Ctx, id string) {
	sf := streamLifecycle(c, id)
	c.see(sf.rebalance)
	c.see(sf.timerFn)
	seqs, complete := pathEvents(sf.rebalance, handlerEvents(sf, sf.close), 1)
	re := regexp.MustCompile(`^$|^BeforeRebalanceStart( BeforeStreamStop AfterStreamStop)? AfterRebalanceStart$`)
	ok := complete
	for _, s := range seqs {
		if !re.MatchString(strings.TrimSuffix(s, " !panic")) {
			ok = false
		}
	}
	c.Check(ok, id, "bracket@"+fname(sf.rebalance), sf.rebalance.Pos(), fmt.Sprintf("callback sequences on all paths: %q", seqs), fmt.Sprintf("callbacks not bracketed on some path of Rebalance: %q (complete enumeration: %v)", seqs, complete))
	seqs2, complete2 := pathEvents(sf.timerFn, handlerEvents(sf, sf.open), 1)
	ok2 := complete2 && len(seqs2) > 0
	for _, s := range seqs2 {
		if strings.HasSuffix(s, "!panic") {
			continue // start-up failures terminate the client (C15)
		}
		if s != "BeforeRebalanceEnd BeforeStreamStart AfterStreamStart AfterRebalanceEnd" {
			ok2 = false
		}
	}
	c.Check(ok2, id, "bracket@"+fname(sf.timerFn), sf.timerFn.Pos(), fmt.Sprintf("callback sequences on all paths: %q", seqs2), fmt.Sprintf("callbacks not bracketed on some path of the reopen function: %q", seqs2))
}

func c11r2(c *Ctx, id string) {
	w := c.W
	sf := streamLifecycle(c, id)
	fn := sf.rebalance
	c.see(fn)
	all := func(in ssa.Instruction) (string, *ssa.Function) {
		cc := callOf(in)
		if cc == nil {
			return "", nil
		}
		n := calleeName(cc)
		if strings.Contains(n, "logger.Logger") || w.pureAccessor(cc.StaticCallee()) != nil {
			return "", nil // logging, or a read-only accessor of a field: no effect
		}
		return strings.ReplaceAll(n, " ", "_"), nil
	}
	seqs, complete := pathEvents(fn, all, 0)
	okArm := complete
	nDeb := 0
	for _, s := range seqs {
		if strings.Contains(s, "Mutex).Lock") {
			continue
		}
		nDeb++
		for _, ev := range strings.Fields(s) {
			if !(strings.HasPrefix(ev, "(*time.Timer).") || ev == "time.AfterFunc") {
				okArm = false
			}
		}
	}
	c.Check(okArm && nDeb >= 2, id, "debounce-arm@"+fname(fn), fn.Pos(), fmt.Sprintf("paths that do not take the lock only operate on the timer (%d paths)", nDeb), fmt.Sprintf("a path of Rebalance that skips the lock has other effects: %q", seqs))
	// Reset only after Stop()=true on the same timer
	n := 0
	allInstrs(fn, func(in ssa.Instruction) {
		cc := callOf(in)
		if cc == nil || !isStaticCall(cc, "time", "Timer", "Reset") {
			return
		}
		n++
		t := w.Origin(cc.Args[0])
		ok := guardedBy(in.Block(), true, func(v ssa.Value) bool {
			call, isCall := v.(*ssa.Call)
			return isCall && isStaticCall(call.Common(), "time", "Timer", "Stop") && w.Origin(call.Common().Args[0]) == t
		})
		c.Check(ok, id, "reset-after-stop@"+fname(fn), in.Pos(), "Reset("+t+") only when Stop() prevented the run", "the timer is Reset without Stop()=true: if it already fired, the reopen function runs a second time (second Open on an open stream, second Unlock)")
	})
	// the non-stopped case re-enters Rebalance (not the reopen function) — the reopen in progress must finish first
	allInstrs(fn, func(in ssa.Instruction) {
		cc := callOf(in)
		if cc == nil || !isStaticCall(cc, "time", "", "AfterFunc") {
			return
		}
		held := false
		allInstrs(fn, func(x ssa.Instruction) {
			if c2 := callOf(x); c2 != nil && isStaticCall(c2, "sync", "Mutex", "Lock") && dominatesInstr(x, in) {
				held = true
			}
		})
		if held {
			return
		}
		n++
		m := w.boundMethodOf(cc.Args[1])
		okStop := guardedBy(in.Block(), false, func(v ssa.Value) bool {
			call, isCall := v.(*ssa.Call)
			return isCall && isStaticCall(call.Common(), "time", "Timer", "Stop")
		})
		c.Check(m == fn && okStop, id, "rearm@"+fname(fn), in.Pos(), "when the timer already fired, a new timer re-enters Rebalance after the delay", "debounce re-arms "+fname(m)+" (expected Rebalance itself, under Stop()=false)")
	})
	if n < 2 {
		c.Undecided(id, "debounce-shape", fn.Pos(), "expected a Reset and a re-arming AfterFunc in the debounce arm")
	}
}

func c11r3(c *Ctx, id string) {
	w := c.W
	sf := streamLifecycle(c, id)
	bal := w.Field("stream", "stream", "balancing")
	c.need(bal != nil, id, "stream.balancing")
	// balancing ← true dominates Close(false)
	for _, ci := range callsIn(sf.rebalance, sf.close) {
		ok := false
		allInstrs(sf.rebalance, func(in ssa.Instruction) {
			if fl, _, val := flagWrite(in); fl != nil && fl == bal && w.Origin(val) == "const(true)" && dominatesInstr(in, ci) {
				ok = true
			}
		})
		arg := w.Origin(ci.Common().Args[1])
		c.Check(ok && arg == "const(false)", id, "flag-before-close@"+fname(sf.rebalance), ci.Pos(), "balancing←true dominates Close(false)", "Close("+arg+") in Rebalance is not preceded by balancing←true: the wait goroutine would stop the client")
	}
	// wait: close(stopCh) guarded by ¬balancing
	c.see(sf.wait)
	n := 0
	allInstrs(sf.wait, func(in ssa.Instruction) {
		call, ok := in.(*ssa.Call)
		if !ok {
			return
		}
		b, isB := call.Common().Value.(*ssa.Builtin)
		if !isB || b.Name() != "close" {
			return
		}
		n++
		ok = guardedBy(in.Block(), false, func(v ssa.Value) bool { return loadedField(v) == bal })
		c.Check(ok, id, "stop-suppressed@"+fname(sf.wait), in.Pos(), "close(stopCh) only when ¬balancing", "the stop channel is closed without testing ¬balancing: a rebalance terminates the client")
	})
	if n == 0 {
		c.Undecided(id, "stop-suppressed", sf.wait.Pos(), "no close(...) in the wait goroutine")
	}
	// timer function: Open precedes balancing←false
	var open ssa.CallInstruction
	for _, ci := range callsIn(sf.timerFn, sf.open) {
		open = ci
	}
	nb := 0
	allInstrs(sf.timerFn, func(in ssa.Instruction) {
		if fl, _, val := flagWrite(in); fl != nil && fl == bal && w.Origin(val) == "const(false)" {
			nb++
			c.Check(open != nil && dominatesInstr(open, in), id, "flag-after-open@"+fname(sf.timerFn), in.Pos(), "balancing←false only after Open returned", "balancing is lowered before the stream has been reopened")
		}
	})
	if nb == 0 {
		c.Fail(id, "flag-after-open@"+fname(sf.timerFn), sf.timerFn.Pos(), "the reopen function never lowers balancing")
	}
	// only these two functions write the flag
	for _, fs := range w.fieldStores(bal) {
		c.Check(fs.Fn == sf.rebalance || fs.Fn == sf.timerFn, id, "flag-writer@"+fname(fs.Fn), fs.Store.Pos(), "written by Rebalance / the reopen function", "balancing written in "+fname(fs.Fn))
	}
}

func c11r4(c *Ctx, id string) {
	w := c.W
	sf := streamLifecycle(c, id)
	ev := func(in ssa.Instruction) (string, *ssa.Function) {
		cc := callOf(in)
		if cc == nil {
			return "", nil
		}
		switch {
		case isStaticCall(cc, "sync", "Mutex", "Lock"):
			return "Lock", nil
		case isStaticCall(cc, "sync", "Mutex", "Unlock"):
			return "Unlock", nil
		case isStaticCall(cc, "time", "", "AfterFunc"):
			if m := w.boundMethodOf(cc.Args[1]); m != nil {
				return "AfterFunc:" + m.Name(), nil
			}
			return "AfterFunc:?", nil
		}
		return "", nil
	}
	seqs, complete := pathEvents(sf.rebalance, ev, 0)
	ok := complete
	nLock := 0
	for _, s := range seqs {
		if !strings.Contains(s, "Lock") {
			continue
		}
		nLock++
		if strings.TrimSuffix(s, " !panic") != "Lock AfterFunc:"+sf.timerFn.Name() {
			ok = false
		}
	}
	c.Check(ok && nLock > 0, id, "handoff@"+fname(sf.rebalance), sf.rebalance.Pos(), fmt.Sprintf("every locking path arms exactly one AfterFunc(%s): %q", sf.timerFn.Name(), seqs), fmt.Sprintf("lock hand-off broken on some path: %q", seqs))
	// reopen function: defer Unlock before any other call
	var first ssa.Instruction
	for _, in := range sf.timerFn.Blocks[0].Instrs {
		if cc := callOf(in); cc != nil && !strings.Contains(calleeName(cc), "logger.Logger") {
			first = in
			break
		}
	}
	d, isDefer := first.(*ssa.Defer)
	okU := isDefer && isStaticCall(d.Common(), "sync", "Mutex", "Unlock") && strings.HasSuffix(w.Origin(d.Common().Args[0]), ".rebalanceLock")
	c.Check(okU, id, "release@"+fname(sf.timerFn), sf.timerFn.Pos(), "the reopen function defers rebalanceLock.Unlock before anything else", "the reopen function does not start by deferring the Unlock of the rebalance lock")
}

func c11r5(c *Ctx, id string) {
	w := c.W
	sf := streamLifecycle(c, id)
	c.see(sf.open)
	// the discovery recomputes the range from the membership in effect on every call (no cache): same rules as C09.R2, C09.R3
	c09r2(c, id)
	c09r3(c, id)
	for _, m := range []struct{ iface, method string }{{"VBucketDiscovery", "Get"}, {"Checkpoint", "Load"}} {
		var call ssa.Instruction
		allInstrs(sf.open, func(in ssa.Instruction) {
			if cc := callOf(in); cc != nil && isInvokeOf(cc, m.iface, m.method) {
				call = in
			}
		})
		ok := call != nil
		if ok {
			// on every path to the stream-opening step
			var opener ssa.Instruction
			allInstrs(sf.open, func(in ssa.Instruction) {
				if cc := callOf(in); cc != nil && cc.StaticCallee() != nil && strings.HasSuffix(cc.StaticCallee().Name(), "openAllStreams") {
					opener = in
				}
			})
			ok = opener != nil && dominatesInstr(call, opener)
		}
		c.Check(ok, id, "fresh:"+m.iface+"."+m.method, sf.open.Pos(), "called on every path before the streams are opened", m.iface+"."+m.method+" is not called afresh on every (re)open")
	}
	// delay
	n := 0
	allInstrs(sf.rebalance, func(in ssa.Instruction) {
		cc := callOf(in)
		if cc == nil || !isStaticCall(cc, "time", "", "AfterFunc") || w.boundMethodOf(cc.Args[1]) != sf.timerFn {
			return
		}
		n++
		d := w.Origin(cc.Args[0])
		// under which membership type: `== "dynamic"` or `!= "dynamic"`, either branch
		dynKnown, dyn := false, false
		for _, g := range guardsOf(in.Block()) {
			v, pol := stripNot(g.Cond, g.Branch)
			o := w.Origin(v)
			switch {
			case strings.HasSuffix(o, ".Membership.Type == const(\"dynamic\"))"):
				dynKnown, dyn = true, pol
			case strings.HasSuffix(o, ".Membership.Type != const(\"dynamic\"))"):
				dynKnown, dyn = true, !pol
			}
		}
		isDyn := dynKnown && dyn
		if isDyn {
			c.Check(d == "const(0)", id, "delay:dynamic", in.Pos(), "dynamic membership reopens immediately", "dynamic membership reopens after "+d)
		} else {
			notDyn := dynKnown && !dyn
			c.Check(notDyn && strings.HasSuffix(d, ".Membership.RebalanceDelay"), id, "delay:configured", in.Pos(), "other memberships reopen after RebalanceDelay", "non-dynamic membership reopens after "+d)
		}
	})
	if n != 2 {
		c.Undecided(id, "delay", sf.rebalance.Pos(), "%d AfterFunc(reopen) sites (expected 2)", n)
	}
}

func c11r7(c *Ctx, id string) {
	w := c.W
	n := 0
	for _, fn := range w.ModFuncs {
		if fn.Pkg == nil || fn.Pkg.Pkg.Path() != modPath {
			continue
		}
		allInstrs(fn, func(in ssa.Instruction) {
			cc := callOf(in)
			if cc == nil || !cc.IsInvoke() || !strings.HasPrefix(cc.Method.Name(), "Subscribe") {
				return
			}
			m := w.boundMethodOf(unwrap(cc.Args[1]))
			if mi, ok := cc.Args[1].(*ssa.MakeInterface); ok && m == nil {
				m = w.boundMethodOf(mi.X)
			}
			if m == nil {
				c.Undecided(id, "listener@"+fname(fn), in.Pos(), "cannot resolve the subscribed listener")
				return
			}
			n++
			c.see(m)
			var rb ssa.Instruction
			allInstrs(m, func(x ssa.Instruction) {
				if c2 := callOf(x); c2 != nil && isInvokeOf(c2, "Stream", "Rebalance") {
					rb = x
				}
			})
			ok := rb != nil && len(guardsOf(rb.Block())) == 0
			if ok {
				if _, isCall := rb.(*ssa.Call); !isCall {
					ok = false
				}
			}
			c.Check(ok, id, "listener@"+fname(m), m.Pos(), "every notification reaches Stream.Rebalance", "the bus listener does not call Stream.Rebalance on every path: notifications arriving while the stream is closed/reopening are lost (stale range, early reopen)")
		})
	}
	if n == 0 {
		c.Undecided(id, "listener", 0, "no bus subscription in the root package")
	}
}

// c11r9: bus notifications of one burst are handled one after the other. Rebalance decides "already balancing → only
// touch the timer" from fields it reads before rebalanceLock.Lock; two handlers running concurrently both pass that
// test and the second performs a full second close/reopen. EventBus runs the handlers of SubscribeAsync concurrently
// unless the subscription is transactional.
func c11r9(c *Ctx, id string) {
	w := c.W
	rb := w.Method("stream", "stream", "Rebalance")
	c.need(rb != nil, id, "stream.stream.Rebalance")
	c.see(rb)
	bal := w.Field("stream", "stream", "balancing")
	c.need(bal != nil, id, "stream.stream.balancing")
	// is the debounce test under the lock?
	var lock ssa.Instruction
	allInstrs(rb, func(in ssa.Instruction) {
		if cc := callOf(in); cc != nil && strings.HasSuffix(calleeName(cc), "Mutex).Lock") && lock == nil {
			lock = in
		}
	})
	unlocked := 0
	allInstrs(rb, func(in ssa.Instruction) {
		if v, ok := in.(ssa.Value); ok {
			if f, _ := flagRead(v); f == bal {
				if lock == nil || !dominatesInstr(lock, in) {
					unlocked++
				}
			}
		}
	})
	if unlocked == 0 {
		c.OK(id, "serialised", rb.Pos(), "Rebalance reads the balancing state only under its lock: concurrent handlers are harmless")
		return
	}
	n := 0
	for _, fn := range w.ModFuncs {
		allInstrs(fn, func(in ssa.Instruction) {
			cc := callOf(in)
			if cc == nil || !cc.IsInvoke() || !strings.HasPrefix(cc.Method.Name(), "Subscribe") || !strings.HasSuffix(shortType(cc.Value.Type()), "EventBus.Bus") {
				return
			}
			m := w.boundMethodOf(unwrap(cc.Args[1]))
			if mi, ok := cc.Args[1].(*ssa.MakeInterface); ok && m == nil {
				m = w.boundMethodOf(mi.X)
			}
			if m == nil {
				return // C11.R7 reports unresolved listeners
			}
			reaches := false
			for f := range w.syncCallees(m, 2, false) {
				allInstrs(f, func(x ssa.Instruction) {
					if c2 := callOf(x); c2 != nil && (isInvokeOf(c2, "Stream", "Rebalance") || c2.StaticCallee() == rb) {
						reaches = true
					}
				})
			}
			if !reaches {
				return
			}
			n++
			ok := true
			how := cc.Method.Name()
			switch {
			case strings.Contains(cc.Method.Name(), "Async"):
				ok = len(cc.Args) == 3 && w.Origin(cc.Args[2]) == "const(true)"
				if len(cc.Args) == 3 {
					how += "(transactional=" + w.Origin(cc.Args[2]) + ")"
				}
			}
			c.Check(ok, id, "serialised@"+fname(fn), in.Pos(), how+": handlers of this listener run one at a time", how+": the listener that calls Stream.Rebalance may run concurrently with itself, while Rebalance reads the balancing state before its lock ("+fmt.Sprint(unlocked)+" unlocked reads): two notifications of one burst both close and reopen the stream")
		})
	}
	if n == 0 {
		c.Undecided(id, "serialised", rb.Pos(), "no bus subscription whose listener reaches Stream.Rebalance")
	}
}
