package main

// rules_deco.go — decorator transparency (P15): a type of this module that implements one of the module's interfaces
// AND holds a value of that interface is a layer put in front of another implementation (read-only metadata today; a
// cache, retry, dedup, batching or "resilience" layer tomorrow). Whatever the layer adds, the properties of the layer
// below survive only if each method hands the call on exactly: one inner call of the same method with the layer's own
// arguments, on every path, and the inner results returned untouched. Methods promoted through embedding are
// transparent by construction. The methods that are not transparent by design are a frozen table.

import (
	"fmt"
	"go/constant"
	"go/types"
	"sort"
	"strings"

	"golang.org/x/tools/go/ssa"
)

type decoMethod struct {
	Type, Iface, Method string
	Fn                  *ssa.Function
	Promoted            bool
	Why                 string // "" = transparent
	Pos                 ssa.Instruction
}

var opaqueByDesign = map[string]string{
	"metadata.readMetadata|Metadata.Save":  "read-only mode: nothing is ever written (C02.R16 decides that no write reaches the store)",
	"metadata.readMetadata|Metadata.Clear": "read-only mode: nothing is ever cleared",
}

func (w *World) moduleInterfaces() []*types.Named {
	var out []*types.Named
	for _, p := range w.Pkgs {
		sc := p.Types.Scope()
		for _, name := range sc.Names() {
			tn, ok := sc.Lookup(name).(*types.TypeName)
			if !ok {
				continue
			}
			n, ok := types.Unalias(tn.Type()).(*types.Named)
			if !ok || n.TypeParams().Len() > 0 {
				continue
			}
			if it, ok := n.Underlying().(*types.Interface); ok && it.NumMethods() > 0 {
				out = append(out, n)
			}
		}
	}
	sort.Slice(out, func(i, j int) bool { return out[i].String() < out[j].String() })
	return out
}

func shortNamed(n *types.Named) string {
	p := ""
	if n.Obj().Pkg() != nil {
		p = n.Obj().Pkg().Name() + "."
	}
	return p + n.Obj().Name()
}

// decorators lists, for every (struct type, interface) pair of the module where the struct implements the interface and
// has a field of exactly that interface type, the methods of the interface as the struct implements them.
func (w *World) decorators() []decoMethod {
	var out []decoMethod
	ifaces := w.moduleInterfaces()
	for _, p := range w.Pkgs {
		sc := p.Types.Scope()
		for _, name := range sc.Names() {
			tn, ok := sc.Lookup(name).(*types.TypeName)
			if !ok {
				continue
			}
			n, ok := types.Unalias(tn.Type()).(*types.Named)
			if !ok || n.TypeParams().Len() > 0 {
				continue
			}
			st, ok := n.Underlying().(*types.Struct)
			if !ok {
				continue
			}
			for _, in := range ifaces {
				it := in.Underlying().(*types.Interface)
				ptr := types.NewPointer(n)
				if !types.Implements(ptr, it) && !types.Implements(n, it) {
					continue
				}
				holds := false
				for i := 0; i < st.NumFields(); i++ {
					if types.Identical(st.Field(i).Type(), in) {
						holds = true
					}
				}
				if !holds {
					continue
				}
				for i := 0; i < it.NumMethods(); i++ {
					m := it.Method(i)
					sel := w.Prog.MethodSets.MethodSet(ptr).Lookup(m.Pkg(), m.Name())
					if sel == nil {
						continue
					}
					fn := w.Prog.MethodValue(sel)
					dm := decoMethod{Type: shortNamed(n), Iface: in.Obj().Name(), Method: m.Name(), Fn: fn}
					if fn == nil || fn.Synthetic != "" || len(sel.Index()) > 1 {
						dm.Promoted = true
					} else {
						dm.Why, dm.Pos = forwardsExactly(fn, in, m.Name())
					}
					out = append(out, dm)
				}
			}
		}
	}
	sort.Slice(out, func(i, j int) bool {
		if out[i].Type != out[j].Type {
			return out[i].Type < out[j].Type
		}
		return out[i].Method < out[j].Method
	})
	return out
}

// forwardsExactly: "" when fn is one inner call of method m on a value of interface type in, with fn's own parameters
// in order, executed on every path (it dominates every return, sits in no loop and in no nested function), and every
// return hands back exactly that call's results.
func forwardsExactly(fn *ssa.Function, in *types.Named, m string) (string, ssa.Instruction) {
	var inner []ssa.CallInstruction
	for _, f := range withAnon(fn) {
		allInstrs(f, func(x ssa.Instruction) {
			ci, ok := x.(ssa.CallInstruction)
			if !ok {
				return
			}
			cc := ci.Common()
			if cc.IsInvoke() && cc.Method.Name() == m && types.Identical(cc.Value.Type(), in) {
				inner = append(inner, ci)
			}
		})
	}
	if len(inner) == 0 {
		return "never calls the wrapped " + m, nil
	}
	if len(inner) > 1 {
		return fmt.Sprintf("calls the wrapped %s at %d places", m, len(inner)), inner[1]
	}
	ci := inner[0]
	call, isCall := ci.(*ssa.Call)
	if !isCall {
		return "the wrapped " + m + " is started with go/defer", ci
	}
	if ci.Parent() != fn {
		return "the wrapped " + m + " is called from a nested function (retry / deferred / asynchronous layer)", ci
	}
	if cycleBlocks(fn)[ci.Block()] {
		return "the wrapped " + m + " is called in a loop", ci
	}
	args := ci.Common().Args
	if len(args) != len(fn.Params)-1 {
		return "argument count differs", ci
	}
	for i, a := range args {
		if unwrap(a) != ssa.Value(fn.Params[i+1]) {
			return fmt.Sprintf("argument %d of the wrapped %s is not the layer's own parameter %s", i, m, fn.Params[i+1].Name()), ci
		}
	}
	nres := fn.Signature.Results().Len()
	why := ""
	var at ssa.Instruction
	allInstrs(fn, func(x ssa.Instruction) {
		r, ok := x.(*ssa.Return)
		if !ok || why != "" {
			return
		}
		if fn.Recover != nil && x.Block() == fn.Recover {
			return
		}
		if !dominatesInstr(ci, x) {
			why, at = "a path returns without calling the wrapped "+m, x
			return
		}
		for i := 0; i < nres; i++ {
			v := unwrap(r.Results[i])
			if nres == 1 {
				if v != ssa.Value(call) {
					why, at = "returns something else than the wrapped "+m+"'s result", x
				}
				continue
			}
			ex, isEx := v.(*ssa.Extract)
			if !isEx || ex.Tuple != ssa.Value(call) || ex.Index != i {
				why, at = fmt.Sprintf("result %d is not the wrapped %s's result %d", i, m, i), x
			}
		}
	})
	return why, at
}

// decoratorsTransparent: every layer over a module interface hands every call on untouched, except the frozen table.
func decoratorsTransparent(ifaces ...string) func(c *Ctx, id string) {
	return func(c *Ctx, id string) {
		w := c.W
		want := map[string]bool{}
		for _, i := range ifaces {
			want[i] = true
		}
		n := 0
		for _, dm := range w.decorators() {
			if len(want) > 0 && !want[dm.Iface] {
				continue
			}
			n++
			if dm.Fn != nil && !dm.Promoted {
				c.see(dm.Fn)
			}
			construct := "layer:" + dm.Type + "|" + dm.Iface + "." + dm.Method
			pos := dm.Fn.Pos()
			if dm.Pos != nil {
				pos = dm.Pos.Pos()
			}
			switch {
			case dm.Promoted:
				c.OKTrivial(id, construct, pos, "promoted from the embedded %s: the wrapped implementation itself", dm.Iface)
			case dm.Why == "":
				c.OK(id, construct, pos, "one call of the wrapped %s with the layer's own arguments on every path; its results returned untouched", dm.Method)
			default:
				if reason, ok := opaqueByDesign[dm.Type+"|"+dm.Iface+"."+dm.Method]; ok {
					c.OK(id, construct, pos, "not a pass-through by design (%s): %s", dm.Why, reason)
				} else {
					c.Fail(id, construct, pos, "%s puts a layer in front of %s whose %s is not a pass-through: %s — whatever the layer below guarantees (exact outcome, deadline, what was stored) is no longer what the caller gets", dm.Type, dm.Iface, dm.Method, dm.Why)
				}
			}
		}
		// the wrapped implementation is reached through the pass-through methods only: no other function of the layer
		// type (a background retry, a flusher, a warm-up) calls it
		seenT := map[string]bool{}
		for _, dm := range w.decorators() {
			if (len(want) > 0 && !want[dm.Iface]) || seenT[dm.Type+"|"+dm.Iface] {
				continue
			}
			seenT[dm.Type+"|"+dm.Iface] = true
			in := w.namedByShort(dm.Iface)
			var extra []string
			var at ssa.Instruction
			for _, fn := range w.ModFuncs {
				r := rootFn(fn)
				if r.Signature.Recv() == nil || shortRecv(r) != dm.Type || in == nil {
					continue
				}
				allInstrs(fn, func(x ssa.Instruction) {
					ci, ok := x.(ssa.CallInstruction)
					if !ok {
						return
					}
					cc := ci.Common()
					if !cc.IsInvoke() || !types.Identical(cc.Value.Type(), in) {
						return
					}
					if fn == r && r.Name() == cc.Method.Name() {
						return // the pass-through itself (judged above)
					}
					if fn != r && r.Name() == cc.Method.Name() {
						return // nested function of the pass-through: already reported above as not exact
					}
					extra = append(extra, fmt.Sprintf("%s calls the wrapped %s @%s", fname(fn), cc.Method.Name(), w.pos(x.Pos())))
					at = x
				})
			}
			construct := "layer-extra:" + dm.Type + "|" + dm.Iface
			if len(extra) == 0 {
				c.OK(id, construct, dm.Fn.Pos(), "the wrapped %s is called by the pass-through methods only", dm.Iface)
			} else {
				c.Fail(id, construct, at.Pos(), "the layer %s calls the wrapped %s outside the pass-through of the same method (a second, delayed or repeated call the caller never asked for): %s", dm.Type, dm.Iface, strings.Join(extra, "; "))
			}
		}
		if n == 0 {
			c.OKTrivial(id, "layer:none", 0, "no type of the module is a layer over %s", strings.Join(ifaces, "/"))
		}
	}
}

func shortRecv(fn *ssa.Function) string {
	t := fn.Signature.Recv().Type()
	if p, ok := t.(*types.Pointer); ok {
		t = p.Elem()
	}
	if n, ok := t.(*types.Named); ok {
		return shortNamed(n)
	}
	return ""
}

func (w *World) namedByShort(iface string) *types.Named {
	for _, in := range w.moduleInterfaces() {
		if in.Obj().Name() == iface {
			return in
		}
	}
	return nil
}

// ---------------------------------------------------------------------------------------------
// layer applications: where a wrapper is put around a collaborator

type layerApp struct {
	Fn     *ssa.Function
	At     ssa.Instruction
	Callee string
	Form   string
}

func ifaceOrFunc(t types.Type) bool {
	switch t.Underlying().(type) {
	case *types.Interface:
		// collaborators are the interfaces of this module and of the libraries it plugs into (Client, Metadata, Consumer,
		// prometheus.Collector, …); context.Context, io.Reader and the like are values, not collaborators
		n, isNamed := types.Unalias(t).(*types.Named)
		if !isNamed || n.Obj().Pkg() == nil {
			return false
		}
		if first := strings.SplitN(n.Obj().Pkg().Path(), "/", 2)[0]; !strings.Contains(first, ".") {
			return false // standard library
		}
		return t.Underlying().(*types.Interface).NumMethods() > 0
	case *types.Signature:
		return true
	}
	return false
}

func sameRole(a, b types.Type) bool {
	if types.Identical(a, b) {
		return true
	}
	_, af := a.Underlying().(*types.Signature)
	_, bf := b.Underlying().(*types.Signature)
	return af && bf && types.Identical(a.Underlying(), b.Underlying())
}

// layerApps finds every place where a function of this module is handed a collaborator (a value of interface or
// function type) and gives back a value of the same type — a wrapper around it — in either form: T→T function, or a
// method value of an object that was built from the collaborator.
func (w *World) layerApps() []layerApp {
	var out []layerApp
	for _, fn := range w.ModFuncs {
		if fn.Synthetic != "" {
			continue
		}
		allInstrs(fn, func(in ssa.Instruction) {
			switch x := in.(type) {
			case *ssa.Call:
				g := x.Common().StaticCallee()
				if g == nil || g.Blocks == nil || !w.inModule(g) || x.Common().IsInvoke() {
					return
				}
				res := g.Signature.Results()
				if res.Len() != 1 || !ifaceOrFunc(res.At(0).Type()) {
					return
				}
				args := x.Common().Args
				for i, a := range args {
					if g.Signature.Recv() != nil && i == 0 {
						continue
					}
					if ifaceOrFunc(a.Type()) && sameRole(a.Type(), res.At(0).Type()) {
						out = append(out, layerApp{fn, in, fname(g), "a function from " + shortType(res.At(0).Type()) + " to " + shortType(res.At(0).Type())})
						return
					}
				}
			case *ssa.MakeClosure:
				bf, ok := x.Fn.(*ssa.Function)
				if !ok || !strings.HasSuffix(bf.Name(), "$bound") || len(x.Bindings) != 1 {
					return
				}
				recv := unwrap(x.Bindings[0])
				call, ok := recv.(*ssa.Call)
				if !ok {
					return
				}
				g := call.Common().StaticCallee()
				if g == nil || g.Blocks == nil || !w.inModule(g) {
					return
				}
				for _, a := range call.Common().Args {
					if ifaceOrFunc(a.Type()) && sameRole(a.Type(), x.Type()) {
						out = append(out, layerApp{fn, in, fname(g), "a method value of an object built from a " + shortType(a.Type())})
						return
					}
				}
			}
		})
	}
	sort.Slice(out, func(i, j int) bool { return out[i].At.Pos() < out[j].At.Pos() })
	return out
}

// layersKnown: allowed wrapper applications (callee → reason).
var layersKnown = map[string]string{
	"metadata.NewReadMetadata": "read-only metadata mode (its methods are judged by the transparency rule)",
}

// noNewLayers: the only wrappers put around a collaborator are the known ones.
func noNewLayers(c *Ctx, id string) {
	w := c.W
	n := 0
	for _, la := range w.layerApps() {
		n++
		c.CallSites++
		c.see(la.Fn)
		construct := "wrap:" + la.Callee + "@" + fname(rootFn(la.Fn))
		if why, ok := layersKnown[la.Callee]; ok {
			c.OK(id, construct, la.At.Pos(), "%s: %s", la.Form, why)
		} else if how := w.provenPassThrough(la); how != "" {
			c.OK(id, construct, la.At.Pos(), "%s, a proven pass-through: %s", la.Form, how)
		} else {
			c.Fail(id, construct, la.At.Pos(), "%s wraps a collaborator (%s): what is installed is no longer the implementation that was handed in, and nothing decided about that implementation (exact outcome, ordering, what is stored) is known to hold for the layer", la.Callee, la.Form)
		}
	}
	if n == 0 {
		c.Undecided(id, "wrap", 0, "no wrapper application found (the read-only metadata wrapper was one when this rule was written)")
	}
}

// provenPassThrough: the wrapper this application installs hands every call on untouched — for an interface, the
// concrete type the wrapper function returns is a layer whose every method is promoted or an exact pass-through and
// which calls the wrapped value nowhere else; for a function, the returned closure calls the captured function exactly
// once with its own arguments on every path and returns its results. "" when that cannot be shown.
func (w *World) provenPassThrough(la layerApp) string {
	call, ok := la.At.(*ssa.Call)
	if !ok {
		return ""
	}
	g := call.Common().StaticCallee()
	if g == nil {
		return ""
	}
	var rets []ssa.Value
	allInstrs(g, func(in ssa.Instruction) {
		if r, isR := in.(*ssa.Return); isR && len(r.Results) == 1 {
			rets = append(rets, unwrap(r.Results[0]))
		}
	})
	if len(rets) == 0 {
		return ""
	}
	// a selector (returns its argument, or a known / proven wrapper around it, depending on a condition) is judged
	// return by return
	var hows []string
	for _, rv := range rets {
		how := w.passThroughValue(g, rv)
		if how == "" {
			return ""
		}
		hows = append(hows, how)
	}
	return strings.Join(dedupStr(hows), "; ")
}

// passThroughValue: what a wrapper function returns on one of its paths is the collaborator itself, a known wrapper
// around it, or a construction proven to hand every call on untouched.
func (w *World) passThroughValue(g *ssa.Function, rv ssa.Value) string {
	rets := []ssa.Value{rv}
	if p, isP := rv.(*ssa.Parameter); isP && ifaceOrFunc(p.Type()) {
		return "returns the collaborator itself"
	}
	if c2, isC := rv.(*ssa.Call); isC {
		if g2 := c2.Common().StaticCallee(); g2 != nil {
			if _, ok := layersKnown[fname(g2)]; ok {
				return "returns the known wrapper " + fname(g2)
			}
			if w.inModule(g2) && g2.Blocks != nil && g2 != g {
				return w.provenPassThrough(layerApp{Fn: g, At: c2})
			}
		}
		return ""
	}
	if v, isCl := rets[0].(*ssa.MakeClosure); isCl {
		return closurePassThrough(v)
	}
	{
		t := rets[0].Type()
		if p, isP := t.(*types.Pointer); isP {
			t = p.Elem()
		}
		n, isN := t.(*types.Named)
		if !isN {
			return ""
		}
		total := 0
		for _, dm := range w.decorators() {
			if dm.Type != shortNamed(n) {
				continue
			}
			total++
			if !dm.Promoted && dm.Why != "" {
				return ""
			}
		}
		if total == 0 {
			return ""
		}
		// no other function of the type touches the wrapped value
		for _, fn := range w.ModFuncs {
			r := rootFn(fn)
			if r.Signature.Recv() == nil || shortRecv(r) != shortNamed(n) {
				continue
			}
			extra := false
			allInstrs(fn, func(x ssa.Instruction) {
				if ci, isC := x.(ssa.CallInstruction); isC && ci.Common().IsInvoke() && ifaceOrFunc(ci.Common().Value.Type()) && sameRole(ci.Common().Value.Type(), g.Signature.Results().At(0).Type()) {
					if !(fn == r && r.Name() == ci.Common().Method.Name()) {
						extra = true
					}
				}
			})
			if extra {
				return ""
			}
		}
		return fmt.Sprintf("every one of the %d methods of %s is promoted or one untouched inner call", total, shortNamed(n))
	}
	return ""
}

// isExactPassThrough: fn is the method of a layer type over the named module interface and hands the call on untouched.
func (w *World) isExactPassThrough(fn *ssa.Function, iface string) bool {
	if fn == nil || fn.Signature.Recv() == nil {
		return false
	}
	for _, dm := range w.decoratorsCached() {
		if dm.Fn == fn && dm.Iface == iface && !dm.Promoted && dm.Why == "" {
			return true
		}
	}
	return false
}

func closurePassThrough(v *ssa.MakeClosure) string {
	cl, isF := v.Fn.(*ssa.Function)
	if !isF {
		return ""
	}
	var inner []*ssa.Call
	bad := false
	for _, f := range withAnon(cl) {
		allInstrs(f, func(x ssa.Instruction) {
			ci, isC := x.(ssa.CallInstruction)
			if !isC {
				return
			}
			cc := ci.Common()
			if cc.IsInvoke() || cc.StaticCallee() != nil {
				return
			}
			if _, isB := cc.Value.(*ssa.Builtin); isB {
				return
			}
			if sameRole(cc.Value.Type(), cl.Signature) {
				if c2, isCall := x.(*ssa.Call); isCall && f == cl {
					inner = append(inner, c2)
				} else {
					bad = true
				}
			}
		})
	}
	if bad || len(inner) != 1 || cycleBlocks(cl)[inner[0].Block()] || len(inner[0].Common().Args) != len(cl.Params) {
		return ""
	}
	for i, a := range inner[0].Common().Args {
		if unwrap(a) != ssa.Value(cl.Params[i]) {
			return ""
		}
	}
	okRet := true
	allInstrs(cl, func(x ssa.Instruction) {
		r, isR := x.(*ssa.Return)
		if !isR {
			return
		}
		if !dominatesInstr(inner[0], x) {
			okRet = false
		}
		for i, res := range r.Results {
			u := unwrap(res)
			if len(r.Results) == 1 {
				if u != ssa.Value(inner[0]) {
					okRet = false
				}
			} else if ex, isEx := u.(*ssa.Extract); !isEx || ex.Tuple != ssa.Value(inner[0]) || ex.Index != i {
				okRet = false
			}
		}
	})
	if !okRet {
		return ""
	}
	return "the returned closure calls the wrapped function once with its own arguments on every path and returns its results"
}

// ---------------------------------------------------------------------------------------------
// apiRoutesExact (C10, C16): a request to an endpoint of the HTTP API reaches its handler: every route is registered
// with exactly one handler (no per-route middleware that can answer instead of it), the handler is a method of the API
// object, and the application-wide middlewares are the known ones (metrics; pprof in debug mode).
func apiRoutesExact(c *Ctx, id string) {
	w := c.W
	n := 0
	for _, fn := range w.ModFuncs {
		if fn.Pkg == nil || !strings.HasSuffix(fn.Pkg.Pkg.Path(), "/api") {
			continue
		}
		allInstrs(fn, func(in ssa.Instruction) {
			call, ok := in.(*ssa.Call)
			if !ok {
				return
			}
			name := calleeName(call.Common())
			if !strings.Contains(name, "fiber/v2.App).") {
				return
			}
			verb := name[strings.LastIndex(name, ".")+1:]
			switch verb {
			case "Get", "Put", "Post", "Delete", "Patch", "Head", "Options", "All", "Add":
				n++
				c.CallSites++
				c.see(fn)
				args := call.Common().Args
				route := w.Origin(args[1])
				hs := sliceElems(args[len(args)-1])
				construct := "route:" + verb + " " + route
				switch {
				case hs == nil:
					c.Fail(id, construct, in.Pos(), "the handlers of the route are not a literal list")
				case len(hs) != 1:
					c.Fail(id, construct, in.Pos(), "the route is registered with %d handlers: a handler in front of the endpoint can answer instead of it, so a request (a membership notice, a rebalance trigger, a state query) may never reach the library", len(hs))
				default:
					h := closureOf(w.throughLayers(hs[0])) // a proven pass-through wrapper (logging) around the handler is the handler
					if h == nil || h.Signature.Recv() == nil && (h.Parent() == nil) && !strings.Contains(fname(h), "api") {
						c.Fail(id, construct, in.Pos(), "the handler is not a method of the API object: %s", w.Origin(hs[0]))
					} else {
						c.OK(id, construct, in.Pos(), "one handler: %s", fname(h))
					}
				}
			case "Use":
				n++
				c.CallSites++
				args := call.Common().Args
				hs := sliceElems(args[len(args)-1])
				o := ""
				if len(hs) == 1 {
					o = w.Origin(hs[0])
				}
				known := strings.Contains(o, "newMetricMiddleware") || strings.Contains(o, "pprof.New")
				construct := "middleware:other"
				if strings.Contains(o, "newMetricMiddleware") {
					construct = "middleware:metrics"
				} else if strings.Contains(o, "pprof.New") {
					construct = "middleware:pprof"
				}
				if known {
					c.OK(id, construct, in.Pos(), "application-wide middleware of a known kind (metrics / pprof)")
				} else {
					c.Fail(id, "middleware@"+fname(fn), in.Pos(), "an application-wide middleware other than the metrics and pprof ones is installed (%s): it runs in front of every endpoint and can answer instead of it", o)
				}
			}
		})
	}
	if n < 4 {
		c.Undecided(id, "routes", 0, "only %d route/middleware registrations found in package api (7 when this rule was written)", n)
	}
}

// sliceElems: the elements of a variadic slice built at the call site (new [n]T; stores; slice) — nil if not of that form.
func sliceElems(v ssa.Value) []ssa.Value {
	sl, ok := v.(*ssa.Slice)
	if !ok {
		if c, isC := v.(*ssa.Const); isC && c.Value == nil {
			return []ssa.Value{}
		}
		return nil
	}
	al, ok := sl.X.(*ssa.Alloc)
	if !ok {
		return nil
	}
	arr, ok := al.Type().(*types.Pointer).Elem().Underlying().(*types.Array)
	if !ok {
		return nil
	}
	out := make([]ssa.Value, arr.Len())
	for _, r := range *al.Referrers() {
		ia, ok := r.(*ssa.IndexAddr)
		if !ok {
			continue
		}
		idx, ok := ia.Index.(*ssa.Const)
		if !ok {
			return nil
		}
		for _, r2 := range *ia.Referrers() {
			if st, ok := r2.(*ssa.Store); ok && st.Addr == ia {
				out[int(idx.Int64())] = st.Val
			}
		}
	}
	for _, e := range out {
		if e == nil {
			return nil
		}
	}
	return out
}

// noSaveWhileClosed (C04, C11): while the stream is closed for a rebalance the position map is the empty one Close
// installed, so the regression guard of the position writer has nothing to compare with and the range in force is
// still the old one — a save in that window persists whatever is acknowledged meanwhile (positions below the stored
// checkpoint, vBuckets handed away). Nothing that the implementation of Stream.Rebalance or the re-open callback it
// arms runs synchronously may save.
func noSaveWhileClosed(c *Ctx, id string) {
	w := c.W
	impls := w.implsOf("stream", "Stream", "Rebalance")
	c.need(len(impls) > 0, id, "implementation of stream.Stream.Rebalance")
	for _, rb := range impls {
		roots := []*ssa.Function{rb}
		// the callbacks the rebalance arms (time.AfterFunc / timer functions) — method values or closures
		for _, f := range withAnon(rb) {
			allInstrs(f, func(in ssa.Instruction) {
				cc := callOf(in)
				if cc == nil || !strings.HasSuffix(calleeName(cc), "time.AfterFunc") {
					return
				}
				if cb := closureOf(cc.Args[len(cc.Args)-1]); cb != nil {
					roots = append(roots, cb)
				}
			})
		}
		var saves []string
		var at ssa.Instruction
		seen := map[*ssa.Function]bool{}
		for _, r := range roots {
			for f := range w.syncCallees(r, 4, true) {
				for _, g := range withAnon(f) {
					if seen[g] {
						continue
					}
					seen[g] = true
					isWorker := false
					if g != f {
						// a nested function started with go is not synchronous
						allInstrs(g.Parent(), func(x ssa.Instruction) {
							if gi, ok := x.(*ssa.Go); ok && closureOf(gi.Common().Value) == g {
								isWorker = true
							}
						})
					}
					if isWorker {
						continue
					}
					allInstrs(g, func(x ssa.Instruction) {
						cc := callOf(x)
						if cc == nil {
							return
						}
						if _, isGo := x.(*ssa.Go); isGo {
							return
						}
						if isInvokeOf(cc, "Checkpoint", "Save") || isInvokeOf(cc, "Metadata", "Save") || isInvokeOf(cc, "Stream", "Save") {
							saves = append(saves, fmt.Sprintf("%s @%s", fname(g), w.pos(x.Pos())))
							at = x
						}
					})
				}
			}
		}
		c.see(rb)
		construct := "closed-window@" + fname(rb)
		if len(roots) < 2 {
			c.Undecided(id, construct, rb.Pos(), "the re-open callback armed by the rebalance was not found (time.AfterFunc)")
			continue
		}
		if len(saves) == 0 {
			c.OK(id, construct, rb.Pos(), "nothing the rebalance or its re-open callback runs synchronously saves (%d functions inspected)", len(seen))
		} else {
			c.Fail(id, construct, at.Pos(), "a save runs while the stream is closed for the rebalance: %s", strings.Join(saves, "; "))
		}
	}
}

// ---------------------------------------------------------------------------------------------
// package-level state (P17)

type globalWrite struct {
	G    *ssa.Global
	Fn   *ssa.Function
	At   ssa.Instruction
	Kind string
}

// globalRoot: the package-level variable an address or value is rooted at (through field/index selections and loads of
// pointer-typed globals), nil if none.
func globalRoot(v ssa.Value, depth int) *ssa.Global {
	if depth == 0 {
		return nil
	}
	switch x := v.(type) {
	case *ssa.Global:
		return x
	case *ssa.FieldAddr:
		return globalRoot(x.X, depth-1)
	case *ssa.IndexAddr:
		return globalRoot(x.X, depth-1)
	case *ssa.UnOp:
		if x.Op.String() == "*" {
			return globalRoot(x.X, depth-1)
		}
	case *ssa.ChangeType:
		return globalRoot(x.X, depth-1)
	case *ssa.MakeInterface:
		return globalRoot(x.X, depth-1)
	case *ssa.Slice:
		return globalRoot(x.X, depth-1)
	}
	return nil
}

// globalWrites: every instruction outside the compiler-generated package initialiser that changes a package-level
// variable of the module or what it points to: a store to it or through it, an update or delete of a map held in it, a
// Store/Add/Swap/CompareAndSwap/Put/Delete/Range-less mutation method of a sync or sync/atomic value held in it.
func (w *World) globalWrites() []globalWrite {
	var out []globalWrite
	for _, fn := range w.ModFuncs {
		if fn.Synthetic != "" && fn.Name() == "init" {
			continue // package initialiser: the declared initial values
		}
		allInstrs(fn, func(in ssa.Instruction) {
			switch x := in.(type) {
			case *ssa.Store:
				if g := globalRoot(x.Addr, 6); g != nil && g.Pkg != nil && strings.HasPrefix(g.Pkg.Pkg.Path(), modPath) {
					out = append(out, globalWrite{g, fn, in, "store"})
				}
			case *ssa.MapUpdate:
				if g := globalRoot(x.Map, 6); g != nil && g.Pkg != nil && strings.HasPrefix(g.Pkg.Pkg.Path(), modPath) {
					out = append(out, globalWrite{g, fn, in, "map update"})
				}
			case ssa.CallInstruction:
				cc := x.Common()
				if b, ok := cc.Value.(*ssa.Builtin); ok && b.Name() == "delete" && len(cc.Args) > 0 {
					if g := globalRoot(cc.Args[0], 6); g != nil && g.Pkg != nil && strings.HasPrefix(g.Pkg.Pkg.Path(), modPath) {
						out = append(out, globalWrite{g, fn, in, "map delete"})
					}
					return
				}
				name := calleeName(cc)
				if !(strings.Contains(name, "sync/atomic.") || strings.Contains(name, "(*sync.Map)") || strings.Contains(name, "(*sync.Pool)")) || len(cc.Args) == 0 {
					return
				}
				m := name[strings.LastIndex(name, ".")+1:]
				switch m {
				case "Store", "Add", "Swap", "CompareAndSwap", "Put", "Delete", "LoadOrStore", "LoadAndDelete", "Get", "And", "Or":
					if g := globalRoot(cc.Args[0], 6); g != nil && g.Pkg != nil && strings.HasPrefix(g.Pkg.Pkg.Path(), modPath) {
						out = append(out, globalWrite{g, fn, in, m})
					}
				}
			}
		})
	}
	sort.Slice(out, func(i, j int) bool { return out[i].At.Pos() < out[j].At.Pos() })
	return out
}

func globalSurvey(w *World) {
	for _, gw := range w.globalWrites() {
		fmt.Printf("GLOBALWRITE %s.%s  %s in %s @%s\n", gw.G.Pkg.Pkg.Name(), gw.G.Name(), gw.Kind, fname(gw.Fn), w.pos(gw.At.Pos()))
	}
}

var globalsWritable = map[string]string{
	"logger.Log":        "the process-wide logger, installed by InitDefaultLogger / NewDcpWithLogger before anything runs",
	"tracing.tracerCtx": "the process-wide request tracer, installed by RegisterRequestTracer",
}

// globalsFrozen: apart from the logger and the tracer, no package-level variable of the module is written after the
// package initialiser — not in a user-written init(), not at run time, neither the variable itself nor what it holds
// (map entries, fields behind a pointer, sync/atomic cells). The version gates, the log-level tables and the default
// event handler are what their declarations say for the whole run; and there is no process-wide cache, pool or memo
// through which two instances, two sessions or two calls could see each other's data.
func globalsFrozen(c *Ctx, id string) {
	w := c.W
	ws := w.globalWrites()
	per := map[string][]globalWrite{}
	var names []string
	for _, gw := range ws {
		k := gw.G.Pkg.Pkg.Name() + "." + gw.G.Name()
		if _, ok := per[k]; !ok {
			names = append(names, k)
		}
		per[k] = append(per[k], gw)
	}
	sort.Strings(names)
	for _, k := range names {
		var where []string
		for _, gw := range per[k] {
			where = append(where, fmt.Sprintf("%s in %s @%s", gw.Kind, fname(gw.Fn), w.pos(gw.At.Pos())))
		}
		if why, ok := globalsWritable[k]; ok {
			c.OK(id, "global:"+k, per[k][0].At.Pos(), "%d write(s): %s", len(per[k]), why)
		} else {
			c.Fail(id, "global:"+k, per[k][0].At.Pos(), "the package-level variable %s is changed after the package initialiser (%s): its declared value no longer holds for the whole run, and whatever is kept in it is shared by every instance, session and call in the process", k, strings.Join(where, "; "))
		}
	}
	// the inventory sees the module: the known writable ones are found
	if len(per["logger.Log"]) == 0 {
		c.Undecided(id, "global:inventory", 0, "the installation of the process-wide logger was not found: the inventory of package-level writes is not seeing the module")
	}
	nGlobals := 0
	for _, p := range w.Prog.AllPackages() {
		if !strings.HasPrefix(p.Pkg.Path(), modPath) {
			continue
		}
		for _, m := range p.Members {
			if _, ok := m.(*ssa.Global); ok {
				nGlobals++
			}
		}
	}
	c.OK(id, "global:frozen", 0, "%d package-level variables in the module, %d written after initialisation (all known)", nGlobals, len(names))
}

// ---------------------------------------------------------------------------------------------
// configHandedOn (C17): defaulting sees the configuration the application wrote — the value handed to the public
// constructors (pointer, struct value or file path) reaches the function that applies the defaults as it is: the
// asserted pointer itself, the address of the asserted struct value, or the address of what the file loader returned.
// A copy, clone or normalisation step in between can turn "unset" into "set" (nil slice → empty slice, zero → filled).
func configHandedOn(c *Ctx, id string) {
	w := c.W
	var apply []*ssa.Function // functions that call (*config.Dcp).ApplyDefaults on a parameter
	for _, fn := range w.ModFuncs {
		if fn.Parent() != nil || fn.Pkg == nil || strings.HasSuffix(fn.Pkg.Pkg.Path(), "/config") {
			continue
		}
		allInstrs(fn, func(in ssa.Instruction) {
			if cc := callOf(in); cc != nil && isStaticCall(cc, "/config", "Dcp", "ApplyDefaults") {
				if _, isP := unwrap(cc.Args[0]).(*ssa.Parameter); isP {
					apply = append(apply, fn)
				}
			}
		})
	}
	if len(apply) == 0 {
		c.Undecided(id, "config-handover", 0, "no function applies the defaults to a configuration it is handed")
		return
	}
	n := 0
	for _, d := range apply {
		c.see(d)
		pi := -1
		for i, p := range d.Params {
			if strings.HasSuffix(p.Type().String(), "config.Dcp") {
				pi = i
			}
		}
		if pi < 0 {
			continue
		}
		for _, fn := range w.ModFuncs {
			allInstrs(fn, func(in ssa.Instruction) {
				cc := callOf(in)
				if cc == nil || cc.StaticCallee() != d || pi >= len(cc.Args) {
					return
				}
				n++
				c.CallSites++
				c.see(fn)
				construct := fmt.Sprintf("config-handover@%s#%d", fname(fn), n)
				arg := unwrap(cc.Args[pi])
				why := ""
				fromCaller := func(v ssa.Value) string {
					ex, ok := unwrap(v).(*ssa.Extract)
					if !ok {
						return "is " + w.Origin(v)
					}
					switch t := ex.Tuple.(type) {
					case *ssa.TypeAssert:
						if _, isP := unwrap(t.X).(*ssa.Parameter); isP && ex.Index == 0 {
							return ""
						}
					case *ssa.Call:
						if g := t.Common().StaticCallee(); g != nil && w.inModule(g) && ex.Index == 0 {
							// the file loader: reads, substitutes, decodes (judged by C17.R4/R9)
							reads := false
							for f := range w.syncCallees(g, 2, false) {
								allInstrs(f, func(x ssa.Instruction) {
									if c2 := callOf(x); c2 != nil && strings.HasSuffix(calleeName(c2), "os.ReadFile") {
										reads = true
									}
								})
							}
							if reads {
								return ""
							}
						}
					}
					return "is " + w.Origin(v)
				}
				switch a := arg.(type) {
				case *ssa.Alloc:
					var stores []*ssa.Store
					other := 0
					for _, r := range *a.Referrers() {
						switch x := r.(type) {
						case *ssa.Store:
							if x.Addr == ssa.Value(a) {
								stores = append(stores, x)
							} else {
								other++
							}
						case ssa.CallInstruction:
							if x != in.(ssa.CallInstruction) {
								other++
							}
						case *ssa.DebugRef:
						default:
							other++
						}
					}
					switch {
					case len(stores) != 1:
						why = fmt.Sprintf("the configuration handed on is a local written at %d places", len(stores))
					case other > 0:
						why = "the local configuration is touched between the caller's value and the defaulting"
					default:
						why = fromCaller(stores[0].Val)
						if why != "" {
							why = "the local configuration " + why + " (expected the caller's struct value or the file loader's result)"
						}
					}
				default:
					why = fromCaller(arg)
					if why != "" {
						why = "the configuration handed on " + why + " (expected the caller's own pointer)"
					}
				}
				c.Check(why == "", id, construct, in.Pos(), "the defaulting function is handed the caller's own configuration", why+": defaulting no longer sees what the application wrote")
			})
		}
	}
	if n < 4 {
		c.Undecided(id, "config-handover", 0, "only %d calls of the defaulting constructor found (5 when this rule was written)", n)
	}
}

// envReadOnly (C17): the environment the placeholders and overrides are resolved against is the real one: the module
// reads it (LookupEnv/Getenv) and never writes it.
func envReadOnly(c *Ctx, id string) {
	w := c.W
	reads := 0
	var writes []string
	var at ssa.Instruction
	for _, fn := range w.ModFuncs {
		allInstrs(fn, func(in ssa.Instruction) {
			cc := callOf(in)
			if cc == nil {
				return
			}
			switch calleeName(cc) {
			case "os.LookupEnv", "os.Getenv", "os.Environ", "os.ExpandEnv":
				reads++
				c.CallSites++
			case "os.Setenv", "os.Unsetenv", "os.Clearenv", "syscall.Setenv", "syscall.Unsetenv", "syscall.Clearenv":
				writes = append(writes, fmt.Sprintf("%s in %s @%s", calleeName(cc), fname(fn), w.pos(in.Pos())))
				at = in
			}
		})
	}
	if reads < 3 {
		c.Undecided(id, "env", 0, "only %d reads of the process environment found (5 when this rule was written): os.* calls are not being resolved", reads)
		return
	}
	if len(writes) == 0 {
		c.OK(id, "env:read-only", 0, "%d reads of the process environment, no write", reads)
	} else {
		c.Fail(id, "env:read-only", at.Pos(), "the module writes the process environment (%s): placeholders and overrides are then resolved against values the environment never had", strings.Join(writes, "; "))
	}
}

// ---------------------------------------------------------------------------------------------
// closeIsEntryPointOnly (C11, C13): the client is shut down by the application (Close), by a signal, by its streams
// having ended, or by a fatal error — never by one of its own components deciding to. The public Close is used by
// nobody inside the module: no call, no method value handed to a component (a watchdog, a health check, a callback).
func closeIsEntryPointOnly(c *Ctx, id string) {
	w := c.W
	var closes []*ssa.Function
	for _, fn := range w.ModFuncs {
		if fn.Parent() == nil && fn.Signature.Recv() != nil && fn.Name() == "Close" && recvTypeName(fn.Signature.Recv().Type()) == "dcp" && fn.Signature.Params().Len() == 0 {
			closes = append(closes, fn)
		}
	}
	c.need(len(closes) == 1, id, "the client's public Close()")
	cl := closes[0]
	c.see(cl)
	var uses []string
	var at ssa.Instruction
	for _, fn := range w.ModFuncs {
		allInstrs(fn, func(in ssa.Instruction) {
			switch x := in.(type) {
			case ssa.CallInstruction:
				cc := x.Common()
				if cc.StaticCallee() == cl {
					uses = append(uses, fmt.Sprintf("called in %s @%s", fname(fn), w.pos(in.Pos())))
					at = in
				}
				if cc.IsInvoke() && cc.Method.Name() == "Close" && strings.HasSuffix(shortType(cc.Value.Type()), "dcp.Dcp") {
					uses = append(uses, fmt.Sprintf("called through the Dcp interface in %s @%s", fname(fn), w.pos(in.Pos())))
					at = in
				}
			case *ssa.MakeClosure:
				if closureOf(x) == cl {
					uses = append(uses, fmt.Sprintf("handed out as a function value in %s @%s", fname(fn), w.pos(in.Pos())))
					at = in
				}
			}
		})
	}
	if len(uses) == 0 {
		c.OK(id, "close-entry@"+fname(cl), cl.Pos(), "the public Close is used nowhere inside the module: only the application can ask for the shutdown")
	} else {
		c.Fail(id, "close-entry@"+fname(cl), at.Pos(), "a component of the library can shut the client down on its own: the public Close is %s — a condition that is normal during a rebalance (stream closed, no events, no pings) can then terminate the client", strings.Join(uses, "; "))
	}
}

// ---------------------------------------------------------------------------------------------
// integer divisions (P18)

type intDiv struct {
	Fn      *ssa.Function
	At      *ssa.BinOp
	Guarded bool
	How     string
}

// intDivisions: every integer / or % of the module whose divisor is not a non-zero constant, with whether the divisor
// is known to be non-zero where it executes: a dominating test of that very value against zero (≠0, >0, ≥1, or the
// early exit on ==0 / ≤0 / <1), or the divisor is len/Count of something tested the same way.
func (w *World) intDivisions() []intDiv {
	var out []intDiv
	for _, fn := range w.ModFuncs {
		allInstrs(fn, func(in ssa.Instruction) {
			b, ok := in.(*ssa.BinOp)
			if !ok || (b.Op.String() != "/" && b.Op.String() != "%") {
				return
			}
			bt, ok := b.Y.Type().Underlying().(*types.Basic)
			if !ok || bt.Info()&types.IsInteger == 0 {
				return
			}
			if cst, isC := b.Y.(*ssa.Const); isC {
				if cst.Value != nil && constant.Sign(cst.Value) != 0 {
					return
				}
			}
			d := intDiv{Fn: fn, At: b}
			div := unwrap(b.Y)
			same := func(v ssa.Value) bool { return unwrap(v) == div || w.Origin(v) == w.Origin(b.Y) }
			for _, g := range guardsOf(in.Block()) {
				cond, pol := stripNot(g.Cond, g.Branch)
				cmp, isB := cond.(*ssa.BinOp)
				if !isB {
					continue
				}
				x, y, op := cmp.X, cmp.Y, cmp.Op.String()
				zero := func(v ssa.Value) (int64, bool) {
					cst, isC := unwrap(v).(*ssa.Const)
					if !isC || cst.Value == nil || cst.Value.Kind() != constant.Int {
						return 0, false
					}
					n, _ := constant.Int64Val(cst.Value)
					return n, true
				}
				if n, isZ := zero(x); isZ && same(y) { // const OP div → div OP' const
					x, y = y, x
					switch op {
					case "<":
						op = ">"
					case ">":
						op = "<"
					case "<=":
						op = ">="
					case ">=":
						op = "<="
					}
					_ = n
				}
				n, isZ := zero(y)
				if !isZ || !same(x) {
					continue
				}
				// cond is (div op n) and holds iff pol
				nonZero := false
				switch {
				case op == "!=" && n == 0 && pol, op == "==" && n == 0 && !pol:
					nonZero = true
				case op == ">" && n >= 0 && pol, op == ">=" && n >= 1 && pol:
					nonZero = true
				case op == "<=" && n >= 0 && !pol, op == "<" && n >= 1 && !pol:
					nonZero = true
				}
				if nonZero {
					d.Guarded = true
					d.How = fmt.Sprintf("dominated by %s %s %d = %v", w.Origin(x), op, n, pol)
				}
			}
			out = append(out, d)
		})
	}
	sort.Slice(out, func(i, j int) bool { return out[i].At.Pos() < out[j].At.Pos() })
	return out
}

func divSurvey(w *World) {
	for _, d := range w.intDivisions() {
		fmt.Printf("INTDIV guarded=%v %s @%s  %s / %s  %s\n", d.Guarded, fname(d.Fn), w.pos(d.At.Pos()), w.Origin(d.At.X), w.Origin(d.At.Y), d.How)
	}
}

var divisionsKnown = map[string]string{
	"helpers.ChunkSlice": "the divisor is the group size handed in by the vBucket discovery, which defaulting and the membership rules keep ≥ 1 (C09.R1/R2, C17)",
}

// noUnguardedDivision (C20): a completion handler, a callback or a collector that divides by a count it has just
// computed panics on the goroutine of whoever called it (gocbcore's, the registry's) when the count is zero. Every
// integer division or modulo of the module by something that is not a non-zero constant executes only where that very
// divisor has been tested to be non-zero; the exceptions are a frozen table.
func noUnguardedDivision(c *Ctx, id string) {
	w := c.W
	n := 0
	seen := map[string]bool{}
	for _, d := range w.intDivisions() {
		n++
		root := fname(rootFn(d.Fn))
		if i := strings.Index(root, "["); i >= 0 {
			root = root[:i]
		}
		construct := fmt.Sprintf("div@%s:%s", root, w.Origin(d.At.Y))
		if seen[construct] {
			continue
		}
		seen[construct] = true
		switch {
		case d.Guarded:
			c.OK(id, construct, d.At.Pos(), "the divisor is non-zero where the division runs: %s", d.How)
		case divisionsKnown[root] != "":
			c.OK(id, construct, d.At.Pos(), "unguarded by design: %s", divisionsKnown[root])
		default:
			c.Fail(id, construct, d.At.Pos(), "integer division by %s with no dominating test that it is non-zero: when it is zero this panics on the goroutine that runs %s — for a completion callback that is the client library's goroutine, before the waiting operation is resolved", w.Origin(d.At.Y), fname(d.Fn))
		}
	}
	if n == 0 {
		c.Undecided(id, "div", 0, "no integer division by a variable found (the chunking helper has one)")
	}
}

// ---------------------------------------------------------------------------------------------
// looking through proven pass-through layers

// transparentLayerType: every method the type contributes to the module interfaces it decorates is promoted or an
// exact pass-through, and no other function of the type calls the wrapped value.
func (w *World) transparentLayerType(n *types.Named) bool {
	total := 0
	for _, dm := range w.decoratorsCached() {
		if dm.Type != shortNamed(n) {
			continue
		}
		total++
		if !dm.Promoted && dm.Why != "" {
			return false
		}
	}
	if total == 0 {
		return false
	}
	for _, fn := range w.ModFuncs {
		r := rootFn(fn)
		if r.Signature.Recv() == nil || shortRecv(r) != shortNamed(n) {
			continue
		}
		extra := false
		allInstrs(fn, func(x ssa.Instruction) {
			ci, isC := x.(ssa.CallInstruction)
			if !isC || !ci.Common().IsInvoke() {
				return
			}
			if _, isI := ci.Common().Value.Type().Underlying().(*types.Interface); !isI {
				return
			}
			// an invoke on the wrapped value (a field of the receiver) outside the pass-through of the same method
			if f := loadedField(ci.Common().Value); f != nil && !(fn == r && r.Name() == ci.Common().Method.Name()) {
				if _, isIface := f.Type().Underlying().(*types.Interface); isIface {
					extra = true
				}
			}
		})
		if extra {
			return false
		}
	}
	return true
}

var decoCache = map[*World][]decoMethod{}

func (w *World) decoratorsCached() []decoMethod {
	if d, ok := decoCache[w]; ok {
		return d
	}
	d := w.decorators()
	decoCache[w] = d
	return d
}

// throughLayers peels proven pass-through layers off a collaborator value: a literal of a transparent layer type
// around it, a pass-through wrapper function applied to it, a pass-through closure over it. What remains is the value
// the rules about wiring reason about.
func (w *World) throughLayers(v ssa.Value) ssa.Value {
	for i := 0; i < 4; i++ {
		u := unwrap(v)
		switch x := u.(type) {
		case *ssa.Alloc:
			pt, ok := x.Type().(*types.Pointer)
			if !ok {
				return v
			}
			n, ok := types.Unalias(pt.Elem()).(*types.Named)
			if !ok || !w.transparentLayerType(n) {
				return v
			}
			st, ok := n.Underlying().(*types.Struct)
			if !ok {
				return v
			}
			tab, _ := allocTable(x)
			var inner ssa.Value
			for k := 0; k < st.NumFields(); k++ {
				if _, isI := st.Field(k).Type().Underlying().(*types.Interface); isI {
					if val, has := tab[st.Field(k).Name()]; has {
						inner = val
					}
				}
			}
			if inner == nil {
				return v
			}
			v = inner
		case *ssa.Call:
			g := x.Common().StaticCallee()
			if g == nil || !w.inModule(g) || g.Blocks == nil || !ifaceOrFunc(x.Type()) {
				return v
			}
			var inner ssa.Value
			for k, a := range x.Common().Args {
				if g.Signature.Recv() != nil && k == 0 {
					continue
				}
				if ifaceOrFunc(a.Type()) && sameRole(a.Type(), x.Type()) {
					inner = a
				}
			}
			if inner == nil || w.provenPassThrough(layerApp{Fn: x.Parent(), At: x}) == "" {
				return v
			}
			v = inner
		default:
			return v
		}
	}
	return v
}

// avThroughLayers: the abstract value behind proven pass-through layers — an interface holding a pointer to a struct of
// a transparent layer type is replaced by what the layer's interface-typed field holds.
func (w *World) avThroughLayers(a AV) AV {
	for i := 0; i < 4; i++ {
		switch x := a.(type) {
		case avIface:
			if x.val == nil {
				return a
			}
			a = x.val
		case avPtr:
			if x.c == nil {
				return a
			}
			n, ok := types.Unalias(x.c.typ).(*types.Named)
			if !ok || !w.transparentLayerType(n) {
				return a
			}
			st, ok := n.Underlying().(*types.Struct)
			if !ok {
				return a
			}
			var inner AV
			for k := 0; k < st.NumFields() && k < len(x.c.fields); k++ {
				if _, isI := st.Field(k).Type().Underlying().(*types.Interface); isI && x.c.fields[k] != nil && x.c.fields[k].have {
					inner = x.c.fields[k].val
				}
			}
			if inner == nil {
				return a
			}
			a = inner
		default:
			return a
		}
	}
	return a
}

// vbCountSource (C09): members that agree on the group size partition the same 0..N-1 only if N is the same for all of
// them: the bucket's vBucket count as the cluster map states it (Client.GetNumVBuckets), handed to the vBucket
// discovery as it is — not a count derived from what happens to be active or answered at start-up.
func vbCountSource(c *Ctx, id string) {
	w := c.W
	n := 0
	for _, fn := range w.ModFuncs {
		allInstrs(fn, func(in ssa.Instruction) {
			cc := callOf(in)
			if cc == nil {
				return
			}
			g := cc.StaticCallee()
			if g == nil || g.Name() != "NewVBucketDiscovery" || !w.inModule(g) {
				return
			}
			n++
			c.CallSites++
			c.see(fn)
			// the int parameter of the constructor
			pi := -1
			for i, p := range g.Params {
				if bt, ok := p.Type().Underlying().(*types.Basic); ok && bt.Info()&types.IsInteger != 0 {
					pi = i
				}
			}
			if pi < 0 || pi >= len(cc.Args) {
				c.Undecided(id, "vb-count@"+fname(fn), in.Pos(), "the vBucket-count parameter of NewVBucketDiscovery was not found")
				return
			}
			o := w.Origin(cc.Args[pi])
			ok := strings.HasSuffix(o, ".GetNumVBuckets)()") && !strings.Contains(o, "φ")
			c.Check(ok, id, "vb-count@"+fname(fn), in.Pos(), "N ← "+o, "the vBucket count handed to the discovery is "+o+", not the bucket's vBucket count from the cluster map (Client.GetNumVBuckets): members started at different moments would partition different ranges")
		})
	}
	if n == 0 {
		c.Undecided(id, "vb-count", 0, "no call of NewVBucketDiscovery found")
	}
}

// roundTickerUntouched (C19): the health check's rounds are paced by one ticker, created with the configured interval
// where the loop starts and stopped only when the loop ends (a deferred Stop in the function that created it). Nothing
// else stops, resets or is handed that ticker: a round that "pauses" it and re-arms it conditionally leaves the
// checker silent for good after a recovered round — no further ping, no fail-stop.
func roundTickerUntouched(c *Ctx, id string) {
	w := c.W
	n := 0
	for _, fn := range w.ModFuncs {
		r := rootFn(fn)
		if r.Signature.Recv() == nil || recvTypeName(r.Signature.Recv().Type()) != "healthCheck" {
			continue
		}
		allInstrs(fn, func(in ssa.Instruction) {
			cc := callOf(in)
			if cc == nil {
				return
			}
			name := calleeName(cc)
			switch {
			case name == "time.NewTicker":
				n++
				c.see(fn)
				call, _ := in.(*ssa.Call)
				o := w.Origin(cc.Args[0])
				okIv := strings.HasSuffix(o, ".config.Interval") || strings.HasSuffix(o, ".Interval")
				// uses of the ticker: its channel, and one deferred Stop in this function
				var bad []string
				if call != nil {
					var walk func(v ssa.Value)
					seen := map[ssa.Value]bool{}
					walk = func(v ssa.Value) {
						if seen[v] || v.Referrers() == nil {
							return
						}
						seen[v] = true
						for _, u := range *v.Referrers() {
							switch x := u.(type) {
							case *ssa.FieldAddr, *ssa.Field:
								// .C
							case *ssa.DebugRef:
							case *ssa.Store:
								if x.Val == v {
									followCell(x.Addr, walk)
								}
							case *ssa.Defer:
								if calleeName(x.Common()) != "(*time.Ticker).Stop" {
									bad = append(bad, "deferred "+calleeName(x.Common())+" @"+w.pos(x.Pos()))
								}
							case ssa.CallInstruction:
								bad = append(bad, calleeName(x.Common())+" @"+w.pos(x.Pos()))
							case *ssa.MakeClosure:
								bad = append(bad, "captured by a nested function @"+w.pos(x.Pos()))
							case *ssa.Phi:
								walk(x)
							}
						}
					}
					walk(call)
				}
				c.Check(okIv && len(bad) == 0, id, "round-ticker@"+fname(fn), in.Pos(), "created with the configured interval; only its channel is read and its Stop deferred", fmt.Sprintf("the ticker that paces the rounds (interval %s) is touched outside its creation and its deferred Stop: %s", o, strings.Join(bad, "; ")))
			case name == "(*time.Ticker).Reset":
				c.Fail(id, "round-ticker-reset@"+fname(fn), in.Pos(), "the health check resets a ticker: the pace of the rounds is no longer the configured interval")
			}
		})
	}
	if n == 0 {
		c.Undecided(id, "round-ticker", 0, "no ticker is created by the health check (its loop was paced by time.NewTicker(config.Interval) when this rule was written)")
	}
}

// ---------------------------------------------------------------------------------------------
// functions that must not wait

// blockingOps: the operations in fn and in what it calls synchronously inside the module (depth 2) that can wait for
// another goroutine: channel send/receive, blocking select, Lock/RLock, WaitGroup/Cond wait, Once.Do, Sleep.
func (w *World) blockingOps(fn *ssa.Function, except func(ssa.Instruction) bool) []string {
	var out []string
	seen := map[*ssa.Function]bool{}
	var visit func(f *ssa.Function, depth int)
	visit = func(f *ssa.Function, depth int) {
		if seen[f] || f.Blocks == nil {
			return
		}
		seen[f] = true
		allInstrs(f, func(in ssa.Instruction) {
			if except != nil && except(in) {
				return
			}
			switch x := in.(type) {
			case *ssa.Send:
				out = append(out, "channel send @"+w.pos(in.Pos()))
			case *ssa.Select:
				if x.Blocking {
					out = append(out, "blocking select @"+w.pos(in.Pos()))
				}
			case *ssa.UnOp:
				if x.Op.String() == "<-" {
					out = append(out, "channel receive @"+w.pos(in.Pos()))
				}
			case ssa.CallInstruction:
				if _, isGo := in.(*ssa.Go); isGo {
					return
				}
				cc := x.Common()
				name := calleeName(cc)
				switch {
				case strings.HasSuffix(name, "WaitGroup).Wait"), strings.HasSuffix(name, "Mutex).Lock"), strings.HasSuffix(name, "Mutex).RLock"), name == "time.Sleep", strings.HasSuffix(name, "Cond).Wait"), strings.HasSuffix(name, "Once).Do"), strings.HasSuffix(name, "Mutex).TryLock"):
					out = append(out, name+" @"+w.pos(in.Pos()))
				}
				if cal := cc.StaticCallee(); cal != nil && w.inModule(cal) && depth < 2 && !isWrapperMethod(cal) {
					visit(cal, depth+1)
				}
			}
		})
	}
	visit(fn, 0)
	sort.Strings(out)
	return out
}

// observerSwitchesDoNotWait (C13): the stream's close throws the delivery switch and the end switch of every observer
// while deliveries may be in progress — also one that is blocked in the consumer, also one that called Close itself.
// Observer.Close and Observer.CloseEnd only set their switch: no lock, no channel operation, no wait.
func observerSwitchesDoNotWait(c *Ctx, id string) {
	w := c.W
	oi := observerInfo(c, id)
	pkg := strings.TrimPrefix(strings.TrimPrefix(oi.typ.Obj().Pkg().Path(), modPath), "/")
	n := 0
	for _, name := range []string{"Close", "CloseEnd"} {
		m := w.Method(pkg, oi.typ.Obj().Name(), name)
		if m == nil {
			c.Undecided(id, "switch-waits:"+name, 0, "observer.%s not found", name)
			continue
		}
		n++
		c.see(m)
		ops := w.blockingOps(m, nil)
		c.Check(len(ops) == 0, id, "switch-waits:"+name, m.Pos(), "sets its switch and returns", "Observer."+name+" can wait ("+strings.Join(ops, ", ")+"): Stream.Close stops at this observer for as long as a delivery is held up in the consumer — shutdown is no longer bounded, and a Close called from the listener deadlocks")
	}
	_ = n
}

// openDoesNotWait (C11, C12, C15): openStream is what the open-all step, the re-open loop and the rebalance's re-open
// run for every vBucket; their bounded-retry and fail-stop logic assumes that it makes its request and comes back with
// the answer. It waits for nothing but that request (no slot, queue, lock or in-flight table in front of it), and
// once the position was found every return follows the request.
func openDoesNotWait(c *Ctx, id string) {
	w := c.W
	var os *ssa.Function
	var req ssa.Instruction
	for _, fn := range w.ModFuncs {
		if fn.Parent() != nil || fn.Signature.Recv() == nil || recvTypeName(fn.Signature.Recv().Type()) != "stream" {
			continue
		}
		allInstrs(fn, func(in ssa.Instruction) {
			if cc := callOf(in); cc != nil && isInvokeOf(cc, "Client", "OpenStream") {
				os, req = fn, in
			}
		})
	}
	c.need(os != nil, id, "the stream method that calls Client.OpenStream")
	c.see(os)
	ops := w.blockingOps(os, nil)
	c.Check(len(ops) == 0, id, "open-waits@"+fname(os), os.Pos(), "waits for nothing but the request", fname(os)+" can wait for something other than the server's answer ("+strings.Join(ops, ", ")+"): a slot, permit or lock that a failed attempt does not give back stops every later open — the re-open after a rebalance never finishes")
	// every nil return follows the request
	var early []string
	allInstrs(os, func(in ssa.Instruction) {
		r, ok := in.(*ssa.Return)
		if !ok || len(r.Results) != 1 {
			return
		}
		// where a nil result comes from: the return itself, a phi edge, or a store into the spilled result of a
		// function with deferred calls
		var from []ssa.Instruction
		seenV := map[ssa.Value]bool{}
		var src func(v ssa.Value, at ssa.Instruction)
		src = func(v ssa.Value, at ssa.Instruction) {
			if seenV[v] {
				return
			}
			seenV[v] = true
			switch x := v.(type) {
			case *ssa.Const:
				if x.Value == nil {
					from = append(from, at)
				}
			case *ssa.Phi:
				for k, e := range x.Edges {
					if k < len(x.Block().Preds) {
						pb := x.Block().Preds[k]
						src(e, pb.Instrs[len(pb.Instrs)-1])
					}
				}
			case *ssa.UnOp:
				if al, isAl := x.X.(*ssa.Alloc); isAl && x.Op.String() == "*" {
					for _, u := range *al.Referrers() {
						if st, isSt := u.(*ssa.Store); isSt && st.Addr == ssa.Value(al) {
							src(st.Val, st)
						}
					}
				}
			}
		}
		src(r.Results[0], in)
		for _, f := range from {
			if !dominatesInstr(req, f) {
				early = append(early, w.pos(f.Pos()))
			}
		}
	})
	// after the request, what is returned is the request's own outcome: the call's error itself, or nil where that very
	// error is known to be nil — no class of refusal ("already exists", "temporary") is turned into success
	if call, isCall := req.(*ssa.Call); isCall {
		var softened []string
		allInstrs(os, func(in ssa.Instruction) {
			r, ok := in.(*ssa.Return)
			if !ok || len(r.Results) != 1 || !dominatesInstr(req, in) {
				return
			}
			seenV := map[ssa.Value]bool{}
			var chk func(v ssa.Value, at ssa.Instruction)
			chk = func(v ssa.Value, at ssa.Instruction) {
				if seenV[v] {
					return
				}
				seenV[v] = true
				switch x := v.(type) {
				case *ssa.Const:
					if x.Value == nil && !errGuard(at.Block(), true, func(e ssa.Value) bool { return e == ssa.Value(call) }) {
						softened = append(softened, w.pos(at.Pos()))
					}
				case *ssa.Phi:
					for k, e := range x.Edges {
						if k < len(x.Block().Preds) {
							pb := x.Block().Preds[k]
							chk(e, pb.Instrs[len(pb.Instrs)-1])
						}
					}
				case *ssa.UnOp:
					if al, isAl := x.X.(*ssa.Alloc); isAl && x.Op.String() == "*" {
						for _, u := range *al.Referrers() {
							if st, isSt := u.(*ssa.Store); isSt && st.Addr == ssa.Value(al) {
								chk(st.Val, st)
							}
						}
					}
				}
			}
			chk(r.Results[0], in)
		})
		c.Check(len(softened) == 0, id, "open-outcome@"+fname(os), os.Pos(), "after the request the result is the request's own error (nil only where that error is nil)", fname(os)+" reports success on a path on which the request's error is not known to be nil (return nil @"+strings.Join(softened, ", ")+"): a refused stream request is counted as an opened stream")
	}
	c.Check(len(early) == 0, id, "open-skips@"+fname(os), os.Pos(), "success is reported only after the request", fname(os)+" reports success without having made the request (return nil @"+strings.Join(early, ", ")+"): the vBucket is counted as streaming although no stream was asked for")
}

// channelClosesKnown (C20, C13): closing a channel a second time panics on whatever goroutine does it — for a completion
// handler that is the client library's read loop, before the waiting operation is resolved. The channel closes of the
// module are the ones confirmed by reading (today one: the stream's stop channel, closed by the wait goroutine when the
// streams have ended for good and no rebalance is in progress); a close inside a sync.Once body is once by construction.
var closesKnown = map[string]string{
	"stream.stopCh": "closed by the stream's wait goroutine, which Open starts once per session and which closes only when the session was not ended by a rebalance (C12.R5/R9 decide the flags)",
}

func channelClosesKnown(c *Ctx, id string) {
	w := c.W
	n := 0
	for _, fn := range w.ModFuncs {
		allInstrs(fn, func(in ssa.Instruction) {
			cc := callOf(in)
			if cc == nil {
				return
			}
			b, ok := cc.Value.(*ssa.Builtin)
			if !ok || b.Name() != "close" || len(cc.Args) != 1 {
				return
			}
			n++
			c.CallSites++
			c.see(fn)
			what := w.Origin(cc.Args[0])
			key := what
			if f := loadedField(cc.Args[0]); f != nil {
				owner := ""
				if fa, isFA := unwrap(cc.Args[0]).(*ssa.UnOp); isFA {
					if fad, isFAd := fa.X.(*ssa.FieldAddr); isFAd {
						if pt, isP := fad.X.Type().(*types.Pointer); isP {
							if nt, isN := types.Unalias(pt.Elem()).(*types.Named); isN {
								owner = nt.Obj().Name()
							}
						}
					}
				}
				key = owner + "." + f.Name()
			}
			// inside the function handed to sync.Once.Do: once by construction
			inOnce := false
			if par := fn.Parent(); par != nil {
				allInstrs(par, func(x ssa.Instruction) {
					if c2 := callOf(x); c2 != nil && strings.HasSuffix(calleeName(c2), "Once).Do") && len(c2.Args) == 2 && closureOf(c2.Args[1]) == fn {
						inOnce = true
					}
				})
			}
			switch {
			case inOnce:
				c.OK(id, "close:"+key+"@"+fname(rootFn(fn)), in.Pos(), "closed inside a sync.Once body")
			case closesKnown[key] != "":
				c.OK(id, "close:"+key+"@"+fname(rootFn(fn)), in.Pos(), "%s", closesKnown[key])
			default:
				c.Fail(id, "close:"+key+"@"+fname(rootFn(fn)), in.Pos(), "%s closes the channel %s and nothing shows that it runs at most once for that channel (no sync.Once around it; not one of the confirmed closes): a second close panics on the goroutine that runs it", fname(fn), what)
			}
		})
	}
	if n == 0 {
		c.Undecided(id, "close", 0, "no channel close found in the module (the stream's stop channel was closed by its wait goroutine when this rule was written)")
	}
}

// gateWaitsOnlyForPersistence (C07, C20): the observer's handlers run on the client library's read loop; the only thing
// they may wait for is the rollback-mitigation's persistence condition (a sleeping poll that the closed switch ends).
// The gate and what it calls receive from no channel, take no lock and wait on nothing else.
func gateWaitsOnlyForPersistence(c *Ctx, id string) {
	w := c.W
	oi := observerInfo(c, id)
	for _, g := range oi.gates {
		c.see(g)
		ops := w.blockingOps(g, func(in ssa.Instruction) bool {
			cc := callOf(in)
			return cc != nil && calleeName(cc) == "time.Sleep"
		})
		c.Check(len(ops) == 0, id, "gate-waits@"+fname(g), g.Pos(), "the gate waits for the persistence condition only (a sleeping poll)", "the observer's gate can wait for something other than the persistence condition ("+strings.Join(ops, ", ")+"): it runs on the client library's read loop, where a wait that is never released stalls every stream of the connection and a second release (close of a closed channel) panics")
	}
}

// rebalanceStartBeforeArm (C11): lifecycle callbacks are bracketed: the function that arms the re-open (time.AfterFunc)
// has announced the start of the rebalance before — with a zero delay (dynamic membership) the re-open callback runs at
// once on its own goroutine and announces the end.
func rebalanceStartBeforeArm(c *Ctx, id string) {
	w := c.W
	n := 0
	for _, rb := range w.implsOf("stream", "Stream", "Rebalance") {
		c.see(rb)
		var arms, starts []ssa.Instruction
		for _, f := range withAnon(rb) {
			allInstrs(f, func(in ssa.Instruction) {
				cc := callOf(in)
				if cc == nil {
					return
				}
				if strings.HasSuffix(calleeName(cc), "time.AfterFunc") {
					// the debounce arm re-schedules the rebalance itself (no callbacks yet); the re-open is the other one
					if cb := closureOf(cc.Args[len(cc.Args)-1]); cb != rb {
						arms = append(arms, in)
					}
				}
				if cc.IsInvoke() && cc.Method.Name() == "AfterRebalanceStart" {
					starts = append(starts, in)
				}
			})
		}
		for _, a := range arms {
			n++
			ok := false
			for _, s := range starts {
				if dominatesInstr(s, a) {
					ok = true
				}
			}
			c.Check(ok, id, "start-before-arm@"+fname(rb), a.Pos(), "AfterRebalanceStart is announced before the re-open is armed", "the re-open is armed before AfterRebalanceStart is announced: with a zero delay the re-open's callbacks (BeforeRebalanceEnd … AfterRebalanceEnd) run first — the lifecycle callbacks are no longer bracketed")
		}
	}
	if n == 0 {
		c.Undecided(id, "start-before-arm", 0, "no time.AfterFunc in the implementation of Stream.Rebalance (the re-open was armed there when this rule was written)")
	}
}

// observerStateSetters (C03, C08): the catch-up filter drops events. It is armed in one place only — the completion of
// the re-request that follows a server-requested rollback, with the position the refused request asked for — and the
// branch id of an observer is set only where a stream request was confirmed. A second place that arms the filter
// (at Open, "to be safe") removes events nobody has seen.
func observerStateSetters(c *Ctx, id string) {
	w := c.W
	for _, m := range []string{"SetCatchup", "SetVbUUID"} {
		n := 0
		var bad []string
		var at ssa.Instruction
		for _, fn := range w.ModFuncs {
			allInstrs(fn, func(in ssa.Instruction) {
				cc := callOf(in)
				if cc == nil || !cc.IsInvoke() || cc.Method.Name() != m || !strings.HasSuffix(shortType(cc.Value.Type()), "Observer") {
					return
				}
				n++
				c.CallSites++
				root := rootFn(fn)
				// inside the completion callback of a DCP OpenStream request of the client
				inCompletion := false
				if fn.Parent() != nil {
					allInstrs(fn.Parent(), func(x ssa.Instruction) {
						c2 := callOf(x)
						if c2 == nil || !strings.HasSuffix(calleeName(c2), "DCPAgent).OpenStream") {
							return
						}
						for _, a := range c2.Args {
							if closureOf(a) == fn {
								inCompletion = true
							}
						}
					})
				}
				if !inCompletion || root.Signature.Recv() == nil || recvTypeName(root.Signature.Recv().Type()) != "client" {
					bad = append(bad, fmt.Sprintf("%s @%s", fname(fn), w.pos(in.Pos())))
					at = in
				}
			})
		}
		construct := "observer-setter:" + m
		switch {
		case n == 0:
			c.Undecided(id, construct, 0, "no call of Observer.%s found", m)
		case len(bad) == 0:
			c.OK(id, construct, 0, "Observer.%s is called only from the completion of the client's stream requests (%d sites)", m, n)
		default:
			c.Fail(id, construct, at.Pos(), "Observer.%s is called outside the completion of a stream request (%s): the observer's filter / branch id no longer follows what the server answered", m, strings.Join(bad, "; "))
		}
	}
}
