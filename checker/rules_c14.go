package main

import (
	"fmt"
	"go/constant"
	"go/token"
	"go/types"
	"strings"

	"golang.org/x/tools/go/ssa"
)

func init() {
	register(&Property{
		ID: "C14",
		Explanation: "Decides that the library cannot feed on its own writes: (R1) gocbcore's mutating operations are called only by the document helpers, and at every call of a mutating helper the document id starts with the reserved prefix constant — directly, through getCheckpointID, or through a struct field all of whose writers assign such a value; " +
			"(R2) the filter IsMetadata ⇔ field valid ∧ (HasPrefix(key, Prefix) ∨ HasPrefix(key, TxnPrefix)) with exactly the constants the writers use, looked up under a field name that is a promoted []byte field of all three document event wrappers; " +
			"(R3) the forwarder decides with IsMetadata(payload) and on that branch advances the position with dirty=false, never raises the save flag, never calls the consumer (exhaustive); (R4) getCheckpointID's only variable parts are its vbID and group-name parameters and it panics for every group name containing the separator it rejects ('.'). " +
			"NOT decided: injectivity of the key as a string function; the closed-loop history argument.",
		Assumptions: []string{"reflect.Value.FieldByName finds promoted fields of embedded pointers", "bytes.HasPrefix semantics"},
		Rules: []RuleDef{
			{ID: "C14.R1", Text: "gocbcore mutations only via the document helpers; every mutating helper call gets an id whose leftmost constant is helpers.Prefix (directly, via getCheckpointID, or via a field written only with such values)", Run: c14r1},
			{ID: "C14.R2", Text: "IsMetadata ⇔ valid ∧ (HasPrefix(key, Prefix) ∨ HasPrefix(key, TxnPrefix)); the looked-up field name is a promoted []byte field of the three document event wrappers", Run: c14r2},
			{ID: "C14.R3", Text: "forwarder: filter = helpers.IsMetadata(payload); metadata branch ⇒ position writer called once with dirty=false, save flag untouched, consumer not called", Run: c14r3},
			{ID: "C14.R5", Text: "absorbed events still advance the position: with dirty=false the writer stores under exactly the same conditions (same rule as C04.R1)", Run: c04r1},
			{ID: "C14.R6", Text: "nothing but the flag makes a save write: Checkpoint.Save hands the backend exactly the dirty marks (a copy of GetOffsets()#1) and attempts the write only when the save flag is up — absorbed events, which never mark or flag, cannot cause a checkpoint write (same rule as C05.R3)", Run: c05r3},
			{ID: "C14.R7", Text: "reserved-key events still advance the position: the reserved-key branch of the forwarder calls the position writer exactly once (same rule as C04.R10, absorb part)", Run: absorbMoves},
			{ID: "C14.R8", Text: "a reserved-key event reaches the stream as the document event it is: no event wrapper is built outside the handler of its kind, so it cannot be turned into a dirtying seqno-advanced event before the prefix test (same rule as C03.R4)", Run: c03r4},
			{ID: "C14.R9", Text: "a save clears every mark it wrote: the dirty set is cleared as a whole, after and only under err==nil of the store call — a position moved by a reserved-key event during the save cannot keep its vBucket flagged (same rule as C05.R4)", Run: c05r4},
			{ID: "C14.R10", Text: "group names are judged as configured: defaulting never rewrites a configured group name, so the separator check sees what the operator wrote (same rule as C17.R1)", Run: c17r1},
			{ID: "C14.R11", Text: "a reserved-key event reaches the branch that absorbs it: the listener hands every document event on under no predicate of its own (same rule as C03.R2)", Run: c03r2},
			{ID: "C14.R12", Text: "and it gets there at once: one synchronous call chain per event from the observer to the listener, nothing parked (same rule as C03.R1)", Run: c03r1},
			{ID: "C14.R13", Text: "nothing flags a vBucket but an acknowledgement or the absorption of a non-document event: every call of the position writer is one of the known kinds — a snapshot marker or any other new caller is not (same rule as C01.R2)", Run: c01r2},
			{ID: "C14.R14", Text: "a dirty mark is raised only by the position writer (and built by the checkpoint's Load): no other function stores into the dirty map", Run: dirtyMarkWriters},
			{ID: "C14.R16", Text: "a move made for a reserved-key event never flags the vBucket, whatever the checkpoint type: the position writer marks ⇔ the position was stored ∧ dirty and under no other condition (same rule as C05.R2)", Run: c05r2},
			{ID: "C14.R15", Text: "a document key is computed from the call, never remembered process-wide: no package-level variable is written after initialisation except the logger and the tracer (same rule as C18.R9)", Run: globalsFrozen},
			{ID: "C14.R4", Text: "getCheckpointID: result = Prefix + groupName + const + Itoa(vbID); panics ⇔ groupName contains '.'", Run: c14r4},
		},
	})
}

func helpersConst(w *World, name string) string {
	p := w.Pkgs["helpers"]
	if p == nil {
		return ""
	}
	if cst, ok := p.Types.Scope().Lookup(name).(*types.Const); ok && cst.Val().Kind() == constant.String {
		return constant.StringVal(cst.Val())
	}
	return ""
}

// leftmostConst: the leftmost operand of a string concatenation chain (through []byte conversions), if constant.
func leftmostConst(v ssa.Value) (string, bool) {
	for {
		v = unwrap(v)
		b, ok := v.(*ssa.BinOp)
		if !ok || b.Op != token.ADD {
			break
		}
		v = b.X
	}
	if cst, ok := v.(*ssa.Const); ok && cst.Value != nil && cst.Value.Kind() == constant.String {
		return constant.StringVal(cst.Value), true
	}
	return "", false
}

var gocbMutators = map[string]bool{"Set": true, "Add": true, "Replace": true, "Delete": true, "MutateIn": true, "Append": true, "Prepend": true, "Increment": true, "Decrement": true, "Touch": true, "GetAndTouch": true, "GetAndLock": true, "Unlock": true, "SetMeta": true, "DeleteMeta": true}

func c14r1(c *Ctx, id string) {
	w := c.W
	prefix := helpersConst(w, "Prefix")
	c.need(prefix != "", id, "helpers.Prefix constant")
	// mutating helpers: module functions calling a gocbcore.Agent mutator
	helpers := map[*ssa.Function]string{}
	for _, fn := range w.ModFuncs {
		allInstrs(fn, func(in ssa.Instruction) {
			cc := callOf(in)
			if cc == nil || cc.IsInvoke() {
				return
			}
			f := cc.StaticCallee()
			if f == nil || f.Pkg == nil || !strings.Contains(f.Pkg.Pkg.Path(), "gocbcore") || f.Signature.Recv() == nil || recvTypeName(f.Signature.Recv().Type()) != "Agent" || !gocbMutators[f.Name()] {
				return
			}
			root := rootFn(fn)
			helpers[root] = f.Name()
			c.see(root)
			// the key option of the operation is the helper's id parameter
			var keyOK bool
			if a := asAlloc(cc.Args[1]); a != nil {
				tab, _ := allocTable(a)
				keyOK = tab["Key"] != nil && w.Origin(tab["Key"]) == "param(id)"
			}
			isHelperFile := strings.HasSuffix(w.Fset.Position(root.Pos()).Filename, "doc_op.go")
			c.Check(keyOK && isHelperFile && fn == root, id, "mutator:"+f.Name()+"@"+fname(root), in.Pos(), "gocbcore."+f.Name()+" with Key ← param(id) inside a document helper", "gocbcore."+f.Name()+" is called outside the document helpers or with a key that is not the helper's id parameter")
		})
	}
	c.need(len(helpers) > 0, id, "document helpers calling gocbcore mutators")
	// field provenance: struct fields holding ids
	fieldOK := func(f *types.Var) (bool, string) {
		n := 0
		for _, fs := range w.fieldStores(f) {
			n++
			if s, ok := leftmostConst(fs.Store.Val); !ok || !strings.HasPrefix(s, prefix) {
				return false, w.Origin(fs.Store.Val)
			}
		}
		return n > 0, ""
	}
	n := 0
	for h := range helpers {
		for _, cs := range w.callersOf(h) {
			n++
			c.CallSites++
			c.see(cs.Fn)
			idArg := argByName(cs.Call.Common(), "id")
			construct := "id:" + h.Name() + "@" + fname(cs.Fn)
			if idArg == nil {
				c.Undecided(id, construct, cs.Call.Pos(), "helper has no id parameter")
				continue
			}
			org := w.Origin(idArg)
			v := unwrap(idArg)
			switch {
			case strings.HasPrefix(org, "call(couchbase.getCheckpointID)("):
				c.OK(id, construct, cs.Call.Pos(), "id ← %s", org)
			case loadedField(v) != nil:
				ok, bad := fieldOK(loadedField(v))
				if ok {
					c.OK(id, construct, cs.Call.Pos(), "id ← field %s, every writer of which assigns Prefix+…", loadedField(v).Name())
				} else {
					c.Fail(id, construct, cs.Call.Pos(), "id ← field %s which is assigned %s (not under the reserved prefix)", loadedField(v).Name(), bad)
				}
			default:
				if s, ok := leftmostConst(v); ok && strings.HasPrefix(s, prefix) {
					c.OK(id, construct, cs.Call.Pos(), "id ← %s", org)
				} else {
					c.Fail(id, construct, cs.Call.Pos(), "the library writes a document whose key is not under the reserved prefix: id ← %s", org)
				}
			}
		}
	}
	if n < 8 {
		c.Undecided(id, "floor", 0, "only %d call sites of mutating helpers (8 confirmed by hand)", n)
	}
}

func c14r2(c *Ctx, id string) {
	w := c.W
	fn := w.Func("helpers", "IsMetadata")
	c.need(fn != nil, id, "helpers.IsMetadata")
	prefix, txn := helpersConst(w, "Prefix"), helpersConst(w, "TxnPrefix")
	c.need(prefix != "" && txn != "", id, "helpers.Prefix / TxnPrefix")
	// the transaction prefix has an external writer (Couchbase SDK transactions: ATRs `_txn:atr-…`, the client record
	// `_txn:client-record`); the filter must cover all of them, so the constant is the protocol's common prefix
	c.Check(txn == "_txn:", id, "txn-prefix", 0, "TxnPrefix = \"_txn:\" (all transaction records)", "TxnPrefix = \""+txn+"\" does not cover every Couchbase transaction record (_txn:atr-…, _txn:client-record): some would be shown to the consumer and dirty the checkpoint")
	var fieldName string
	h := &Harness{Fn: fn, Bools: []string{"valid", "hasPrefix", "hasTxn"},
		Oracle: func(st *State, name string, args []AV, res *types.Tuple) ([]AV, bool) {
			switch name {
			case "(reflect.Value).FieldByName":
				if s, ok := args[1].(avStr); ok && s.isC {
					fieldName = s.conc
				}
				return []AV{avOpaque{"field"}}, true
			case "(reflect.Value).IsValid":
				return []AV{avBool{st.B("valid")}}, true
			case "bytes.HasPrefix":
				s, ok := args[1].(avStr)
				if !ok || !s.isC {
					return []AV{avOpaque{"HasPrefix with a non-constant prefix"}}, true
				}
				switch s.conc {
				case prefix:
					return []AV{avBool{st.B("hasPrefix")}}, true
				case txn:
					return []AV{avBool{st.B("hasTxn")}}, true
				}
				return []AV{avOpaque{"HasPrefix with an unknown prefix " + s.conc}}, true
			}
			return nil, false
		}}
	c.oae(id, fname(fn), fn.Pos(), h, func(st *State, out *Outcome) string {
		if out.Panicked {
			return "panics"
		}
		b, ok := out.Ret[0].(avBool)
		want := st.B("valid") && (st.B("hasPrefix") || st.B("hasTxn"))
		if !ok || b.b != want {
			return fmt.Sprintf("returns %s, expected %v", avString(out.Ret[0]), want)
		}
		return ""
	}, "valid ∧ (HasPrefix(key, helpers.Prefix) ∨ HasPrefix(key, helpers.TxnPrefix))")
	// reflection contract
	if fieldName == "" {
		c.Undecided(id, "field-name", fn.Pos(), "the looked-up field name is not a constant")
		return
	}
	n := 0
	for _, name := range w.Pkgs["models"].Types.Scope().Names() {
		tn, ok := w.Pkgs["models"].Types.Scope().Lookup(name).(*types.TypeName)
		if !ok || tn.IsAlias() || !isDocEventWrapper(tn.Type()) {
			continue
		}
		n++
		obj, _, _ := types.LookupFieldOrMethod(tn.Type(), false, tn.Pkg(), fieldName)
		v, isVar := obj.(*types.Var)
		okT := false
		if isVar {
			if sl, ok := v.Type().Underlying().(*types.Slice); ok {
				if b, ok := sl.Elem().Underlying().(*types.Basic); ok && b.Kind() == types.Byte {
					okT = true
				}
			}
		}
		c.Check(okT && v.Exported(), id, "reflect:"+tn.Name()+"."+fieldName, tn.Pos(), "promoted exported []byte field found by FieldByName", "FieldByName(\""+fieldName+"\") does not resolve to an exported []byte field of "+tn.Name()+": every key would pass the filter")
	}
	if n != 3 {
		c.Undecided(id, "reflect", 0, "%d document event wrapper types (expected 3)", n)
	}
}

func c14r3(c *Ctx, id string) {
	w := c.W
	flag, _ := saveFlagField(w)
	c.need(flag != nil, id, "save flag field")
	pws := w.positionWriterFuncs()
	for _, fw := range forwarders(w) {
		var pPayload *vparam
		for _, vp := range vparams(fw) {
			vp := vp
			if types.IsInterface(vp.Type()) && pPayload == nil && !strings.Contains(vp.Type().String(), "tracing.") {
				pPayload = &vp
			}
		}
		if pPayload == nil {
			c.Undecided(id, "forwarder@"+fname(fw), fw.Pos(), "no payload parameter")
			continue
		}
		noinl := map[string]bool{}
		for _, pw := range pws {
			noinl[fname(pw)] = true
		}
		consulted := map[*State]bool{}
		hs := &Harness{Fn: fw, Bools: []string{"meta"}, NoInline: noinl, Quiet: append([]string{"time.", "(time.", "(*tracing.", "tracing."}, quietLog...),
			Oracle: func(st *State, name string, args []AV, res *types.Tuple) ([]AV, bool) {
				if name == "helpers.IsMetadata" {
					if len(args) != 1 || avString(args[0]) != pPayload.Name() {
						return []AV{avOpaque{"IsMetadata applied to something else than the payload"}}, true
					}
					consulted[st] = true
					return []AV{avBool{st.B("meta")}}, true
				}
				return nil, false
			}}
		recv := fw.Params[0].Name()
		c.oae(id, "forwarder@"+fname(fw), fw.Pos(), hs, func(st *State, out *Outcome) string {
			if !consulted[st] {
				return "the forwarder does not consult helpers.IsMetadata(payload)"
			}
			if !st.B("meta") {
				return ""
			}
			nw := 0
			for _, e := range out.Trace {
				if strings.HasSuffix(e.Name, ".ConsumeEvent") {
					return "a library-internal key is shown to the consumer"
				}
				for _, pw := range pws {
					if e.Name == fname(pw) {
						nw++
						var d AV
						if in := w.writerInputs(pw); in.dirty != nil {
							d = effectVArg(e, pw, *in.dirty)
						} else if _, isMode := w.writerModeConst(pw); isMode {
							d = avBool{w.pwMode[pw]} // a mode of a split writer
						}
						if b, ok := d.(avBool); !ok || b.b {
							return "a library-internal key advances the position with dirty=" + avString(d) + ": checkpoint writes would trigger further checkpoint writes"
						}
					}
				}
			}
			if nw != 1 {
				return fmt.Sprintf("a library-internal key advances the position %d times (expected once)", nw)
			}
			if f := out.Final(recv + "." + flag.Name()); f != nil {
				return "the save flag is written on the metadata branch"
			}
			return ""
		}, "IsMetadata(payload) ⇒ setOffset(vbID, offset, false) once, flag untouched, no ConsumeEvent")
	}
}

func c14r4(c *Ctx, id string) {
	w := c.W
	fn := w.Func("couchbase", "getCheckpointID")
	c.need(fn != nil, id, "couchbase.getCheckpointID")
	c.see(fn)
	prefix := helpersConst(w, "Prefix")
	var gp, vp *ssa.Parameter
	for _, p := range fn.Params {
		if isUint16(p.Type()) {
			vp = p
		} else {
			gp = p
		}
	}
	c.need(gp != nil && vp != nil, id, "parameters (vbID, groupName)")
	// result formula
	allInstrs(fn, func(in ssa.Instruction) {
		r, ok := in.(*ssa.Return)
		if !ok {
			return
		}
		o := w.Origin(r.Results[0])
		want := fmt.Sprintf("(((const(%q) + param(%s)) + const(\":checkpoint:\")) + call(strconv.Itoa)(param(%s)))", prefix, gp.Name(), vp.Name())
		// accept any constant separator between the group name and the vBucket number
		lm, okL := leftmostConst(r.Results[0])
		okShape := okL && lm == prefix && strings.Contains(o, "+ param("+gp.Name()+"))") && strings.HasSuffix(o, "+ call(strconv.Itoa)(param("+vp.Name()+")))") && strings.Count(o, "param(") == 2
		c.Check(okShape, id, "key-formula", in.Pos(), "key ← "+o, "key ← "+o+", expected "+want)
	})
	// rejection of ambiguous group names
	sep := "const(\".\")"
	g := "param(" + gp.Name() + ")"
	nPanic := 0
	allInstrs(fn, func(in ssa.Instruction) {
		if !isPanicLike(in) {
			return
		}
		nPanic++
		ok := false
		var seen []string
		for _, gd := range guardsOf(in.Block()) {
			v, pol := stripNot(gd.Cond, gd.Branch)
			o := w.Origin(v)
			seen = append(seen, fmt.Sprintf("%v:%s", pol, o))
			switch {
			case pol && (o == "call(strings.Contains)("+g+", "+sep+")" || o == "call(strings.ContainsAny)("+g+", "+sep+")" || o == "call(strings.ContainsRune)("+g+", const(46))"):
				ok = true
			case pol && (o == "(call(strings.Index)("+g+", "+sep+") >= const(0))" || o == "(call(strings.Index)("+g+", "+sep+") != const(-1))" || o == "(call(strings.Index)("+g+", "+sep+") > const(-1))"):
				ok = true
			case !pol && (o == "(call(strings.Index)("+g+", "+sep+") < const(0))" || o == "(call(strings.Index)("+g+", "+sep+") == const(-1))"):
				ok = true
			}
		}
		c.Check(ok, id, "reject-separator", in.Pos(), "panics ⇔ group name contains '.'", "group names with a '.' are not all rejected: the panic is guarded by ["+strings.Join(seen, " ∧ ")+"]")
	})
	if nPanic == 0 {
		c.Fail(id, "reject-separator", fn.Pos(), "getCheckpointID no longer rejects ambiguous group names")
	}
	// the key is built before/independently of the check: the return is reached only when the name was accepted
	allInstrs(fn, func(in ssa.Instruction) {
		if _, ok := in.(*ssa.Return); ok {
			c.Check(len(guardsOf(in.Block())) == 1, id, "accept-path", in.Pos(), "key returned exactly when the group name was accepted", "the key is returned under additional conditions")
		}
	})
}
