package main

// rules_wrapper.go — the map wrapper every rule builds on.

import (
	"fmt"
	"go/token"
	"go/types"
	"strings"

	"golang.org/x/tools/go/ssa"
)

// wrapperFaithful: every map the rules reason about (positions, dirty marks, observers, report table, follower table)
// is a wrapper.ConcurrentSwissMap; the rules treat its methods as the primitives of the concurrent map they wrap.
// That is only right if the wrapper forwards faithfully: same receiver map, same key/value/condition arguments, results
// returned untouched, Range visiting entries until the callback says stop (the wrapped map stops on true, the wrapper's
// callers return true to continue — hence exactly one negation), no condition of its own anywhere.
func wrapperFaithful(c *Ctx, id string) {
	w := c.W
	type exp struct {
		inner string   // method of the wrapped map that must be the only call
		args  []string // origins of its arguments
		ret   []string // origins of the results ("" = none)
	}
	// the wrapped map: the wrapper's only field (whatever it is called)
	inner := "recv.m"
	if wt := w.NamedType("wrapper", "ConcurrentSwissMap"); wt != nil {
		if st, ok := wt.Underlying().(*types.Struct); ok && st.NumFields() == 1 {
			inner = "recv." + st.Field(0).Name()
		}
	}
	table := map[string]exp{
		"Count":   {"Count", []string{inner}, []string{"$call"}},
		"Delete":  {"Delete", []string{inner, "param(key)"}, nil},
		"Load":    {"Load", []string{inner, "param(key)"}, []string{"$call#0", "$call#1"}},
		"Store":   {"Store", []string{inner, "param(key)", "param(value)"}, nil},
		"StoreIf": {"SetIf", []string{inner, "param(key)", "param(conditionFn)"}, nil},
	}
	// one instantiation per method (all are the same source)
	methods := map[string]*ssa.Function{}
	for _, fn := range w.ModFuncs {
		if fn.Parent() != nil || fn.Signature.Recv() == nil || fn.Pkg == nil && fn.Origin() == nil {
			continue
		}
		if recvTypeName(fn.Signature.Recv().Type()) != "ConcurrentSwissMap" || len(fn.Blocks) == 0 {
			continue
		}
		name := fn.Name()
		if i := strings.Index(name, "["); i > 0 {
			name = name[:i]
		}
		if old, ok := methods[name]; !ok || fname(fn) < fname(old) {
			methods[name] = fn
		}
	}
	norm := func(fn *ssa.Function, o string) string {
		// parameter names of the wrapper are part of its source; map them to roles by position
		for i, p := range fn.Params {
			if i == 0 {
				continue
			}
			role := []string{"", "key", "value"}
			if fn.Name()[:2] == "St" && strings.HasPrefix(fn.Name(), "StoreIf") && i == 2 {
				role[2] = "conditionFn"
			}
			if i < len(role) {
				o = strings.ReplaceAll(o, "param("+p.Name()+")", "param("+role[i]+")")
			}
		}
		return o
	}
	innerCall := func(fn *ssa.Function) (calls []*ssa.Call) {
		allInstrs(fn, func(in ssa.Instruction) {
			if call, ok := in.(*ssa.Call); ok {
				calls = append(calls, call)
			}
		})
		return
	}
	for _, name := range sortedKeys(table) {
		e := table[name]
		fn := methods[name]
		if fn == nil {
			c.Undecided(id, "map-wrapper:"+name, 0, "wrapper.ConcurrentSwissMap.%s not found", name)
			continue
		}
		c.see(fn)
		calls := innerCall(fn)
		ok := len(fn.Blocks) == 1 && len(calls) == 1
		why := fmt.Sprintf("%d blocks, %d calls", len(fn.Blocks), len(calls))
		if ok {
			cc := calls[0].Common()
			callee := calleeName(cc)
			if !isWrappedMapMethod(cc, e.inner) {
				ok, why = false, "calls "+callee
			}
			if ok && len(cc.Args) == len(e.args) {
				for i, a := range cc.Args {
					if got := norm(fn, w.Origin(a)); got != e.args[i] {
						ok, why = false, fmt.Sprintf("argument %d is %s, expected %s", i, got, e.args[i])
					}
				}
			} else if ok {
				ok, why = false, "argument count"
			}
			// results
			allInstrs(fn, func(in ssa.Instruction) {
				if r, isR := in.(*ssa.Return); isR {
					if len(r.Results) != len(e.ret) {
						ok, why = false, "result count"
						return
					}
					for i, rv := range r.Results {
						want := ssa.Value(calls[0])
						got := unwrap(rv)
						if ex, isEx := got.(*ssa.Extract); isEx && len(e.ret) == 2 {
							if ex.Tuple != want || ex.Index != i {
								ok, why = false, fmt.Sprintf("result %d is not result %d of the wrapped call", i, i)
							}
						} else if got != want {
							ok, why = false, fmt.Sprintf("result %d is %s, not the wrapped call's result", i, w.Origin(rv))
						}
					}
				}
			})
		}
		c.Check(ok, id, "map-wrapper:"+name, fn.Pos(), name+" forwards to the wrapped map's "+e.inner+" with its own arguments and returns the result untouched", "wrapper.ConcurrentSwissMap."+name+" does not simply forward ("+why+"): every rule that treats the map operations as primitives is void")
	}
	if fn := methods["UnmarshalJSON"]; fn != nil {
		wrapperDecode(c, id, fn)
	} else {
		c.Undecided(id, "map-wrapper:UnmarshalJSON", 0, "wrapper.ConcurrentSwissMap.UnmarshalJSON not found")
	}
	// Range
	if fn := methods["Range"]; fn == nil || len(fn.AnonFuncs) != 1 {
		c.Undecided(id, "map-wrapper:Range", 0, "wrapper.ConcurrentSwissMap.Range with one callback closure not found")
	} else {
		c.see(fn)
		cb := fn.AnonFuncs[0]
		calls := innerCall(fn)
		ok := len(fn.Blocks) == 1 && len(calls) == 1 && isWrappedMapMethod(calls[0].Common(), "Range") &&
			w.Origin(calls[0].Common().Args[0]) == inner && closureOf(calls[0].Common().Args[1]) == cb
		why := "outer call"
		if ok {
			cbCalls := innerCall(cb)
			ok = len(cb.Blocks) == 1 && len(cbCalls) == 1 && len(cb.Params) == 2
			why = "callback shape"
			if ok {
				cc := cbCalls[0].Common()
				// calls the user's function (the captured parameter) with the callback's own key and value, once
				fv, isFV := unwrapLoad(cc.Value).(*ssa.FreeVar)
				okF := isFV
				if okF {
					if b, has := bindingOf(fv); !has || rootParamOf(b) != fn.Params[1] {
						okF = false
					}
				}
				okArgs := len(cc.Args) == 2 && cc.Args[0] == ssa.Value(cb.Params[0]) && cc.Args[1] == ssa.Value(cb.Params[1])
				okRet := false
				allInstrs(cb, func(in ssa.Instruction) {
					if r, isR := in.(*ssa.Return); isR && len(r.Results) == 1 {
						if u, isU := r.Results[0].(*ssa.UnOp); isU && u.Op == token.NOT && u.X == ssa.Value(cbCalls[0]) {
							okRet = true
						}
					}
				})
				ok = okF && okArgs && okRet
				why = fmt.Sprintf("calls the given function: %v, with its own key/value: %v, returns the negation of its answer: %v", okF, okArgs, okRet)
			}
		}
		c.Check(ok, id, "map-wrapper:Range", fn.Pos(), "Range visits the wrapped map, calling f(key, value) once per entry and stopping exactly when f returns false", "wrapper.ConcurrentSwissMap.Range does not iterate faithfully ("+why+"): loops over positions, dirty marks and observers would skip entries or stop early")
	}
}

// wrapperDecode (part of wrapperFaithful): UnmarshalJSON installs entries only when the whole input decoded — every
// Store is reached only under err == nil of the decoder, whose error is returned. A half-decoded document (right
// snapshot, sequence number still zero) must never become a checkpoint.
func wrapperDecode(c *Ctx, id string, fn *ssa.Function) {
	c.see(fn)
	var dec *ssa.Call
	allInstrs(fn, func(in ssa.Instruction) {
		if call, ok := in.(*ssa.Call); ok && strings.HasSuffix(calleeName(call.Common()), "Unmarshal") && hasErrorResult(call.Common()) {
			dec = call
		}
	})
	if dec == nil {
		c.Undecided(id, "map-wrapper:UnmarshalJSON", fn.Pos(), "no decoder call found")
		return
	}
	okStores, n := true, 0
	allInstrs(fn, func(in ssa.Instruction) {
		cc := callOf(in)
		if cc == nil || cc.StaticCallee() == nil {
			return
		}
		name := cc.StaticCallee().Name()
		if i := strings.Index(name, "["); i > 0 {
			name = name[:i]
		}
		if name != "Store" && name != "StoreIf" {
			return
		}
		n++
		if !errGuard(in.Block(), true, func(v ssa.Value) bool { return v == ssa.Value(dec) || isExtractOf(v, dec) }) {
			okStores = false
		}
	})
	ers := errResults(dec)
	returned := len(ers) > 0 && reported(errorSinks(ers[0]))
	c.Check(okStores && n >= 1 && returned, id, "map-wrapper:UnmarshalJSON", fn.Pos(), "entries are installed only when the whole input decoded; the decoder's error is returned", fmt.Sprintf("UnmarshalJSON installs entries although the input did not decode completely (stores guarded by err==nil: %v, %d stores, error returned: %v): a torn checkpoint file yields half-decoded documents", okStores, n, returned))
}

func isExtractOf(v ssa.Value, call *ssa.Call) bool {
	ex, ok := v.(*ssa.Extract)
	return ok && ex.Tuple == ssa.Value(call)
}

// unwrapLoad strips a load (*x) and conversions.
func unwrapLoad(v ssa.Value) ssa.Value {
	v = unwrap(v)
	if u, ok := v.(*ssa.UnOp); ok && u.Op == token.MUL {
		return unwrap(u.X)
	}
	return v
}

// rootParamOf: the parameter a closure binding stands for (directly, or through the single-store cell it was spilled to).
func rootParamOf(v ssa.Value) *ssa.Parameter {
	v = unwrap(v)
	if p, ok := v.(*ssa.Parameter); ok {
		return p
	}
	if a, ok := v.(*ssa.Alloc); ok {
		if s, ok := singleStore(a); ok {
			if p, ok := unwrap(s).(*ssa.Parameter); ok {
				return p
			}
		}
	}
	return nil
}

// isWrappedMapMethod: cc is a static call of method `name` of the wrapped concurrent map (whatever its instantiation).
func isWrappedMapMethod(cc *ssa.CallCommon, name string) bool {
	f := cc.StaticCallee()
	if f == nil || f.Signature.Recv() == nil {
		return false
	}
	base := f.Name()
	if i := strings.Index(base, "["); i > 0 {
		base = base[:i]
	}
	return base == name && strings.Contains(calleeName(cc), "concurrent-swiss-map.CsMap")
}

// rangeComplete: every loop over one of the module's concurrent maps runs to completion — the callback handed to
// wrapper.Range returns the constant true on every path. The one legitimate early exit is frozen with its reason:
// markAbsentInstances stops at the first error, which it then returns to a caller that panics on it.
// A loop that stops early dumps only part of the positions / dirty marks, closes only some observers, reports only some
// vBuckets, pings only some followers.
func rangeComplete(scope ...string) func(c *Ctx, id string) {
	return func(c *Ctx, id string) { rangeCompleteIn(c, id, scope) }
}

func rangeCompleteIn(c *Ctx, id string, scope []string) {
	w := c.W
	n := 0
	// in scope: the named functions and the same-package helpers they call (a loop may have been moved into one)
	scoped := map[*ssa.Function]bool{}
	for _, fn := range w.ModFuncs {
		for _, sc := range scope {
			if strings.Contains(fname(rootFn(fn)), sc) {
				scoped[rootFn(fn)] = true
			}
		}
	}
	for r := range scoped {
		for g := range w.syncCallees(r, 2, false) {
			if pkgOfFn(g) == pkgOfFn(r) {
				scoped[g] = true
			}
		}
	}
	for _, fn := range w.ModFuncs {
		if fn.Pkg != nil && strings.HasSuffix(fn.Pkg.Pkg.Path(), "/wrapper") {
			continue
		}
		if fn.Signature.Recv() != nil && recvTypeName(fn.Signature.Recv().Type()) == "ConcurrentSwissMap" {
			continue
		}
		if !scoped[rootFn(fn)] {
			continue
		}
		allInstrs(fn, func(in ssa.Instruction) {
			cc := callOf(in)
			if cc == nil {
				return
			}
			m, _ := csmapMethod(cc)
			if m != "Range" || len(cc.Args) != 2 {
				return
			}
			n++
			cb := closureOf(cc.Args[1])
			if cb == nil {
				cb = w.boundMethodOf(cc.Args[1])
			}
			key := fmt.Sprintf("range-complete@%s", fname(fn))
			if cb == nil {
				c.Undecided(id, key, in.Pos(), "cannot resolve the callback of Range: %s", w.Origin(cc.Args[1]))
				return
			}
			c.see(cb)
			var early []string
			allInstrs(cb, func(x ssa.Instruction) {
				if r, ok := x.(*ssa.Return); ok && len(r.Results) == 1 {
					if o := w.Origin(r.Results[0]); o != "const(true)" {
						// the frozen exception: stop on an error that the enclosing function reports
						if o == "const(false)" && strings.HasSuffix(fname(rootFn(fn)), ".markAbsentInstances") && errNonNilGuard(x.Block()) {
							return
						}
						early = append(early, "returns "+o+" @"+w.pos(x.Pos()))
					}
				}
			})
			c.Check(len(early) == 0, id, key, in.Pos(), "the loop visits every entry (callback returns true on every path)", "a loop over a concurrent map can stop before it has seen every entry: "+strings.Join(early, ", "))
		})
	}
	if n < 2 {
		c.Undecided(id, "range-complete", 0, "only %d Range loops found in %v", n, scope)
	}
}

// errNonNilGuard: the block runs only when some error value is known to be non-nil.
func errNonNilGuard(b *ssa.BasicBlock) bool {
	return errGuard(b, false, func(v ssa.Value) bool { return types.Implements(v.Type(), errorIface()) })
}
