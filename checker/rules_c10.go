package main

import (
	"fmt"
	"go/constant"
	"go/token"
	"go/types"
	"sort"
	"strings"

	"golang.org/x/tools/go/ssa"
)

func init() {
	register(&Property{
		ID: "C10",
		Explanation: "Decides the PERIPHERY of consistent numbering — necessary structural conditions, not the distributed behaviour: (R1) every publication of a membership is dominated by newInfo.IsChanged(info in effect)=true, and IsChanged ⇔ other==nil ∨ a number differs (exhaustive); " +
			"(R2) every publisher passes exactly one *membership.Model on the one topic constant and every subscriber is a func(*membership.Model) on the same constant (reflection contract of EventBus); " +
			"(R3) numbering formulas: Couchbase membership = (index of self + 1, len(instances)) of one slice, panic when self is absent; leader = (1, len(followers)+1), follower at index i of the join-ordered list = (i+2, same total) addressed by the name at index i; static / stateful-set = config values / ordinal+1; " +
			"(R4) both sort comparators order by join time ascending (exhaustive); (R5) the Couchbase membership records the view it acted on only after the change decision in its rebalance step, and a CAS conflict restarts the whole monitor round. " +
			"(R7) leader-assigned variant: registration replaces a follower's entry unconditionally, the heart-beat removes exactly the followers whose ping failed, and a ping/rebalance/register call fails exactly when all of its attempts failed (Retry evaluated exhaustively). " +
			"NOT decided: agreement between independently running members, CAS retry convergence, bounded admission/removal, distinctness under concurrent joins (distributed, timed behaviour).",
		Assumptions: []string{"EventBus calls subscribers with the published arguments via reflection", "members observe the same index document"},
		Rules: []RuleDef{
			{ID: "C10.R35", Text: "a member acts on the newest numbering it was told: every bus-fed membership records each announcement first and unconditionally, and GetInfo only reads — a waiter woken late cannot write an older numbering over a newer one (same rule as C11.R12)", Run: latestInfo},
			{ID: "C10.R34", Text: "members with the same group configuration judge liveness alike: no package-level state is written after initialisation — heart-beat settings are per client, not shared between the consumers of one process (same rule as C02.R28)", Run: globalsFrozen},
			{ID: "C10.R36", Text: "every announcement keeps reaching the membership listener: no topic of the event bus has two once-only subscriptions (the bus removes the second by a stale position and drops the listener subscribed after them)", Run: onceSubscriptionsAlone},
			{ID: "C10.R1", Text: "publish only on change: Bus.Publish(topic, x) is dominated by x.IsChanged(current)=true; IsChanged ⇔ other==nil ∨ MemberNumber≠ ∨ TotalMembers≠", Run: c10r1},
			{ID: "C10.R2", Text: "bus contract: one topic constant; every publish passes one *membership.Model; every subscriber is func(*membership.Model)", Run: c10r2},
			{ID: "C10.R3", Text: "numbering formulas of the four mechanisms (self index+1 / len; leader 1, follower i+2 of the join-ordered list, total len+1; config / ordinal+1)", Run: c10r3},
			{ID: "C10.R4", Text: "join order: both sort comparators return less ⇔ joinTime(i) < joinTime(j)", Run: c10r4},
			{ID: "C10.R6", Text: "together with the partition rule: a member takes exactly chunk MemberNumber-1 of TotalMembers chunks (same rule as C09.R2)", Run: c09r2},
			{ID: "C10.R7", Text: "leader-assigned variant, admission and removal: a registration replaces the follower's entry unconditionally (the table is mutated only by Store(name, service) in Add and Delete in Remove); the heart-beat removes exactly the followers whose Ping returned an error; the rpc calls return the retry helper's result, and Retry reports nil ⇔ some attempt succeeded (exhaustive for ≤ 4 attempts)", Run: c10r7},
			{ID: "C10.R8", Text: "every follower is pinged, numbered and listed: every loop over a concurrent map runs to completion: the Range callback returns true on every path (frozen exception: markAbsentInstances stops at the error it returns)", Run: rangeComplete("servicediscovery.", "couchbase.cbMembership)")},
			{ID: "C10.R9", Text: "static numbering is what was configured: defaulting never rewrites a configured member number or group size (every default store is guarded by the zero-test of its own field; the environment overrides come last) (same rule as C17.R1)", Run: c17r1},
			{ID: "C10.R11", Text: "a member is who it is by name and address: Identity.Equal ⇔ same IP ∧ same name (exhaustive), independent of the join time that changes when a container restarts in place", Run: identityEqual},
			{ID: "C10.R12", Text: "Couchbase membership, life cycle: the constructor registers, then starts heart-beat and monitor; each starter spawns a loop that calls its worker on every iteration", Run: cbmLifecycle},
			{ID: "C10.R13", Text: "Couchbase membership, change test: isClusterChanged ⇔ the lists differ in length or in some position's id (0..2 instances each, exhaustive over id equalities)", Run: cbmClusterChanged},
			{ID: "C10.R14", Text: "Couchbase membership, one monitor round: a live instance is recorded at its own index, a missing document is skipped, any other read/parse error stops the client, Done exactly once; then changed → updateIndex(list, index CAS) → ok: rebalance(same list) | CAS mismatch: monitor again", Run: cbmMonitorRound},
			{ID: "C10.R15", Text: "Couchbase membership, registration: index entry → update | update(key not found) → create → update; every remaining error stops the client", Run: cbmRegister},
			{ID: "C10.R16", Text: "the numbering a member works with: GetInfo returns the recorded membership when there is one and otherwise waits for the first announcement (exhaustive, all bus-fed implementations)", Run: infoGetters},
			{ID: "C10.R17", Text: "a member gets its first numbering: every bus-fed membership records each announcement and hands it over to a waiting GetInfo ⇔ nothing was recorded before (exhaustive)", Run: firstInfoHandOver},
			{ID: "C10.R18", Text: "Couchbase membership, what a round works on: index parsed only if read, instances read only if parsed; the live list is the non-nil recorded instances; updateIndex writes under the given CAS and returns the store's error; the kept join time is the one written to the index; the readers are awaited (Add per spawn, Done once, Wait)", Run: func(c *Ctx, id string) {
				cbmRoundInputs(c, id)
				workersSignal("couchbase.cbMembership).monitor")(c, id)
			}},
			{ID: "C10.R19", Text: "Couchbase membership, the instance document is written by the ladder update | update(key not found) → create → create(ok) → update, each step under exactly its condition, the last step's error deciding", Run: registerLadder},
			{ID: "C10.R20", Text: "leader-assigned numbering, one monitor round (0..2 followers, exhaustive): a member that is not the leader assigns nothing; the leader announces (1, n+1) for itself and tells the follower at position i of the join-ordered list (i+2, n+1) through that follower's own client, each exactly once", Run: leaderMonitorRound},
			{ID: "C10.R21", Text: "leader-assigned numbering, one heart-beat round (0..2 followers, exhaustive over the outcomes of every ping/reconnect/register): a leader that answers is left alone, a silent one is re-contacted and forgotten (closed, cleared) only when that fails too; every follower is pinged once and removed ⇔ its ping failed", Run: leaderHeartbeatRound},
			{ID: "C10.R22", Text: "leader-assigned numbering, role changes: elected ⇒ leader flag up and old leader forgotten; resigned ⇒ flag down and followers dropped; following ⇒ step down, drop followers and old leader, connect to the new leader with the configured port and both identities, record it and register (failure fatal) — an unreachable leader is not recorded; the flag setters, AssignLeader/RemoveLeader and Remove/RemoveAll do exactly that (exhaustive)", Run: leaderRoles},
			{ID: "C10.R23", Text: "leader-assigned numbering, the RPC table: every client call names a constant Handler.M that *Handler has, with exactly the payload and reply types sent; Rebalance carries the caller's member number and group size, Register this member's identity; the handler announces exactly the payload's numbers and registers a follower ⇔ the connection back to it succeeded, with its own name and join time", Run: rpcAgreement},
			{ID: "C10.R24", Text: "leader-assigned numbering, the RPC client: handed out only when connected ((client, nil) ⇔ connect succeeded), a dial keeps the connection and marks the client connected ⇔ it succeeded, Close closes a connected client once and is a no-op otherwise (exhaustive)", Run: rpcClientLifecycle},
			{ID: "C10.R25", Text: "Couchbase membership, the numbering step evaluated whole (1..3 live instances, every equality pattern of their ids with this member's id): own number = position of the first instance carrying this member's id, group size = length of the list; announced ⇔ different from the numbering in effect; the list is recorded; a list without this member stops the client", Run: cbmNumbering},
			{ID: "C10.R26", Text: "a peer identity that cannot be read is fatal on the branch on which reading it failed (members never number themselves against a half-read identity)", Run: identityParse},
			{ID: "C10.R27", Text: "who counts as live: the comparison isAlive returns, with every operand moved to one side, reads interval + tolerance + lastHeartbeat − now > 0 (linear form of the SSA expression: indifferent to operand order, mirroring and temporaries; decides the sign structure, not the timing)", Run: livenessTest},
			{ID: "C10.R28", Text: "join order is well defined: every join time the library creates is time.Now().UnixNano() and every other store into a ClusterJoinTime field is a copy of one (a coarser reading makes members tie and swap numbers between rounds)", Run: joinTimeResolution},
			{ID: "C10.R29", Text: "announcements are applied in the order they were made: every Publish on the membership topic is a plain synchronous call, never go/defer", Run: publishSynchronous},
			{ID: "C10.R30", Text: "a numbering that differs from the one in effect reaches the stream whenever it is announced: the bus listener calls Stream.Rebalance on every path, also while the stream is closed or re-opening (same rule as C11.R7)", Run: c11r7},
			{ID: "C10.R32", Text: "every notice of the lease reaches the election handler: the elector callbacks evaluated whole — OnStartedLeading → OnBecomeLeader once, OnStoppedLeading → OnResignLeader once, OnNewLeader → OnBecomeFollower(identity of the notice) once ⇔ the holder is not this member, with no memory of earlier notices (a leader restarted in place must be registered with again)", Run: electorCallbacksExact},
			{ID: "C10.R33", Text: "two members never both rewrite the membership index: the update is a compare-and-swap along the whole chain — the monitor round hands on the Cas of the index document it read, the index update passes it for the index key, and the document update copies a given Cas into the mutation it sends", Run: indexCasChain},
			{ID: "C10.R31", Text: "a numbering sent through the API reaches the membership: every route has exactly one handler, a method of the API object, and the application-wide middlewares are the metrics and pprof ones", Run: apiRoutesExact},
			{ID: "C10.R5", Text: "Couchbase membership: lastActiveInstances is written only in the numbering step after the publish decision; on CAS mismatch the round is restarted (monitor re-entered), nothing is rewritten", Run: c10r5},
		},
	})
}

const topicConst = `const("membershipChanged")`

// publishSites: invokes of EventBus.Bus.Publish.
func publishSites(w *World) []callSite {
	var out []callSite
	for _, fn := range w.ModFuncs {
		allInstrs(fn, func(in ssa.Instruction) {
			if ci, ok := in.(ssa.CallInstruction); ok {
				cc := ci.Common()
				if cc.IsInvoke() && cc.Method.Name() == "Publish" && strings.HasSuffix(shortType(cc.Value.Type()), "EventBus.Bus") {
					out = append(out, callSite{fn, ci})
				}
			}
		})
	}
	return out
}

// variadicArgs returns the values packed into a variadic argument slice.
func variadicArgs(v ssa.Value) []ssa.Value {
	sl, ok := v.(*ssa.Slice)
	if !ok {
		return nil
	}
	al, ok := sl.X.(*ssa.Alloc)
	if !ok {
		return nil
	}
	var out []ssa.Value
	for _, r := range *al.Referrers() {
		if ia, ok := r.(*ssa.IndexAddr); ok {
			for _, rr := range *ia.Referrers() {
				if st, ok := rr.(*ssa.Store); ok {
					out = append(out, st.Val)
				}
			}
		}
	}
	return out
}

func c10r1(c *Ctx, id string) {
	w := c.W
	ic := w.Method("membership", "Model", "IsChanged")
	c.need(ic != nil, id, "membership.(*Model).IsChanged")
	sites := publishSites(w)
	for _, s := range sites {
		c.see(s.Fn)
		c.CallSites++
		cc := s.Call.Common()
		args := variadicArgs(cc.Args[1])
		construct := "publish@" + fname(s.Fn)
		if len(args) != 1 {
			c.Fail(id, construct, s.Call.Pos(), "publish with %d arguments", len(args))
			continue
		}
		x := unwrap(args[0])
		ok := guardedBy(s.Call.Block(), true, func(v ssa.Value) bool {
			call, isCall := v.(*ssa.Call)
			return isCall && call.Common().StaticCallee() == ic && call.Common().Args[0] == x
		})
		// the value compared against is the one in effect: a field of the receiver that is (re)assigned the published value or by the bus listener
		var cmp string
		allInstrs(s.Fn, func(in ssa.Instruction) {
			if call, isCall := in.(*ssa.Call); isCall && call.Common().StaticCallee() == ic && call.Common().Args[0] == x {
				cmp = w.Origin(call.Common().Args[1])
			}
		})
		updated := false
		if ok && strings.HasPrefix(cmp, "recv.") {
			// the value compared against must track what was announced: assigned the published value before the publish,
			// or maintained by a listener of the same type subscribed to the topic
			fieldName := strings.TrimPrefix(cmp, "recv.")
			allInstrs(s.Fn, func(in ssa.Instruction) {
				if st, isSt := in.(*ssa.Store); isSt && w.Origin(st.Addr) == "&recv."+fieldName && unwrap(st.Val) == x && dominatesInstr(st, s.Call) {
					updated = true
					// remembered ⇒ announced: once the value is recorded as the one in effect no path leaves the function
					// without the publish (a validation that refuses it after the record makes the next repetition of
					// the membership still in effect look like a change)
					if returnsAvoiding(st, s.Call) {
						c.Fail(id, "remembered-then-announced@"+fname(s.Fn), st.Pos(), "%s is assigned the new membership and the function can then return without announcing it: the record no longer is the membership in effect, and the next repetition of the one in effect is announced as a change", cmp)
					} else {
						c.OK(id, "remembered-then-announced@"+fname(s.Fn), st.Pos(), "every path from the record of the new membership to a return passes the publish")
					}
				}
			})
			if !updated && s.Fn.Signature.Recv() != nil {
				rt := recvTypeName(s.Fn.Signature.Recv().Type())
				for _, g := range w.ModFuncs {
					if g.Signature.Recv() == nil || recvTypeName(g.Signature.Recv().Type()) != rt || len(g.Params) != 2 {
						continue
					}
					allInstrs(g, func(in ssa.Instruction) {
						if st, isSt := in.(*ssa.Store); isSt && w.Origin(st.Addr) == "&recv."+fieldName && w.Origin(st.Val) == "param("+g.Params[1].Name()+")" && len(w.usesAsValue(g)) > 0 {
							updated = true
						}
					})
				}
			}
		}
		// nobody else rewrites the membership in effect: besides the publishing branch (and a bus listener recording what
		// was announced to it) the field is never assigned — not seeded from the configuration, not reset to nil —
		// otherwise the first announcement equal to the seed is swallowed, or a repetition is announced again
		if ok && strings.HasPrefix(cmp, "recv.") && !strings.Contains(strings.TrimPrefix(cmp, "recv."), ".") && s.Fn.Signature.Recv() != nil {
			var fv *types.Var
			allInstrs(s.Fn, func(in ssa.Instruction) {
				if call, isCall := in.(*ssa.Call); isCall && call.Common().StaticCallee() == ic && call.Common().Args[0] == x {
					fv = loadedField(unwrap(call.Common().Args[1]))
				}
			})
			if fv != nil {
				var other []string
				for _, fs := range w.fieldStores(fv) {
					if _, lit := fs.Store.Addr.(*ssa.FieldAddr).X.(*ssa.Alloc); lit && isNilConst(fs.Store.Val) {
						continue
					}
					switch {
					case fs.Fn == s.Fn && unwrap(fs.Store.Val) == x:
					case len(fs.Fn.Params) == 2 && fs.Fn.Signature.Recv() != nil && w.Origin(fs.Store.Val) == "param("+fs.Fn.Params[1].Name()+")" && len(w.usesAsValue(fs.Fn)) > 0:
					default:
						other = append(other, fname(fs.Fn)+" ← "+w.Origin(fs.Store.Val)+" @"+w.pos(fs.Store.Pos()))
					}
				}
				sort.Strings(other)
				c.Check(len(other) == 0, id, "in-effect-writers@"+fname(s.Fn), s.Call.Pos(), "the membership in effect ("+cmp+") is assigned only the value being announced (or recorded by the bus listener)", "the membership in effect ("+cmp+") is also assigned elsewhere: "+strings.Join(other, "; ")+" — an announcement equal to that value is swallowed, or a repeated membership is announced again")
			}
		}
		if ok && strings.HasPrefix(cmp, "recv.") && !updated {
			c.Fail(id, construct, s.Call.Pos(), "the membership compared against (%s) is never updated with what was announced: every repetition of the same membership is announced again and interrupts the stream", cmp)
		} else if ok && strings.HasPrefix(cmp, "recv.") {
			c.OK(id, construct, s.Call.Pos(), "dominated by IsChanged(%s)=true on the published value; %s tracks the announced value", cmp, cmp)
		} else {
			c.Fail(id, construct, s.Call.Pos(), "membership published without the change test on the published value (compared with %q): a repeated membership would interrupt the stream", cmp)
		}
	}
	if len(sites) < 3 {
		c.Undecided(id, "floor", 0, "only %d publish sites found (3 confirmed by hand)", len(sites))
	}
	s, o := ic.Params[0].Name(), ic.Params[1].Name()
	h := &Harness{Fn: ic, Bools: []string{o + "==nil"}, Quiet: quietLog,
		Groups: []Group{{Atoms: []string{s + ".MemberNumber", o + ".MemberNumber"}, EqOnly: true}, {Atoms: []string{s + ".TotalMembers", o + ".TotalMembers"}, EqOnly: true}}}
	c.oae(id, fname(ic), ic.Pos(), h, func(st *State, out *Outcome) string {
		if out.Panicked {
			return "panics"
		}
		b, ok := out.Ret[0].(avBool)
		want := st.B(o+"==nil") || !st.Eq(s+".MemberNumber", o+".MemberNumber") || !st.Eq(s+".TotalMembers", o+".TotalMembers")
		if !ok || b.b != want {
			return fmt.Sprintf("returns %s, expected %v", avString(out.Ret[0]), want)
		}
		return ""
	}, "other==nil ∨ MemberNumber≠ ∨ TotalMembers≠")
}

func c10r2(c *Ctx, id string) {
	w := c.W
	model := w.NamedType("membership", "Model")
	c.need(model != nil, id, "membership.Model")
	want := types.NewPointer(model)
	for _, s := range publishSites(w) {
		cc := s.Call.Common()
		topic := w.Origin(cc.Args[0])
		args := variadicArgs(cc.Args[1])
		ok := topic == topicConst && len(args) == 1
		if ok {
			if mi, isMI := args[0].(*ssa.MakeInterface); !isMI || !types.Identical(mi.X.Type(), want) {
				ok = false
			}
		}
		c.Check(ok, id, "publish-type@"+fname(s.Fn), s.Call.Pos(), "Publish("+topic+", *membership.Model)", "publish on "+topic+" with argument types that subscribers (func(*membership.Model)) cannot receive")
	}
	n := 0
	for _, fn := range w.ModFuncs {
		allInstrs(fn, func(in ssa.Instruction) {
			cc := callOf(in)
			if cc == nil || !cc.IsInvoke() || !strings.HasSuffix(shortType(cc.Value.Type()), "EventBus.Bus") {
				return
			}
			m := cc.Method.Name()
			if !strings.HasPrefix(m, "Subscribe") && m != "Unsubscribe" {
				return
			}
			n++
			c.see(fn)
			topic := w.Origin(cc.Args[0])
			var ft types.Type
			if mi, ok := cc.Args[1].(*ssa.MakeInterface); ok {
				ft = mi.X.Type()
			}
			sig, _ := ft.(*types.Signature)
			ok := topic == topicConst && sig != nil && sig.Params().Len() == 1 && types.Identical(sig.Params().At(0).Type(), want) && sig.Results().Len() == 0
			c.Check(ok, id, strings.ToLower(m)+"@"+fname(fn), in.Pos(), m+"("+topic+", func(*membership.Model))", fmt.Sprintf("%s(%s, %v): handler type does not match the published argument", m, topic, ft))
		})
	}
	if n < 8 {
		c.Undecided(id, "floor", 0, "only %d subscribe/unsubscribe sites (5 subscribers + their unsubscribes confirmed by hand)", n)
	}
}

func c10r3(c *Ctx, id string) {
	w := c.W
	model := w.NamedType("membership", "Model")
	// Couchbase membership
	rb := w.Method("couchbase", "cbMembership", "rebalance")
	c.need(rb != nil, id, "couchbase.cbMembership.rebalance")
	c.see(rb)
	_ = model
	c10CouchbaseNumbering(c, id, rb)
	// leader-assigned
	sd := w.Method("servicediscovery", "serviceDiscovery", "StartMonitor")
	c.need(sd != nil && len(sd.AnonFuncs) == 1, id, "servicediscovery.StartMonitor loop")
	loop := sd.AnonFuncs[0]
	c.see(loop)
	var setInfo, rebal *ssa.Call
	// the numbering may be done in the loop itself or in a method of the same type the loop calls with the list and the
	// total (`s.rebalanceFollowers(names, totalMembers)`): terms of that helper are read with its parameters replaced by
	// what the loop passes
	home := loop
	var homeCall *ssa.Call
	scan := func(f *ssa.Function) {
		allInstrs(f, func(in ssa.Instruction) {
			call, ok := in.(*ssa.Call)
			if !ok {
				return
			}
			if isStaticCall(call.Common(), "/servicediscovery", "serviceDiscovery", "SetInfo") && f == loop {
				setInfo = call
			}
			if call.Common().IsInvoke() && call.Common().Method.Name() == "Rebalance" {
				rebal = call
				home = f
			}
		})
	}
	scan(loop)
	if rebal == nil {
		allInstrs(loop, func(in ssa.Instruction) {
			call, ok := in.(*ssa.Call)
			if !ok || rebal != nil {
				return
			}
			if h := call.Common().StaticCallee(); h != nil && h.Blocks != nil && w.inModule(h) && h.Signature.Recv() != nil && recvTypeName(h.Signature.Recv().Type()) == "serviceDiscovery" {
				scan(h)
				if rebal != nil {
					homeCall = call
					c.see(h)
				}
			}
		})
	}
	inLoopTerms := func(v ssa.Value) string {
		o := w.Origin(v)
		if homeCall == nil {
			return o
		}
		for i, p := range home.Params {
			if i < len(homeCall.Common().Args) && i > 0 {
				o = strings.ReplaceAll(o, "param("+p.Name()+")", w.Origin(homeCall.Common().Args[i]))
			}
		}
		return o
	}
	if setInfo == nil || rebal == nil {
		c.Undecided(id, "leader-numbering", loop.Pos(), "SetInfo / Client.Rebalance calls not found in the monitor loop")
	} else {
		names := "call((*servicediscovery.serviceDiscovery).GetAll)(recv)"
		total := "(len(" + names + ") + const(1))"
		okLeader := w.Origin(setInfo.Common().Args[1]) == "const(1)" && w.Origin(setInfo.Common().Args[2]) == total
		c.Check(okLeader, id, "leader-numbering", setInfo.Pos(), "leader: SetInfo(1, len(followers)+1)", "leader numbers itself SetInfo("+w.Origin(setInfo.Common().Args[1])+", "+w.Origin(setInfo.Common().Args[2])+")")
		// follower: number = idx + 2 for the follower whose name is names[idx] (same SSA value idx)
		okF, detail := false, ""
		if b, ok := rebal.Common().Args[0].(*ssa.BinOp); ok && b.Op == token.ADD {
			if c2, ok := b.Y.(*ssa.Const); ok && c2.Value != nil {
				if n, _ := constant.Int64Val(c2.Value); n == 2 {
					idx := b.X
					if s0, ok := inductionStart(idx); ok && s0 == 0 {
						// the client addressed: services.Load(names[idx])
						ro := w.Origin(rebal.Common().Value)
						po := &prov{w: w}
						io := po.origin(idx, 0)
						_ = io
						// structural identity: find the Load call feeding the receiver and its key's index value
						var keyIdx ssa.Value
						allInstrs(home, func(in ssa.Instruction) {
							if cc := callOf(in); cc != nil {
								if m, _ := csmapMethod(cc); m == "Load" {
									if ld, ok := cc.Args[1].(*ssa.UnOp); ok {
										if ia, ok := ld.X.(*ssa.IndexAddr); ok && inLoopTerms(ia.X) == names {
											keyIdx = ia.Index
										}
									}
								}
							}
						})
						okF = keyIdx == idx && strings.Contains(ro, ".Client")
						detail = "follower at index i of GetAll() gets i+2"
					}
				}
			}
		}
		okT := inLoopTerms(rebal.Common().Args[1]) == total
		c.Check(okF && okT, id, "follower-numbering", rebal.Pos(), detail+", total "+total, "follower numbering is not (index in the join-ordered list + 2, len+1) addressed to the follower at that index: number "+w.Origin(rebal.Common().Args[0])+", total "+w.Origin(rebal.Common().Args[1]))
	}
	// static and stateful set
	if fn := w.Func("membership", "NewStaticMembership"); fn != nil {
		c.see(fn)
		for _, a := range allocsOf(fn, model) {
			tab, _ := allocTable(a)
			p := "param(" + fn.Params[0].Name() + ").Dcp.Group.Membership."
			ok := w.Origin(tab["MemberNumber"]) == p+"MemberNumber" && w.Origin(tab["TotalMembers"]) == p+"TotalMembers"
			c.Check(ok, id, "static-numbering", a.Pos(), "copied from the like-named config fields", "static membership: "+tableStr(w, tab))
		}
	} else {
		c.Undecided(id, "static-numbering", 0, "membership.NewStaticMembership not found")
	}
	if fn := w.Func("kubernetes", "NewStatefulSetMembership"); fn != nil {
		c.see(fn)
		for _, a := range allocsOf(fn, model) {
			tab, _ := allocTable(a)
			mn := w.Origin(tab["MemberNumber"])
			ok := mn == "(call(kubernetes.getPodOrdinalFromHostname)()#0 + const(1))" && w.Origin(tab["TotalMembers"]) == "param("+fn.Params[0].Name()+").Dcp.Group.Membership.TotalMembers"
			c.Check(ok, id, "statefulset-numbering", a.Pos(), "MemberNumber ← pod ordinal + 1, TotalMembers ← config", "stateful-set membership: "+tableStr(w, tab))
		}
	} else {
		c.Undecided(id, "statefulset-numbering", 0, "kubernetes.NewStatefulSetMembership not found")
	}
	// api
	for _, fn := range w.ModFuncs {
		if fname(fn) == "(*api.api).info" {
			c.see(fn)
			for _, a := range allocsOf(fn, model) {
				tab, _ := allocTable(a)
				ok := strings.HasSuffix(w.Origin(tab["MemberNumber"]), ".MemberNumber") && strings.HasSuffix(w.Origin(tab["TotalMembers"]), ".TotalMembers")
				c.Check(ok, id, "api-numbering", a.Pos(), "request fields copied by name", "api membership: "+tableStr(w, tab))
			}
		}
	}
	// rpc handler
	if fn := w.Method("servicediscovery", "Handler", "Rebalance"); fn != nil {
		c.see(fn)
		allInstrs(fn, func(in ssa.Instruction) {
			if cc := callOf(in); cc != nil && isInvokeOf(cc, "ServiceDiscovery", "SetInfo") {
				p := "param(" + fn.Params[1].Name() + ")."
				ok := w.Origin(cc.Args[0]) == p+"MemberNumber" && w.Origin(cc.Args[1]) == p+"TotalMembers"
				c.Check(ok, id, "rpc-numbering", in.Pos(), "SetInfo(payload.MemberNumber, payload.TotalMembers)", "rpc handler: SetInfo("+w.Origin(cc.Args[0])+", "+w.Origin(cc.Args[1])+")")
			}
		})
	}
	// SetInfo builds the model from its parameters in order
	if fn := w.Method("servicediscovery", "serviceDiscovery", "SetInfo"); fn != nil {
		for _, a := range allocsOf(fn, model) {
			tab, _ := allocTable(a)
			ok := w.Origin(tab["MemberNumber"]) == "param("+fn.Params[1].Name()+")" && w.Origin(tab["TotalMembers"]) == "param("+fn.Params[2].Name()+")"
			c.Check(ok, id, "setinfo-table", a.Pos(), "model ← (memberNumber, totalMembers)", "SetInfo crosses its parameters: "+tableStr(w, tab))
		}
	}
	// rpc client
	if fn := w.Method("servicediscovery", "client", "Rebalance"); fn != nil {
		for _, f := range withAnon(fn) {
			for _, a := range allocsOf(f, w.NamedType("servicediscovery", "Rebalance")) {
				tab, _ := allocTable(a)
				ok := w.Origin(tab["MemberNumber"]) == "param("+fn.Params[1].Name()+")" && w.Origin(tab["TotalMembers"]) == "param("+fn.Params[2].Name()+")"
				c.Check(ok, id, "rpc-client-table", a.Pos(), "payload ← (memberNumber, totalMembers)", "rpc client crosses its parameters: "+tableStr(w, tab))
			}
		}
	}
	c.Floor(id, 6)
}

func c10r4(c *Ctx, id string) {
	w := c.W
	// comparator closures: funcs with two parameters returning bool whose body compares a join time
	n := 0
	// the two numbering paths: the Couchbase monitor round and the leader's GetAll, each with its synchronous helpers
	role := map[*ssa.Function]string{}
	for rname, ent := range map[string]*ssa.Function{"couchbase-monitor": w.Method("couchbase", "cbMembership", "monitor"), "leader-GetAll": w.Method("servicediscovery", "serviceDiscovery", "GetAll")} {
		if ent == nil {
			continue
		}
		for f := range w.syncCallees(ent, 2, false) {
			if f.Pkg == ent.Pkg {
				role[f] = rname
			}
		}
	}
	for _, fn := range w.ModFuncs {
		if fn.Parent() == nil || fn.Signature.Results().Len() != 1 || !isBool(fn.Signature.Results().At(0).Type()) || len(fn.Params) != 2 {
			continue
		}
		par := rootFn(fn)
		if role[par] == "" {
			continue
		}
		// only closures handed to a sort are comparators
		sorted := false
		for _, f := range withAnon(par) {
			allInstrs(f, func(in ssa.Instruction) {
				cc := callOf(in)
				if cc == nil || cc.StaticCallee() == nil {
					return
				}
				callee := cc.StaticCallee()
				if callee.Origin() != nil {
					callee = callee.Origin()
				}
				isSort := strings.Contains(callee.Name(), "Sort") || (callee.Pkg != nil && callee.Pkg.Pkg.Path() == "sort" && strings.HasPrefix(callee.Name(), "Slice"))
				if !isSort {
					return
				}
				for _, a := range cc.Args {
					if closureOf(a) == fn {
						sorted = true
					}
				}
			})
		}
		if !sorted {
			continue
		}
		// result = BinOp of two values
		var ret *ssa.Return
		allInstrs(fn, func(in ssa.Instruction) {
			if r, ok := in.(*ssa.Return); ok {
				ret = r
			}
		})
		if ret == nil {
			continue
		}
		b, ok := ret.Results[0].(*ssa.BinOp)
		if !ok {
			continue
		}
		n++
		c.see(fn)
		x, y := w.Origin(b.X), w.Origin(b.Y)
		pi, pj := "param("+fn.Params[0].Name()+")", "param("+fn.Params[1].Name()+")"
		// normal forms: f(i) < f(j)  or  f(j) > f(i), where f(j) is f(i) with the parameter replaced
		sub := func(s, from, to string) string { return strings.ReplaceAll(s, from, to) }
		okAsc := (b.Op == token.LSS && strings.Contains(x, pi) && sub(x, pi, pj) == y) || (b.Op == token.GTR && strings.Contains(y, pi) && sub(y, pi, pj) == x)
		c.Check(okAsc, id, "comparator@"+role[par], fn.Pos(), "less(i,j) ⇔ "+x+" "+b.Op.String()+" "+y+" (ascending join time)", "sort comparator is not 'join time of i < join time of j': "+x+" "+b.Op.String()+" "+y)
	}
	if n < 2 {
		c.Undecided(id, "floor", 0, "only %d join-order comparators found (2 confirmed by hand)", n)
	}
	// what is compared is the member's own join time: every Service is built with (X.Name, X.ClusterJoinTime) of one
	// identity X, and the constructor keeps both; the Couchbase heart-beat documents and the index carry the join
	// time fixed at registration
	ns := w.Func("servicediscovery", "NewService")
	c.need(ns != nil, id, "servicediscovery.NewService")
	for _, a := range allocsOf(ns, w.NamedType("servicediscovery", "Service")) {
		tab, _ := allocTable(a)
		ok := w.Origin(tab["Name"]) == "param("+ns.Params[1].Name()+")" && w.Origin(tab["ClusterJoinTime"]) == "param("+ns.Params[2].Name()+")"
		c.Check(ok, id, "service-ctor", a.Pos(), "Service keeps (name, join time) as given", "NewService: "+tableStr(w, tab))
	}
	nCalls := 0
	for _, cs := range w.callersOf(ns) {
		nCalls++
		c.see(cs.Fn)
		cc := cs.Call.Common()
		name, jt := w.Origin(cc.Args[1]), w.Origin(cc.Args[2])
		x, ok1 := strings.CutSuffix(name, ".Name")
		ok := ok1 && jt == x+".ClusterJoinTime"
		c.Check(ok, id, "service-jointime@"+fname(cs.Fn), cs.Call.Pos(), "registered with the join time of the same identity ("+x+")", "a member is registered as ("+name+", "+jt+"): the leader would number followers by something else than their join time")
	}
	if nCalls < 2 {
		c.Undecided(id, "service-jointime", 0, "only %d NewService call sites", nCalls)
	}
	hb := w.Method("couchbase", "cbMembership", "heartbeat")
	if hb != nil {
		for _, a := range allocsOf(hb, w.NamedType("couchbase", "Instance")) {
			tab, _ := allocTable(a)
			got := w.Origin(tab["ClusterJoinTime"])
			c.Check(got == "recv.clusterJoinTime", id, "heartbeat-jointime", a.Pos(), "heart-beats repeat the join time fixed at registration", "heart-beat document carries ClusterJoinTime ← "+got)
		}
	}
	jf := w.Field("couchbase", "cbMembership", "clusterJoinTime")
	for _, fs := range w.fieldStores(jf) {
		c.Check(fs.Fn.Name() == "register", id, "jointime-writer@"+fname(fs.Fn), fs.Store.Pos(), "join time fixed once, at registration", "the join time is rewritten in "+fname(fs.Fn))
	}
}

func c10r5(c *Ctx, id string) {
	w := c.W
	f := w.Field("couchbase", "cbMembership", "lastActiveInstances")
	c.need(f != nil, id, "cbMembership.lastActiveInstances")
	rb := w.Method("couchbase", "cbMembership", "rebalance")
	mon := w.Method("couchbase", "cbMembership", "monitor")
	c.need(rb != nil && mon != nil, id, "cbMembership.rebalance / monitor")
	ic := w.Method("membership", "Model", "IsChanged")
	for _, fs := range w.fieldStores(f) {
		c.see(fs.Fn)
		if _, isAlloc := fs.Store.Addr.(*ssa.FieldAddr).X.(*ssa.Alloc); isAlloc {
			continue
		}
		okFn := fs.Fn == rb
		// after the change decision: every IsChanged call of the function precedes (dominates) the store
		okAfter := false
		allInstrs(fs.Fn, func(in ssa.Instruction) {
			if cc := callOf(in); cc != nil && cc.StaticCallee() == ic && dominatesInstr(in, fs.Store) {
				okAfter = true
			}
		})
		okVal := w.Origin(fs.Store.Val) == "param("+rb.Params[1].Name()+")"
		c.Check(okFn && okAfter && okVal, id, "view-writer@"+fname(fs.Fn), fs.Store.Pos(), "recorded in the numbering step after the publish decision, from the list that was numbered",
			fmt.Sprintf("the acted-on view is recorded in %s (numbering step: %v, after the change decision: %v, value %s) — a member that loses the index CAS race would never renumber", fname(fs.Fn), okFn, okAfter, w.Origin(fs.Store.Val)))
	}
	// rebalance is called only after a successful index update
	upd := w.Method("couchbase", "cbMembership", "updateIndex")
	c.need(upd != nil, id, "cbMembership.updateIndex")
	c.see(mon)
	for _, ci := range callsIn(mon, rb) {
		var updCall *ssa.Call
		allInstrs(mon, func(in ssa.Instruction) {
			if call, ok := in.(*ssa.Call); ok && call.Common().StaticCallee() == upd {
				updCall = call
			}
		})
		ok := updCall != nil && errGuard(ci.Block(), true, func(v ssa.Value) bool { return v == ssa.Value(updCall) })
		inst := ""
		if updCall != nil {
			inst = w.Origin(updCall.Common().Args[2])
		}
		ok = ok && inst == w.Origin(ci.Common().Args[1])
		c.Check(ok, id, "number-after-cas", ci.Pos(), "renumbering only after the index update succeeded, with the list that was written", "renumbering is not tied to a successful index update of the same list")
	}
	// CAS mismatch: the only action is a fresh round
	n := 0
	allInstrs(mon, func(in ssa.Instruction) {
		cc := callOf(in)
		if cc == nil {
			return
		}
		inMismatch := guardedBy(in.Block(), true, func(v ssa.Value) bool {
			call, ok := v.(*ssa.Call)
			return ok && isStaticCall(call.Common(), "errors", "", "Is") && strings.Contains(w.Origin(call.Common().Args[1]), "ErrCasMismatch")
		})
		if !inMismatch {
			return
		}
		name := calleeName(cc)
		if strings.Contains(name, "logger.Logger") {
			return
		}
		n++
		c.Check(cc.StaticCallee() == mon, id, "cas-retry:"+name, in.Pos(), "a CAS conflict restarts the monitor round", "on a CAS conflict the member calls "+name+" instead of starting a fresh round (a concurrent join/leave would be overwritten)")
	})
	if n == 0 {
		c.Fail(id, "cas-retry", mon.Pos(), "a CAS conflict on the index document is not retried")
	}
}

// c10CouchbaseNumbering evaluates cbMembership.rebalance for 1..3 live instances over every equality pattern between
// the instances' ids and the member's own id: the announced numbering is (index of the first instance carrying the
// own id) + 1 of len(instances); the process stops when the member is not in the list; nothing is announced otherwise.
func c10CouchbaseNumbering(c *Ctx, id string, rb *ssa.Function) {
	w := c.W
	inst := w.NamedType("couchbase", "Instance")
	model := w.NamedType("membership", "Model")
	isCh := w.Method("membership", "Model", "IsChanged")
	c.need(inst != nil && model != nil && isCh != nil, id, "couchbase.Instance / membership.Model / Model.IsChanged")
	recv, ip := rb.Params[0].Name(), rb.Params[1].Name()
	for k := 1; k <= 3; k++ {
		atoms := []string{"self"}
		for i := 0; i < k; i++ {
			atoms = append(atoms, fmt.Sprintf("inst%d.ID", i))
		}
		kk := k
		announced := map[*State]*cell{}
		h := &Harness{Fn: rb, Groups: []Group{{Atoms: atoms, EqOnly: true}}, Bools: []string{"changed"}, Quiet: quietLog,
			NoInline: map[string]bool{fname(isCh): true},
			Args: map[string]func(st *State) AV{ip: func(st *State) AV {
				var cs []*cell
				for i := 0; i < kk; i++ {
					cs = append(cs, &cell{typ: inst, sym: fmt.Sprintf("inst%d", i)})
				}
				return avSlice{cells: cs}
			}},
			Input: func(st *State, sym string, t types.Type) AV {
				if sym == recv+".id" {
					return avStr{sym: "self"} // the own id, whatever its representation
				}
				return nil
			},
			Oracle: func(st *State, name string, args []AV, res *types.Tuple) ([]AV, bool) {
				switch {
				case name == fname(isCh):
					if p, ok := args[0].(avPtr); ok {
						announced[st] = p.c
					}
					return []AV{avBool{st.B("changed")}}, true
				case name == "errors.New":
					return []AV{avIface{sym: "selfMissing"}}, true
				}
				return nil, false
			},
		}
		c.oae(id, fmt.Sprintf("couchbase-numbering[%d instances]", k), rb.Pos(), h, func(st *State, out *Outcome) string {
			want := 0
			for i := 0; i < kk; i++ {
				if st.Eq(fmt.Sprintf("inst%d.ID", i), "self") {
					want = i + 1
					break
				}
			}
			pubs := 0
			for _, e := range out.Trace {
				if strings.HasSuffix(e.Name, ".Publish") {
					pubs++
				}
			}
			if want == 0 {
				if !out.Panicked {
					return "the member is not among the live instances but the process goes on"
				}
				if pubs != 0 {
					return "a numbering is announced although the member is not among the live instances"
				}
				return ""
			}
			if out.Panicked {
				return "stops although the member is instance " + fmt.Sprint(want)
			}
			m := announced[st]
			if m == nil {
				return "no numbering is compared with the one in effect"
			}
			num, tot := cellFieldVal(m, "MemberNumber"), cellFieldVal(m, "TotalMembers")
			if n, ok := num.(avInt); !ok || n.atom != "" || int(n.conc) != want {
				return fmt.Sprintf("member number %s, expected %d (position of the own id in join order)", avString(num), want)
			}
			if n, ok := tot.(avInt); !ok || n.atom != "" || int(n.conc) != kk {
				return fmt.Sprintf("group size %s, expected %d", avString(tot), kk)
			}
			if (pubs == 1) != st.B("changed") || pubs > 1 {
				return fmt.Sprintf("%d announcements with changed=%v", pubs, st.B("changed"))
			}
			return ""
		}, "MemberNumber = 1 + index of the first live instance carrying the own id; TotalMembers = number of live instances; stops when absent; announced iff it differs from the numbering in effect")
	}
}

// cellFieldVal: the value held by the named field of a struct cell built during an abstract run (nil if unset).
func cellFieldVal(c *cell, field string) AV {
	st, ok := c.typ.Underlying().(*types.Struct)
	if !ok {
		return nil
	}
	for i := 0; i < st.NumFields(); i++ {
		if st.Field(i).Name() == field && i < len(c.fields) && c.fields[i] != nil {
			return c.fields[i].val
		}
	}
	return nil
}

// c10r7: admission and removal in the leader-assigned variant rest on three small mechanisms, each of which looks
// harmless alone: the follower table keeps the latest registration, a failed ping removes the follower, and the rpc
// retry helper reports a failure as a failure.
func c10r7(c *Ctx, id string) {
	w := c.W
	add := w.Method("servicediscovery", "serviceDiscovery", "Add")
	rem := w.Method("servicediscovery", "serviceDiscovery", "Remove")
	hb := w.Method("servicediscovery", "serviceDiscovery", "StartHeartbeat")
	svcField := w.Field("servicediscovery", "serviceDiscovery", "services")
	c.need(add != nil && rem != nil && hb != nil && svcField != nil, id, "serviceDiscovery.Add / Remove / StartHeartbeat / services")
	c.see(add)
	c.see(rem)
	// who mutates the follower table, and how
	var bad []string
	nStore, nDelete := 0, 0
	for _, fn := range w.ModFuncs {
		allInstrs(fn, func(in ssa.Instruction) {
			cc := callOf(in)
			if cc == nil {
				return
			}
			m, recv := csmapMethod(cc)
			if m == "" || recv == nil || !strings.HasSuffix(w.Origin(recv), "."+svcField.Name()) || loadedField(unwrap(recv)) != svcField {
				return
			}
			switch m {
			case "Store":
				nStore++
				k, v := w.Origin(cc.Args[1]), w.Origin(cc.Args[2])
				p := ""
				if len(add.Params) > 1 {
					p = "param(" + add.Params[1].Name() + ")"
				}
				// the decision to store may depend on the argument being there at all, never on what the table holds
				nCond := 0
				for _, g := range guardsOf(in.Block()) {
					if _, isNilTest := isNilCompare(g.Cond, func(x ssa.Value) bool { return len(add.Params) > 1 && x == ssa.Value(add.Params[1]) }); !isNilTest {
						nCond++
					}
				}
				if rootFn(fn) != add || fn != add || k != p+".Name" || v != p || nCond != 0 {
					bad = append(bad, fmt.Sprintf("Store(%s, %s) in %s under %d conditions @%s", k, v, fname(fn), nCond, w.pos(in.Pos())))
				}
			case "Delete":
				nDelete++
				if rootFn(fn) != rem {
					bad = append(bad, "Delete in "+fname(fn)+" @"+w.pos(in.Pos()))
				}
			case "Load", "Range", "Count":
				if rootFn(fn) == add {
					bad = append(bad, m+" in Add (a registration must not depend on the entry it replaces) @"+w.pos(in.Pos()))
				}
			default:
				bad = append(bad, m+" in "+fname(fn)+" @"+w.pos(in.Pos()))
			}
		})
	}
	c.Check(len(bad) == 0 && nStore == 1 && nDelete >= 1, id, "follower-table", add.Pos(), "the follower table is mutated only by an unconditional Store(service.Name, service) in Add and by Delete in Remove",
		fmt.Sprintf("a registration does not simply replace the follower's entry, or the table has another writer (%d Store, %d Delete): %s — a follower that restarts under its old name is not admitted", nStore, nDelete, strings.Join(bad, "; ")))
	// heart-beat: removed ⇔ ping failed
	nPing := 0
	// the heart-beat loop with the helpers it calls synchronously (and their closures)
	hbSet := map[*ssa.Function]bool{}
	for _, f := range withAnon(hb) {
		hbSet[f] = true
		for g := range w.syncCallees(f, 2, false) {
			if g.Pkg == hb.Pkg && g != rem && g != add {
				for _, a := range withAnon(g) {
					hbSet[a] = true
				}
			}
		}
	}
	var hbUnit []*ssa.Function
	for f := range hbSet {
		hbUnit = append(hbUnit, f)
	}
	sort.Slice(hbUnit, func(i, j int) bool { return fname(hbUnit[i]) < fname(hbUnit[j]) })
	for _, f := range hbUnit {
		c.see(f)
		allInstrs(f, func(in ssa.Instruction) {
			call, ok := in.(*ssa.Call)
			if !ok || !call.Common().IsInvoke() || call.Common().Method.Name() != "Ping" {
				return
			}
			if !strings.HasPrefix(w.Origin(call.Common().Value), "param(") {
				return // the leader's own ping
			}
			nPing++
			// every append of the ranged name in this closure is guarded by err != nil of this ping, and one exists
			nApp, okApp := 0, true
			allInstrs(f, func(x ssa.Instruction) {
				cc := callOf(x)
				if cc == nil {
					return
				}
				if b, isB := cc.Value.(*ssa.Builtin); !isB || b.Name() != "append" {
					return
				}
				nApp++
				if !errGuard(x.Block(), false, func(v ssa.Value) bool { return v == ssa.Value(call) }) || len(guardsOf(x.Block())) != 1 {
					okApp = false
				}
			})
			if nApp == 0 && pickedOnFailedPing(w, f, call) {
				// the closure is the predicate of a collecting helper: it answers "remove" ⇔ the ping failed, and the
				// helper appends the key ⇔ the predicate said so
				nApp, okApp = 1, true
			}
			c.Check(nApp == 1 && okApp, id, "remove-on-failed-ping@"+fname(f), call.Pos(), "a follower is queued for removal ⇔ its Ping returned an error", fmt.Sprintf("the removal list is not filled exactly under err≠nil of the follower's ping (%d appends, guarded only by the ping error: %v)", nApp, okApp))
		})
	}
	// every queued name is removed
	nRem := 0
	for _, f := range hbUnit {
		for _, ci := range callsIn(f, rem) {
			nRem++
			_ = ci
		}
	}
	c.Check(nPing == 1 && nRem == 1, id, "heartbeat-removal", hb.Pos(), "the heart-beat pings every follower and removes the queued ones", fmt.Sprintf("%d follower pings, %d Remove calls in the heart-beat loop", nPing, nRem))
	// the rpc calls return Retry's result
	retry := w.Func("helpers", "Retry")
	c.need(retry != nil, id, "helpers.Retry")
	for _, name := range []string{"Ping", "Register", "Rebalance"} {
		m := w.Method("servicediscovery", "client", name)
		if m == nil {
			c.Undecided(id, "rpc-result:"+name, 0, "servicediscovery.client.%s not found", name)
			continue
		}
		c.see(m)
		ok := false
		allInstrs(m, func(in ssa.Instruction) {
			if r, isR := in.(*ssa.Return); isR && len(r.Results) == 1 {
				call, isC := unwrap(r.Results[0]).(*ssa.Call)
				switch {
				case isC && call.Common().StaticCallee() == retry:
					ok = true
				case isC && call.Common().StaticCallee() != nil && w.inModule(call.Common().StaticCallee()) && returnsCallOf(call.Common().StaticCallee(), retry):
					ok = true // through a helper (possibly generic) that itself returns the retry helper's result
				default:
					ok = false
				}
			}
		})
		c.Check(ok, id, "rpc-result:"+name, m.Pos(), "returns the retry helper's result", "client."+name+" does not return the retry helper's result as it is")
	}
	// Retry itself
	calls := map[*State]int{}
	fp, ap := retry.Params[0].Name(), retry.Params[1].Name()
	h := &Harness{Fn: retry, Choices: map[string]int{"attempts": 5, "fails": 6}, Quiet: append([]string{"time.Sleep"}, quietLog...), MaxSteps: 4000,
		Args: map[string]func(st *State) AV{ap: func(st *State) AV { return avInt{conc: int64(st.C("attempts"))} }},
		Oracle: func(st *State, name string, args []AV, res *types.Tuple) ([]AV, bool) {
			if name == fp {
				calls[st]++
				if calls[st] <= st.C("fails") {
					return []AV{avIface{sym: fmt.Sprintf("err%d", calls[st])}}, true
				}
				return []AV{avIface{isNil: true}}, true
			}
			return nil, false
		}}
	c.oae(id, "retry-outcome", retry.Pos(), h, func(st *State, out *Outcome) string {
		a, k := st.C("attempts"), st.C("fails")
		n := len(out.Effects(fp))
		if out.Panicked {
			return "panics"
		}
		want := k + 1
		if a < want {
			want = a
		}
		if n != want {
			return fmt.Sprintf("%d attempts made, expected %d", n, want)
		}
		if len(out.Ret) != 1 {
			return "no result"
		}
		r, isI := out.Ret[0].(avIface)
		if !isI {
			return "result is not an error value: " + avString(out.Ret[0])
		}
		switch {
		case k < a || a == 0:
			if !r.isNil {
				return "an attempt succeeded (or none was asked for) but an error is reported: " + avString(r)
			}
		default:
			if r.isNil {
				return "every attempt failed but nil is reported: a dead follower looks alive"
			}
			if r.sym != fmt.Sprintf("err%d", a) {
				return "reports " + avString(r) + ", expected the last attempt's error"
			}
		}
		return ""
	}, "attempts = min(n, first success); nil ⇔ an attempt succeeded; otherwise the last attempt's error (n = 0..4, 0..5 leading failures)")
}

// pickedOnFailedPing: f is a predicate closure whose every return is `ping's error != nil`, handed to a module helper
// that ranges over a map wrapper and appends the key exactly when the predicate returned true.
func pickedOnFailedPing(w *World, f *ssa.Function, ping *ssa.Call) bool {
	if f.Parent() == nil || f.Signature.Results().Len() != 1 {
		return false
	}
	okRet, n := true, 0
	allInstrs(f, func(in ssa.Instruction) {
		r, isR := in.(*ssa.Return)
		if !isR || len(r.Results) != 1 {
			return
		}
		n++
		eq, isCmp := isNilCompare(r.Results[0], func(v ssa.Value) bool { return v == ssa.Value(ping) })
		if !isCmp || eq {
			okRet = false
		}
	})
	if !okRet || n == 0 {
		return false
	}
	// where the closure goes
	found := false
	allInstrs(f.Parent(), func(in ssa.Instruction) {
		cc := callOf(in)
		if cc == nil || cc.IsInvoke() {
			return
		}
		g := cc.StaticCallee()
		if g == nil || g.Blocks == nil || !w.inModule(g) {
			return
		}
		pi := -1
		for i, a := range cc.Args {
			if closureOf(a) == f {
				pi = i
			}
		}
		if pi < 0 || pi >= len(g.Params) {
			return
		}
		// in g: Range(closure) where the closure appends its key under pick(...) == true, exactly once, always continues
		allInstrs(g, func(x ssa.Instruction) {
			c2 := callOf(x)
			if c2 == nil {
				return
			}
			if m, _ := csmapMethod(c2); m != "Range" || len(c2.Args) != 2 {
				return
			}
			rc := closureOf(c2.Args[1])
			if rc == nil {
				return
			}
			nApp, okApp := 0, true
			allInstrs(rc, func(y ssa.Instruction) {
				c3 := callOf(y)
				if c3 == nil {
					return
				}
				if b, isB := c3.Value.(*ssa.Builtin); !isB || b.Name() != "append" {
					return
				}
				nApp++
				gs := guardsOf(y.Block())
				if len(gs) != 1 || !gs[0].Branch {
					okApp = false
					return
				}
				pc, isCall := gs[0].Cond.(*ssa.Call)
				if !isCall || !strings.Contains(w.Origin(pc.Common().Value), "param("+g.Params[pi].Name()+")") {
					okApp = false
				}
			})
			if nApp == 1 && okApp {
				found = true
			}
		})
	})
	return found
}

// returnsCallOf: every return of g hands back, as it is, the result of a call of target.
func returnsCallOf(g, target *ssa.Function) bool {
	n, ok := 0, true
	allInstrs(g, func(in ssa.Instruction) {
		r, isR := in.(*ssa.Return)
		if !isR || len(r.Results) != 1 {
			return
		}
		n++
		call, isC := unwrap(r.Results[0]).(*ssa.Call)
		if !isC || call.Common().StaticCallee() == nil {
			ok = false
			return
		}
		callee := call.Common().StaticCallee()
		if callee != target && (callee.Origin() == nil || callee.Origin() != target) {
			ok = false
		}
	})
	return ok && n > 0
}

// returnsAvoiding: some path from (after) instruction from reaches a return without passing instruction avoid.
func returnsAvoiding(from, avoid ssa.Instruction) bool {
	seen := map[*ssa.BasicBlock]bool{}
	var scan func(b *ssa.BasicBlock, start int) bool
	scan = func(b *ssa.BasicBlock, start int) bool {
		for _, in := range b.Instrs[start:] {
			if in == avoid {
				return false
			}
			if _, ok := in.(*ssa.Return); ok {
				return true
			}
		}
		for _, sb := range b.Succs {
			if !seen[sb] {
				seen[sb] = true
				if scan(sb, 0) {
					return true
				}
			}
		}
		return false
	}
	b := from.Block()
	for i, in := range b.Instrs {
		if in == from {
			return scan(b, i+1)
		}
	}
	return false
}
